import Haiway.Bridge.Metrics
import Haiway.Props.C10
/-! C10's fold law, stated of the **regenerated `ScopeMetrics.record` itself**: whatever `MiniPy` term satisfies
    `RecordRefines` (the term translated from /repo's `context/metrics.py` is re-checked to on every run), run by the
    interpreter over a whole **history** of records – each call on the `_metrics` dict the previous one left, each record with
    its own merge function object, merges that may raise – stays in lock step with `Metrics.recordAll`; hence the value of
    every type is the fold `C10.fold` / `C10.fold_left` prescribes.

    Identities: a recorded value is `emb k`; its model value is `valOf k = ⟨type(emb k), [k], true⟩` (injective in `k`).
    What the user's merge functions do is a parameter `res f a b` (the identity of the result, or the exception raised). -/
namespace Haiway.Bridge.Metrics
open Haiway.MiniPy Haiway

/-- one record of a history: the identity of the recorded value, the merge function object handed in with it -/
structure Rec where
  v : Nat
  fn : Val

/-- one `record(metric, merge=fn)` call of the term on the dict `d` -/
def callR (p : Stmt) (emb : Nat → Val) (w : W) (d : Val) (r : Rec) : Out × St W :=
  runMethod ext p
    { loc := fun i => if i = 0 then emb r.v else r.fn, fld := fun i => if i = 0 then d else .obj 77,
      world := w }

/-- the `_metrics` dict after a history of records (a raising merge ends that call with the exception; the next record
goes on with the dict as it was left) -/
def runR (p : Stmt) (emb : Nat → Val) (w : W) : Val → List Rec → Val
  | d, [] => d
  | d, r :: rs => runR p emb w ((callR p emb w d r).2.fld 0) rs

/-! ### the identity-level image of the model -/

def putId : Store → Nat → Nat → Store
  | [], ty, k => [(ty, k)]
  | (t, x) :: rest, ty, k => if t = ty then (t, k) :: rest else (t, x) :: putId rest ty k

/-- what one record does to the identity store -/
def stepId (tyOf : Nat → Nat) (res : Val → Nat → Nat → Nat ⊕ Val) (s : Store) (r : Rec) : Store :=
  match get s (tyOf r.v) with
  | none => putId s (tyOf r.v) r.v
  | some cur =>
    match res r.fn cur r.v with
    | .inl k => putId s (tyOf r.v) k
    | .inr _ => s

def valOf (tyOf : Nat → Nat) (k : Nat) : Haiway.Metrics.Val := { ty := tyOf k, data := [k] }

def img (tyOf : Nat → Nat) (s : Store) : Haiway.Metrics.Store := s.map fun p => (p.1, valOf tyOf p.2)

/-- the model-level merge function of a record -/
def mergeOf (tyOf : Nat → Nat) (res : Val → Nat → Nat → Nat ⊕ Val) (isExc : Val → Bool) (r : Rec) : Haiway.Metrics.Merge :=
  fun a b =>
    match a.data, b.data with
    | [x], [y] => (match res r.fn x y with
        | .inl k => .ok (valOf tyOf k)
        | .inr e => .raise (isExc e))
    | _, _ => .ok a

def recOf (tyOf : Nat → Nat) (res : Val → Nat → Nat → Nat ⊕ Val) (isExc : Val → Bool) (r : Rec) : Haiway.Metrics.Val × Haiway.Metrics.Merge :=
  (valOf tyOf r.v, mergeOf tyOf res isExc r)

theorem get_img (tyOf : Nat → Nat) (s : Store) (t : Nat) :
    Haiway.Metrics.get (img tyOf s) t = (get s t).map (valOf tyOf) := by
  induction s with
  | nil => rfl
  | cons x rest ih =>
    unfold img Haiway.Metrics.get get at *
    simp only [List.map_cons, List.find?_cons]
    by_cases h : x.1 = t
    · simp [h]
    · simp only [h, decide_false]
      exact ih

theorem put_img (tyOf : Nat → Nat) (s : Store) (t k : Nat) :
    Haiway.Metrics.put (img tyOf s) t (valOf tyOf k) = img tyOf (putId s t k) := by
  induction s with
  | nil => rfl
  | cons x rest ih =>
    obtain ⟨t', x'⟩ := x
    by_cases h : t' = t
    · simp [img, Haiway.Metrics.put, putId, h]
    · simp only [img, List.map_cons, Haiway.Metrics.put, putId, h, ↓reduceIte] at ih ⊢
      rw [ih]

/-- the model's step on the image is the image of the identity-level step -/
theorem recordStep_img (tyOf : Nat → Nat) (res : Val → Nat → Nat → Nat ⊕ Val) (isExc : Val → Bool) (s : Store) (r : Rec) :
    Haiway.Metrics.recordStep (img tyOf s) (recOf tyOf res isExc r) = img tyOf (stepId tyOf res s r) := by
  unfold Haiway.Metrics.recordStep Haiway.Metrics.record recOf stepId
  simp only [Bool.false_eq_true, ↓reduceIte, get_img]
  have hty : (valOf tyOf r.v).ty = tyOf r.v := rfl
  rw [hty]
  cases hg : get s (tyOf r.v) with
  | none => simp [put_img]
  | some cur =>
    simp only [Option.map_some, mergeOf, valOf]
    cases hr : res r.fn cur r.v with
    | inl k => simpa [valOf] using put_img tyOf s (tyOf r.v) k
    | inr e => simp

theorem recordAll_img (tyOf : Nat → Nat) (res : Val → Nat → Nat → Nat ⊕ Val) (isExc : Val → Bool) (recs : List Rec) (s : Store) :
    Haiway.Metrics.recordAll (img tyOf s) (recs.map (recOf tyOf res isExc)) = img tyOf (recs.foldl (stepId tyOf res) s) := by
  induction recs generalizing s with
  | nil => rfl
  | cons r rest ih =>
    simp only [Haiway.Metrics.recordAll, List.map_cons, List.foldl_cons] at ih ⊢
    rw [recordStep_img, ih]

/-- `d[cls t] = emb k` on the concrete dict is the image of `putId` -/
theorem putVal_dictOf (emb : Nat → Val) (s : Store) (t k : Nat) :
    putVal (s.map fun p => (Val.cls p.1, emb p.2)) t (emb k) = (putId s t k).map fun p => (Val.cls p.1, emb p.2) := by
  induction s with
  | nil => rfl
  | cons x rest ih =>
    obtain ⟨t', x'⟩ := x
    by_cases h : t' = t
    · simp [putVal, assocSet, Val.same, putId, h]
    · have h' : (t' == t) = false := by simpa using h
      simp only [putVal, List.map_cons, assocSet, Val.same, h', putId, h, ↓reduceIte] at ih ⊢
      simp [ih]

/-- the hypotheses about the environment of a history: the scope is open, the merge functions behave as `res` says on the
values of the history (results are recorded values again), raise only exception objects, and no recorded value is `None` -/
structure Env (emb : Nat → Val) (w : W) (tyOf : Nat → Nat) (res : Val → Nat → Nat → Nat ⊕ Val) : Prop where
  open_ : w.completed = false
  fresh : w.merged = []
  types : ∀ k, w.tyOf (emb k) = tyOf k
  merges : ∀ f a b, w.mergeBy f (emb a) (emb b) = (match res f a b with | .inl k => .inl (emb k) | .inr e => .inr e)
  raises : ∀ f a b e, w.mergeBy f a b = .inr e → ∃ c n, e = .exc c n
  objects : ∀ n, emb n ≠ .none

/-- the hypotheses are satisfiable: values are objects typed by their identity mod 3, merging adds identities -/
example : Env (fun k => .obj k)
    { completed := false, tyOf := fun v => match v with | .obj k => k % 3 | _ => 0,
      mergeBy := fun _ a b => match a, b with | .obj x, .obj y => .inl (.obj (x + y)) | _, _ => .inr (.exc cException 0) }
    (fun k => k % 3) (fun _ a b => .inl (a + b)) := by
  constructor
  · rfl
  · rfl
  · intro k; rfl
  · intro f a b; rfl
  · intro f a b e h
    cases a <;> cases b <;> simp at h <;> exact ⟨_, _, h.symm⟩
  · intro n h; cases h

/-- one call of the term = one `stepId` -/
theorem call_refines {p : Stmt} (h : RecordRefines p) {emb : Nat → Val} {w : W} {tyOf : Nat → Nat}
    {res : Val → Nat → Nat → Nat ⊕ Val} (env : Env emb w tyOf res) (s : Store) (r : Rec) :
    (callR p emb w (dictOf emb s) r).2.fld 0 = dictOf emb (stepId tyOf res s r) := by
  have h0 := h emb s r.v r.fn w env.fresh env.raises
  simp only [env.open_, Bool.false_eq_true, ↓reduceIte, env.types] at h0
  unfold callR stepId
  cases hg : get s (tyOf r.v) with
  | none =>
    rw [hg] at h0
    simp only at h0
    rw [h0.2.1, putVal_dictOf]; rfl
  | some cur =>
    rw [hg] at h0
    have h1 := (h0 env.objects).2
    rw [env.merges] at h1
    dsimp only
    cases hr : res r.fn cur r.v with
    | inl k =>
      rw [hr] at h1
      simp only at h1 ⊢
      rw [h1.2, putVal_dictOf]; rfl
    | inr e =>
      rw [hr] at h1
      simp only at h1 ⊢
      exact h1.2

/-- **lock step over a whole history** -/
theorem history_refines {p : Stmt} (h : RecordRefines p) {emb : Nat → Val} {w : W} {tyOf : Nat → Nat}
    {res : Val → Nat → Nat → Nat ⊕ Val} (env : Env emb w tyOf res) (recs : List Rec) (s : Store) :
    runR p emb w (dictOf emb s) recs = dictOf emb (recs.foldl (stepId tyOf res) s) := by
  induction recs generalizing s with
  | nil => rfl
  | cons r rest ih =>
    simp only [runR, List.foldl_cons]
    rw [call_refines h env, ih]

/-- the left fold at identity level: the first record of a type is stored, every later one merged into it -/
def idFold (resT : Val → Nat → Nat → Nat) : List Rec → Option Nat
  | [] => none
  | r0 :: rest => some (rest.foldl (fun acc r => resT r.fn acc r.v) r0.v)

/-- and the fold is not trivial: three records of one type under addition -/
example : idFold (fun _ a b => a + b) [⟨3, .none⟩, ⟨6, .none⟩, ⟨9, .none⟩] = some 18 := rfl

/-- C10's fold law of the term: after any history of records on a dict that is the image of `s`, the dict is the image
of an identity store `s'` whose model image is `Haiway.Metrics.recordAll`'s – so the value of every type `ty` is the fold of
`foldStep ty` over the records in recording order (`C10.fold`), and for a fresh scope and total merge functions the
left fold of the records of that type (`C10.fold_left`). -/
structure HistoryProps (p : Stmt) : Prop where
  lock_step : ∀ (emb : Nat → Val) (w : W) (tyOf : Nat → Nat) (res : Val → Nat → Nat → Nat ⊕ Val) (isExc : Val → Bool),
    Env emb w tyOf res → ∀ (recs : List Rec) (s : Store),
    ∃ s', runR p emb w (dictOf emb s) recs = dictOf emb s' ∧
      img tyOf s' = Haiway.Metrics.recordAll (img tyOf s) (recs.map (recOf tyOf res isExc))
  fold : ∀ (emb : Nat → Val) (w : W) (tyOf : Nat → Nat) (res : Val → Nat → Nat → Nat ⊕ Val) (isExc : Val → Bool),
    Env emb w tyOf res → ∀ (recs : List Rec) (s : Store) (ty : Nat),
    ∃ s', runR p emb w (dictOf emb s) recs = dictOf emb s' ∧
      (get s' ty).map (valOf tyOf) = (recs.map (recOf tyOf res isExc)).foldl (Haiway.Metrics.foldStep ty) ((get s ty).map (valOf tyOf))
  fold_left : ∀ (emb : Nat → Val) (w : W) (tyOf : Nat → Nat) (resT : Val → Nat → Nat → Nat),
    Env emb w tyOf (fun f a b => .inl (resT f a b)) → ∀ (recs : List Rec) (ty : Nat),
    ∃ s', runR p emb w (dictOf emb []) recs = dictOf emb s' ∧
      get s' ty = idFold resT (recs.filter fun r => tyOf r.v = ty)

/-- a total identity-level merge as a model-level function -/
def mergeT (tyOf : Nat → Nat) (resT : Val → Nat → Nat → Nat) (r : Rec) : Haiway.Metrics.Val → Haiway.Metrics.Val → Haiway.Metrics.Val :=
  fun a b =>
    match a.data, b.data with
    | [x], [y] => valOf tyOf (resT r.fn x y)
    | _, _ => a

theorem mergeOf_total (tyOf : Nat → Nat) (resT : Val → Nat → Nat → Nat) (isExc : Val → Bool) (r : Rec) :
    mergeOf tyOf (fun f a b => .inl (resT f a b)) isExc r = Haiway.Metrics.total (mergeT tyOf resT r) := by
  funext a b
  unfold mergeOf Haiway.Metrics.total mergeT
  split <;> rfl

theorem foldl_mergeT (tyOf : Nat → Nat) (resT : Val → Nat → Nat → Nat) (rest : List Rec) (k : Nat) :
    (rest.map fun r => (valOf tyOf r.v, mergeT tyOf resT r)).foldl (fun acc r => r.2 acc r.1) (valOf tyOf k)
      = valOf tyOf (rest.foldl (fun acc r => resT r.fn acc r.v) k) := by
  induction rest generalizing k with
  | nil => rfl
  | cons r rest ih =>
    simp only [List.map_cons, List.foldl_cons]
    have : mergeT tyOf resT r (valOf tyOf k) (valOf tyOf r.v) = valOf tyOf (resT r.fn k r.v) := rfl
    rw [this, ih]

theorem leftFold_img (tyOf : Nat → Nat) (resT : Val → Nat → Nat → Nat) (recs : List Rec) :
    Haiway.Metrics.leftFold (recs.map fun r => (valOf tyOf r.v, mergeT tyOf resT r)) = (idFold resT recs).map (valOf tyOf) := by
  cases recs with
  | nil => rfl
  | cons r0 rest =>
    simp only [List.map_cons, Haiway.Metrics.leftFold, idFold, Option.map_some]
    rw [foldl_mergeT]

theorem valOf_injective (tyOf : Nat → Nat) {a b : Option Nat} (h : a.map (valOf tyOf) = b.map (valOf tyOf)) : a = b := by
  cases a <;> cases b <;> simp_all [valOf]

theorem historyProps_of_refines {p : Stmt} (h : RecordRefines p) : HistoryProps p where
  lock_step := by
    intro emb w tyOf res isExc env recs s
    exact ⟨recs.foldl (stepId tyOf res) s, history_refines h env recs s, (recordAll_img tyOf res isExc recs s).symm⟩
  fold := by
    intro emb w tyOf res isExc env recs s ty
    refine ⟨recs.foldl (stepId tyOf res) s, history_refines h env recs s, ?_⟩
    rw [← get_img, ← get_img, ← recordAll_img tyOf res isExc recs s]
    exact C10.fold _ _ ty
  fold_left := by
    intro emb w tyOf resT env recs ty
    refine ⟨recs.foldl (stepId tyOf _) [], history_refines h env recs [], ?_⟩
    apply valOf_injective tyOf
    rw [← get_img, ← recordAll_img tyOf _ (fun _ => true) recs []]
    have hrecs : recs.map (recOf tyOf (fun f a b => .inl (resT f a b)) (fun _ => true))
        = (recs.map fun r => (valOf tyOf r.v, mergeT tyOf resT r)).map fun r => (r.1, Haiway.Metrics.total r.2) := by
      simp only [List.map_map]
      apply List.map_congr_left
      intro r _
      simp [recOf, mergeOf_total]
    have himg : img tyOf [] = [] := rfl
    rw [hrecs, himg, C10.fold_left, ← leftFold_img]
    congr 1
    simp only [List.filter_map]
    congr 1

end Haiway.Bridge.Metrics
