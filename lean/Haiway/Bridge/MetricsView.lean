import Haiway.Bridge.Metrics
/-! Bridge for `ScopeMetrics.metrics(merge=…)` – the merged view of C10 – regenerated from /repo's `context/metrics.py`.
    The method is a `for` loop over what the nested scopes' views yield; the translator hands over its four pieces
    (`<pre>; for x in <iter>: <body>; <post>` – the shape is checked syntactically) and the whole; the obligations are one
    per piece, each discharged by evaluating the interpreter on the piece, and `view_of_parts` (committed, by induction over
    the received values) assembles them: for **every** own dict, every list of received values, every merge function
    object and whatever it does, the method returns the values of the left fold `viewFold`, calls the merge function
    exactly once per received value with `(current | MISSING, received)`, stops at the first exception it raises, and never
    touches the scope's own dict.  Values are arbitrary Python values here (no embedding needed: nothing is compared).

    Limit of the value semantics: `metrics = self._metrics` without the `copy` would fold into the scope's own dict; the
    interpreter's containers are values, so the translator refuses that aliasing rather than mistranslating it. -/
namespace Haiway.Bridge.Metrics
open Haiway.MiniPy

abbrev VStore := List (Nat × Val)          -- type ↦ value, insertion order

def dictOfV (s : VStore) : Val := .dict (s.map fun p => (.cls p.1, p.2))
def getV (s : VStore) (ty : Nat) : Option Val := (s.find? (·.1 = ty)).map (·.2)
def putV : VStore → Nat → Val → VStore
  | [], ty, v => [(ty, v)]
  | (t, x) :: rest, ty, v => if t = ty then (t, v) :: rest else (t, x) :: putV rest ty v
def valuesV (s : VStore) : Val := .list (s.map (·.2))

theorem assocGet_dictOfV (s : VStore) (t : Nat) :
    assocGet (s.map fun p => (Val.cls p.1, p.2)) (.cls t) = getV s t := by
  induction s with
  | nil => rfl
  | cons x rest ih =>
    by_cases h : x.1 = t
    · simp [assocGet, Val.same, getV, List.find?, h]
    · have h' : (x.1 == t) = false := by simpa using h
      simp only [List.map_cons, assocGet, Val.same, h', getV, List.find?] at ih ⊢
      simp [h, ih]

theorem assocSet_dictOfV (s : VStore) (t : Nat) (v : Val) :
    assocSet (s.map fun p => (Val.cls p.1, p.2)) (.cls t) v = (putV s t v).map fun p => (Val.cls p.1, p.2) := by
  induction s with
  | nil => rfl
  | cons x rest ih =>
    obtain ⟨t', x'⟩ := x
    by_cases h : t' = t
    · simp [assocSet, Val.same, putV, h]
    · have h' : (t' == t) = false := by simpa using h
      simp only [List.map_cons, assocSet, Val.same, h', putV, h, ↓reduceIte] at ih ⊢
      simp [ih]

/-- one received value folded into the accumulated view: `merge(acc.get(type(x), MISSING), x)`; `MISSING` = leave it out -/
def viewStep (tyOf : Val → Nat) (mergeBy : Val → Val → Val → Val ⊕ Val) (f : Val) (acc : VStore) (x : Val) : VStore ⊕ Val :=
  match mergeBy f ((getV acc (tyOf x)).getD missingV) x with
  | .inl v => if v.same missingV then .inl acc else .inl (putV acc (tyOf x) v)
  | .inr e => .inr e

/-- the left fold over the received values; the first exception ends it -/
def viewFold (tyOf : Val → Nat) (mergeBy : Val → Val → Val → Val ⊕ Val) (f : Val) : VStore → List Val → VStore ⊕ Val
  | acc, [] => .inl acc
  | acc, x :: rest =>
    match viewStep tyOf mergeBy f acc x with
    | .inl acc' => viewFold tyOf mergeBy f acc' rest
    | .inr e => .inr e

/-- the calls of the merge function the fold makes -/
def viewCalls (tyOf : Val → Nat) (mergeBy : Val → Val → Val → Val ⊕ Val) (f : Val) : VStore → List Val → List (Val × Val)
  | _, [] => []
  | acc, x :: rest =>
    ((getV acc (tyOf x)).getD missingV, x) ::
      (match viewStep tyOf mergeBy f acc x with
       | .inl acc' => viewCalls tyOf mergeBy f acc' rest
       | .inr _ => [])

/-- the loop state the pieces talk about: the `merge` parameter is local 0, the accumulated dict is local `lm` -/
structure LoopSt (st : St W) (mergeFn : Val) (lm : Nat) (acc own : VStore) : Prop where
  merge : st.loc 0 = mergeFn
  accum : st.loc lm = dictOfV acc
  self_ : st.fld 0 = dictOfV own

/-- `<pre>`: without a merge function the scope's own values are returned at once; otherwise the accumulator starts as a
copy of the scope's own dict – nothing else happens -/
def PreOK (pre : Stmt) (lm : Nat) : Prop :=
  ∀ (own : VStore) (mergeFn : Val) (st : St W), st.loc 0 = mergeFn → st.fld 0 = dictOfV own →
    if mergeFn.truthy then
      (exec ext pre st).1 = .normal ∧ LoopSt (exec ext pre st).2 mergeFn lm own own ∧ (exec ext pre st).2.world = st.world
    else exec ext pre st = (.ret (valuesV own), st)

/-- `<iter>`: exactly the chained views of the nested scopes, nothing touched -/
def IterOK (it : Expr) : Prop :=
  ∀ (st : St W), eval ext it st = .ok (.list st.world.received) st

/-- `<body>` on one received value `x` (local `lx`): the merge function is called once with `(current | MISSING, x)`; its
result replaces the entry of `type(x)` unless it is `MISSING`; an exception propagates as that object -/
def StepOK (body : Stmt) (lx lm : Nat) : Prop :=
  ∀ (own acc : VStore) (mergeFn x : Val) (st : St W), LoopSt st mergeFn lm acc own → st.loc lx = x →
    let w := st.world
    let r := exec ext body st
    r.2.world = { w with merged := w.merged ++ [((getV acc (w.tyOf x)).getD missingV, x)] } ∧
    r.2.fld 0 = dictOfV own ∧ r.2.loc 0 = mergeFn ∧
    (match viewStep w.tyOf w.mergeBy mergeFn acc x with
     | .inl acc' => r.1 = .normal ∧ r.2.loc lm = dictOfV acc'
     | .inr e => r.1 = .exc e)

/-- `<post>`: the values of the accumulated dict, in its order -/
def PostOK (post : Stmt) (lm : Nat) : Prop :=
  ∀ (acc : VStore) (st : St W), st.loc lm = dictOfV acc → exec ext post st = (.ret (valuesV acc), st)

/-- **`ScopeMetrics.metrics(merge=…)`** refines the fold -/
def ViewRefines (p : Stmt) : Prop :=
  ∀ (own : VStore) (mergeFn : Val) (w : W) (loc : Nat → Val), loc 0 = mergeFn → w.merged = [] →
    let r := runMethod ext p ({ loc := loc, fld := fun i => if i = 0 then dictOfV own else .none, world := w } : St W)
    r.2.fld 0 = dictOfV own ∧
    if mergeFn.truthy then
      r.2.world.merged = viewCalls w.tyOf w.mergeBy mergeFn own w.received ∧
      (match viewFold w.tyOf w.mergeBy mergeFn own w.received with
       | .inl acc => r.1 = .ret (valuesV acc)
       | .inr e => r.1 = .exc e)
    else r.1 = .ret (valuesV own) ∧ r.2.world.merged = []

/-- the loop, by induction over the received values -/
theorem loop_refines {body : Stmt} {lx lm : Nat} (hb : StepOK body lx lm) (hne : lx ≠ lm) (hx0 : lx ≠ 0)
    (own : VStore) (mergeFn : Val) :
    ∀ (xs : List Val) (acc : VStore) (st : St W), LoopSt st mergeFn lm acc own →
      ∃ (o : Out) (s1 : St W),
        iterList (fun x s => exec ext body { s with loc := upd s.loc lx x }) xs st = (o, s1) ∧
        s1.world = { st.world with merged := st.world.merged ++ viewCalls st.world.tyOf st.world.mergeBy mergeFn acc xs } ∧
        s1.fld 0 = dictOfV own ∧
        (match viewFold st.world.tyOf st.world.mergeBy mergeFn acc xs with
         | .inl acc' => o = .normal ∧ s1.loc lm = dictOfV acc'
         | .inr e => o = .exc e)
  | [], acc, st, h => by
    refine ⟨.normal, st, rfl, ?_, h.self_, ?_⟩
    · simp [viewCalls]
    · simp only [viewFold]; exact ⟨by trivial, h.accum⟩
  | x :: rest, acc, st, h => by
    have hst : LoopSt ({ st with loc := upd st.loc lx x } : St W) mergeFn lm acc own :=
      ⟨by simp [upd, hx0.symm, h.merge], by simp [upd, hne.symm, h.accum], h.self_⟩
    have h1 := hb own acc mergeFn x { st with loc := upd st.loc lx x } hst (by simp [upd])
    simp only at h1
    obtain ⟨hw, hf, hm, hres⟩ := h1
    generalize hG : exec ext body { st with loc := upd st.loc lx x } = G at hw hf hm hres
    obtain ⟨o1, s2⟩ := G
    simp only at hw hf hm hres
    cases hv : viewStep st.world.tyOf st.world.mergeBy mergeFn acc x with
    | inr e =>
      rw [hv] at hres
      simp only at hres
      subst hres
      refine ⟨.exc e, s2, ?_, ?_, hf, ?_⟩
      · simp only [iterList, hG]
      · rw [hw]; simp [viewCalls, hv]
      · simp only [viewFold, hv]
    | inl acc' =>
      rw [hv] at hres
      simp only at hres
      obtain ⟨ho, hacc⟩ := hres
      subst ho
      have hst' : LoopSt s2 mergeFn lm acc' own := ⟨hm, hacc, hf⟩
      have ht2 : s2.world.tyOf = st.world.tyOf := by rw [hw]
      have hmb2 : s2.world.mergeBy = st.world.mergeBy := by rw [hw]
      obtain ⟨o, s1, hrun, hw1, hf1, hr1⟩ := loop_refines hb hne hx0 own mergeFn rest acc' s2 hst'
      rw [ht2, hmb2] at hw1 hr1
      refine ⟨o, s1, ?_, ?_, hf1, ?_⟩
      · simp only [iterList, hG]; exact hrun
      · rw [hw1, hw]; simp [viewCalls, hv]
      · simp only [viewFold, hv]; exact hr1

/-- the method from its pieces -/
theorem view_of_parts {whole pre body post : Stmt} {it : Expr} {lx lm : Nat}
    (hshape : whole = .seq pre (.seq (.forEach lx it body) post))
    (hpre : PreOK pre lm) (hit : IterOK it) (hb : StepOK body lx lm) (hpost : PostOK post lm)
    (hne : lx ≠ lm) (hx0 : lx ≠ 0) : ViewRefines whole := by
  intro own mergeFn w loc h0 hm
  subst hshape
  have hp := hpre own mergeFn ({ loc := loc, fld := fun i => if i = 0 then dictOfV own else .none, world := w } : St W) h0 (by simp)
  generalize hG : exec ext pre ({ loc := loc, fld := fun i => if i = 0 then dictOfV own else .none, world := w } : St W) = G at hp
  obtain ⟨o0, s0⟩ := G
  by_cases ht : mergeFn.truthy = true
  · simp only [ht, ↓reduceIte] at hp ⊢
    obtain ⟨hn, hl, hw⟩ := hp
    subst hn
    obtain ⟨o, s1, hrun, hw1, hf1, hr1⟩ :=
      loop_refines hb hne hx0 own mergeFn s0.world.received own s0 hl
    have hrcv : s0.world.received = w.received := by rw [hw]
    rw [hw] at hrun hr1 hw1
    simp only at hrun hr1 hw1
    cases hv : viewFold w.tyOf w.mergeBy mergeFn own w.received with
    | inr e =>
      rw [hv] at hr1
      dsimp only at hr1
      subst hr1
      have hwhole : exec ext (.seq pre (.seq (.forEach lx it body) post))
          ({ loc := loc, fld := fun i => if i = 0 then dictOfV own else .none, world := w } : St W) = (.exc e, s1) := by
        simp only [exec, hG, hit s0, hrcv, hrun]
      simp only [runMethod, hwhole]
      refine ⟨hf1, ?_, by trivial⟩
      rw [hw1]; simp [hm]
    | inl acc =>
      rw [hv] at hr1
      dsimp only at hr1
      obtain ⟨ho, hacc⟩ := hr1
      subst ho
      have hwhole : exec ext (.seq pre (.seq (.forEach lx it body) post))
          ({ loc := loc, fld := fun i => if i = 0 then dictOfV own else .none, world := w } : St W) = (.ret (valuesV acc), s1) := by
        simp only [exec, hG, hit s0, hrcv, hrun, hpost acc s1 hacc]
      simp only [runMethod, hwhole]
      refine ⟨hf1, ?_, by trivial⟩
      rw [hw1]; simp [hm]
  · have hf : mergeFn.truthy = false := by simpa using ht
    simp only [hf, Bool.false_eq_true, ↓reduceIte] at hp ⊢
    have hwhole : exec ext (.seq pre (.seq (.forEach lx it body) post))
        ({ loc := loc, fld := fun i => if i = 0 then dictOfV own else .none, world := w } : St W)
        = (o0, s0) := by
      simp only [exec, hG]
      have := congrArg Prod.fst hp
      simp only at this
      subst this
      rfl
    simp only [runMethod, hwhole]
    have h1 := congrArg Prod.fst hp
    have h2 := congrArg Prod.snd hp
    simp only at h1 h2
    subst h1 h2
    simp only
    exact ⟨by simp, by trivial, hm⟩

theorem truthy_bool (b : Bool) : Val.truthy (.bool b) = b := rfl

/-- the same, leaving the truth value of a symbolic value alone -/
macro "view_eval'" : tactic => `(tactic|
  (simp (config := { decide := true }) [exec, exec.execH, eval, builtin, ext, dictOfV, valuesV, upd, Val.same,
     truthy_bool, excClass, assocGet_dictOfV, assocSet_dictOfV, missingV, List.map_map, Function.comp_def, *]))

theorem obj999 : Val.obj 999 = missingV := rfl

/-- for the loop body: values stay symbolic (`Val.same` on them is left to the hypotheses) -/
macro "view_step_eval" : tactic => `(tactic|
  (simp (config := { decide := true }) [exec, exec.execH, eval, builtin, ext, dictOfV, upd, truthy_bool, excClass,
     assocGet_dictOfV, assocSet_dictOfV, obj999, *]))

macro "view_eval" : tactic => `(tactic|
  (simp (config := { decide := true }) [exec, exec.execH, eval, builtin, ext, dictOfV, valuesV, upd, Val.same,
     Val.truthy, excClass, assocGet_dictOfV, assocSet_dictOfV, missingV, *]))

end Haiway.Bridge.Metrics
