import Haiway.Bridge.MetricsView
import Haiway.Bridge.MetricsEndToEnd
/-! C10's merged-view law, stated of the **regenerated `ScopeMetrics.metrics(merge=…)` itself**: whatever `MiniPy` term
    satisfies `ViewRefines` (re-checked on every run for the term translated from /repo's `context/metrics.py`) returns, for
    every own store, every list of values received from the nested scopes and every (non-raising) merge function, the values of
    `Metrics.mergeInto` – the fold `C10.view_step` / `C10.view` describe – in the accumulator's order, calls the merge function
    exactly once per received value, and leaves the scope's own dict alone.  Identities as in `MetricsEndToEnd`. -/
namespace Haiway.Bridge.Metrics
open Haiway.MiniPy Haiway

/-- one received value at identity level: `res f current received` = identity of the merged value, `none` = `MISSING` -/
def stepV (tyOf : Nat → Nat) (res : Val → Option Nat → Nat → Option Nat) (f : Val) (acc : Store) (r : Nat) : Store :=
  match res f (get acc (tyOf r)) r with
  | some k => putId acc (tyOf r) k
  | none => acc

def vstoreOf (emb : Nat → Val) (s : Store) : VStore := s.map fun p => (p.1, emb p.2)

structure ViewEnv (emb : Nat → Val) (w : W) (tyOf : Nat → Nat) (res : Val → Option Nat → Nat → Option Nat) : Prop where
  types : ∀ k, w.tyOf (emb k) = tyOf k
  merges : ∀ f cur r, w.mergeBy f ((cur.map emb).getD missingV) (emb r) = .inl (((res f cur r).map emb).getD missingV)
  objects : ∀ n, (emb n).same missingV = false

theorem getV_vstoreOf (emb : Nat → Val) (s : Store) (t : Nat) : getV (vstoreOf emb s) t = (get s t).map emb := by
  induction s with
  | nil => rfl
  | cons x rest ih =>
    unfold vstoreOf getV get at *
    simp only [List.map_cons, List.find?_cons]
    by_cases h : x.1 = t
    · simp [h]
    · simp only [h, decide_false]; exact ih

theorem putV_vstoreOf (emb : Nat → Val) (s : Store) (t k : Nat) :
    putV (vstoreOf emb s) t (emb k) = vstoreOf emb (putId s t k) := by
  induction s with
  | nil => rfl
  | cons x rest ih =>
    obtain ⟨t', x'⟩ := x
    by_cases h : t' = t
    · simp [vstoreOf, putV, putId, h]
    · simp only [vstoreOf, List.map_cons, putV, putId, h, ↓reduceIte] at ih ⊢
      rw [ih]

theorem viewStep_vstoreOf {emb : Nat → Val} {w : W} {tyOf : Nat → Nat} {res : Val → Option Nat → Nat → Option Nat}
    (env : ViewEnv emb w tyOf res) (f : Val) (acc : Store) (r : Nat) :
    viewStep w.tyOf w.mergeBy f (vstoreOf emb acc) (emb r) = .inl (vstoreOf emb (stepV tyOf res f acc r)) := by
  unfold viewStep stepV
  rw [env.types, getV_vstoreOf, env.merges]
  cases hr : res f (get acc (tyOf r)) r with
  | none => simp [missingV, Val.same]
  | some k => simp [env.objects, putV_vstoreOf]

theorem viewFold_vstoreOf {emb : Nat → Val} {w : W} {tyOf : Nat → Nat} {res : Val → Option Nat → Nat → Option Nat}
    (env : ViewEnv emb w tyOf res) (f : Val) :
    ∀ (rs : List Nat) (acc : Store),
      viewFold w.tyOf w.mergeBy f (vstoreOf emb acc) (rs.map emb) = .inl (vstoreOf emb (rs.foldl (stepV tyOf res f) acc))
  | [], _ => rfl
  | r :: rest, acc => by
    simp only [List.map_cons, viewFold, viewStep_vstoreOf env, List.foldl_cons]
    exact viewFold_vstoreOf env f rest _

theorem viewCalls_length {emb : Nat → Val} {w : W} {tyOf : Nat → Nat} {res : Val → Option Nat → Nat → Option Nat}
    (env : ViewEnv emb w tyOf res) (f : Val) :
    ∀ (rs : List Nat) (acc : Store), (viewCalls w.tyOf w.mergeBy f (vstoreOf emb acc) (rs.map emb)).length = rs.length
  | [], _ => rfl
  | r :: rest, acc => by
    simp only [List.map_cons, viewCalls, viewStep_vstoreOf env, List.length_cons]
    rw [viewCalls_length env f rest]

/-- the model-level merge function of the view -/
def mergeM (tyOf : Nat → Nat) (res : Val → Option Nat → Nat → Option Nat) (f : Val) : Haiway.Metrics.ViewMerge :=
  fun cur v =>
    match v.data with
    | [r] => (match cur with
        | none => (res f none r).map (valOf tyOf)
        | some c => (match c.data with
            | [k] => (res f (some k) r).map (valOf tyOf)
            | _ => none))
    | _ => none

theorem mergeM_img (tyOf : Nat → Nat) (res : Val → Option Nat → Nat → Option Nat) (f : Val) (cur : Option Nat) (r : Nat) :
    mergeM tyOf res f (cur.map (valOf tyOf)) (valOf tyOf r) = (res f cur r).map (valOf tyOf) := by
  cases cur <;> rfl

theorem stepV_img (tyOf : Nat → Nat) (res : Val → Option Nat → Nat → Option Nat) (f : Val) (acc : Store) (r : Nat) :
    img tyOf (stepV tyOf res f acc r) =
      (match mergeM tyOf res f (Haiway.Metrics.get (img tyOf acc) (valOf tyOf r).ty) (valOf tyOf r) with
       | some x => Haiway.Metrics.put (img tyOf acc) (valOf tyOf r).ty x
       | none => img tyOf acc) := by
  have hty : (valOf tyOf r).ty = tyOf r := rfl
  rw [hty, get_img, mergeM_img]
  unfold stepV
  cases hr : res f (get acc (tyOf r)) r with
  | none => rfl
  | some k => simp [put_img]

theorem foldV_img (tyOf : Nat → Nat) (res : Val → Option Nat → Nat → Option Nat) (f : Val) :
    ∀ (rs : List Nat) (acc : Store),
      img tyOf (rs.foldl (stepV tyOf res f) acc)
        = Haiway.Metrics.mergeInto (mergeM tyOf res f) (img tyOf acc) (rs.map (valOf tyOf))
  | [], _ => rfl
  | r :: rest, acc => by
    simp only [List.foldl_cons, List.map_cons, Haiway.Metrics.mergeInto]
    rw [foldV_img tyOf res f rest, stepV_img]
    cases mergeM tyOf res f (Haiway.Metrics.get (img tyOf acc) (valOf tyOf r).ty) (valOf tyOf r) <;> rfl

structure ViewProps (p : Stmt) : Prop where
  /-- with a merge function: the values of `Metrics.mergeInto` over the received values, one merge call per value, the
  scope's own dict untouched -/
  merged : ∀ (emb : Nat → Val) (w : W) (tyOf : Nat → Nat) (res : Val → Option Nat → Nat → Option Nat),
    ViewEnv emb w tyOf res → ∀ (own rs : List _) (mergeFn : Val) (loc : Nat → Val), loc 0 = mergeFn → mergeFn.truthy = true →
    w.merged = [] → w.received = rs.map emb →
    let r := runMethod ext p ({ loc := loc, fld := fun i => if i = 0 then dictOfV (vstoreOf emb own) else .none, world := w } : St W)
    ∃ s', r.1 = .ret (valuesV (vstoreOf emb s')) ∧
      img tyOf s' = Haiway.Metrics.mergeInto (mergeM tyOf res mergeFn) (img tyOf own) (rs.map (valOf tyOf)) ∧
      r.2.fld 0 = dictOfV (vstoreOf emb own) ∧ r.2.world.merged.length = rs.length
  /-- without one: the scope's own values, no merge call -/
  plain : ∀ (own : VStore) (w : W) (mergeFn : Val) (loc : Nat → Val), loc 0 = mergeFn → mergeFn.truthy = false → w.merged = [] →
    let r := runMethod ext p ({ loc := loc, fld := fun i => if i = 0 then dictOfV own else .none, world := w } : St W)
    r.1 = .ret (valuesV own) ∧ r.2.fld 0 = dictOfV own ∧ r.2.world.merged = []

theorem viewProps_of_refines {p : Stmt} (h : ViewRefines p) : ViewProps p where
  merged := by
    intro emb w tyOf res env own rs mergeFn loc h0 ht hm hr
    have h1 := h (vstoreOf emb own) mergeFn w loc h0 hm
    simp only [ht, ↓reduceIte, hr, viewFold_vstoreOf env] at h1
    refine ⟨rs.foldl (stepV tyOf res mergeFn) own, h1.2.2, foldV_img tyOf res mergeFn rs own, h1.1, ?_⟩
    rw [h1.2.1, viewCalls_length env]
  plain := by
    intro own w mergeFn loc h0 hf hm
    have h1 := h own mergeFn w loc h0 hm
    simp only [hf, Bool.false_eq_true, ↓reduceIte] at h1
    exact ⟨h1.2.1, h1.1, h1.2.2⟩

/-- satisfiable: the value with identity `k` is the object `k + 1000`, typed by its number mod 3; merging adds identities,
values whose object number is divisible by 7 are left out -/
example : ViewEnv (fun k => .obj (k + 1000))
    { completed := false, tyOf := fun v => match v with | .obj k => k % 3 | _ => 0,
      mergeBy := fun _ a b => match a, b with
        | .obj x, .obj y => if y % 7 = 0 then .inl missingV else if x = 999 then .inl (.obj y) else .inl (.obj (x + y - 1000))
        | _, _ => .inr (.exc cException 0) }
    (fun k => (k + 1000) % 3)
    (fun _ cur r => if (r + 1000) % 7 = 0 then none else match cur with | none => some r | some c => some (c + r)) := by
  constructor
  · intro k; rfl
  · intro f cur r
    cases cur with
    | none => by_cases h : (r + 1000) % 7 = 0 <;> simp [missingV, h]
    | some c =>
      have hc : c + 1000 ≠ 999 := by omega
      have ha : c + 1000 + (r + 1000) - 1000 = c + r + 1000 := by omega
      by_cases h : (r + 1000) % 7 = 0 <;> simp [missingV, h, hc, ha]
  · intro n
    have : n + 1000 ≠ 999 := by omega
    simp [missingV, Val.same, this]

end Haiway.Bridge.Metrics
