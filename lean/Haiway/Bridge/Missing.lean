import Haiway.Model.MiniPy
/-! Bridge between the regenerated `MiniPy` terms of `haiway/types/missing.py` (`MissingType.__call__`, the dunder methods
    of `Missing`, `is_missing`, `not_missing`, `when_missing`; translated from /repo's current source on every run) and what
    the model `Haiway.Missing` of C20 takes them to be: `callType` ("the metaclass call returns the cached instance"),
    `reduceMissing` ("`__reduce__` answers `(Missing, ())`"), `isMissing`/`notMissing`/`whenMissing` ("identity with the
    constant"), falsiness, `__eq__` by identity, attribute access / assignment / deletion refused.

    `MISSING` – and `self` inside the methods of the singleton – is the object `Val.obj 4242`; the class `Missing` is
    `Val.cls 90`. -/
namespace Haiway.Bridge.Missing
open Haiway.MiniPy

abbrev theMissing : Val := .obj 4242
abbrev missingCls : Val := .cls 90

structure W where
  allocated : Nat := 0           -- instances created by `type.__call__` (`super().__call__()`)

/-- externals: 130 `super().__call__()` – allocate a new instance -/
def ext : World W := fun f args w fl =>
  match f, args with
  | 130, [] => some (.inl (.obj (5000 + w.allocated)), { w with allocated := w.allocated + 1 }, fl)
  | _, _ => none

def st (instance_ : Val) (args : Nat → Val) (w : W) : St W :=
  { loc := args, fld := fun i => if i = 0 then instance_ else .none, world := w }

/-- **`Missing()`** (`MissingType.__call__`): the first call allocates exactly one instance and caches it; every later call
returns the cached one and allocates nothing – `Haiway.Missing.callType`. -/
def MetaCallSingleton (p : Stmt) : Prop :=
  (∀ (args : Nat → Val) (w : W),
    let r := runMethod ext p (st .none args w)
    r.1 = .ret (.obj (5000 + w.allocated)) ∧ r.2.fld 0 = .obj (5000 + w.allocated) ∧ r.2.world.allocated = w.allocated + 1) ∧
  (∀ (k : Nat) (args : Nat → Val) (w : W),
    let r := runMethod ext p (st (.obj k) args w)
    r.1 = .ret (.obj k) ∧ r.2.fld 0 = .obj k ∧ r.2.world.allocated = w.allocated)

/-- **falsy** -/
def BoolFalse (p : Stmt) : Prop :=
  ∀ (args : Nat → Val) (w : W), (runMethod ext p (st .none args w)).1 = .ret (.bool false)

/-- **equal only to itself**: `__eq__` answers by identity with the constant, for every argument -/
def EqIsIdentity (p : Stmt) : Prop :=
  ∀ (v : Val) (w : W), (runMethod ext p (st .none (fun _ => v) w)).1 = .ret (.bool (v.same theMissing))

/-- **`__reduce__`** answers `(Missing, ())`: copy, deepcopy and pickle reconstruct by calling the type
(`Haiway.Missing.reduceMissing`) -/
def ReduceCallsType (p : Stmt) : Prop :=
  ∀ (args : Nat → Val) (w : W), (runMethod ext p (st .none args w)).1 = .ret (.list [missingCls, .list []])

/-- **attribute access, assignment and deletion are refused** with `AttributeError`, whatever the name and value -/
def RaisesAttributeError (p : Stmt) : Prop :=
  ∀ (args : Nat → Val) (w : W), ∃ n, (runMethod ext p (st .none args w)).1 = .exc (.exc cAttributeError n)

/-- **`is_missing`** / **`not_missing`** / **`when_missing`** agree with identity, for every argument -/
def IsMissingIdentity (p : Stmt) : Prop :=
  ∀ (v : Val) (w : W), (runMethod ext p (st .none (fun _ => v) w)).1 = .ret (.bool (v.same theMissing))
def NotMissingIdentity (p : Stmt) : Prop :=
  ∀ (v : Val) (w : W), (runMethod ext p (st .none (fun _ => v) w)).1 = .ret (.bool (!v.same theMissing))
def WhenMissingIdentity (p : Stmt) : Prop :=
  ∀ (v d : Val) (w : W),
    (runMethod ext p (st .none (fun i => if i = 0 then v else d) w)).1 = .ret (if v.same theMissing then d else v)

macro "missing_eval" : tactic => `(tactic|
  (simp (config := { decide := true }) [runMethod, exec, exec.execH, eval, builtin, ext, st, upd, Val.truthy, excClass, isSub, *]))

end Haiway.Bridge.Missing
