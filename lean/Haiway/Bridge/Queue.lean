import Haiway.Model.MiniPy
import Haiway.Model.Queue
/-! Bridge between the regenerated `MiniPy` terms of `AsyncQueue.enqueue / finish / __anext__` (translated from /repo's
    current `utils/queue.py` on every run) and the hand-written model `Haiway.Queue` the C17 theorems are about: each
    method, run by the `MiniPy` interpreter on the concrete image of a model state, ends in the concrete image of the
    model's next state and with the outcome the model prescribes – for **every** model state (any buffer), element and
    finish reason.  `asyncio.Future` is the external world here (`ext`), written down once below.

    fields of `self`: 0 `_loop`, 1 `_queue`, 2 `_waiting`, 3 `_finish_reason`.  Elements are **arbitrary Python values**:
    every obligation is stated for an arbitrary embedding `emb : Nat → Val` of the model's element numbers (`None`, `False`,
    `0`, exception instances, containers … included), so a method that inspects an element – its truthiness, its class –
    cannot satisfy them. -/
namespace Haiway.Bridge.Queue
open Haiway.MiniPy
open Haiway.Queue (Reason Waiter)

/-- state of an `asyncio.Future` whose result is a Python value -/
inductive FW where
  | pending | res (v : Val) | exc (r : Reason) | cancelled

def mapW (emb : Nat → Val) : Waiter → FW
  | .pending => .pending
  | .res e => .res (emb e)
  | .exc r => .exc r
  | .cancelled => .cancelled

/-- the world: the one future a single consumer can be waiting on (object number 0), what the environment does to it while
the consumer is suspended (`after`), and whether the consumer's wake-up is a delivered cancellation -/
structure W where
  fut : Option FW                -- state of the future object (none: no future created yet)
  after : FW                     -- state the future has when the consumer is resumed
  cancelDelivered : Bool         -- the resumption throws CancelledError into the coroutine
  afterBuf : List Val := []      -- what producers appended to the (empty) buffer while the consumer was suspended
  created : Nat := 0             -- futures created by this call

def reasonVal : Reason → Val
  | .stop => .exc cStopAsyncIteration 1
  | .err => .exc cUserError 2
  | .cancel => .exc cCancelledError 3

def valReason : Val → Option Reason
  | .exc c _ => if c = cStopAsyncIteration then some .stop else if c = cCancelledError then some .cancel else some .err
  | _ => none

/-- externals: 110 `fut.done()`  111 `fut.set_result(v)`  112 `fut.set_exception(e)`  113 `fut.cancelled()`
114 `fut.exception()`  115 `fut.result()`  116 `loop.create_future()`  117 `await fut` -/
def ext : World W := fun f args w fl =>
  (fun (r : Option ((Val ⊕ Val) × W)) => r.map fun (x, w') =>
      (x, w', if f = 117 then (fun i => if i = 1 then .list w.afterBuf else fl i) else fl)) <|
  match f, args with
  | 110, [.obj 0] => (match w.fut with
      | some .pending => some (.inl (.bool false), w)
      | some _ => some (.inl (.bool true), w)
      | none => none)
  | 111, [.obj 0, v] => (match w.fut with
      | some .pending => some (.inl .none, { w with fut := some (.res v) })
      | _ => none)                                  -- InvalidStateError: outside the obligations
  | 112, [.obj 0, v] => (match w.fut, valReason v with
      | some .pending, some r => some (.inl .none, { w with fut := some (.exc r) })
      | _, _ => none)
  | 113, [.obj 0] => (match w.fut with
      | some .cancelled => some (.inl (.bool true), w)
      | some _ => some (.inl (.bool false), w)
      | none => none)
  | 114, [.obj 0] => (match w.fut with
      | some (.res _) => some (.inl .none, w)
      | some (.exc r) => some (.inl (reasonVal r), w)
      | some .cancelled => some (.inr (.exc cCancelledError 9), w)
      | _ => none)
  | 115, [.obj 0] => (match w.fut with
      | some (.res v) => some (.inl v, w)
      | some (.exc r) => some (.inr (reasonVal r), w)
      | some .cancelled => some (.inr (.exc cCancelledError 9), w)
      | _ => none)
  | 116, [] => some (.inl (.obj 0), { w with fut := some .pending, created := w.created + 1 })
  | 117, [.obj 0] =>
      -- the coroutine suspends; meanwhile the environment (producer / canceller) moves the future to `after` and may
      -- append further elements to the buffer (`afterBuf`, installed by the wrapper above)
      let w' := { w with fut := some w.after }
      if w.cancelDelivered then some (.inr (.exc cCancelledError 7), w')
      else (match w.after with
        | .res v => some (.inl v, w')
        | .exc r => some (.inr (reasonVal r), w')
        | .cancelled => some (.inr (.exc cCancelledError 8), w')
        | .pending => none)                         -- never resumed while the future is pending and nobody cancelled
  | _, _ => none

def elems (emb : Nat → Val) (xs : List Nat) : Val := .list (xs.map emb)

/-- concrete image of the queue part of a model state -/
def conc (emb : Nat → Val) (buf : List Nat) (waiting : Option Waiter) (reason : Option Reason) (args : Nat → Val) (w : W) : St W :=
  { loc := args,
    fld := fun i =>
      if i = 1 then elems emb buf
      else if i = 2 then (match waiting with | some _ => .obj 0 | none => .none)
      else if i = 3 then (match reason with | some r => reasonVal r | none => .none)
      else .none,
    world := { w with fut := waiting.map (mapW emb) } }

/-- **enqueue** refines `Queue.step _ (.enqueue e es)`: refused with `RuntimeError` once finished (nothing changes);
otherwise the first element goes to a pending receive's future if there is one – and only then – else to the end of the
buffer, the remaining elements are appended in order, and nothing else changes. -/
def EnqueueRefines (p : Stmt) : Prop :=
  ∀ (emb : Nat → Val) (buf : List Nat) (waiting : Option Waiter) (reason : Option Reason) (e : Nat) (es : List Nat) (w : W),
    let s : Haiway.Queue.St := { buf := buf, waiting := waiting, reason := reason }
    let s' := Haiway.Queue.step s (.enqueue e es)
    let args : Nat → Val := fun i => if i = 0 then emb e else elems emb es
    let r := runMethod ext p (conc emb buf waiting reason args w)
    (match reason with
     | some _ => (∃ n, r.1 = .exc (.exc cRuntimeError n))
     | none => r.1 = .ret .none) ∧
    r.2.fld 1 = elems emb s'.buf ∧ r.2.world.fut = s'.waiting.map (mapW emb) ∧
    r.2.fld 2 = (match waiting with | some _ => .obj 0 | none => .none) ∧
    r.2.fld 3 = (match reason with | some x => reasonVal x | none => .none)

/-- **finish** refines `Queue.step _ (.finish r)`: ignored once finished; otherwise the reason is recorded – the given
exception, or a new `StopAsyncIteration` – and a pending receive's future gets it as its exception; the buffer is untouched. -/
def FinishRefines (p : Stmt) : Prop :=
  ∀ (emb : Nat → Val) (buf : List Nat) (waiting : Option Waiter) (reason : Option Reason) (given : Option Reason) (w : W),
    let r0 : Reason := given.getD .stop
    let s : Haiway.Queue.St := { buf := buf, waiting := waiting, reason := reason }
    let s' := Haiway.Queue.step s (.finish r0)
    let args : Nat → Val := fun _ => match given with | some x => reasonVal x | none => .none
    let r := runMethod ext p (conc emb buf waiting reason args w)
    r.1 = .ret .none ∧ r.2.fld 1 = elems emb buf ∧ r.2.world.fut = s'.waiting.map (mapW emb) ∧
    (r.2.fld 3 |> valReason) = s'.reason

/-- **cancel** is `finish` with a new `CancelledError` as the reason (`Queue.step _ (.finish .cancel)`). -/
def CancelRefines (p : Stmt) : Prop :=
  ∀ (emb : Nat → Val) (buf : List Nat) (waiting : Option Waiter) (reason : Option Reason) (args : Nat → Val) (w : W),
    let s : Haiway.Queue.St := { buf := buf, waiting := waiting, reason := reason }
    let s' := Haiway.Queue.step s (.finish .cancel)
    let r := runMethod ext p (conc emb buf waiting reason args w)
    r.1 = .ret .none ∧ r.2.fld 1 = elems emb buf ∧ r.2.world.fut = s'.waiting.map (mapW emb) ∧
    (r.2.fld 3 |> valReason) = s'.reason

/-- **receive, immediate paths**: with a non-empty buffer the oldest element is returned and removed, nothing else
changes (also after finish: buffered elements are still delivered); with an empty buffer after finish the finish reason
is raised **as that object**; a second concurrent consumer trips the assertion. -/
def NextImmediate (p : Stmt) : Prop :=
  (∀ (emb : Nat → Val) (e : Nat) (rest : List Nat) (reason : Option Reason) (args : Nat → Val) (w : W),
    let r := runMethod ext p (conc emb (e :: rest) none reason args w)
    r.1 = .ret (emb e) ∧ r.2.fld 1 = elems emb rest ∧ r.2.fld 2 = .none ∧ r.2.world.created = w.created ∧
    r.2.fld 3 = (match reason with | some x => reasonVal x | none => .none)) ∧
  (∀ (emb : Nat → Val) (x : Reason) (args : Nat → Val) (w : W),
    let r := runMethod ext p (conc emb [] none (some x) args w)
    r.1 = .exc (reasonVal x) ∧ r.2.fld 1 = elems emb [] ∧ r.2.fld 2 = .none ∧ r.2.world.created = w.created) ∧
  (∀ (emb : Nat → Val) (buf : List Nat) (wt : Waiter) (reason : Option Reason) (args : Nat → Val) (w : W),
    let r := runMethod ext p (conc emb buf (some wt) reason args w)
    (∃ n, r.1 = .exc (.exc cAssertionError n)) ∧ r.2.fld 1 = elems emb buf)

/-- **receive, suspending path** (empty buffer, not finished): exactly one future is created and awaited; on resumption
* normally with the future holding an element: the element is returned;
* with the future holding the finish reason: it is raised as that object;
* by a delivered cancellation: `CancelledError` propagates, **and an element already handed to the future is put back at
  the front of the buffer** – before whatever producers appended meanwhile (`later`) – (the C17 repair; `Queue.wake` in the
  blocked/`must` case): never lost, never duplicated, never reordered;
in every case `_waiting` is `None` again afterwards and the buffer is otherwise untouched. -/
def NextSuspending (p : Stmt) : Prop :=
  ∀ (emb : Nat → Val) (after : Waiter) (cancelDelivered : Bool) (later : List Nat) (args : Nat → Val) (w0 : W),
    (after = .pending → cancelDelivered = true) →
    let w : W := { w0 with after := mapW emb after, cancelDelivered := cancelDelivered, afterBuf := later.map emb }
    let r := runMethod ext p (conc emb [] none none args w)
    r.2.fld 2 = .none ∧ r.2.fld 3 = .none ∧ r.2.world.created = w0.created + 1 ∧
    (if cancelDelivered then
      (∃ n, r.1 = .exc (.exc cCancelledError n)) ∧
      r.2.fld 1 = elems emb (match after with | .res e => e :: later | _ => later)
    else
      r.2.fld 1 = elems emb later ∧
      (match after with
       | .res e => r.1 = .ret (emb e)
       | .exc x => r.1 = .exc (reasonVal x)
       | .cancelled => ∃ n, r.1 = .exc (.exc cCancelledError n)
       | .pending => True))

macro "queue_eval" : tactic => `(tactic|
  (simp (config := { decide := true }) [runMethod, exec, exec.execH, eval, builtin, ext, conc, elems, upd, Val.same,
     Val.truthy, excClass, isSub, reasonVal, valReason, mapW, Haiway.Queue.step, cmpInt,
     len1_ne_zero, len1_beq_zero, len1_eq_zero, len1_pos, len1_ge_one, len2_ge_one, len2_eq_one, len2_beq_one, len2_bne_one, len2_gt_one, *]))

end Haiway.Bridge.Queue
