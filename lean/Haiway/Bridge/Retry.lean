import Haiway.Model.MiniPy
import Haiway.Model.Retry
/-! Bridge between the regenerated `MiniPy` terms of `retry`'s two wrappers (`_wrap_sync.wrapped`, `_wrap_async.wrapped` of
    /repo's `helpers/retries.py`, translated on every run) and the hand-written loop `Retry.go` of C14.

    The regenerated obligation is about **one iteration** of the `while True:` body (`RetryStep`): started with `attempt = a`
    after `a` calls, it makes exactly one more call and then either returns its value, or re-raises the very exception object
    (not retryable, or `attempt = limit`), or falls through / `continue`s with `attempt = a + 1` having run exactly the events
    `Retry.between` prescribes (no pause, one pause of the number, delay function called with `(a + 1, exc)` then one pause of its result).
    The committed theorem `refines_of_step` lifts that, by induction on `limit - attempt`, to: the whole wrapper, for every limit,
    every `catching`, every delay shape, every sequence of outcomes of the wrapped function, behaves exactly like `Retry.run` – same
    number of calls, same event trace, same final outcome. -/
namespace Haiway.Bridge.Retry
open Haiway.MiniPy Haiway

/-- class ids of the `Retry` model (0 `Exception`, 1 `CancelledError`) ↦ class ids of `MiniPy` -/
def toPy : Nat → Nat
  | 0 => cException
  | 1 => cCancelledError
  | 2 => cBaseException
  | n => n

@[simp] theorem toPy_exception : toPy Retry.clsException = 1 := rfl
@[simp] theorem toPy_cancelled : toPy Retry.clsCancelled = 2 := rfl

def excV (e : Retry.Exc) : Val := .exc (toPy e.cls) e.id

def outV : Retry.Outcome → Val ⊕ Val
  | .ok v => .inl (.int v)
  | .raised e => .inr (excV e)

def delayVal : Retry.DelayArg → Val
  | .none => .none
  | .int n => .int n
  | .float n => .int n          -- MiniPy has one kind of number
  | .bool b => .bool b
  | .callable _ => .obj 7

def delayFn : Retry.DelayArg → Nat → Retry.Exc → Nat
  | .callable f => f
  | _ => fun _ _ => 0

structure W where
  outs : Nat → Retry.Outcome          -- what the i-th invocation of the wrapped function does
  delay : Retry.DelayArg
  calls : Nat := 0
  trace : List Retry.Ev := []

/-- the configuration the `Retry` model is compared at: the class relation is `MiniPy`'s -/
def cfgOf (limit : Nat) (cats : List Nat) (d : Retry.DelayArg) : Retry.Cfg :=
  { limit := limit, catching := cats, isSub := fun c e => isSub (toPy c) (toPy e), delay := d }

@[simp] theorem cfgOf_delay (l : Nat) (cs : List Nat) (d : Retry.DelayArg) : (cfgOf l cs d).delay = d := rfl
@[simp] theorem cfgOf_limit (l : Nat) (cs : List Nat) (d : Retry.DelayArg) : (cfgOf l cs d).limit = l := rfl

def secs : Val → Option Nat
  | .int n => some n.toNat
  | .bool b => some b.toNat
  | _ => none

/-- externals: 161 `function(*args, **kwargs)` (awaited in the async wrapper)  170 `ctx.log_error(…)`  171 `sleep(x)`
172 `make_delay(attempt, exc)`  173 `getattr(function, "__name__", …)`  174 `repr(function)` -/
def ext : World W := fun f args w fl =>
  (fun (r : Option ((Val ⊕ Val) × W)) => r.map fun (x, w') => (x, w', fl)) <|
  match f, args with
  | 161, [_, _, _] => some (outV (w.outs w.calls), { w with calls := w.calls + 1, trace := w.trace ++ [.call w.calls] })
  | 170, _ => some (.inl .none, w)
  | 171, [v] => (secs v).map fun n => (.inl .none, { w with trace := w.trace ++ [.pause n] })
  | 172, [_, .int a, .exc c n] =>
      (match w.outs (w.calls - 1) with      -- the exception handed over is the one the last call raised
       | .raised e =>
         if (excV e).same (.exc c n) then
           some (.inl (.int (delayFn w.delay a.toNat e)), { w with trace := w.trace ++ [.delayFn a.toNat e] })
         else none
       | _ => none)
  | 173, _ => some (.inl (.str 1), w)
  | 174, _ => some (.inl (.str 2), w)
  | _, _ => none

/-- invariant at the head of the loop -/
structure Inv (iAtt limit : Nat) (cats : List Nat) (d : Retry.DelayArg) (outs : Nat → Retry.Outcome)
    (a : Nat) (t : List Retry.Ev) (s : St W) : Prop where
  hlimit : s.loc 1 = .int limit
  hdelay : s.loc 2 = delayVal d
  hcats : s.loc 3 = .list (cats.map fun c => .cls (toPy c))
  hatt : s.loc iAtt = .int a
  houts : s.world.outs = outs
  hd : s.world.delay = d
  hcalls : s.world.calls = a
  htrace : s.world.trace = t

theorem inv_iff {iAtt limit : Nat} {cats : List Nat} {d : Retry.DelayArg} {outs : Nat → Retry.Outcome} {a : Nat}
    {t : List Retry.Ev} {s : St W} :
    Inv iAtt limit cats d outs a t s ↔
      (s.loc 1 = .int limit ∧ s.loc 2 = delayVal d ∧ s.loc 3 = .list (cats.map fun c => .cls (toPy c)) ∧ s.loc iAtt = .int a ∧
       s.world.outs = outs ∧ s.world.delay = d ∧ s.world.calls = a ∧ s.world.trace = t) :=
  ⟨fun ⟨h1, h2, h3, h4, h5, h6, h7, h8⟩ => ⟨h1, h2, h3, h4, h5, h6, h7, h8⟩,
   fun ⟨h1, h2, h3, h4, h5, h6, h7, h8⟩ => ⟨h1, h2, h3, h4, h5, h6, h7, h8⟩⟩

/-- **one iteration of the loop body** (locals: 0 `function` 1 `limit` 2 `delay` 3 `catching` 4 `args` 5 `kwargs`, `iAtt` = `attempt`) -/
def RetryStep (iAtt : Nat) (body : Stmt) : Prop :=
  ∀ (limit : Nat) (cats : List Nat) (d : Retry.DelayArg) (outs : Nat → Retry.Outcome) (a : Nat) (t : List Retry.Ev) (s : St W),
    Inv iAtt limit cats d outs a t s →
    let r := exec ext body s
    match outs a with
    | .ok v => r.1 = .ret (.int v) ∧ r.2.world.calls = a + 1 ∧ r.2.world.trace = t ++ [.call a]
    | .raised e =>
      if Retry.retryable (cfgOf limit cats d) (.raised e) ∧ a < limit then
        (r.1 = .normal ∨ r.1 = .cont) ∧ Inv iAtt limit cats d outs (a + 1) (t ++ [.call a] ++ Retry.between d (a + 1) e) r.2
      else r.1 = .exc (excV e) ∧ r.2.world.calls = a + 1 ∧ r.2.world.trace = t ++ [.call a]

def outOf : Retry.Outcome → Out
  | .ok v => .ret (.int v)
  | .raised e => .exc (excV e)

theorem iter_refines {iAtt : Nat} {body : Stmt} (hstep : RetryStep iAtt body)
    (limit : Nat) (cats : List Nat) (d : Retry.DelayArg) (outs : Nat → Retry.Outcome) :
    ∀ (k a : Nat) (t : List Retry.Ev) (s : St W) (fuel : Nat), a + k = limit → k < fuel →
      Inv iAtt limit cats d outs a t s →
      let r := iter (exec ext body) fuel s
      let m := Retry.go (cfgOf limit cats d) outs k a t
      r.1 = outOf m.final ∧ r.2.world.trace = m.trace ∧ r.2.world.calls = m.calls := by
  intro k
  induction k with
  | zero =>
    intro a t s fuel hk hf hinv
    obtain ⟨f, rfl⟩ : ∃ f, fuel = f + 1 := ⟨fuel - 1, by omega⟩
    have h := hstep limit cats d outs a t s hinv
    have hal : ¬ a < limit := by omega
    simp only [Retry.go, iter]
    generalize exec ext body s = r at h
    obtain ⟨o, s'⟩ := r
    cases ho : outs a with
    | ok v => simp [ho] at h; obtain ⟨h1, h2, h3⟩ := h; subst h1; simp [outOf, h2, h3]
    | raised e => simp [ho, hal] at h; obtain ⟨h1, h2, h3⟩ := h; subst h1; simp [outOf, h2, h3]
  | succ k ih =>
    intro a t s fuel hk hf hinv
    obtain ⟨f, rfl⟩ : ∃ f, fuel = f + 1 := ⟨fuel - 1, by omega⟩
    have h := hstep limit cats d outs a t s hinv
    have hal : a < limit := by omega
    simp only [Retry.go, iter]
    generalize hr : exec ext body s = r at h
    obtain ⟨o, s'⟩ := r
    cases ho : outs a with
    | ok v =>
      simp [ho] at h; obtain ⟨h1, h2, h3⟩ := h; subst h1
      simp [Retry.retryable, outOf, h2, h3]
    | raised e =>
      by_cases hre : Retry.retryable (cfgOf limit cats d) (.raised e) = true
      · simp [ho, hre, hal] at h
        obtain ⟨h1, h2⟩ := h
        have := ih (a + 1) _ s' f (by omega) (by omega) h2
        rcases h1 with h1 | h1 <;> subst h1 <;> simpa [hre, Retry.betweenO] using this
      · simp [ho, hre] at h
        obtain ⟨h1, h2, h3⟩ := h; subst h1
        simp [hre, outOf, h2, h3]

/-- initial state of a call of the wrapper -/
def st0 (limit : Nat) (cats : List Nat) (d : Retry.DelayArg) (outs : Nat → Retry.Outcome) (args : Nat → Val) : St W :=
  { loc := fun i => if i = 1 then .int limit else if i = 2 then delayVal d else if i = 3 then .list (cats.map fun c => .cls (toPy c))
                    else args i,
    fld := fun _ => .none, world := { outs := outs, delay := d } }

/-- **the wrapper refines `Retry.run`** -/
def RetryRefines (p : Nat → Stmt) : Prop :=
  ∀ (limit : Nat) (cats : List Nat) (d : Retry.DelayArg) (outs : Nat → Retry.Outcome) (args : Nat → Val) (fuel : Nat), limit < fuel →
    let r := runMethod ext (p fuel) (st0 limit cats d outs args)
    let m := Retry.run (cfgOf limit cats d) outs
    r.1 = outOf m.final ∧ r.2.world.trace = m.trace ∧ r.2.world.calls = m.calls

theorem refines_of_step {p : Nat → Stmt} {iAtt : Nat} {body : Stmt} (hi : 3 < iAtt)
    (hp : ∀ fuel, p fuel = .seq (.assign iAtt (.lit (.int 0))) (.loop fuel body)) (hstep : RetryStep iAtt body) :
    RetryRefines p := by
  intro limit cats d outs args fuel hf
  have hne1 : (1 : Nat) ≠ iAtt := by omega
  have hne2 : (2 : Nat) ≠ iAtt := by omega
  have hne3 : (3 : Nat) ≠ iAtt := by omega
  have hinv : Inv iAtt limit cats d outs 0 []
      ({ st0 limit cats d outs args with loc := upd (st0 limit cats d outs args).loc iAtt (.int 0) } : St W) := by
    constructor <;> simp [st0, upd, hne1, hne2, hne3]
  have := iter_refines hstep limit cats d outs limit 0 [] _ fuel (by omega) hf hinv
  simp only [hp, runMethod, exec, eval, Retry.run]
  generalize iter (exec ext body) fuel _ = r at this
  obtain ⟨o, s'⟩ := r
  obtain ⟨h1, h2, h3⟩ := this
  simp only at h1 h2 h3
  subst h1
  cases hm : (Retry.go (cfgOf limit cats d) outs limit 0 []).final <;> simp [outOf, h2, h3, hm]

/-- `any(isinstance(exc, c) for c in catching)` (kept folded while the interpreter is evaluated) -/
def catches (cats : List Nat) (x : Nat) : Bool := cats.any (fun d => isSub x (toPy d))

@[simp] theorem any_cats (x : Nat) (cats : List Nat) :
    ((cats.map fun c => Val.cls (toPy c)).any fun | .cls d => isSub x d | _ => false) = catches cats x := by
  unfold catches
  induction cats with
  | nil => rfl
  | cons c cs ih => simp [ih]

@[simp] theorem exists_cats (x : Nat) (cats : List Nat) :
    (∃ d, d ∈ cats ∧ isSub x (toPy d) = true) ↔ catches cats x = true := by
  simp [catches]

/-- the normal form simp gives the *negated* test (`not (… and any(isinstance …))`, arms swapped) -/
@[simp] theorem forall_cats (x : Nat) (cats : List Nat) :
    (∀ d, d ∈ cats → isSub x (toPy d) = false) ↔ catches cats x = false := by
  simp [catches]

@[simp] theorem retryable_cfgOf (limit : Nat) (cats : List Nat) (d : Retry.DelayArg) (c n : Nat) :
    Retry.retryable (cfgOf limit cats d) (.raised ⟨c, n⟩) = (!isSub (toPy c) 2 && isSub (toPy c) 1 && catches cats (toPy c)) := by
  simp [Retry.retryable, cfgOf, catches]

macro "retry_eval" : tactic => `(tactic|
  (simp (config := { decide := true }) [exec, exec.execH, eval, builtin, ext, upd, Val.same, Val.truthy, excClass, excV, outV,
     secs, delayVal, delayFn, cmpInt, Retry.between, inv_iff, *]))

end Haiway.Bridge.Retry
