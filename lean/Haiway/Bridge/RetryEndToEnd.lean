import Haiway.Bridge.Retry
import Haiway.Props.C14
/-! C14's theorems, stated of the **regenerated wrapper itself**: whatever `MiniPy` term satisfies `RetryRefines` (the terms
    translated from /repo's `retries.py` are re-checked to on every run) has, run by the interpreter on any limit, caught set,
    delay and sequence of outcomes of the wrapped function, the properties C14 asks for – not only the hand-written `Retry.run`. -/
namespace Haiway.Bridge.Retry
open Haiway.MiniPy Haiway

/-- the run of the wrapper term -/
def wrapperRun (p : Nat → Stmt) (limit : Nat) (cats : List Nat) (d : Retry.DelayArg) (outs : Nat → Retry.Outcome)
    (args : Nat → Val) (fuel : Nat) : Out × St W :=
  runMethod ext (p fuel) (st0 limit cats d outs args)

structure WrapperProps (p : Nat → Stmt) : Prop where
  /-- at least one call, at most `limit + 1` -/
  calls_bounds : ∀ limit cats d outs args fuel, limit < fuel →
    1 ≤ (wrapperRun p limit cats d outs args fuel).2.world.calls ∧
    (wrapperRun p limit cats d outs args fuel).2.world.calls ≤ limit + 1
  /-- exactly one more call than the retryable failures at the front of the outcome sequence (capped by `limit`) -/
  calls_count : ∀ limit cats d outs args fuel, limit < fuel →
    (wrapperRun p limit cats d outs args fuel).2.world.calls = 1 + C14.retryablePrefix (cfgOf limit cats d) outs
  /-- the caller gets the outcome of the last call itself: that value, or that very exception object -/
  result : ∀ limit cats d outs args fuel, limit < fuel →
    (wrapperRun p limit cats d outs args fuel).1 = outOf (outs ((wrapperRun p limit cats d outs args fuel).2.world.calls - 1))
  /-- a cancellation, or an error outside `Exception`, at call `k` ends the loop there and reaches the caller as that object -/
  base_error_ends_loop : ∀ limit cats d outs args fuel k e, limit < fuel →
    (∀ i < k, Retry.retryable (cfgOf limit cats d) (outs i) = true) → k ≤ limit → outs k = .raised e →
    ((cfgOf limit cats d).isSub e.cls Retry.clsCancelled = true ∨ (cfgOf limit cats d).isSub e.cls Retry.clsException = false) →
    (wrapperRun p limit cats d outs args fuel).2.world.calls = k + 1 ∧
    (wrapperRun p limit cats d outs args fuel).1 = .exc (excV e)
  /-- with a delay configured, exactly one pause between consecutive attempts -/
  one_pause_per_retry : ∀ limit cats d outs args fuel, limit < fuel → d ≠ .none →
    (Retry.pauses (wrapperRun p limit cats d outs args fuel).2.world.trace).length =
      (wrapperRun p limit cats d outs args fuel).2.world.calls - 1

theorem props_of_refines {p : Nat → Stmt} (h : RetryRefines p) : WrapperProps p where
  calls_bounds := by
    intro limit cats d outs args fuel hf
    obtain ⟨_, _, h3⟩ := h limit cats d outs args fuel hf
    unfold wrapperRun
    rw [h3]
    exact C14.calls_bounds (cfgOf limit cats d) outs
  calls_count := by
    intro limit cats d outs args fuel hf
    obtain ⟨_, _, h3⟩ := h limit cats d outs args fuel hf
    unfold wrapperRun
    rw [h3]
    exact C14.calls (cfgOf limit cats d) outs
  result := by
    intro limit cats d outs args fuel hf
    obtain ⟨h1, _, h3⟩ := h limit cats d outs args fuel hf
    unfold wrapperRun
    rw [h1, h3, C14.result]
  base_error_ends_loop := by
    intro limit cats d outs args fuel k e hf hpre hk he hb
    obtain ⟨h1, _, h3⟩ := h limit cats d outs args fuel hf
    have := C14.base_error_ends_loop (cfgOf limit cats d) outs k e hpre hk he hb
    unfold wrapperRun
    rw [h1, h3, this.1, this.2]
    exact ⟨rfl, rfl⟩
  one_pause_per_retry := by
    intro limit cats d outs args fuel hf hd
    obtain ⟨_, h2, h3⟩ := h limit cats d outs args fuel hf
    unfold wrapperRun
    rw [h2, h3]
    exact C14.one_pause_per_retry (cfgOf limit cats d) outs (by simpa using hd)

end Haiway.Bridge.Retry
