import Haiway.Model.MiniPy
import Haiway.Model.Tasks
/-! Bridge between the regenerated `MiniPy` terms of `ScopeState.state`, `ScopeState.updated`, `StateContext.current`,
    `StateContext.updated` (translated from /repo's current `context/state.py` on every run) and the model the C01/C03
    theorems are about (`Haiway.ScopeState.find / updated`, `Haiway.Tasks.lookupObs / fallback / enterState`).

    fields of a `ScopeState`: 0 `_state` (dict type ↦ instance), 1 `_defaults` (dict type ↦ default-constructed instance).
    A state type is `Val.cls ty`; the instances stored in the two dicts are **arbitrary Python values** (`emb : Nat → Val`
    is universally quantified in the lookup obligation: falsy instances, instances comparing equal to others … included), so
    a lookup that inspects the instance it found – its truthiness, say – cannot satisfy it. -/
namespace Haiway.Bridge.ScopeState
open Haiway.MiniPy
open Haiway.ScopeState (Inst find)

structure W where
  ctorOk : Bool                    -- `state()` (default construction) succeeds …
  ctorFailsWithException : Bool    -- … or raises: an `Exception` (a `TypeError` for a type with required attributes), or
                                   --   something that is not an `Exception`
  var : Option Val                 -- the `StateContext` variable as seen from the current context
  stateResult : Val ⊕ Val          -- what `.state(…)` of the ScopeState in the variable does (value / raised exception)
  built : Option Val := none       -- argument the `ScopeState` constructor was called with
  updatedWith : Option (Val × Val) := none   -- (receiver, argument) of `.updated(…)` on the ScopeState in the variable
  wrapped : Option Val := none     -- argument of `cls(state=…)`
  asked : Option (Val × Val × Val) := none   -- (receiver, type, default) of the `.state(…)` call

/-- externals: 120 `state()`  121 `ScopeState(xs)` / `self.__class__(xs)`  102 `cls._context.get()`
122 `<ScopeState>.state(type, default)`  123 `<ScopeState>.updated(xs)`  124 `cls(state=x)` -/
def ext : World W := fun f args w fl =>
  (fun (r : Option ((Val ⊕ Val) × W)) => r.map fun (x, w') => (x, w', fl)) <|
  match f, args with
  | 120, [.cls _] =>
    if w.ctorOk then some (.inl (.obj 500), w)
    else some (.inr (.exc (if w.ctorFailsWithException then cTypeError else cUserBase) 1), w)
  | 121, [xs] => some (.inl (.obj 600), { w with built := some xs })
  | 102, [] => (match w.var with
      | some v => some (.inl v, w)
      | none => some (.inr (.exc cLookupError 0), w))
  | 122, [recv, ty, dflt] => some (w.stateResult, { w with asked := some (recv, ty, dflt) })
  | 123, [recv, xs] => some (.inl (.obj 601), { w with updatedWith := some (recv, xs) })
  | 124, [x] => some (.inl (.obj 602), { w with wrapped := some x })
  | _, _ => none

def instVal (i : Inst) : Val := .obj i.val
def dictOf (d : List Inst) : Val := .dict (d.map fun i => (.cls i.ty, .obj i.val))
def cacheOf (c : List (Nat × Nat)) : Val := .dict (c.map fun p => (.cls p.1, .obj p.2))
/-- the same dicts with arbitrary values as instances -/
def dictOfE (emb : Nat → Val) (d : List Inst) : Val := .dict (d.map fun i => (.cls i.ty, emb i.val))
def cacheOfE (emb : Nat → Val) (c : List (Nat × Nat)) : Val := .dict (c.map fun p => (.cls p.1, emb p.2))
def cacheFind (c : List (Nat × Nat)) (t : Nat) : Option Nat := (c.find? (·.1 = t)).map (·.2)

theorem assocGet_dictOf (d : List Inst) (t : Nat) :
    assocGet (d.map fun i => (Val.cls i.ty, Val.obj i.val)) (.cls t) = (find d t).map instVal := by
  induction d with
  | nil => rfl
  | cons x rest ih =>
    by_cases h : x.ty = t
    · simp [assocGet, Val.same, find, List.find?, h, instVal]
    · have h' : (x.ty == t) = false := by simpa using h
      simp only [List.map_cons, assocGet, Val.same, h', find, List.find?] at ih ⊢
      simp [h, ih]

theorem assocGet_dictOfE (emb : Nat → Val) (d : List Inst) (t : Nat) :
    assocGet (d.map fun i => (Val.cls i.ty, emb i.val)) (.cls t) = (find d t).map fun i => emb i.val := by
  induction d with
  | nil => rfl
  | cons x rest ih =>
    by_cases h : x.ty = t
    · simp [assocGet, Val.same, find, List.find?, h]
    · have h' : (x.ty == t) = false := by simpa using h
      simp only [List.map_cons, assocGet, Val.same, h', find, List.find?] at ih ⊢
      simp [h, ih]

theorem assocGet_cacheOfE (emb : Nat → Val) (c : List (Nat × Nat)) (t : Nat) :
    assocGet (c.map fun p => (Val.cls p.1, emb p.2)) (.cls t) = (cacheFind c t).map emb := by
  induction c with
  | nil => rfl
  | cons x rest ih =>
    by_cases h : x.1 = t
    · simp [assocGet, Val.same, cacheFind, List.find?, h]
    · have h' : (x.1 == t) = false := by simpa using h
      simp only [List.map_cons, assocGet, Val.same, h', cacheFind, List.find?] at ih ⊢
      simp [h, ih]

theorem assocSet_cacheOfE_new (emb : Nat → Val) (c : List (Nat × Nat)) (t : Nat) (v : Val) (h : cacheFind c t = none) :
    assocSet (c.map fun p => (Val.cls p.1, emb p.2)) (.cls t) v
      = (c.map fun p => (Val.cls p.1, emb p.2)) ++ [(.cls t, v)] := by
  induction c with
  | nil => rfl
  | cons x rest ih =>
    by_cases hx : x.1 = t
    · simp [cacheFind, List.find?, hx] at h
    · have h' : (x.1 == t) = false := by simpa using hx
      have hr : cacheFind rest t = none := by simpa [cacheFind, List.find?, hx] using h
      simp [assocSet, Val.same, h', ih hr]

theorem assocGet_cacheOf (c : List (Nat × Nat)) (t : Nat) :
    assocGet (c.map fun p => (Val.cls p.1, Val.obj p.2)) (.cls t) = (cacheFind c t).map .obj := by
  induction c with
  | nil => rfl
  | cons x rest ih =>
    by_cases h : x.1 = t
    · simp [assocGet, Val.same, cacheFind, List.find?, h]
    · have h' : (x.1 == t) = false := by simpa using h
      simp only [List.map_cons, assocGet, Val.same, h', cacheFind, List.find?] at ih ⊢
      simp [h, ih]

theorem assocSet_cacheOf_new (c : List (Nat × Nat)) (t v : Nat) (h : cacheFind c t = none) :
    assocSet (c.map fun p => (Val.cls p.1, Val.obj p.2)) (.cls t) (.obj v)
      = (c ++ [(t, v)]).map fun p => (Val.cls p.1, Val.obj p.2) := by
  induction c with
  | nil => rfl
  | cons x rest ih =>
    by_cases hx : x.1 = t
    · simp [cacheFind, List.find?, hx] at h
    · have h' : (x.1 == t) = false := by simpa using hx
      have hr : cacheFind rest t = none := by simpa [cacheFind, List.find?, hx] using h
      simp [assocSet, Val.same, h', ih hr]

def st (d : List Inst) (c : List (Nat × Nat)) (args : Nat → Val) (w : W) : St W :=
  { loc := args, fld := fun i => if i = 0 then dictOf d else if i = 1 then cacheOf c else .none, world := w }

/-- **`ScopeState.state(T, default)`** refines `Tasks.lookupObs` on a set variable: the instance stored under exactly `T`
if there is one – whatever default the caller passes and whatever is cached; else the caller's default; else the cached
default-constructed instance; else a newly constructed one, which is cached **in `_defaults` only**; else `MissingState`
(construction raising an `Exception`; anything else propagates).  `_state` is never written. -/
def StateLookup (p : Stmt) : Prop :=
  ∀ (emb : Nat → Val) (d : List Inst) (c : List (Nat × Nat)) (ty : Nat) (dflt : Option Nat) (w : W),
    let args : Nat → Val := fun i => if i = 0 then .cls ty else if i = 1 then (match dflt with | some x => .obj x | none => .none) else .none
    let s0 : St W := { loc := args, fld := fun i => if i = 0 then dictOfE emb d else if i = 1 then cacheOfE emb c else .none, world := w }
    let r := runMethod ext p s0
    r.2.fld 0 = dictOfE emb d ∧
    (match find d ty with
     | some i => r.1 = .ret (emb i.val) ∧ r.2.fld 1 = cacheOfE emb c
     | none => match dflt with
       | some x => r.1 = .ret (.obj x) ∧ r.2.fld 1 = cacheOfE emb c
       | none => match cacheFind c ty with
         | some v => r.1 = .ret (emb v) ∧ r.2.fld 1 = cacheOfE emb c
         | none =>
           if w.ctorOk then r.1 = .ret (.obj 500) ∧
               r.2.fld 1 = .dict ((c.map fun p => (Val.cls p.1, emb p.2)) ++ [(.cls ty, .obj 500)])
           else (if w.ctorFailsWithException then (∃ n, r.1 = .exc (.exc cMissingState n))
                 else r.1 = .exc (.exc cUserBase 1)) ∧ r.2.fld 1 = cacheOfE emb c)

/-- **`ScopeState.updated(xs)`** refines `ScopeState.updated`: with nothing to add the object itself is returned;
otherwise a new `ScopeState` is built from the current instances followed by the new ones, in that order
(`mk (s ++ xs)`: a later instance of a type replaces an earlier one). -/
def UpdatedRefines (p : Stmt) : Prop :=
  ∀ (d xs : List Inst) (c : List (Nat × Nat)) (w : W), w.built = none →
    let args : Nat → Val := fun _ => .list (xs.map instVal)
    let r := runMethod ext p (st d c args w)
    r.2.fld 0 = dictOf d ∧ r.2.fld 1 = cacheOf c ∧
    (if xs.isEmpty then r.1 = .ret (.obj 4242) ∧ r.2.world.built = none
     else r.1 = .ret (.obj 600) ∧ r.2.world.built = some (.list ((d ++ xs).map instVal)))

/-- **`StateContext.current(T, default)`** refines `Tasks.lookupObs`: `MissingContext` when the variable is unset,
otherwise exactly what `.state(T, default=default)` of the `ScopeState` in the variable does – same value or same
exception object – asked with exactly the caller's type and default. -/
def CurrentRefines (p : Stmt) : Prop :=
  ∀ (ty dflt : Val) (w : W),
    (∀ e, w.stateResult = .inr e → ∃ c n, e = .exc c n ∧ isSub c cLookupError = false) →   -- raises exceptions, no LookupError
    let args : Nat → Val := fun i => if i = 0 then ty else if i = 1 then dflt else .none
    let r := runMethod ext p ({ loc := args, fld := fun _ => .none, world := w } : St W)
    match w.var with
    | none => (∃ n, r.1 = .exc (.exc cMissingContext n)) ∧ r.2.world.asked = w.asked
    | some o => r.2.world.asked = some (o, ty, dflt) ∧
        (match w.stateResult with
         | .inl v => r.1 = .ret v
         | .inr e => r.1 = .exc e)

/-- **`StateContext.updated(xs)`** refines `Tasks.enterState`: inside a context the new block's state is
`current.updated(xs)`, outside any context `ScopeState(xs)`; the result wraps exactly that. -/
def ContextUpdatedRefines (p : Stmt) : Prop :=
  ∀ (xs : Val) (w : W), w.built = none → w.updatedWith = none →
    let args : Nat → Val := fun _ => xs
    let r := runMethod ext p ({ loc := args, fld := fun _ => .none, world := w } : St W)
    r.1 = .ret (.obj 602) ∧
    match w.var with
    | some o => r.2.world.updatedWith = some (o, xs) ∧ r.2.world.wrapped = some (.obj 601) ∧ r.2.world.built = none
    | none => r.2.world.built = some xs ∧ r.2.world.wrapped = some (.obj 600) ∧ r.2.world.updatedWith = none

macro "ss_eval" : tactic => `(tactic|
  (simp (config := { decide := true }) [runMethod, exec, exec.execH, eval, builtin, ext, st, dictOf, cacheOf, upd, Val.same,
     Val.truthy, excClass, isSub, assocGet_dictOf, assocGet_cacheOf, instVal, dictOfE, cacheOfE, assocGet_dictOfE,
     assocGet_cacheOfE, *]))

/-- the same without unfolding `isSub` (for obligations in which an exception class stays symbolic) -/
macro "ss_eval'" : tactic => `(tactic|
  (simp (config := { decide := true }) [runMethod, exec, exec.execH, eval, builtin, ext, st, dictOf, cacheOf, upd, Val.same,
     Val.truthy, excClass, assocGet_dictOf, assocGet_cacheOf, instVal, *]))

end Haiway.Bridge.ScopeState
