import Haiway.Bridge.ScopeState
import Haiway.Props.C01
/-! C01's nesting law, stated of the **regenerated `ScopeState.updated` and `ScopeState.state` themselves**: whatever `MiniPy`
    terms satisfy `UpdatedRefines` / `StateLookup` (the terms translated from /repo's `context/state.py` are re-checked to on
    every run) behave, over a whole **stack of frames** entered one inside the other, as C01 asks: the chain of `updated`
    calls hands the `ScopeState` constructor exactly the lists whose dict is `stateOf frames`, and a lookup on that dict
    returns the last instance of the type in the innermost frame supplying it – whatever default the caller passes and
    whatever is cached –, else the explicit default, else the cached / a newly constructed default instance, else
    `MissingState`; the supplied instances are never written.

    The constructor itself (`{type(e): e for e in state}`) is regenerated separately (`Bridge/ScopeStateInit.lean`: the dict
    comprehension rewritten by its definition; `InitBuilds` / `ClosesChain` – its effect is `ScopeState.mk`), which is what
    `chain` says in its type. -/
namespace Haiway.Bridge.ScopeState
open Haiway.MiniPy
open Haiway.ScopeState (Inst find mk stateOf lastOf)

/-- what `self.updated(xs)` of the term hands on, run on the object whose `_state` is the image of `d`: `none` = it
returned `self`, `some L` = it returned the object the constructor built from the list `L` -/
def handsOver (pU : Stmt) (w : W) (d xs : List Inst) : Out × Option Val :=
  let r := runMethod ext pU (st d [] (fun _ => .list (xs.map instVal)) { w with built := none })
  (r.1, r.2.world.built)

/-- the chain of `updated` calls for a stack of frames: every level hands the constructor the current instances followed by
the frame's own (or returns `self` for an empty frame), where "current" is the dict the constructor made of the previous
list (`mk`) -/
def chain (pU : Stmt) (w : W) : List Inst → List (List Inst) → Prop
  | _, [] => True
  | d, xs :: rest =>
    (if xs.isEmpty then handsOver pU w d xs = (.ret (.obj 4242), none)
     else handsOver pU w d xs = (.ret (.obj 600), some (.list ((d ++ xs).map instVal)))) ∧
    chain pU w (Haiway.ScopeState.updated d xs) rest

theorem chain_of_refines {pU : Stmt} (h : UpdatedRefines pU) (w : W) :
    ∀ (frames : List (List Inst)) (d : List Inst), chain pU w d frames
  | [], _ => trivial
  | xs :: rest, d => by
    refine ⟨?_, chain_of_refines h w rest _⟩
    have h0 := h d xs [] { w with built := none } rfl
    simp only at h0
    unfold handsOver
    by_cases he : xs.isEmpty
    · simp only [he, ↓reduceIte] at h0 ⊢
      exact Prod.ext h0.2.2.1 h0.2.2.2
    · simp only [he, Bool.false_eq_true, ↓reduceIte] at h0 ⊢
      exact Prod.ext h0.2.2.1 h0.2.2.2

/-- the lookup term on the state of a frame stack -/
def lookupOn (pS : Stmt) (emb : Nat → Val) (w : W) (frames : List (List Inst)) (c : List (Nat × Nat)) (ty : Nat)
    (dflt : Option Nat) : Out × St W :=
  runMethod ext pS
    { loc := fun i => if i = 0 then .cls ty else if i = 1 then (match dflt with | some x => .obj x | none => .none) else .none,
      fld := fun i => if i = 0 then dictOfE emb (stateOf frames) else if i = 1 then cacheOfE emb c else .none, world := w }

structure NestingProps (pU pS : Stmt) : Prop where
  /-- every level of a frame stack hands the constructor the right list -/
  chain : ∀ (w : W) (frames : List (List Inst)), chain pU w [] frames
  /-- C01 `lookup_innermost` / `supplied_wins`: the last instance of the type in the innermost frame supplying it, whatever
  default is passed and whatever is cached; nothing is written -/
  innermost : ∀ (emb : Nat → Val) (w : W) (frames : List (List Inst)) (c : List (Nat × Nat)) (ty : Nat) (dflt : Option Nat)
    (i : Inst), frames.reverse.findSome? (fun f => lastOf f ty) = some i →
    (lookupOn pS emb w frames c ty dflt).1 = .ret (emb i.val) ∧
    (lookupOn pS emb w frames c ty dflt).2.fld 0 = dictOfE emb (stateOf frames) ∧
    (lookupOn pS emb w frames c ty dflt).2.fld 1 = cacheOfE emb c
  /-- C01 `fallback_order`: no frame supplies the type ⇒ the explicit default, else the cached default instance, else a
  newly constructed one (cached), else `MissingState`; the supplied instances are never written -/
  fallback : ∀ (emb : Nat → Val) (w : W) (frames : List (List Inst)) (c : List (Nat × Nat)) (ty : Nat) (dflt : Option Nat),
    frames.reverse.findSome? (fun f => lastOf f ty) = none →
    (lookupOn pS emb w frames c ty dflt).2.fld 0 = dictOfE emb (stateOf frames) ∧
    (match dflt with
     | some x => (lookupOn pS emb w frames c ty dflt).1 = .ret (.obj x)
     | none => match cacheFind c ty with
       | some v => (lookupOn pS emb w frames c ty dflt).1 = .ret (emb v)
       | none =>
         if w.ctorOk then (lookupOn pS emb w frames c ty dflt).1 = .ret (.obj 500)
         else if w.ctorFailsWithException then ∃ n, (lookupOn pS emb w frames c ty dflt).1 = .exc (.exc cMissingState n)
         else (lookupOn pS emb w frames c ty dflt).1 = .exc (.exc cUserBase 1))

theorem nestingProps_of_refines {pU pS : Stmt} (hU : UpdatedRefines pU) (hS : StateLookup pS) : NestingProps pU pS where
  chain := fun w frames => chain_of_refines hU w frames []
  innermost := by
    intro emb w frames c ty dflt i hi
    have h0 := hS emb (stateOf frames) c ty dflt w
    simp only at h0
    rw [C01.algebra frames ty, hi] at h0
    exact ⟨h0.2.1, h0.1, h0.2.2⟩
  fallback := by
    intro emb w frames c ty dflt hn
    have h0 := hS emb (stateOf frames) c ty dflt w
    simp only at h0
    rw [C01.algebra frames ty, hn] at h0
    refine ⟨h0.1, ?_⟩
    cases dflt with
    | some x => exact h0.2.1
    | none =>
      simp only at h0 ⊢
      cases hc : cacheFind c ty with
      | some v => rw [hc] at h0; exact h0.2.1
      | none =>
        rw [hc] at h0
        simp only at h0 ⊢
        by_cases hk : w.ctorOk = true
        · simp only [hk, ↓reduceIte] at h0 ⊢; exact h0.2.1
        · simp only [hk, Bool.false_eq_true, ↓reduceIte] at h0 ⊢
          by_cases hx : w.ctorFailsWithException = true
          · simp only [hx, ↓reduceIte] at h0 ⊢; exact h0.2.1
          · simp only [hx, Bool.false_eq_true, ↓reduceIte] at h0 ⊢; exact h0.2.1

/-- not vacuous: two nested frames, the inner one re-supplies type 1 -/
example : [[(⟨1, 10⟩ : Inst), ⟨2, 20⟩], [⟨1, 11⟩]].reverse.findSome? (fun f => lastOf f 1) = some ⟨1, 11⟩ := by decide

end Haiway.Bridge.ScopeState
