import Haiway.Model.MiniPy
import Haiway.Bridge.ScopeState
import Haiway.Proofs.ScopeState
/-! Bridge for `ScopeState.__init__` (C01: "a later instance of a type replaces an earlier one", the one step of the nesting
    chain that `Bridge/ScopeStateEndToEnd.lean` used to *assume* – `mk`), regenerated from /repo's `context/state.py`.

    The constructor is `self._state = {type(element): element for element in state}; self._defaults = {}; freeze(self)`.
    The translator rewrites the dict comprehension by its definition (`$dc = {}` / `for element in state: $dc[type(element)] =
    element` / `self._state = $dc`; shape checked syntactically, the comprehension variable must be used nowhere else) and
    hands over the pieces `<pre>; for …: <body>; <post>` and the whole.  `PartsOK` (`PreOK`, `StepOK`, `PostOK`; the two stores may come in either order) is discharged by
    evaluating the interpreter on the pieces; `init_of_parts` (committed, induction over the supplied instances) gives: for
    **every** list of instances – any length, repeated types, in any order – the object ends with `_state` = the image of
    `ScopeState.mk` of that list (`foldl insert []`: the last instance of a type wins, at the position of the type's first
    occurrence), `_defaults` empty, `freeze(self)` called exactly once and after both stores, nothing raised.

    `type(x)` is an external (125) answering from `tyOf`; `freeze` is external 126 with a log. -/
namespace Haiway.Bridge.ScopeStateInit
open Haiway.MiniPy
open Haiway.ScopeState (Inst insert mk)
open Haiway.Bridge.ScopeState (dictOf instVal)

structure W where
  tyOf : Nat → Nat                      -- the class of the instance object `n`
  frozen : List (Val × Val × Val) := [] -- per `freeze(x)` call: (x, `_state` at that moment, `_defaults` at that moment)

def ext : World W := fun f args w fl =>
  match f, args with
  | 125, [.obj n] => some (.inl (.cls (w.tyOf n)), w, fl)
  | 126, [x] => some (.inl .none, { w with frozen := w.frozen ++ [(x, fl 0, fl 1)] }, fl)
  | _, _ => none

def inst (w : W) (n : Nat) : Inst := ⟨w.tyOf n, n⟩

theorem assocSet_insert (d : List Inst) (x : Inst) :
    assocSet (d.map fun i => (Val.cls i.ty, Val.obj i.val)) (.cls x.ty) (.obj x.val)
      = (insert d x).map fun i => (Val.cls i.ty, Val.obj i.val) := by
  induction d with
  | nil => rfl
  | cons y ys ih =>
    by_cases h : y.ty = x.ty
    · simp [assocSet, Val.same, Haiway.ScopeState.insert, h]
    · have h' : (y.ty == x.ty) = false := by simpa using h
      simp [assocSet, Val.same, Haiway.ScopeState.insert, h, h', ih]

theorem assocSet_insert' (d : List Inst) (t v : Nat) :
    assocSet (d.map fun i => (Val.cls i.ty, Val.obj i.val)) (.cls t) (.obj v)
      = (insert d ⟨t, v⟩).map fun i => (Val.cls i.ty, Val.obj i.val) := assocSet_insert d ⟨t, v⟩

/-- before the loop: the accumulator (local `ld`) is the empty dict; the argument and the world are untouched; the fields
are untouched too (`b = false`) or `_defaults` has already been given its empty dict here (`b = true`: the two stores of the
constructor may come in either order around the comprehension) -/
def PreOK (pre : Stmt) (ld : Nat) (b : Bool) : Prop :=
  ∀ (st : St W), let r := exec ext pre st
    r.1 = .normal ∧ r.2.loc ld = .dict [] ∧ r.2.loc 0 = st.loc 0 ∧ r.2.world = st.world ∧
    (if b then r.2.fld 1 = .dict [] else True)

/-- one supplied instance (in local `lv`): stored in the accumulator under **its class**, replacing what was there -/
def StepOK (body : Stmt) (ld lv : Nat) : Prop :=
  ∀ (d : List Inst) (n : Nat) (st : St W), st.loc ld = dictOf d → st.loc lv = .obj n →
    let r := exec ext body st
    r.1 = .normal ∧ r.2.loc ld = dictOf (insert d (inst st.world n)) ∧ r.2.fld = st.fld ∧ r.2.world = st.world

/-- after the loop: the accumulator becomes `_state`, `_defaults` is a fresh empty dict (stored here, or – `b = true` –
already before the loop), the object is frozen once, last -/
def PostOK (post : Stmt) (ld : Nat) (b : Bool) : Prop :=
  ∀ (v : Val) (st : St W), st.loc ld = v → (b = true → st.fld 1 = .dict []) →
    let r := exec ext post st
    r.1 = .normal ∧ r.2.fld 0 = v ∧ r.2.fld 1 = .dict [] ∧
    r.2.world = { st.world with frozen := st.world.frozen ++ [(.obj 4242, v, .dict [])] }

/-- the three pieces fit together (one order of the stores or the other) -/
def PartsOK (pre body post : Stmt) (ld lv : Nat) : Prop :=
  ∃ b : Bool, PreOK pre ld b ∧ StepOK body ld lv ∧ PostOK post ld b

def IterOK (it : Expr) : Prop := ∀ (st : St W), eval ext it st = .ok (st.loc 0) st

/-- **`ScopeState(xs)`** is `ScopeState.mk xs` -/
def InitBuilds (p : Stmt) : Prop :=
  ∀ (ns : List Nat) (w : W) (loc fld : Nat → Val), loc 0 = .list (ns.map .obj) → w.frozen = [] →
    let r := runMethod ext p ({ loc := loc, fld := fld, world := w } : St W)
    r.1 = .ret .none ∧ r.2.fld 0 = dictOf (mk (ns.map (inst w))) ∧ r.2.fld 1 = .dict [] ∧
    r.2.world.frozen = [(.obj 4242, dictOf (mk (ns.map (inst w))), .dict [])] ∧ r.2.world.tyOf = w.tyOf

theorem loop_builds {body : Stmt} {ld lv : Nat} (hb : StepOK body ld lv) (hne : ld ≠ lv) :
    ∀ (ns : List Nat) (d : List Inst) (st : St W), st.loc ld = dictOf d →
      ∃ s1 : St W,
        iterList (fun x s => exec ext body { s with loc := upd s.loc lv x }) (ns.map .obj) st = (.normal, s1) ∧
        s1.loc ld = dictOf ((ns.map (inst st.world)).foldl insert d) ∧ s1.fld = st.fld ∧ s1.world = st.world
  | [], d, st, hd => ⟨st, rfl, by simpa using hd, rfl, rfl⟩
  | n :: rest, d, st, hd => by
    have h1 := hb d n { st with loc := upd st.loc lv (.obj n) } (by simp [upd, hne, hd]) (by simp [upd])
    simp only at h1
    generalize hG : exec ext body { st with loc := upd st.loc lv (.obj n) } = G at h1
    obtain ⟨o1, s2⟩ := G
    obtain ⟨ho, hl, hf, hw⟩ := h1
    simp only at ho hl hf hw
    subst ho
    obtain ⟨s1, hrun, hl1, hf1, hw1⟩ := loop_builds hb hne rest (insert d (inst st.world n)) s2 hl
    refine ⟨s1, ?_, ?_, ?_, ?_⟩
    · simp only [List.map_cons, iterList, hG]; exact hrun
    · rw [hl1, hw]; simp
    · rw [hf1, hf]
    · rw [hw1, hw]

/-- the constructor from its pieces -/
theorem init_of_parts {whole pre body post : Stmt} {it : Expr} {ld lv : Nat}
    (hshape : whole = .seq pre (.seq (.forEach lv it body) post))
    (hparts : PartsOK pre body post ld lv) (hit : IterOK it) (hne : ld ≠ lv) :
    InitBuilds whole := by
  obtain ⟨b, hpre, hb, hpost⟩ := hparts
  intro ns w loc fld h0 hfz
  subst hshape
  have hp := hpre ({ loc := loc, fld := fld, world := w } : St W)
  simp only at hp
  generalize hG : exec ext pre ({ loc := loc, fld := fld, world := w } : St W) = G at hp
  obtain ⟨o0, s0⟩ := G
  obtain ⟨ho, hld, hl0, hw0, hf0⟩ := hp
  simp only at ho hld hl0 hw0 hf0
  subst ho
  have hi := hit s0
  obtain ⟨s1, hrun, hl1, hf1, hw1⟩ := loop_builds hb hne ns [] s0 (by simpa [dictOf] using hld)
  have hq := hpost (s1.loc ld) s1 rfl (by
    intro hbt
    rw [hf1]
    simpa [hbt] using hf0)
  simp only at hq
  generalize hQ : exec ext post s1 = Q at hq
  obtain ⟨o2, s2⟩ := Q
  obtain ⟨ho2, hs0, hs1, hw2⟩ := hq
  simp only at ho2 hs0 hs1 hw2
  subst ho2
  have hwhole : exec ext (.seq pre (.seq (.forEach lv it body) post)) ({ loc := loc, fld := fld, world := w } : St W)
      = (.normal, s2) := by
    simp only [exec, hG, hi, hl0, h0, hrun, hQ]
  simp only [runMethod, hwhole]
  have hmk : (ns.map (inst s0.world)).foldl insert [] = mk (ns.map (inst w)) := by rw [hw0]; rfl
  refine ⟨trivial, ?_, hs1, ?_, ?_⟩
  · rw [hs0, hl1, hmk]
  · rw [hw2, hw1, hw0, hl1, hmk]; simp [hfz]
  · rw [hw2, hw1, hw0]

/-- the step `Bridge/ScopeStateEndToEnd.chain` assumed: the constructor run on the list `ScopeState.updated` hands over
(`(d ++ xs).map instVal`, every instance of the class it is stored under) leaves `_state` = the image of `mk` of that list -/
def ClosesChain (p : Stmt) : Prop :=
  ∀ (L : List Inst) (w : W) (loc fld : Nat → Val), (∀ i ∈ L, w.tyOf i.val = i.ty) → loc 0 = .list (L.map instVal) →
    w.frozen = [] →
    let r := runMethod ext p ({ loc := loc, fld := fld, world := w } : St W)
    r.1 = .ret .none ∧ r.2.fld 0 = dictOf (mk L) ∧ r.2.fld 1 = .dict []

theorem closesChain_of_builds {p : Stmt} (h : InitBuilds p) : ClosesChain p := by
  intro L w loc fld hty h0 hfz
  have hL : (L.map (·.val)).map (inst w) = L := by
    rw [List.map_map]
    conv => rhs; rw [← List.map_id L]
    apply List.map_congr_left
    intro i hi
    simp only [Function.comp, inst, hty i hi, id]
  have h1 := h (L.map (·.val)) w loc fld (by rw [h0, List.map_map]; rfl) hfz
  simp only [hL] at h1
  exact ⟨h1.1, h1.2.1, h1.2.2.1⟩

/-- C01's "a later instance of a type replaces an earlier one", of the regenerated constructor: after `ScopeState(L)` the entry
of `_state` under the class `t` is the **last** instance of `t` in `L` (none if `L` has none) -/
def LastWins (p : Stmt) : Prop :=
  ∀ (L : List Inst) (w : W) (loc fld : Nat → Val) (t : Nat), (∀ i ∈ L, w.tyOf i.val = i.ty) →
    loc 0 = .list (L.map instVal) → w.frozen = [] →
    ∃ kv, (runMethod ext p ({ loc := loc, fld := fld, world := w } : St W)).2.fld 0 = .dict kv ∧
      assocGet kv (.cls t) = (Haiway.ScopeState.lastOf L t).map instVal

theorem lastWins_of_builds {p : Stmt} (h : InitBuilds p) : LastWins p := by
  intro L w loc fld t hty h0 hfz
  have h1 := (closesChain_of_builds h L w loc fld hty h0 hfz).2.1
  refine ⟨_, h1, ?_⟩
  rw [Haiway.Bridge.ScopeState.assocGet_dictOf, Haiway.ScopeState.find_mk]

macro "ssinit_eval" : tactic => `(tactic|
  (simp (config := { decide := true }) [exec, exec.execH, eval, builtin, ext, upd, dictOf, inst, assocSet_insert', *]))

/-- the specification is not trivial: three instances, two of one class – the later one wins, at the first one's position -/
example : mk [⟨7, 1⟩, ⟨8, 2⟩, ⟨7, 3⟩] = [⟨7, 3⟩, ⟨8, 2⟩] := by decide

end Haiway.Bridge.ScopeStateInit
