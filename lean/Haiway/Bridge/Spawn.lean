import Haiway.Model.MiniPy
/-! Bridge between the regenerated `MiniPy` term of `TaskGroupContext.run` (= `ctx.spawn`; translated from /repo's current
    `context/tasks.py` on every run) and what the `Groups` model of C06/C07 takes a spawn to be:

    * with a task group in the context (`ctxGroup = some g`) the task is created **in that group**, exactly once, from the
      coroutine the callable returned; if the group refuses (`RuntimeError`: finished / shutting down) the refusal reaches
      the caller **as that object** and nothing is started anywhere (label `spawnfail`); whatever the callable itself raises
      reaches the caller as that object and nothing is started;
    * without one (`LookupError` from the context variable – and only then) the task is created on the event loop, detached
      (`C06.no_scope_detached`);
    * either way the new task gets a **fresh snapshot** of the spawner's context (`copy_context()` called once, at the spawn, and
      handed over as `context=`): what C03's model takes task creation to be. -/
namespace Haiway.Bridge.Spawn
open Haiway.MiniPy

structure W where
  var : Option Val                  -- the task-group variable as seen from the current context
  callOut : Val ⊕ Val               -- what calling `function(*args, **kwargs)` does: a coroutine, or a raised exception
  groupRefuses : Bool               -- `TaskGroup.create_task` raises RuntimeError
  calls : Nat := 0                  -- times the callable was called
  inGroup : List (Val × Val) := []  -- (group, coroutine) of tasks created through a group
  onLoop : List Val := []           -- coroutines of tasks created on the event loop
  copies : Nat := 0                 -- `copy_context()` calls so far
  ctxArgs : List Val := []          -- the `context=` argument of every task created

abbrev theLoop : Val := .obj 1

/-- externals: 102 `cls._context.get()`  160 `<group | loop>.create_task(coro, context=…)`  161 `function(*args, **kwargs)`
162 `get_event_loop()`  163 `copy_context()` -/
def ext : World W := fun f args w fl =>
  (fun (r : Option ((Val ⊕ Val) × W)) => r.map fun (x, w') => (x, w', fl)) <|
  match f, args with
  | 102, [] => (match w.var with
      | some v => some (.inl v, w)
      | none => some (.inr (.exc cLookupError 0), w))
  | 160, [recv, coro, c] =>
      if recv.same theLoop then some (.inl (.obj 51), { w with onLoop := w.onLoop ++ [coro], ctxArgs := w.ctxArgs ++ [c] })
      else if w.groupRefuses then some (.inr (.exc cRuntimeError 77), w)
      else some (.inl (.obj 50), { w with inGroup := w.inGroup ++ [(recv, coro)], ctxArgs := w.ctxArgs ++ [c] })
  | 161, _ => some (w.callOut, { w with calls := w.calls + 1 })
  | 162, [] => some (.inl theLoop, w)
  | 163, [] => some (.inl (.obj (200 + w.copies)), { w with copies := w.copies + 1 })   -- a fresh snapshot every time
  | _, _ => none

/-- **`ctx.spawn`**: see the header. -/
def RunSpawns (p : Stmt) : Prop :=
  ∀ (args : Nat → Val) (w : W), w.calls = 0 → w.inGroup = [] → w.onLoop = [] →
    (∀ e, w.callOut = .inr e → ∃ c n, e = .exc c n) →
    (∀ g, w.var = some g → ∃ n, g = .obj (n + 2)) →      -- a task group is an object other than the loop
    w.ctxArgs = [] →
    let r := runMethod ext p ({ loc := args, fld := fun _ => .none, world := w } : St W)
    match w.var with
    | some g =>
      r.2.world.onLoop = [] ∧ r.2.world.calls = 1 ∧
      (match w.callOut with
       | .inr e => r.1 = .exc e ∧ r.2.world.inGroup = []
       | .inl coro =>
         if w.groupRefuses then r.1 = .exc (.exc cRuntimeError 77) ∧ r.2.world.inGroup = []
         else r.1 = .ret (.obj 50) ∧ r.2.world.inGroup = [(g, coro)] ∧
              -- the task runs in a snapshot of the spawner's context taken **now** (a fresh `copy_context()` for this task)
              r.2.world.ctxArgs = [.obj (200 + w.copies)] ∧ r.2.world.copies = w.copies + 1)
    | none =>
      r.2.world.inGroup = [] ∧ r.2.world.calls = 1 ∧
      (match w.callOut with
       | .inr e => r.1 = .exc e ∧ r.2.world.onLoop = []
       | .inl coro => r.1 = .ret (.obj 51) ∧ r.2.world.onLoop = [coro] ∧
                      r.2.world.ctxArgs = [.obj (200 + w.copies)] ∧ r.2.world.copies = w.copies + 1)

macro "spawn_eval" : tactic => `(tactic|
  (simp (config := { decide := true }) [runMethod, exec, exec.execH, eval, builtin, ext, upd, Val.same, Val.truthy,
     excClass, isSub, theLoop, *]))

end Haiway.Bridge.Spawn
