import Haiway.Model.MiniPy
/-! Bridge for `State.__init__` (C05 "each supplied or defaulted value … stored faithfully"), regenerated from /repo's
    `state/structure.py`: the constructor is one `for` loop over the declared attributes.  The translator hands over the loop
    body and the whole (`for name, attribute in self.__ATTRIBUTES__.items(): …`, shape checked syntactically); `StepOK` is
    discharged by evaluating the interpreter on the body, `init_of_step` (committed, by induction over the attributes) gives:
    for **every** declaration list, every keyword dict and whatever the attributes' validation does, the attributes are
    visited in declaration order; each one's `validated` is called exactly once, with the keyword argument of that name or
    – when there is none – with `MISSING`; its result is stored under that name with `object.__setattr__`, once; the first
    validation error propagates as that object, nothing after it is validated or stored; nothing else is stored. -/
namespace Haiway.Bridge.StateInit
open Haiway.MiniPy

inductive Ev where
  | validated (attr x : Val)
  | set (name v : Val)

structure W where
  attrs : List (Val × Val)               -- `self.__ATTRIBUTES__.items()`: (name, attribute), declaration order
  validate : Val → Val → Val ⊕ Val       -- `attribute.validated(x)`: the stored value, or the exception raised
  log : List Ev := []

abbrev theMissing : Val := .obj 900

/-- externals: 230 `self.__ATTRIBUTES__.items()`  231 `<attribute>.validated(x)`  232 `object.__setattr__(self, name, v)` -/
def ext : World W := fun f args w fl =>
  (fun (r : Option ((Val ⊕ Val) × W)) => r.map fun (x, w') => (x, w', fl)) <|
  match f, args with
  | 230, [] => some (.inl (.list (w.attrs.map fun p => .list [p.1, p.2])), w)
  | 231, [a, x] => some (w.validate a x, { w with log := w.log ++ [.validated a x] })
  | 232, [n, v] => some (.inl .none, { w with log := w.log ++ [.set n v] })
  | _, _ => none

/-- what the constructor has to do -/
def initSpec (validate : Val → Val → Val ⊕ Val) (kw : List (Val × Val)) : List (Val × Val) → List Ev × Option Val
  | [] => ([], none)
  | (n, a) :: rest =>
    match validate a ((assocGet kw n).getD theMissing) with
    | .inl v => (.validated a ((assocGet kw n).getD theMissing) :: .set n v :: (initSpec validate kw rest).1,
                 (initSpec validate kw rest).2)
    | .inr e => ([.validated a ((assocGet kw n).getD theMissing)], some e)

/-- the loop body on one declared attribute (the pair is in local `lt`; the keyword dict is local 0) -/
def StepOK (body : Stmt) (lt : Nat) : Prop :=
  ∀ (kw : List (Val × Val)) (n a : Val) (st : St W), st.loc 0 = .dict kw → st.loc lt = .list [n, a] →
    let x := (assocGet kw n).getD theMissing
    let r := exec ext body st
    r.2.loc 0 = .dict kw ∧
    (match st.world.validate a x with
     | .inl v => r.1 = .normal ∧ r.2.world = { st.world with log := st.world.log ++ [.validated a x, .set n v] }
     | .inr e => r.1 = .exc e ∧ r.2.world = { st.world with log := st.world.log ++ [.validated a x] })

def IterOK (it : Expr) : Prop :=
  ∀ (st : St W), eval ext it st = .ok (.list (st.world.attrs.map fun p => .list [p.1, p.2])) st

def InitRefines (p : Stmt) : Prop :=
  ∀ (kw : List (Val × Val)) (w : W) (loc fld : Nat → Val), loc 0 = .dict kw → w.log = [] →
    let r := runMethod ext p ({ loc := loc, fld := fld, world := w } : St W)
    r.2.world.log = (initSpec w.validate kw w.attrs).1 ∧
    r.1 = (match (initSpec w.validate kw w.attrs).2 with | none => .ret .none | some e => .exc e)

theorem loop_refines {body : Stmt} {lt : Nat} (hb : StepOK body lt) (h0 : lt ≠ 0) (kw : List (Val × Val)) :
    ∀ (attrs : List (Val × Val)) (st : St W), st.loc 0 = .dict kw →
      ∃ (o : Out) (s1 : St W),
        iterList (fun x s => exec ext body { s with loc := upd s.loc lt x }) (attrs.map fun p => .list [p.1, p.2]) st = (o, s1) ∧
        s1.world = { st.world with log := st.world.log ++ (initSpec st.world.validate kw attrs).1 } ∧
        o = (match (initSpec st.world.validate kw attrs).2 with | none => .normal | some e => .exc e)
  | [], st, _ => ⟨.normal, st, rfl, by simp [initSpec], rfl⟩
  | (n, a) :: rest, st, hk => by
    have h1 := hb kw n a { st with loc := upd st.loc lt (.list [n, a]) } (by simp [upd, h0.symm, hk]) (by simp [upd])
    simp only at h1
    obtain ⟨hl, hres⟩ := h1
    generalize hG : exec ext body { st with loc := upd st.loc lt (.list [n, a]) } = G at hl hres
    obtain ⟨o1, s2⟩ := G
    simp only at hl hres
    cases hv : st.world.validate a ((assocGet kw n).getD theMissing) with
    | inr e =>
      rw [hv] at hres
      obtain ⟨ho, hw⟩ := hres
      subst ho
      refine ⟨.exc e, s2, ?_, ?_, ?_⟩
      · simp only [List.map_cons, iterList, hG]
      · rw [hw]; simp [initSpec, hv]
      · simp [initSpec, hv]
    | inl v =>
      rw [hv] at hres
      obtain ⟨ho, hw⟩ := hres
      subst ho
      have hval : s2.world.validate = st.world.validate := by rw [hw]
      obtain ⟨o, s1, hrun, hw1, hr1⟩ := loop_refines hb h0 kw rest s2 hl
      rw [hval] at hw1 hr1
      refine ⟨o, s1, ?_, ?_, ?_⟩
      · simp only [List.map_cons, iterList, hG]; exact hrun
      · rw [hw1, hw]; simp [initSpec, hv]
      · simp only [initSpec, hv]; exact hr1

/-- the constructor from its loop body -/
theorem init_of_step {whole body : Stmt} {it : Expr} {lt : Nat}
    (hshape : whole = .seq .pass (.seq (.forEach lt it body) .pass))
    (hit : IterOK it) (hb : StepOK body lt) (h0 : lt ≠ 0) : InitRefines whole := by
  intro kw w loc fld hk hlog
  subst hshape
  obtain ⟨o, s1, hrun, hw1, hr1⟩ := loop_refines hb h0 kw w.attrs ({ loc := loc, fld := fld, world := w } : St W) hk
  simp only at hrun hw1 hr1
  have hi := hit ({ loc := loc, fld := fld, world := w } : St W)
  simp only at hi
  cases hs : (initSpec w.validate kw w.attrs).2 with
  | none =>
    rw [hs] at hr1
    dsimp only at hr1
    subst hr1
    have hwhole : exec ext (.seq .pass (.seq (.forEach lt it body) .pass)) ({ loc := loc, fld := fld, world := w } : St W)
        = (.normal, s1) := by
      simp only [exec, hi, hrun]
    simp only [runMethod, hwhole]
    exact ⟨by rw [hw1]; simp [hlog], by trivial⟩
  | some e =>
    rw [hs] at hr1
    dsimp only at hr1
    subst hr1
    have hwhole : exec ext (.seq .pass (.seq (.forEach lt it body) .pass)) ({ loc := loc, fld := fld, world := w } : St W)
        = (.exc e, s1) := by
      simp only [exec, hi, hrun]
    simp only [runMethod, hwhole]
    exact ⟨by rw [hw1]; simp [hlog], by trivial⟩

macro "stateinit_eval" : tactic => `(tactic|
  (simp (config := { decide := true }) [exec, exec.execH, eval, builtin, ext, upd, excClass, *]))

/-- the specification is not trivial: two attributes, the second one's validation fails -/
example : initSpec (fun a x => if a.same (.obj 2) then .inr (.exc cTypeError 1) else .inl x)
    [(.str 1, .int 5)] [(.str 1, .obj 1), (.str 2, .obj 2)]
    = ([.validated (.obj 1) (.int 5), .set (.str 1) (.int 5), .validated (.obj 2) theMissing], some (.exc cTypeError 1)) := by
  simp [initSpec, assocGet, Val.same]

end Haiway.Bridge.StateInit
