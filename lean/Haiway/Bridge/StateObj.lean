import Haiway.Model.MiniPy
/-! Bridge between the regenerated `MiniPy` terms of the small methods of `State` / `StateAttribute` (translated from /repo's
    `state/structure.py` on every run) and what the models of C04 / C05 take them to be:

    * `State.__setattr__`, `State.__delattr__` refuse with `AttributeError` whatever the name and value (`StateObj`: assignment and
      deletion leave the instance unchanged and raise);
    * `State.__copy__`, `State.__deepcopy__` return the instance itself (`copy_is_self`);
    * `StateAttribute.validated(value)`: the validator is applied **exactly once**, to the declared default when (and only when) the
      argument *is* `MISSING` – identity, not equality or truthiness – and to the argument itself otherwise; its result is the
      attribute's value, its exception reaches the constructor's caller as that object (C05 "each supplied or defaulted value"). -/
namespace Haiway.Bridge.StateObj
open Haiway.MiniPy

structure W where
  validator : Val → Val ⊕ Val        -- what the attribute's validator does with a value
  calls : List Val := []             -- the values it was applied to

abbrev theMissing : Val := .obj 900

/-- externals: 210 `self.validator(x)` -/
def ext : World W := fun f args w fl =>
  (fun (r : Option ((Val ⊕ Val) × W)) => r.map fun (x, w') => (x, w', fl)) <|
  match f, args with
  | 210, [x] => some (w.validator x, { w with calls := w.calls ++ [x] })
  | _, _ => none

def Refuses (p : Stmt) : Prop :=
  ∀ (args fld : Nat → Val) (w : W),
    let r := runMethod ext p ({ loc := args, fld := fld, world := w } : St W)
    (∃ n, r.1 = .exc (.exc cAttributeError n)) ∧ r.2.world.calls = w.calls ∧ ∀ i, r.2.fld i = fld i

def ReturnsSelf (p : Stmt) : Prop :=
  ∀ (args fld : Nat → Val) (w : W),
    let r := runMethod ext p ({ loc := args, fld := fld, world := w } : St W)
    r.1 = .ret (.obj 4242) ∧ r.2.world.calls = w.calls ∧ ∀ i, r.2.fld i = fld i

/-- fields: 1 `default` -/
def Validated (p : Stmt) : Prop :=
  ∀ (v dflt : Val) (validator : Val → Val ⊕ Val),
    let r := runMethod ext p ({ loc := fun _ => v, fld := fun _ => dflt, world := { validator := validator } } : St W)
    let x := if v.same theMissing then dflt else v
    r.1 = (match validator x with | .inl y => .ret y | .inr e => .exc e) ∧ r.2.world.calls = [x]

macro "stateobj_eval" : tactic => `(tactic|
  (simp (config := { decide := true }) [runMethod, exec, exec.execH, eval, builtin, ext, upd, Val.truthy, excClass, theMissing, *]))

end Haiway.Bridge.StateObj
