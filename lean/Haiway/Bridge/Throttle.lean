import Haiway.Model.MiniPy
import Haiway.Model.Throttle
/-! Bridge between the regenerated `MiniPy` pieces of `_AsyncThrottle.__call__` (translated from /repo's
    `helpers/throttling.py` on every run) and `Throttle.process` of C15.

    The method has the shape (checked syntactically by the translator, which hands over the five pieces)

    ```
    async with self._lock:            -- externals 200 / 201
        <pre>                         -- time_now = monotonic()
        while <test>: <body>          -- step := (body if test else break)
        <post>                        -- wait if the window is full, record the start
    return <tail>                     -- await self._function(*args, **kwargs)
    ```

    Regenerated obligations, each about a loop-free piece on a symbolic state: `PreOK`, `CleanStep` (one iteration of the clean-up
    loop drops the oldest entry iff it left the window, else breaks), `PostOK`, `TailOK`.  Committed here: the induction over the
    entries (`loop_cleanup`) and the composition (`critical_of_parts`): for every entry list, limit > 0, period and instant the
    assembled method, run with the lock free, ends with the entries, the clock and the start instant `Throttle.processAt`
    prescribes, sleeps at most once (exactly the prescribed duration), calls the function exactly once **after** releasing the
    lock, at the instant of the recorded start, and hands on its outcome. -/
namespace Haiway.Bridge.Throttle
open Haiway.MiniPy Haiway

structure W where
  clock : Nat
  fnOut : Val ⊕ Val                   -- what the wrapped function does
  locked : Bool := false
  acquired : Nat := 0
  released : Nat := 0
  sleeps : List Int := []             -- durations handed to `sleep`
  starts : List (Nat × Bool) := []    -- (instant, lock held?) of every call of the wrapped function

/-- externals: 200 lock acquire  201 lock release  202 `monotonic()`  203 `sleep(d)` (a non-positive sleep returns at once)
204 `self._function(*args, **kwargs)` -/
def ext : World W := fun f args w fl =>
  (fun (r : Option ((Val ⊕ Val) × W)) => r.map fun (x, w') => (x, w', fl)) <|
  match f, args with
  | 200, [] => if w.locked then none else some (.inl .none, { w with locked := true, acquired := w.acquired + 1 })
  | 201, [] => some (.inl .none, { w with locked := false, released := w.released + 1 })
  | 202, [] => some (.inl (.int w.clock), w)
  | 203, [.int d] => some (.inl .none, { w with clock := w.clock + d.toNat, sleeps := w.sleeps ++ [d] })
  | 204, [_, _] => some (w.fnOut, { w with starts := w.starts ++ [(w.clock, w.locked)] })
  | _, _ => none

def ints (es : List Nat) : Val := .list (es.map fun (e : Nat) => Val.int (e : Int))

/-- the part of `Throttle.process` after the lock has been acquired at instant `now` -/
def processAt (limit P : Nat) (es : List Nat) (now : Nat) : List Nat × Nat :=
  let es' := Throttle.cleanup P now es
  if limit ≤ es'.length then
    match es' with
    | e :: _ => (es' ++ [max now (e + P)], max now (e + P))
    | [] => (es', now)
  else (es' ++ [now], now)

theorem process_eq (limit P : Nat) (s : Throttle.St) (arrival : Nat) (hl : 0 < limit) :
    (Throttle.process limit P s arrival).1.entries = (processAt limit P s.entries (max arrival s.lockFree)).1 ∧
    (Throttle.process limit P s arrival).2 = .started (processAt limit P s.entries (max arrival s.lockFree)).2 := by
  unfold Throttle.process processAt
  simp only
  cases hc : Throttle.cleanup P (max arrival s.lockFree) s.entries with
  | nil =>
    have : ¬ limit ≤ 0 := by omega
    simp [this]
  | cons e rest => split <;> simp

/-! ### specifications of the pieces (fields: 1 `_entries`, 2 `_limit`, 3 `_period`; `iNow` = the local `time_now`) -/

/-- nothing but locals and the entries changed -/
structure Frame (iNow : Nat) (s s' : St W) : Prop where
  f2 : s'.fld 2 = s.fld 2
  f3 : s'.fld 3 = s.fld 3
  w : s'.world = s.world
  now : s'.loc iNow = s.loc iNow
  a0 : s'.loc 0 = s.loc 0
  a1 : s'.loc 1 = s.loc 1

theorem frame_iff {iNow : Nat} {s s' : St W} :
    Frame iNow s s' ↔ (s'.fld 2 = s.fld 2 ∧ s'.fld 3 = s.fld 3 ∧ s'.world = s.world ∧ s'.loc iNow = s.loc iNow ∧
      s'.loc 0 = s.loc 0 ∧ s'.loc 1 = s.loc 1) :=
  ⟨fun ⟨a, b, c, d, e, f⟩ => ⟨a, b, c, d, e, f⟩, fun ⟨a, b, c, d, e, f⟩ => ⟨a, b, c, d, e, f⟩⟩

def PreOK (iNow : Nat) (pre : Stmt) : Prop :=
  ∀ (s : St W),
    let r := exec ext pre s
    r.1 = .normal ∧ r.2.loc iNow = .int s.world.clock ∧ r.2.fld 1 = s.fld 1 ∧ r.2.fld 2 = s.fld 2 ∧ r.2.fld 3 = s.fld 3 ∧
    r.2.world = s.world ∧ r.2.loc 0 = s.loc 0 ∧ r.2.loc 1 = s.loc 1

/-- one iteration of `while self._entries: if self._entries[0] + self._period <= time_now: popleft() else: break` -/
def CleanStep (iNow : Nat) (step : Stmt) : Prop :=
  ∀ (s : St W) (es : List Nat) (P now : Nat), s.fld 1 = ints es → s.fld 3 = .int P → s.loc iNow = .int now →
    let r := exec ext step s
    Frame iNow s r.2 ∧
    (match es with
     | [] => r.1 = .brk ∧ r.2.fld 1 = ints []
     | e :: rest => if e + P ≤ now then r.1 = .normal ∧ r.2.fld 1 = ints rest else r.1 = .brk ∧ r.2.fld 1 = ints (e :: rest))

def PostOK (iNow : Nat) (post : Stmt) : Prop :=
  ∀ (s : St W) (es : List Nat) (limit P now : Nat), 0 < limit →
    s.fld 1 = ints es → s.fld 2 = .int limit → s.fld 3 = .int P → s.loc iNow = .int now → s.world.clock = now →
    let r := exec ext post s
    r.1 = .normal ∧ r.2.loc 0 = s.loc 0 ∧ r.2.loc 1 = s.loc 1 ∧
    (if limit ≤ es.length then
       match es with
       | e :: _ => r.2.fld 1 = ints (es ++ [max now (e + P)]) ∧
                   r.2.world = { s.world with clock := max now (e + P), sleeps := s.world.sleeps ++ [(e : Int) + P - now] }
       | [] => True
     else r.2.fld 1 = ints (es ++ [now]) ∧ r.2.world = s.world)

def TailOK (tail : Stmt) : Prop :=
  ∀ (s : St W),
    let r := exec ext tail s
    r.1 = (match s.world.fnOut with | .inl v => .ret v | .inr e => .exc e) ∧
    r.2.world = { s.world with starts := s.world.starts ++ [(s.world.clock, s.world.locked)] } ∧ r.2.fld 1 = s.fld 1

/-- the method, put together the way the translator took it apart -/
def assemble (pre step post tail : Stmt) (fuel : Nat) : Stmt :=
  .seq (.seq (.expr (.call 200 .nil))
             (.try_ (.seq pre (.seq (.loop fuel step) post)) .noHandler .pass (.expr (.call 201 .nil))))
       tail

/-! ### the loop -/

theorem loop_cleanup {iNow : Nat} {step : Stmt} (hstep : CleanStep iNow step) (P now : Nat) :
    ∀ (es : List Nat) (s : St W) (fuel : Nat), es.length < fuel →
      s.fld 1 = ints es → s.fld 3 = .int P → s.loc iNow = .int now →
      let r := iter (exec ext step) fuel s
      r.1 = .normal ∧ r.2.fld 1 = ints (Throttle.cleanup P now es) ∧ Frame iNow s r.2 := by
  intro es
  induction es with
  | nil =>
    intro s fuel hf h1 h3 hn
    obtain ⟨f, rfl⟩ : ∃ f, fuel = f + 1 := ⟨fuel - 1, by simp at hf; omega⟩
    have h := hstep s [] P now h1 h3 hn
    simp only [iter]
    generalize exec ext step s = r at h
    obtain ⟨o, s'⟩ := r
    obtain ⟨hfr, ho, hf1⟩ := h
    simp only at ho hf1 hfr
    subst ho
    exact ⟨rfl, by simpa [Throttle.cleanup] using hf1, hfr⟩
  | cons e rest ih =>
    intro s fuel hf h1 h3 hn
    obtain ⟨f, rfl⟩ : ∃ f, fuel = f + 1 := ⟨fuel - 1, by simp at hf; omega⟩
    have h := hstep s (e :: rest) P now h1 h3 hn
    simp only [iter]
    generalize exec ext step s = r at h
    obtain ⟨o, s'⟩ := r
    obtain ⟨hfr, hcase⟩ := h
    simp only at hcase hfr
    by_cases hle : e + P ≤ now
    · simp only [hle, ↓reduceIte] at hcase
      obtain ⟨ho, hf1⟩ := hcase
      subst ho
      have := ih s' f (by simp at hf; omega) hf1 (by rw [hfr.f3, h3]) (by rw [hfr.now, hn])
      obtain ⟨r1, r2, r3⟩ := this
      refine ⟨r1, ?_, ?_⟩
      · simpa [Throttle.cleanup, List.dropWhile, hle] using r2
      · exact ⟨by rw [r3.f2, hfr.f2], by rw [r3.f3, hfr.f3], by rw [r3.w, hfr.w], by rw [r3.now, hfr.now],
               by rw [r3.a0, hfr.a0], by rw [r3.a1, hfr.a1]⟩
    · simp only [hle, ↓reduceIte] at hcase
      obtain ⟨ho, hf1⟩ := hcase
      subst ho
      exact ⟨rfl, by simpa [Throttle.cleanup, List.dropWhile, hle] using hf1, hfr⟩

/-! ### the whole method -/

/-- **one call through the throttle** -/
def CriticalRefines (p : Nat → Stmt) : Prop :=
  ∀ (es : List Nat) (limit P now : Nat) (fnOut : Val ⊕ Val) (args : Nat → Val) (fuel : Nat), 0 < limit → es.length < fuel →
    let w : W := { clock := now, fnOut := fnOut }
    let st : St W := { loc := args, fld := fun i => if i = 1 then ints es else if i = 2 then .int limit else if i = 3 then .int P else .none,
                       world := w }
    let r := runMethod ext (p fuel) st
    let m := processAt limit P es now
    r.1 = (match fnOut with | .inl v => .ret v | .inr e => .exc e) ∧
    r.2.fld 1 = ints m.1 ∧                                  -- the recorded starts
    r.2.world.clock = m.2 ∧                                  -- the instant the function starts = the instant recorded
    r.2.world.starts = [(m.2, false)] ∧                      -- called exactly once, at that instant, the lock released
    r.2.world.acquired = 1 ∧ r.2.world.released = 1 ∧ r.2.world.locked = false ∧
    r.2.world.sleeps.length ≤ 1

theorem exec_seq_normal {a b : Stmt} {s s1 : St W} (h : exec ext a s = (.normal, s1)) :
    exec ext (.seq a b) s = exec ext b s1 := by
  simp [exec, h]

theorem exec_try_finally {body fin : Stmt} {s s1 s2 : St W} (h : exec ext body s = (.normal, s1))
    (hf : exec ext fin s1 = (.normal, s2)) : exec ext (.try_ body .noHandler .pass fin) s = (.normal, s2) := by
  simp [exec, h, hf]

theorem exec_acquire (s : St W) (h : s.world.locked = false) :
    exec ext (.expr (.call 200 .nil)) s =
      (.normal, { s with world := { s.world with locked := true, acquired := s.world.acquired + 1 } }) := by
  simp [exec, eval, ext, h]

theorem exec_release (s : St W) :
    exec ext (.expr (.call 201 .nil)) s =
      (.normal, { s with world := { s.world with locked := false, released := s.world.released + 1 } }) := by
  simp [exec, eval, ext]

theorem critical_of_parts {iNow : Nat} {pre step post tail : Stmt}
    (hpre : PreOK iNow pre) (hstep : CleanStep iNow step) (hpost : PostOK iNow post) (htail : TailOK tail) :
    CriticalRefines (assemble pre step post tail) := by
  intro es limit P now fnOut args fuel hl hfuel
  intro w st
  -- acquire
  have hacq := exec_acquire st rfl
  generalize hs0 : ({ st with world := { st.world with locked := true, acquired := st.world.acquired + 1 } } : St W) = s0 at hacq
  have hw0 : s0.world = { clock := now, fnOut := fnOut, locked := true, acquired := 1 } := by subst hs0; rfl
  have hf0 : ∀ i, s0.fld i = st.fld i := by subst hs0; intro i; rfl
  -- pre
  have p := hpre s0
  rcases hr1 : exec ext pre s0 with ⟨o1, s1⟩
  rw [hr1] at p
  obtain ⟨p1, p2, p3, p4, p5, p6, p7, p8⟩ := p
  simp only at p1 p2 p3 p4 p5 p6 p7 p8
  subst p1
  have hf1 : s1.fld 1 = ints es := by rw [p3, hf0]; simp [st]
  have hf2 : s1.fld 2 = .int limit := by rw [p4, hf0]; simp [st]
  have hf3 : s1.fld 3 = .int P := by rw [p5, hf0]; simp [st]
  have hn1 : s1.loc iNow = .int now := by rw [p2, hw0]
  -- the loop
  have l := loop_cleanup hstep P now es s1 fuel hfuel hf1 hf3 hn1
  rcases hr2 : iter (exec ext step) fuel s1 with ⟨o2, s2⟩
  rw [hr2] at l
  obtain ⟨l1, l2, l3⟩ := l
  simp only at l1 l2 l3
  subst l1
  have hloop : exec ext (.loop fuel step) s1 = (.normal, s2) := by simp [exec, hr2]
  -- post
  have hw2 : s2.world = { clock := now, fnOut := fnOut, locked := true, acquired := 1 } := by rw [l3.w, p6, hw0]
  have q := hpost s2 (Throttle.cleanup P now es) limit P now hl l2 (by rw [l3.f2, hf2]) (by rw [l3.f3, hf3])
    (by rw [l3.now, hn1]) (by rw [hw2])
  rcases hr3 : exec ext post s2 with ⟨o3, s3⟩
  rw [hr3] at q
  obtain ⟨q1, q2, q3, q4⟩ := q
  simp only at q1 q2 q3 q4
  subst q1
  -- the body of the `with`, then the release
  have hbody : exec ext (.seq pre (.seq (.loop fuel step) post)) s0 = (.normal, s3) := by
    rw [exec_seq_normal hr1, exec_seq_normal hloop, hr3]
  have hrel := exec_release s3
  generalize hs4 : ({ s3 with world := { s3.world with locked := false, released := s3.world.released + 1 } } : St W) = s4 at hrel
  have hwith : exec ext (.seq (.expr (.call 200 .nil))
      (.try_ (.seq pre (.seq (.loop fuel step) post)) .noHandler .pass (.expr (.call 201 .nil)))) st = (.normal, s4) := by
    rw [exec_seq_normal hacq, exec_try_finally hbody hrel]
  -- the tail
  have t := htail s4
  rcases hr5 : exec ext tail s4 with ⟨o5, s5⟩
  rw [hr5] at t
  obtain ⟨t1, t2, t3⟩ := t
  simp only at t1 t2 t3
  have hrun : runMethod ext (assemble pre step post tail fuel) st = (o5, s5) := by
    unfold runMethod assemble
    rw [exec_seq_normal hwith, hr5]
    subst t1
    cases s4.world.fnOut <;> rfl
  show (runMethod ext (assemble pre step post tail fuel) st).1 = _ ∧ _
  rw [hrun]
  simp only
  unfold processAt
  by_cases hc : limit ≤ (Throttle.cleanup P now es).length
  · simp only [hc, ↓reduceIte] at q4 ⊢
    cases hcl : Throttle.cleanup P now es with
    | nil => simp [hcl] at hc; omega
    | cons e rest =>
      simp only [hcl] at q4 ⊢
      obtain ⟨q4a, q4b⟩ := q4
      have hw4 : s4.world = ({ clock := max now (e + P), fnOut := fnOut, locked := false, acquired := 1, released := 1, sleeps := [(e : Int) + P - now] } : W) := by
        subst hs4; simp [q4b, hw2]
      have hf4 : s4.fld 1 = ints (e :: rest ++ [max now (e + P)]) := by subst hs4; simpa using q4a
      rw [hw4] at t2 t1
      simp [t1, t2, t3, hf4]
  · simp only [hc, ↓reduceIte] at q4 ⊢
    obtain ⟨q4a, q4b⟩ := q4
    have hw4 : s4.world = ({ clock := now, fnOut := fnOut, locked := false, acquired := 1, released := 1 } : W) := by
      subst hs4; simp [q4b, hw2]
    have hf4 : s4.fld 1 = ints (Throttle.cleanup P now es ++ [now]) := by subst hs4; simpa using q4a
    rw [hw4] at t2 t1
    simp [t1, t2, t3, hf4]

macro "throttle_eval" : tactic => `(tactic|
  (simp (config := { decide := true }) [exec, exec.execH, eval, builtin, ext, upd, Val.same, Val.truthy, excClass, cmpInt, ints, frame_iff,
     len1_ne_zero, len1_beq_zero, len1_eq_zero, len1_pos, len1_ge_one, len2_ge_one, len2_eq_one, len2_beq_one, len2_bne_one, len2_gt_one, *]))

end Haiway.Bridge.Throttle
