import Haiway.Bridge.Throttle
import Haiway.Props.C15
/-! C15's theorems, stated of the **regenerated throttle method itself**: a `MiniPy` term satisfying `CriticalRefines` (the term
    assembled from the pieces translated from /repo's `throttling.py` is re-checked to on every run), run by the interpreter for a
    whole sequence of arrivals – each call on the `_entries` deque the previous one left, acquiring the lock when it arrives or when
    the previous call released it – starts the wrapped function at exactly the instants of `Throttle.run`; hence the window bound,
    the arrival order and "never before its arrival" hold of the term. -/
namespace Haiway.Bridge.Throttle
open Haiway.MiniPy Haiway

def callT (p : Nat → Stmt) (limit P : Nat) (entries : Val) (now fuel : Nat) : Out × St W :=
  runMethod ext (p fuel)
    { loc := fun _ => .none,
      fld := fun i => if i = 1 then entries else if i = 2 then .int limit else if i = 3 then .int P else .none,
      world := { clock := now, fnOut := .inl .none } }

/-- the start instants of a sequence of calls (FIFO lock: a call acquires it at `max arrival (previous start)`) -/
def runT (p : Nat → Stmt) (limit P fuel : Nat) : Val × Nat → List Nat → List Nat
  | _, [] => []
  | (es, lockFree), a :: as =>
    let r := callT p limit P es (max a lockFree) fuel
    r.2.world.clock :: runT p limit P fuel (r.2.fld 1, r.2.world.clock) as

theorem process_lockFree (limit P : Nat) (s : Throttle.St) (arrival : Nat) (hl : 0 < limit) :
    (Throttle.process limit P s arrival).1.lockFree = (processAt limit P s.entries (max arrival s.lockFree)).2 := by
  unfold Throttle.process processAt
  simp only
  cases hc : Throttle.cleanup P (max arrival s.lockFree) s.entries with
  | nil =>
    have : ¬ limit ≤ 0 := by omega
    simp [this]
  | cons e rest => split <;> simp

theorem processAt_length (limit P : Nat) (es : List Nat) (now : Nat) :
    (processAt limit P es now).1.length ≤ es.length + 1 := by
  have hc : (Throttle.cleanup P now es).length ≤ es.length := by
    unfold Throttle.cleanup
    induction es with
    | nil => simp
    | cons e r ih => simp only [List.dropWhile_cons]; split <;> simp <;> omega
  unfold processAt
  simp only
  split
  · split <;> simp <;> omega
  · simp; omega

theorem history {p : Nat → Stmt} (h : CriticalRefines p) (limit P : Nat) (hl : 0 < limit) :
    ∀ (arrivals : List Nat) (s : Throttle.St) (fuel : Nat), s.entries.length + arrivals.length < fuel →
      runT p limit P fuel (ints s.entries, s.lockFree) arrivals = Throttle.starts (Throttle.run limit P s arrivals) := by
  intro arrivals
  induction arrivals with
  | nil => intro s fuel _; simp [runT, Throttle.run, Throttle.starts]
  | cons a as ih =>
    intro s fuel hf
    have hc := h s.entries limit P (max a s.lockFree) (.inl .none) (fun _ => .none) fuel hl (by simp at hf; omega)
    obtain ⟨_, h2, h3, _⟩ := hc
    have pe := process_eq limit P s a hl
    have pl := process_lockFree limit P s a hl
    have plen := processAt_length limit P s.entries (max a s.lockFree)
    simp only [runT, callT, Throttle.run]
    rw [h2, h3]
    have ih' := ih (Throttle.process limit P s a).1 fuel (by rw [pe.1]; simp at hf; omega)
    rw [pe.1, pl] at ih'
    rw [ih', pe.2]
    simp [Throttle.starts]

/-- what C15 says of every arrival pattern, said of the term (`fuel` only has to exceed the number of calls) -/
structure ArrivalProps (p : Nat → Stmt) : Prop where
  starts_are_the_models : ∀ limit P arrivals fuel, 0 < limit → arrivals.length < fuel →
    runT p limit P fuel (ints [], 0) arrivals = C15.startTimes limit P arrivals
  /-- no more than `limit` starts in any half-open window of length `period` -/
  window_count : ∀ limit P arrivals fuel t, 0 < limit → arrivals.length < fuel →
    ((runT p limit P fuel (ints [], 0) arrivals).filter fun s => decide (t ≤ s) && decide (s < t + P)).length ≤ limit
  /-- calls begin in arrival order -/
  order : ∀ limit P arrivals fuel, 0 < limit → arrivals.length < fuel →
    (runT p limit P fuel (ints [], 0) arrivals).Pairwise (· ≤ ·)
  /-- every call begins, none before it arrived -/
  all_begin : ∀ limit P arrivals fuel, 0 < limit → arrivals.length < fuel →
    (runT p limit P fuel (ints [], 0) arrivals).length = arrivals.length

theorem arrivalProps_of_refines {p : Nat → Stmt} (h : CriticalRefines p) : ArrivalProps p := by
  have key : ∀ limit P arrivals fuel, 0 < limit → arrivals.length < fuel →
      runT p limit P fuel (ints [], 0) arrivals = C15.startTimes limit P arrivals := by
    intro limit P arrivals fuel hl hf
    have := history h limit P hl arrivals Throttle.init fuel (by simpa [Throttle.init] using hf)
    simpa [Throttle.init, C15.startTimes] using this
  exact
    { starts_are_the_models := key
      window_count := by
        intro limit P arrivals fuel t hl hf
        rw [key limit P arrivals fuel hl hf]
        exact C15.window_count limit P hl arrivals t
      order := by
        intro limit P arrivals fuel hl hf
        rw [key limit P arrivals fuel hl hf]
        exact C15.order limit P hl arrivals
      all_begin := by
        intro limit P arrivals fuel hl hf
        rw [key limit P arrivals fuel hl hf]
        exact (C15.all_started limit P hl arrivals).2 }

end Haiway.Bridge.Throttle
