import Haiway.Model.MiniPy
import Haiway.Model.Timeout
/-! Bridge between the regenerated `MiniPy` terms of `_AsyncTimeout.__call__` and its three callbacks (translated from /repo's
    `helpers/timeouted.py` on every run) and the labelled transition system `Timeout.step` of C16:

    * `on_completion` run when the inner task is done **is** the label `runCompletion`: the timer handle is cancelled first, a
      result future that is already done is left alone, a cancelled task cancels the future, otherwise the task's value resolves it
      and *any* exception of the task – `BaseException` included – becomes the future's exception;
    * `on_timeout` **is** the callback half of `timerFires`: a pending future gets a `TimeoutError`, a done one is left alone;
    * `on_result` **is** `runResult`: `task.cancel()`, once;
    * `__call__` wires them: one future, one task from exactly one call of the function, the timer armed with `self._timeout`
      calling `on_timeout(future)`, `on_completion` registered on the task, `on_result` on the future, then `await future`
      (what the caller gets is the future's outcome) – in that order, nothing else. -/
namespace Haiway.Bridge.Timeout
open Haiway.MiniPy Haiway

/-- the world is the model's state (future, task, timer, queued callbacks) plus a log of the calls `__call__` makes -/
structure W where
  s : Timeout.S
  log : List (Nat × List Val) := []

def futDone (f : Timeout.Fut) : Bool := f != .pending

/-- classify what `set_exception` is given -/
def futOfExc : Val → Option Timeout.Fut
  | .exc c _ => if c = cTimeoutError then some .timeout else if c = cCancelledError then some .cancelled
                else if isSub c cException then some .excUser else some .excBase
  | _ => none

def setF (s : Timeout.S) (f : Timeout.Fut) : Timeout.S := { s with fut := f, qResult := true }

/-- externals of the callbacks: 240 `timeout_handle.cancel()`  241 `future.done()`  242 `task.cancelled()`  243 `future.cancel()`
244 `future.set_result(x)`  245 `task.result()`  246 `future.set_exception(e)`  247 `task.cancel()`;
of `__call__` (logged): 250 `self._function(*args, **kwargs)`  251 `loop.create_future()`  252 `loop.create_task(coro)`
253 `loop.call_later(delay, cb, arg)`  254 `task.add_done_callback(cb)`  255 `future.add_done_callback(cb)`  256 `get_running_loop()`
257 `await future` -/
def ext : World W := fun f args w fl =>
  (fun (r : Option ((Val ⊕ Val) × W)) => r.map fun (x, w') => (x, w', fl)) <|
  match f, args with
  | 240, [] => some (.inl .none, { w with s := { w.s with tmr := if w.s.tmr = .armed then .cancelled else w.s.tmr } })
  | 241, [] => some (.inl (.bool (futDone w.s.fut)), w)
  | 242, [] => some (.inl (.bool (decide (w.s.tsk = .doneCancelled))), w)
  | 243, [] => if futDone w.s.fut then some (.inl (.bool false), w) else some (.inl (.bool true), { w with s := setF w.s .cancelled })
  | 244, [_] => if futDone w.s.fut then none else some (.inl .none, { w with s := setF w.s .res })
  | 245, [] => (match w.s.tsk, w.s.kind with
      | .doneOwn, .val => some (.inl (.obj 1), w)
      | .doneOwn, .exc => some (.inr (.exc cUserError 1), w)
      | .doneOwn, .baseExc => some (.inr (.exc cUserBase 1), w)
      | .doneCancelled, _ => some (.inr (.exc cCancelledError 0), w)
      | _, _ => none)
  | 246, [e] => if futDone w.s.fut then none else (futOfExc e).map fun ft => (.inl .none, { w with s := setF w.s ft })
  | 247, [] => some (.inl (.bool true), { w with s := { w.s with tsk := match w.s.tsk with
                                                                       | .running _ ig => .running true ig
                                                                       | t => t } })
  | 250, [a, k] => some (.inl (.obj 11), { w with log := w.log ++ [(250, [a, k])] })
  | 251, [] => some (.inl (.obj 10), { w with log := w.log ++ [(251, [])] })
  | 252, [c] => some (.inl (.obj 12), { w with log := w.log ++ [(252, [c])] })
  | 253, [d, cb, a] => some (.inl (.obj 13), { w with log := w.log ++ [(253, [d, cb, a])] })
  | 254, [t, cb] => some (.inl .none, { w with log := w.log ++ [(254, [t, cb])] })
  | 255, [fu, cb] => some (.inl .none, { w with log := w.log ++ [(255, [fu, cb])] })
  | 256, [] => some (.inl (.obj 9), w)
  | 257, [fu] => some (.inl (.obj 77), { w with log := w.log ++ [(257, [fu])] })
  | _, _ => none

/-- the model state without its ghost fields and the queue bit of the callback being run (the loop's business) -/
def core (s : Timeout.S) : Timeout.Fut × Timeout.Tsk × Timeout.Tmr × Bool := (s.fut, s.tsk, s.tmr, s.qResult)

/-- **`on_completion`** = `runCompletion` -/
def OnCompletion (p : Stmt) : Prop :=
  ∀ (s : Timeout.S) (args : Nat → Val), s.qCompletion = true → (∀ c i, s.tsk ≠ .running c i) →
    (s.tsk = .doneOwn → s.kind ≠ .selfCancel) →
    let r := runMethod ext p ({ loc := args, fld := fun _ => .none, world := { s := s } } : St W)
    match Timeout.step s .runCompletion with
    | some s' => r.1 = .ret .none ∧ core r.2.world.s = core s'
    | none => False

/-- **`on_timeout`** = the callback of `timerFires` (the handle's own state is the loop's) -/
def OnTimeout (p : Stmt) : Prop :=
  ∀ (s : Timeout.S) (args : Nat → Val), s.tmr = .armed →
    let r := runMethod ext p ({ loc := args, fld := fun _ => .none, world := { s := s } } : St W)
    match Timeout.step s .timerFires with
    | some s' => r.1 = .ret .none ∧ r.2.world.s.fut = s'.fut ∧ r.2.world.s.qResult = s'.qResult ∧ r.2.world.s.tsk = s'.tsk
    | none => False

/-- **`on_result`** = `runResult` -/
def OnResult (p : Stmt) : Prop :=
  ∀ (s : Timeout.S) (args : Nat → Val), s.qResult = true →
    let r := runMethod ext p ({ loc := args, fld := fun _ => .none, world := { s := s } } : St W)
    match Timeout.step s .runResult with
    | some s' => r.1 = .ret .none ∧ r.2.world.s.tsk = s'.tsk ∧ r.2.world.s.fut = s'.fut ∧ r.2.world.s.tmr = s'.tmr
    | none => False

/-- identities of the three callbacks (the translator binds the nested functions to these objects) -/
abbrev onTimeout : Val := .obj 3001
abbrev onCompletion : Val := .obj 3002
abbrev onResult : Val := .obj 3003

/-- **`__call__` wires the callbacks** (field 1: `_timeout`; locals 0 `args`, 1 `kwargs`) -/
def CallWires (p : Stmt) : Prop :=
  ∀ (s : Timeout.S) (args : Nat → Val) (timeout : Val),
    let r := runMethod ext p ({ loc := args, fld := fun i => if i = 1 then timeout else .none, world := { s := s } } : St W)
    r.1 = .ret (.obj 77) ∧
    r.2.world.log = [(251, []), (250, [args 0, args 1]), (252, [.obj 11]), (253, [timeout, onTimeout, .obj 10]),
                     (254, [.obj 12, onCompletion]), (255, [.obj 10, onResult]), (257, [.obj 10])]

macro "timeout_eval" : tactic => `(tactic|
  (simp (config := { decide := true }) [runMethod, exec, exec.execH, eval, builtin, ext, upd, Val.truthy, excClass, isSub, core,
     futDone, futOfExc, setF, Haiway.Timeout.step, Haiway.Timeout.setFut, Haiway.Timeout.futOfKind, *]))

end Haiway.Bridge.Timeout
