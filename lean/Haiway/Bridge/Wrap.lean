import Haiway.Model.MiniPy
/-! Bridge for the `asynchronous` wrapper (`_ExecutorWrapper.__call__` / `__method_call__`, C18 "transparent and carries the
    context"), regenerated from /repo's `helpers/asynchrony.py`.  What the C18 model (`Haiway.Wrap`) assumes of one call:
    a **fresh copy of the caller's context is taken per call**, the wrapped function – with exactly the caller's positional and
    keyword arguments, and for the method form the receiver first – is submitted **exactly once**, to the configured executor, on the
    configured loop or else the running one, to be run **inside that copy** (`context.run`); the submission's outcome – value or
    exception object – is what the caller gets.  Nothing else is called, no field is written.

    fields: 0 `_function`, 1 `_loop`, 2 `_executor`. -/
namespace Haiway.Bridge.Wrap
open Haiway.MiniPy

inductive Ev where
  | copied (ctx : Nat)                               -- `copy_context()` returned context number `ctx`
  | askedLoop                                        -- `get_running_loop()`
  | submitted (loop executor runner work : Val)      -- `loop.run_in_executor(executor, runner, work)`

structure W where
  copies : Nat := 0
  outcome : Val ⊕ Val                 -- what awaiting the submission gives
  log : List Ev := []

def runningLoop : Val := .obj 70
/-- `ctx.run` of context number `c` -/
def runOf (c : Nat) : Val := .list [.str 9, .obj (200 + c)]
/-- `partial(f, *args, **kwargs)` -/
def partialOf (f : Val) (args : List Val) (kwargs : Val) : Val := .list [.str 8, f, .list args, kwargs]

/-- externals: 163 `copy_context()`  252 `get_running_loop()`  251 `<context>.run`  250 `partial(f, [recv,] *args, **kwargs)`
253 `<loop>.run_in_executor(executor, runner, work)` (awaited) -/
def ext : World W := fun f args w fl =>
  (fun (r : Option ((Val ⊕ Val) × W)) => r.map fun (x, w') => (x, w', fl)) <|
  match f, args with
  | 163, [] => some (.inl (.obj (200 + w.copies)), { w with copies := w.copies + 1, log := w.log ++ [.copied w.copies] })
  | 252, [] => some (.inl runningLoop, { w with log := w.log ++ [.askedLoop] })
  | 251, [.obj c] => if 200 ≤ c then some (.inl (runOf (c - 200)), w) else none
  | 250, [fn, .list xs, kw] => some (.inl (partialOf fn xs kw), w)
  | 250, [fn, recv, .list xs, kw] => some (.inl (partialOf fn (recv :: xs) kw), w)
  | 253, [lp, ex, runner, work] => some (w.outcome, { w with log := w.log ++ [.submitted lp ex runner work] })
  | _, _ => none

/-- one call through the wrapper; `recv` = the receiver for the method form -/
def CallWires (p : Stmt) (recv : Option Val) : Prop :=
  ∀ (fn loopField executor kwargs : Val) (args : List Val) (w : W), w.log = [] →
    (loopField = .none ∨ ∃ k, loopField = .obj k) →
    let loc : Nat → Val := match recv with
      | none => fun i => if i = 0 then .list args else kwargs
      | some r => fun i => if i = 0 then r else if i = 1 then .list args else kwargs
    let r := runMethod ext p ({ loc := loc, fld := fun i => if i = 0 then fn else if i = 1 then loopField else executor, world := w } : St W)
    let work := partialOf fn (match recv with | none => args | some x => x :: args) kwargs
    r.1 = (match w.outcome with | .inl v => .ret v | .inr e => .exc e) ∧
    r.2.world.copies = w.copies + 1 ∧
    r.2.world.log =
      (if loopField.truthy then [.copied w.copies, .submitted loopField executor (runOf w.copies) work]
       else [.copied w.copies, .askedLoop, .submitted runningLoop executor (runOf w.copies) work]) ∧
    ∀ i, r.2.fld i = (if i = 0 then fn else if i = 1 then loopField else executor)

macro "wrap_eval" : tactic => `(tactic|
  (simp (config := { decide := true }) [runMethod, exec, exec.execH, eval, builtin, ext, upd, Val.truthy, runOf, partialOf,
     runningLoop, *]))

end Haiway.Bridge.Wrap
