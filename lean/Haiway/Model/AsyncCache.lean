/-! Model of `haiway.helpers.caching._AsyncCache` under concurrency (C13): the **task** is what is
cached and every caller awaits `shield(task)`.

A labelled transition system.  Callers and invocations (tasks) are numbered; keys are numbers.
Labels are the atomic sections of the cooperative schedule (M1): a task switch is allowed at
every label, which over-approximates what the asyncio loop can do.

* `spawn c k`  – a caller task for key `k` is created (nothing of the library has run yet)
* `enter c`    – the caller runs `__call__` up to its `await shield(task)`: lookup, expiry test,
                 `move_to_end` or create-task/insert/evict; if the task it joins is already done the
                 `await` does not suspend and the caller has its outcome at once
* `finish t o` – invocation `t` (the wrapped coroutine) completes with outcome `o`
* `wake c`     – a suspended caller whose task is done is resumed with the task's outcome
* `cancel c`   – the caller task is cancelled from outside: only the *outer* future of the shield is
                 cancelled; a caller that has not started yet never runs the library code at all
* `advance d`  – the clock moves
-/
namespace Haiway.AsyncCache

def upd {α : Type} (f : Nat → α) (i : Nat) (v : α) : Nat → α := fun j => if j = i then v else f j

inductive Outcome where | ok | boom | cancel    -- `cancel`: the wrapped coroutine itself ended with CancelledError (everyone awaiting it is cancelled with it)
deriving DecidableEq, Repr

inductive TaskSt where
  | running
  | done (o : Outcome)
  | cancelled            -- no transition of the model produces it: the cache never cancels an invocation
deriving DecidableEq, Repr

inductive CallerSt where
  | idle
  | spawned (k : Nat)            -- task created, library code not yet entered
  | waiting (t : Nat)            -- suspended in `await shield(task t)`
  | got (t : Nat) (o : Outcome)  -- received the outcome of invocation `t`
  | cancelled
deriving DecidableEq, Repr

structure Entry where
  key : Nat
  task : Nat
  expire : Option Nat
deriving DecidableEq, Repr

structure Sys where
  limit : Nat
  expiration : Option Nat
  now : Nat := 0
  table : List Entry := []                     -- oldest first (the OrderedDict)
  ntasks : Nat := 0                            -- invocations started so far
  tasks : Nat → TaskSt := fun _ => .running
  callers : Nat → CallerSt := fun _ => .idle
  -- ghost state (never read by `step` to decide anything)
  taskKey : Nat → Nat := fun _ => 0            -- the key an invocation was started for
  taskStart : Nat → Nat := fun _ => 0          -- the clock when it was started
  callerKey : Nat → Nat := fun _ => 0          -- the key a caller asked for
  joined : Nat → Option Nat := fun _ => none   -- the invocation a caller joined

inductive Label where
  | spawn (c k : Nat)
  | enter (c : Nat)
  | finish (t : Nat) (o : Outcome)
  | wake (c : Nat)
  | cancel (c : Nat)
  | advance (d : Nat)
deriving DecidableEq, Repr

/-- the caller a label belongs to (`finish` and `advance` belong to no caller) -/
def actor : Label → Option Nat
  | .spawn c _ => some c
  | .enter c => some c
  | .wake c => some c
  | .cancel c => some c
  | .finish _ _ => none
  | .advance _ => none

def find (t : List Entry) (k : Nat) : Option Entry := t.find? (·.key = k)
def erase (t : List Entry) (k : Nat) : List Entry := t.filter (·.key ≠ k)

def stamp (s : Sys) : Option Nat :=
  match s.expiration with
  | some x => if x = 0 then none else some (s.now + x)
  | none => none

/-- `(expire := entry[1]) and expire < monotonic()` -/
def expired (e : Entry) (now : Nat) : Bool :=
  match e.expire with
  | some x => x != 0 && x < now
  | none => false

/-- what `await shield(task t)` gives a caller arriving now -/
def joinState (s : Sys) (t : Nat) : CallerSt :=
  match s.tasks t with
  | .running => .waiting t
  | .done o => .got t o
  | .cancelled => .cancelled

/-- miss path on table `tbl`: `create_task`, insert, evict the oldest beyond `limit`, await the shield -/
def startNew (s : Sys) (c k : Nat) (tbl : List Entry) : Sys :=
  let t := s.ntasks
  let tbl' := tbl ++ [{ key := k, task := t, expire := stamp s }]
  { s with
    table := if s.limit < tbl'.length then tbl'.tail else tbl'
    ntasks := t + 1
    tasks := upd s.tasks t .running
    callers := upd s.callers c (.waiting t)
    taskKey := upd s.taskKey t k
    taskStart := upd s.taskStart t s.now
    joined := upd s.joined c (some t) }

def step (s : Sys) : Label → Option Sys
  | .spawn c k =>
    if s.callers c = .idle then
      some { s with callers := upd s.callers c (.spawned k), callerKey := upd s.callerKey c k }
    else none
  | .enter c =>
    match s.callers c with
    | .spawned k =>
      match find s.table k with
      | none => some (startNew s c k s.table)
      | some e =>
        if expired e s.now then
          -- the entry is dropped; its task keeps running for whoever awaits it
          some (startNew s c k (erase s.table k))
        else
          some { s with
            table := erase s.table k ++ [e]          -- `move_to_end`
            callers := upd s.callers c (joinState s e.task)
            joined := upd s.joined c (some e.task) }
    | _ => none
  | .finish t o =>
    if t < s.ntasks ∧ s.tasks t = .running then some { s with tasks := upd s.tasks t (.done o) }
    else none
  | .wake c =>
    match s.callers c with
    | .waiting t =>
      match s.tasks t with
      | .done o => some { s with callers := upd s.callers c (.got t o) }
      | .cancelled => some { s with callers := upd s.callers c .cancelled }
      | .running => none
    | _ => none
  | .cancel c =>
    match s.callers c with
    | .spawned _ => some { s with callers := upd s.callers c .cancelled }
    | .waiting _ => some { s with callers := upd s.callers c .cancelled }   -- the shield's outer future only
    | _ => none
  | .advance d => some { s with now := s.now + d }

/-- run a label sequence; `none` as soon as a label is not enabled -/
def runLabels (s : Sys) : List Label → Option Sys
  | [] => some s
  | l :: ls => (step s l).bind (fun s' => runLabels s' ls)

def init (limit : Nat) (expiration : Option Nat) : Sys := { limit := limit, expiration := expiration }

/-- resume every suspended caller below `n` whose task is done (what a run of the loop to quiescence
does after the invocations have finished) -/
def wakeAll : Nat → Sys → Sys
  | 0, s => s
  | n + 1, s =>
    let s' := wakeAll n s
    match step s' (.wake n) with
    | some s'' => s''
    | none => s'

/-- entry `k ↦ t` is in the table and unexpired -/
def Held (k t : Nat) (s : Sys) : Prop :=
  ∃ e, find s.table k = some e ∧ e.task = t ∧ expired e s.now = false

/-- along the label sequence `ls` from `s`, entry `k ↦ t` stays in the table and unexpired
(checked in every state from which a label is taken) -/
def HeldAlong (k t : Nat) : Sys → List Label → Prop
  | _, [] => True
  | s, l :: ls => Held k t s ∧ ∀ s1, step s l = some s1 → HeldAlong k t s1 ls

end Haiway.AsyncCache
