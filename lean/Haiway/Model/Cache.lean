/-! Model of `haiway.helpers.caching` for *sequential* call histories (C12):
`_SyncCache.__call__` / `__method_call__` and, with `storeFailure := true`, the sequential behaviour
of `_AsyncCache` (the task is stored, hence also a failed one).

* the table is the `OrderedDict`, oldest entry first;
* a value is identified by the index of the invocation of the wrapped function that produced it
  (the harness tags every returned value with exactly this counter and the received arguments);
* the key is the typed key of `functools._make_key(args, kwds, typed=True)` – positional
  `(type, value)` and keyword `(name, type, value)` in call order – plus, for methods, the
  identity of the receiver (repaired code: `id(self)` joins the weak reference in the key).
  The table model is generic in the key type (anything with decidable equality); `Key` below is
  the instance the driver uses. -/
namespace Haiway.Cache

/-! ## the typed key -/

/-- Python types of the argument alphabet -/
inductive Ty where | int | float | bool | str | none
deriving DecidableEq, Repr

/-- values modulo Python's `==`: numbers compare by numeric value across `int`/`float`/`bool`
(`1 == 1.0 == True`), strings by content -/
inductive Val where | num (n : Int) | str (s : String) | none
deriving DecidableEq, Repr

structure Atom where
  ty : Ty
  val : Val
deriving DecidableEq, Repr

/-- `_make_key((recv?, *args), kwds, typed=True)`: the flat tuple
`args…, MARK, k₁, v₁, …, type(args)…, type(vᵢ)…` compared element-wise is equal exactly when the
receivers are the same object, the positional lists agree in length, value and type, and the
keyword lists agree in length, *order*, name, value and type – i.e. structural equality here. -/
structure Key where
  recv : Option Nat            -- object identity of the receiver (method variants), harness-assigned
  pos : List Atom
  kw : List (String × Atom)
deriving DecidableEq, Repr

/-- what an *untyped* key (`typed=False`) would compare: values only (used to show the difference) -/
def Key.untyped (k : Key) : Option Nat × List Val × List (String × Val) :=
  (k.recv, k.pos.map (·.val), k.kw.map (fun p => (p.1, p.2.val)))

/-! ## the table -/

structure Entry (κ : Type) where
  key : κ
  inv : Nat              -- index of the invocation that produced the stored value (or task)
  ok : Bool              -- `false`: the stored task failed (async variants only)
  expire : Option Nat    -- `None` or `monotonic() + expiration` at insertion
deriving DecidableEq, Repr

structure Cfg where
  limit : Nat
  expiration : Option Nat
  storeFailure : Bool    -- async variants: the task is stored before it runs, so a failure is cached
deriving DecidableEq, Repr

/-- one invocation of the wrapped function (ghost log; index = invocation counter) -/
structure Invocation (κ : Type) where
  key : κ
  time : Nat             -- clock value when it was invoked
  ok : Bool
deriving DecidableEq, Repr

structure St (κ : Type) where
  now : Nat := 0
  table : List (Entry κ) := []      -- oldest first
  log : List (Invocation κ) := []   -- every invocation so far, oldest first
deriving Repr

inductive Op (κ : Type) where
  | adv (d : Nat)
  | call (k : κ) (ok : Bool)        -- `ok`: what the wrapped function does *if* it is invoked now
deriving Repr

/-- what the caller observes: answered from the table (`hit`) or by invoking the function
(`computed`); `n` = invocation index of the product, `ok = false` = the product is an exception -/
inductive Res where
  | hit (n : Nat) (ok : Bool)
  | computed (n : Nat) (ok : Bool)
deriving DecidableEq, Repr

def Res.invoked : Res → Bool | .hit _ _ => false | .computed _ _ => true
def Res.producer : Res → Nat | .hit n _ => n | .computed n _ => n
def Res.returned : Res → Bool | .hit _ ok => ok | .computed _ ok => ok

variable {κ : Type} [DecidableEq κ]

def find (t : List (Entry κ)) (k : κ) : Option (Entry κ) := t.find? (·.key = k)
def erase (t : List (Entry κ)) (k : κ) : List (Entry κ) := t.filter (·.key ≠ k)
def keys (t : List (Entry κ)) : List κ := t.map (·.key)

/-- `if expiration := expiration: monotonic() + expiration else None`
(`expiration = 0` is falsy: such a cache never expires anything) -/
def stamp (cfg : Cfg) (now : Nat) : Option Nat :=
  match cfg.expiration with
  | some x => if x = 0 then none else some (now + x)
  | none => none

/-- `(expire := entry[1]) and expire < monotonic()`: an entry exactly at its expiry instant is
still served -/
def expired (e : Entry κ) (now : Nat) : Bool :=
  match e.expire with
  | some x => x != 0 && x < now
  | none => false

/-- miss path on table `t` (the caller has already dropped an expired entry of `k`):
invoke; a raising call stores nothing unless the task is what is stored; insert; evict the oldest
entry beyond `limit` (`len > limit`). -/
def miss (cfg : Cfg) (s : St κ) (t : List (Entry κ)) (k : κ) (ok : Bool) : St κ × Res :=
  let n := s.log.length
  let log := s.log ++ [{ key := k, time := s.now, ok := ok }]
  if ok || cfg.storeFailure then
    let t' := t ++ [{ key := k, inv := n, ok := ok, expire := stamp cfg s.now }]
    ({ s with table := if cfg.limit < t'.length then t'.tail else t', log := log }, .computed n ok)
  else
    ({ s with table := t, log := log }, .computed n ok)

def call (cfg : Cfg) (s : St κ) (k : κ) (ok : Bool) : St κ × Res :=
  match find s.table k with
  | none => miss cfg s s.table k ok
  | some e =>
    if expired e s.now then miss cfg s (erase s.table k) k ok
    else ({ s with table := erase s.table k ++ [e] }, .hit e.inv e.ok)     -- `move_to_end`

def step (cfg : Cfg) (s : St κ) : Op κ → St κ
  | .adv d => { s with now := s.now + d }
  | .call k ok => (call cfg s k ok).1

def run (cfg : Cfg) (s : St κ) (ops : List (Op κ)) : St κ := ops.foldl (step cfg) s

/-- the observations of a history, one per `call` -/
def outs (cfg : Cfg) : St κ → List (Op κ) → List Res
  | _, [] => []
  | s, .adv d :: ops => outs cfg (step cfg s (.adv d)) ops
  | s, .call k ok :: ops => (call cfg s k ok).2 :: outs cfg (call cfg s k ok).1 ops

/-! ## abstract specification: a recency list of keys, most recently used first -/

/-- one use of `k`; `stored` = the call left a product in the cache (it returned normally, or the
variant stores the task whatever its outcome) -/
def absStep (limit : Nat) (r : List κ) (k : κ) (stored : Bool) : List κ :=
  if stored then (k :: r.filter (· ≠ k)).take limit else r.filter (· ≠ k)

/-- the uses of a history as the abstract side sees them: per call, the key and whether the call
left a product (`returned normally`, or the variant stores the task) -/
def uses (cfg : Cfg) : St κ → List (Op κ) → List (κ × Bool)
  | _, [] => []
  | s, .adv d :: ops => uses cfg (step cfg s (.adv d)) ops
  | s, .call k ok :: ops =>
    (k, (call cfg s k ok).2.returned || cfg.storeFailure) :: uses cfg (call cfg s k ok).1 ops

/-- the abstract recency list after a sequence of uses -/
def absFold (limit : Nat) (r : List κ) (us : List (κ × Bool)) : List κ :=
  us.foldl (fun r u => absStep limit r u.1 u.2) r

/-- unbounded recency order of a list of used keys (most recent first, no duplicates) -/
def mruAll : List κ → List κ → List κ
  | r, [] => r
  | r, k :: ks => mruAll (k :: r.filter (· ≠ k)) ks

/-- the keys of the calls of a history, in order -/
def callKeys : List (Op κ) → List κ
  | [] => []
  | .adv _ :: ops => callKeys ops
  | .call k _ :: ops => k :: callKeys ops

/-- the table's keys, most recently used first -/
def mru (s : St κ) : List κ := (keys s.table).reverse

end Haiway.Cache
