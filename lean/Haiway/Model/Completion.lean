/-! Model of the scope-completion protocol of `haiway.context.metrics.ScopeMetrics`
    (`__init__` registration, `MetricsContext.__enter__/__exit__`, `_finish`, `_complete_if_able`,
    the completion future and `time`).  (C09)

Nodes are numbered in construction order.  `create p` is the *construction* of a `ScopeMetrics` whose
`parent` argument is the scope that is current in the constructing task (`p`, any existing scope – a
task may still hold a finished or completed scope in its inherited context).  The repaired code never
registers under a scope whose completion future is already done: it walks up to the nearest registered
ancestor that is still open (`adopter`).  `finished` is `_finished`,
`completed` is `_completed.done()`, `frozen` the future's result, `fired` the order in which the
completion futures were resolved (each resolution schedules the completion callback exactly once).
`err` records that one of the `assert`s of the real code would have failed.

`is_completed` of the real code is `_completed.done() and all(nested.is_completed …)`; on every state
satisfying the invariant proved in `Proofs/Completion.lean` this equals `_completed.done()`, which is what
`able` reads. -/
namespace Haiway.Completion

def upd {α : Type} (f : Nat → α) (i : Nat) (v : α) : Nat → α := fun j => if j = i then v else f j

structure Sys where
  size : Nat := 0
  parent : Nat → Option Nat := fun _ => none      -- `_parent` (registered parent)
  lex : Nat → Option Nat := fun _ => none         -- ghost: the scope that was current at construction
  entered : Nat → Bool := fun _ => false          -- ghost: `MetricsContext.__enter__` happened
  finished : Nat → Bool := fun _ => false         -- `_finished`
  completed : Nat → Bool := fun _ => false        -- `_completed.done()`
  nested : Nat → List Nat := fun _ => []          -- `_nested`, creation order
  created : Nat → Nat := fun _ => 0               -- `_timestamp`
  seenDone : Nat → Nat → Bool := fun _ _ => false -- ghost: `seenDone c a` = `a` had completed when `c` was constructed
  frozen : Nat → Nat := fun _ => 0                -- `_completed.result()`
  now : Nat := 0                                  -- the monotonic clock
  fired : List Nat := []                          -- completion futures resolved, oldest first
  err : Bool := false                             -- an assertion of the real code failed

/-- the scope a new `ScopeMetrics` registers under: the nearest scope on the registered-parent chain of the
current one whose completion future is not resolved yet (a completed scope can no longer wait for anybody).
Outer `none`: fuel exhausted (impossible with fuel = `size`: a parent has a smaller number than its child). -/
def adopter (s : Sys) : Nat → Option Nat → Option (Option Nat)
  | _, none => some none
  | 0, some _ => none
  | fuel + 1, some q => if s.completed q then adopter s fuel (s.parent q) else some (some q)

/-- construction of node `size` with lexical parent `p`, registered under `a` -/
def register (s : Sys) (p a : Option Nat) : Sys :=
  let id := s.size
  match a with
  | some q =>
    { s with size := id + 1, lex := upd s.lex id p, created := upd s.created id s.now,
             seenDone := upd s.seenDone id s.completed,
             parent := upd s.parent id (some q), nested := upd s.nested q (s.nested q ++ [id]) }
  | none =>
    { s with size := id + 1, lex := upd s.lex id p, created := upd s.created id s.now,
             seenDone := upd s.seenDone id s.completed }

/-- `ScopeMetrics.__init__` -/
def create (s : Sys) (p : Option Nat) : Sys :=
  match adopter s s.size p with
  | some a => register s p a
  | none => { s with err := true }

/-- `MetricsContext.__enter__` (re-entrance is refused by an assertion) -/
def enter (s : Sys) (n : Nat) : Sys :=
  if s.entered n then { s with err := true } else { s with entered := upd s.entered n true }

def able (s : Sys) (n : Nat) : Bool := s.finished n && (s.nested n).all s.completed

/-- `_complete_if_able`, walking up the parent chain.  The fuel is `n + 1` at the call site; a parent has a
smaller number than its child, so it never runs out (running out is an explicit error). -/
def completeUp (s : Sys) (n : Nat) : Nat → Sys
  | 0 => { s with err := true }
  | fuel + 1 =>
    if s.completed n then { s with err := true }           -- "called complete on already completed scope"
    else if able s n then
      let s' := { s with completed := upd s.completed n true,
                         frozen := upd s.frozen n (s.now - s.created n),
                         fired := s.fired ++ [n] }
      match s.parent n with
      | some p => completeUp s' p fuel
      | none => s'
    else s

/-- `MetricsContext.__exit__` → `_finish` -/
def finish (s : Sys) (n : Nat) : Sys :=
  if s.completed n || s.finished n then { s with err := true }
  else completeUp { s with finished := upd s.finished n true } n (n + 1)

/-- `ScopeMetrics.time` -/
def time (s : Sys) (n : Nat) : Nat := if s.completed n then s.frozen n else s.now - s.created n

inductive Op where
  | create (p : Option Nat)
  | enter (n : Nat)
  | finish (n : Nat)
  | tick (dt : Nat)
deriving Repr

def step (s : Sys) : Op → Sys
  | .create p => create s p
  | .enter n => enter s n
  | .finish n => finish s n
  | .tick dt => { s with now := s.now + dt }

def run (s : Sys) (ops : List Op) : Sys := ops.foldl step s

/-- well-formed API use: scopes are constructed in the context of an existing scope (or none), a constructed
scope is entered at most once, and left once after it was entered -/
def wfOp (s : Sys) : Op → Bool
  | .create p => match p with | some q => decide (q < s.size) | none => true
  | .enter n => decide (n < s.size) && !s.entered n
  | .finish n => decide (n < s.size) && s.entered n && !s.finished n
  | .tick _ => true

def wf (s : Sys) : List Op → Bool
  | [] => true
  | op :: ops => wfOp s op && wf (step s op) ops

/-- `m` belongs to the registered subtree of `n` -/
inductive InSub (s : Sys) : Nat → Nat → Prop where
  | refl (n : Nat) : InSub s n n
  | step {n c m : Nat} : c ∈ s.nested n → InSub s c m → InSub s n m

/-- `a` is a proper lexical ancestor of `c`: `c` was constructed while `a`, or a scope lexically inside `a`,
was the current scope of the constructing task -/
inductive LexAnc (s : Sys) : Nat → Nat → Prop where
  | parent {a c : Nat} : s.lex c = some a → LexAnc s a c
  | up {a p c : Nat} : s.lex c = some p → LexAnc s a p → LexAnc s a c

end Haiway.Completion
