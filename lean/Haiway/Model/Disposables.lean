/-! Model of `Disposables.__aenter__/__aexit__` inside an async `ScopeContext` (repaired code): every disposable's
    `__aenter__` is started exactly once by `gather`; the ones that entered are exited exactly once – after the body on the
    normal path, immediately (rollback, with the failure as the exception) when some enter failed or was interrupted by a
    cancellation; the body runs iff all entered.  The outcome of each enter/exit (the *fault assignment*) is a parameter:
    theorems quantify over every assignment; completion order of the concurrent enters/exits does not matter for counts. -/
namespace Haiway.Disposables

inductive EnterOut where | entered | failed | interrupted   -- interrupted = cancelled before it finished entering
deriving DecidableEq, Repr

structure Disp where
  enter : EnterOut
  exitRaises : Bool
deriving DecidableEq, Repr

inductive Ev where
  | enterCall (d : Nat) | exitCall (d : Nat) (withExc : Bool) | body
deriving DecidableEq, Repr

/-- `gather` starts every `__aenter__` exactly once -/
def enterEvs : Nat → List Disp → List Ev
  | _, [] => []
  | i, _ :: ds => .enterCall i :: enterEvs (i + 1) ds

/-- `__aexit__` is called on what was successfully entered (all of them on the normal path, the recorded
    ones on rollback) -/
def exitEvs (exc : Bool) : Nat → List Disp → List Ev
  | _, [] => []
  | i, d :: ds => (if d.enter = .entered then [Ev.exitCall i exc] else []) ++ exitEvs exc (i + 1) ds

def allEntered (ds : List Disp) : Bool := ds.all (·.enter = .entered)

/-- what can happen to the scope task itself around the concurrent enters / exits -/
structure Around where
  /-- a cancellation is delivered to the scope's `__aenter__` while (or right after) the concurrent enters run -/
  interrupted : Bool := false
  /-- a cancellation reaches the scope task before the `__aexit__` coroutines started by `gather` (scope exit, or
      rollback after a failed enter) took their first step - a request still *pending* when the exit starts
      (`ctx.cancel()` with no suspension since, a task-group abort hitting a runnable member) or one landing in the same
      loop turn: `gather`'s children are then cancelled before they ever run -/
  pendingCancel : Bool := false
deriving DecidableEq, Repr

/-- the body runs iff every disposable entered and the enter as a whole was not interrupted -/
def proceed (ds : List Disp) (a : Around) : Bool := allEntered ds && !a.interrupted

/-- `async with ctx.scope(disposables=ds): body` – events, and whether the caller sees an exception -/
def run (ds : List Disp) (a : Around) (bodyRaises : Bool) : List Ev × Bool :=
  if proceed ds a then
    if a.pendingCancel then
      (enterEvs 0 ds ++ [.body], true)     -- KNOWN FINDING: no `__aexit__` is ever started; the caller is cancelled
    else
      (enterEvs 0 ds ++ [.body] ++ exitEvs bodyRaises 0 ds, bodyRaises || ds.any (·.exitRaises))
  else if a.pendingCancel then
    (enterEvs 0 ds, true)                  -- KNOWN FINDING, rollback flavour: the rollback's exits are never started
  else
    (enterEvs 0 ds ++ exitEvs true 0 ds, true)          -- rollback with the failure; the body never runs

/-- positions of the disposables whose `__aexit__` was called and raised -/
def raisers : Nat → List Disp → List Nat
  | _, [] => []
  | i, d :: ds => (if d.enter = .entered ∧ d.exitRaises = true then [i] else []) ++ raisers (i + 1) ds

/-- the disposables whose cleanup error **reaches the caller**: it is the exception raised, a member of the raised
exception group, or on the `__cause__` / `__context__` chain of what is raised – on the normal path (after the body) and
on the rollback of a failed or interrupted enter alike (repaired `_dispose`: the gathered results used to be dropped) -/
def surfaced (ds : List Disp) (a : Around) : List Nat :=
  if a.pendingCancel then [] else raisers 0 ds

def isEnter (d : Nat) : Ev → Bool | .enterCall i => i == d | _ => false
def isExit (d : Nat) : Ev → Bool | .exitCall i _ => i == d | _ => false
def isBody : Ev → Bool | .body => true | _ => false

def count (evs : List Ev) (p : Ev → Bool) : Nat := (evs.filter p).length

/-- the exception flag every `__aexit__` receives -/
def exitArgs (evs : List Ev) : List Bool :=
  evs.filterMap fun e => match e with | .exitCall _ w => some w | _ => none

/-- phase of an event: entering, body, exiting -/
def phase : Ev → Nat
  | .enterCall _ => 0
  | .body => 1
  | .exitCall _ _ => 2

end Haiway.Disposables
