/-! Product LTS of tasks, scope frames and task groups (C06, C07).

Mirrors, as they are:
* CPython 3.12.1 `asyncio.TaskGroup` (`taskgroups.py`): `_tasks` (members), `_exiting`, `_aborting`,
  `_parent_cancel_requested`, `_errors`, `propagate_cancellation_error`; `create_task` refusals; `_abort`;
  `_on_task_done` (a *separately scheduled* done callback: label `reap`); the wait loop of `__aexit__` and what
  it raises at the end;
* CPython 3.12.1 `Task.cancel / uncancel / cancelling` and the delivery of `CancelledError` at the next
  resumption ("must cancel"; "task is cancelled right before coro stops"; a task cancelled before its first
  step never runs: label `silentEnd`);
* haiway `TaskGroupContext.run` (innermost async scope's group through the context variable, which tasks
  inherit by `copy_context`; detached task on `LookupError`), `TaskGroupContext.__aexit__` after the repair
  (`CancelledError` re-raised, every other error of the group silenced) at its position in
  `ScopeContext.__aexit__`, `ctx.check_cancellation` after the repair (`cancelling() > 0`), `ctx.cancel`.

One machine per task (control state, stack of entered blocks, inherited group, cancellation counters), one
shared heap (groups, gates).  Labels are the harness-visible events of `harness/scopeprog.py` plus three silent
library-internal steps (`reap`, `deliver`, `silentEnd`) whose position between visible events is chosen by the
event loop.  User code is unconstrained: `raise`, `caught`, `spawn`, `await`, … are enabled wherever Python allows
them; theorems quantify over every label sequence.  Deliberate over-approximation (M1): a cancellation pending on a task
may also be delivered at a suspension point of `__aenter__` before the body (`enterfail`) or of `__aexit__`
after the group has finished (second way of enabling `left … cancelled`); the pinned code has no such suspension points,
a harmless extra `await` there must not break the correspondence.  Scopes with disposables: the disposables themselves
are C02/C08; here only their effect on the group is modelled – a failing enter (`enterfail`) and the exit reason handed
to the group after the cleanup (`cleanupEnd`). Core Lean only. -/
namespace Haiway.Groups

inductive Outcome where
  | ok
  | exc (base : Bool)      -- an ordinary exception (`base` = derives from BaseException only)
  | cancelled
deriving DecidableEq, Repr

def Outcome.isExc : Outcome → Bool
  | .exc _ => true
  | _ => false

structure Frame where
  block : Nat
  isAsync : Bool           -- `async with ctx.scope(..)`: owns the task group `block`; sync scope / `ctx.updated`: no group
deriving DecidableEq, Repr

inductive Status where
  | absent                                 -- no such task
  | fresh                                  -- created, first step not run yet
  | body                                   -- running user code
  | awaiting (g : Nat)                     -- suspended on gate `g`
  | unwinding (o : Outcome)                -- an exception (or cancellation) is propagating
  | exitWait (b : Nat) (suspended : Bool)  -- inside `TaskGroup.__aexit__` of block `b`'s group
  | done (o : Outcome)                     -- `Task.done()`; `o` = cancelled / exception / result
deriving DecidableEq, Repr

structure Task where
  status : Status := .absent
  frames : List Frame := []        -- entered blocks, innermost first
  base : Option Nat := none        -- group visible through the context copied when the task was created
  member : Option Nat := none      -- group this task was spawned into (`TaskGroup.create_task`)
  cancelReq : Nat := 0             -- `Task.cancelling()`
  mustCancel : Bool := false       -- a CancelledError is due at the next resumption
  owed : Bool := false             -- ghost: `cancel()` from outside / `ctx.cancel()` reached the live task
  touched : Bool := false          -- ghost: somebody (user, harness, a TaskGroup) ever called `cancel()` on the live task
  asks : Nat := 0                  -- ghost: number of `cancel()` calls other than the parent-cancel of an own group
  depth : Nat := 0                 -- ghost: length of the chain of `spawn`s that led to this task (the root task: 0)
deriving Repr

structure Group where
  owner : Nat := 0
  entered : Bool := false
  members : List Nat := []         -- `_tasks`
  exiting : Bool := false
  aborting : Bool := false
  pcr : Bool := false              -- `_parent_cancel_requested`
  errors : Nat := 0                -- `len(_errors)`
  propagate : Bool := false        -- `propagate_cancellation_error is not None`
  bodyOut : Outcome := .ok         -- how the body ended (`et` passed to `__aexit__`)
  finished : Bool := false         -- ghost: the owner has left the block
deriving Repr

def upd {α} (f : Nat → α) (i : Nat) (v : α) : Nat → α := fun j => if j = i then v else f j

structure Sys where
  tasks : Nat → Task := fun _ => {}
  groups : Nat → Group := fun _ => {}
  released : Nat → Bool := fun _ => false

/-- the root task exists and has not run yet; nothing else exists -/
def init : Sys := { tasks := upd (fun _ => {}) 0 { status := .fresh } }

def isDone (T : Task) : Bool := match T.status with | .done _ => true | _ => false

def isLive (T : Task) : Bool := match T.status with | .absent => false | .done _ => false | _ => true

def asyncGroups : List Frame → List Nat
  | [] => []
  | f :: fs => if f.isAsync then f.block :: asyncGroups fs else asyncGroups fs

/-- `TaskGroupContext._context.get()` as the task sees it: innermost entered async scope, else inherited -/
def ctxGroup (T : Task) : Option Nat :=
  match asyncGroups T.frames with
  | g :: _ => some g
  | [] => T.base

/-- `Task.cancel()`: no effect on a finished task; otherwise counter + pending delivery -/
def requestCancel (T : Task) : Task :=
  if isLive T then { T with cancelReq := T.cancelReq + 1, mustCancel := true, touched := true, asks := T.asks + 1 } else T

/-- the parent-cancel issued by a task's own group (`_on_task_done`): as `cancel()` but not counted in `asks` -/
def requestParentCancel (T : Task) : Task :=
  if isLive T then { T with cancelReq := T.cancelReq + 1, mustCancel := true, touched := true } else T

/-- `TaskGroup._abort` -/
def abort (s : Sys) (g : Nat) : Sys :=
  { s with tasks := fun i => if i ∈ (s.groups g).members then requestCancel (s.tasks i) else s.tasks i,
           groups := upd s.groups g { s.groups g with aborting := true } }

/-- `TaskGroup.create_task` raises RuntimeError ("is finished" / "is shutting down") -/
def refuses (G : Group) : Bool := G.aborting || (G.exiting && G.members.isEmpty)

inductive Label where
  | rel (g : Nat)                          -- harness releases gate g
  | cancel (t : Nat)                       -- `task.cancel()` from outside the task
  | start (t : Nat)
  | silentEnd (t : Nat)                    -- silent: a task cancelled before its first step ends cancelled without running
  | enter (t b : Nat) (isAsync : Bool)
  | enterfail (t b : Nat) (o : Outcome)    -- `__aenter__` of an async scope fails before the body: a disposable raises (user code), or a pending
                                           -- cancellation is delivered at a suspension point of the enter; the group never gets members
  | spawn (t c : Nat) (viaGroup : Bool)    -- `ctx.spawn` (true) / plain `loop.create_task` (false)
  | spawnfail (t c : Nat)                  -- `ctx.spawn` raised RuntimeError
  | await (t g : Nat)
  | resume (t g : Nat) (cancelled : Bool)
  | raise (t : Nat) (base : Bool)          -- user code raises
  | caught (t : Nat) (o : Outcome)         -- a user `try` caught what was propagating
  | check (t : Nat) (raised : Bool)        -- `ctx.check_cancellation()`
  | cancelself (t : Nat)                   -- `ctx.cancel()`
  | bodyEnd (t b : Nat) (o : Outcome)      -- body of the async block ended; `__aexit__` begins
  | cleanupEnd (t b : Nat) (o : Outcome) (consumed : Bool)
      -- scope with disposables: their cleanup is over and the group exit begins with exit reason `o`: the body's outcome,
      -- or an exception raised by a disposable (user code), or – `consumed` – a cancellation delivered to the task while
      -- the cleanup was awaited
  | left (t b : Nat) (o : Outcome)         -- control leaves the block with outcome o
  | deliver (t : Nat)                      -- silent: CancelledError thrown into the wait loop of `TaskGroup.__aexit__`
  | reap (c : Nat)                         -- silent: `_on_task_done` of a finished member runs
  | end_ (t : Nat) (o : Outcome)           -- the task's coroutine ends with o
deriving DecidableEq, Repr

/-- how the code being executed right now would leave a block / the coroutine -/
def bodyOutcome (T : Task) : Option Outcome :=
  match T.status with
  | .body => some .ok
  | .unwinding o => some o
  | _ => none

/-- "Task is cancelled right before coro stops" -/
def finalOutcome (T : Task) (o : Outcome) : Outcome := if T.mustCancel && o == .ok then .cancelled else o

def setTask (s : Sys) (t : Nat) (T : Task) : Sys := { s with tasks := upd s.tasks t T }
def setGroup (s : Sys) (g : Nat) (G : Group) : Sys := { s with groups := upd s.groups g G }

def markDone (s : Sys) (t : Nat) (final : Outcome) : Sys :=
  setTask s t { s.tasks t with status := .done final, mustCancel := false }

/-- `_on_task_done`, first part: `_tasks.discard(task)`; a failed task is recorded in `_errors` -/
def dropMember (s : Sys) (g c : Nat) (failed : Bool) : Sys :=
  setGroup s g { s.groups g with members := (s.groups g).members.erase c,
                                 errors := if failed then (s.groups g).errors + 1 else (s.groups g).errors }

/-- `_on_task_done`, second part (failed member): abort the group and cancel the parent, once -/
def failGroup (s : Sys) (g : Nat) : Sys :=
  let G := s.groups g
  if !isDone (s.tasks G.owner) && !G.aborting && !G.pcr then
    let s1 := abort s g
    let s2 := setGroup s1 g { s1.groups g with pcr := true }
    setTask s2 G.owner (requestParentCancel (s2.tasks G.owner))
  else s

/-- `uncancel()` of the parent-cancel, if this group issued one ("we *must* call uncancel()") -/
def uncancelled (T : Task) (G : Group) : Nat := if G.pcr then T.cancelReq - 1 else T.cancelReq

/-- the owner's task record when `TaskGroup.__aexit__` starts: suspended iff members are still registered -/
def exitTask (T : Task) (G : Group) (b : Nat) : Task :=
  { T with cancelReq := uncancelled T G, status := .exitWait b (!G.members.isEmpty) }

/-- the group's record when `__aexit__` starts: a cancelled body is remembered for re-raising unless it was the
group's own parent-cancel and nobody else asked -/
def exitGroup (T : Task) (G : Group) (o : Outcome) : Group :=
  { G with exiting := true, bodyOut := o,
           propagate := (o == .cancelled) && !(G.pcr && uncancelled T G == 0) }

/-- `TaskGroup.__aexit__` up to the wait loop, run by the owner `t` whose body ended with `o` -/
def beginExit (s : Sys) (t b : Nat) (o : Outcome) : Sys :=
  let T := s.tasks t
  let G := s.groups b
  let s1 := setGroup (setTask s t (exitTask T G b)) b (exitGroup T G o)
  if o != .ok && !G.aborting then abort s1 b else s1

/-- CancelledError caught in the wait loop: remembered and the group aborted, unless it is aborting already -/
def deliverGroup (s : Sys) (b : Nat) : Sys :=
  if (s.groups b).aborting then s else abort (setGroup s b { s.groups b with propagate := true }) b

/-- what `ScopeContext.__aexit__` lets out of the block once the group has finished:
`TaskGroup` raises the parked CancelledError unless it has member errors (those have priority and come as an
exception group); haiway re-raises CancelledError and silences everything else, so the body's own outcome stands -/
def exitResult (G : Group) : Outcome := if G.propagate && G.errors == 0 then .cancelled else G.bodyOut

def afterBlock (o : Outcome) : Status := if o = .ok then .body else .unwinding o

def step (s : Sys) : Label → Option Sys
  | .rel g => some { s with released := upd s.released g true }
  | .cancel t =>
    let T := s.tasks t
    if T.status = .absent then none
    else if isDone T then some s
    else some (setTask s t { requestCancel T with owed := true })
  | .start t =>
    let T := s.tasks t
    if T.status = .fresh ∧ T.mustCancel = false then some (setTask s t { T with status := .body }) else none
  | .silentEnd t =>
    let T := s.tasks t
    if T.status = .fresh ∧ T.mustCancel = true then some (markDone s t .cancelled) else none
  | .enter t b isAsync =>
    let T := s.tasks t
    if T.status = .body then
      if isAsync then
        if (s.groups b).entered then none
        else some (setGroup (setTask s t { T with frames := ⟨b, true⟩ :: T.frames }) b { owner := t, entered := true })
      else some (setTask s t { T with frames := ⟨b, false⟩ :: T.frames })
    else none
  | .enterfail t _ o =>
    let T := s.tasks t
    if T.status = .body then
      match o with
      | .ok => none
      | .exc _ => some (setTask s t { T with status := .unwinding o })
      | .cancelled =>
        if T.mustCancel then some (setTask s t { T with status := .unwinding .cancelled, mustCancel := false }) else none
    else none
  | .spawn t c viaGroup =>
    let T := s.tasks t
    if T.status = .body ∧ (s.tasks c).status = .absent then
      if viaGroup then
        match ctxGroup T with
        | none => some (setTask s c { status := .fresh, depth := T.depth + 1 })      -- detached
        | some g =>
          let G := s.groups g
          if refuses G then none
          else some (setGroup (setTask s c { status := .fresh, base := some g, member := some g, depth := T.depth + 1 }) g
                      { G with members := G.members ++ [c] })
      else some (setTask s c { status := .fresh, base := ctxGroup T, depth := T.depth + 1 })
    else none
  | .spawnfail t _ =>
    let T := s.tasks t
    if T.status = .body then
      match ctxGroup T with
      | some g => if refuses (s.groups g) then some s else none
      | none => none
    else none
  | .await t g =>
    let T := s.tasks t
    if T.status = .body then some (setTask s t { T with status := .awaiting g }) else none
  | .resume t g cancelled =>
    let T := s.tasks t
    if T.status = .awaiting g then
      if cancelled then
        if T.mustCancel then some (setTask s t { T with status := .unwinding .cancelled, mustCancel := false }) else none
      else
        if !T.mustCancel && s.released g then some (setTask s t { T with status := .body }) else none
    else none
  | .raise t base =>
    let T := s.tasks t
    match bodyOutcome T with
    | some _ => some (setTask s t { T with status := .unwinding (.exc base) })
    | none => none
  | .caught t o =>
    let T := s.tasks t
    if T.status = .unwinding o then some (setTask s t { T with status := .body }) else none
  | .check t raised =>
    let T := s.tasks t
    if T.status = .body ∧ raised = decide (0 < T.cancelReq) then
      some (if raised then setTask s t { T with status := .unwinding .cancelled } else s)
    else none
  | .cancelself t =>
    let T := s.tasks t
    if T.status = .body then some (setTask s t { requestCancel T with owed := true }) else none
  | .bodyEnd t b o =>
    let T := s.tasks t
    match T.frames with
    | f :: _ => if f = ⟨b, true⟩ ∧ bodyOutcome T = some o then some (beginExit s t b o) else none
    | [] => none
  | .cleanupEnd t b o consumed =>
    let T := s.tasks t
    match T.frames, bodyOutcome T with
    | f :: _, some o0 =>
      if f = ⟨b, true⟩ then
        if consumed then
          if T.mustCancel ∧ o = .cancelled then
            some (beginExit (setTask s t { T with mustCancel := false }) t b .cancelled)
          else none
        else if o = o0 ∨ o.isExc then some (beginExit s t b o) else none
      else none
    | _, _ => none
  | .left t b o =>
    let T := s.tasks t
    match T.frames with
    | f :: rest =>
      if f.block = b then
        if f.isAsync then
          let G := s.groups b
          match T.status with
          | .exitWait b' susp =>
            -- `viaGroup`: what the group exit lets out; otherwise a cancellation still pending on the task may be
            -- delivered at a later suspension point of the exit (none in the pinned code; an extra `await` is harmless)
            let viaGroup : Bool := exitResult G == o
            if b' = b ∧ G.members.isEmpty ∧ !(susp && T.mustCancel) ∧ (viaGroup || (T.mustCancel && o == .cancelled)) then
              some (setTask (setGroup s b { G with finished := true }) t
                { T with frames := rest, status := afterBlock o, mustCancel := viaGroup && T.mustCancel })
            else none
          | _ => none
        else
          if bodyOutcome T = some o then some (setTask s t { T with frames := rest }) else none
      else none
    | [] => none
  | .deliver t =>
    let T := s.tasks t
    match T.status with
    | .exitWait b true =>
      if T.mustCancel then
        let s1 := deliverGroup s b
        some (setTask s1 t { s1.tasks t with mustCancel := false, status := .exitWait b (!(s.groups b).members.isEmpty) })
      else none
    | _ => none
  | .reap c =>
    let T := s.tasks c
    match T.status, T.member with
    | .done o, some g =>
      if c ∈ (s.groups g).members then
        let s1 := dropMember s g c o.isExc
        some (if o.isExc then failGroup s1 g else s1)
      else none
    | _, _ => none
  | .end_ t o =>
    let T := s.tasks t
    if T.frames = [] ∧ bodyOutcome T = some o then some (markDone s t (finalOutcome T o)) else none

def run (s : Sys) : List Label → Option Sys
  | [] => some s
  | l :: ls => match step s l with | some s' => run s' ls | none => none

/-- states reachable from the initial one by some label sequence -/
def Reach (s : Sys) : Prop := ∃ ls, run init ls = some s

/-- the silent labels the loop owes in a state (used by the replay driver to place them) -/
def silentEnabled (s : Sys) (ids : List Nat) : List Label :=
  ids.flatMap fun t =>
    [Label.silentEnd t, Label.deliver t, Label.reap t].filter fun l => (step s l).isSome

end Haiway.Groups
