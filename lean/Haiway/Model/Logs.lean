/-! Model of the logging side of `haiway/context/metrics.py`: trace-id and logger inheritance in
    `MetricsContext.scope` / `ScopeMetrics.__init__`, the scope prefix, `ScopeMetrics.log`, the
    `MetricsContext.log_*` fall-back to the root logger, and `logging`'s `msg % args`.  (C19)

`render` is a reader for the part of Python's %-format language the checks exercise: literal characters,
`%%`, the conversions `%s` `%r` (any argument) and `%d` (integers only); anything else after `%` is
malformed (`ValueError`), too few / too many / ill-typed arguments are `TypeError`s – in all these cases
`logging` drops the record through `Handler.handleError`.  A record without arguments is not formatted.
A call whose only argument is a non-empty mapping (`ctx.log_info("user %(name)s", {"name": …})`) is formatted by
`msg % mapping` (`renderMap`: literal characters, `%%`, `%(key)s` `%(key)r` `%(key)d`; a missing key is a `KeyError`,
an unnamed conversion is outside the modelled fragment). -/
namespace Haiway.Logs

inductive Level where | debug | info | warning | error
deriving DecidableEq, Repr

inductive Trace where
  | given (t : List Char)      -- supplied by the caller
  | fresh (scope : Nat)        -- `uuid4().hex` generated for that (outermost) scope
deriving DecidableEq, Repr

inductive LoggerRef where
  | supplied (k : Nat)         -- a `Logger` object handed to `ctx.scope(logger=…)`
  | named (name : List Char)   -- `getLogger(name)`; the empty name is the root logger
  | root                       -- `getLogger()`
deriving DecidableEq, Repr

/-- the arguments of `ctx.scope(name, logger=…, trace_id=…)`; a trace id is a non-empty string -/
structure Spec where
  name : List Char
  trace : Option (List Char) := none
  logger : Option Nat := none
deriving Repr

structure Scope where
  id : Nat
  name : List Char
  trace : Trace
  logger : LoggerRef
deriving Repr

/-- `MetricsContext.scope` + `ScopeMetrics.__init__`: `cur` is the scope found in the context variable -/
def mkScope (cur : Option Scope) (spec : Spec) (id : Nat) : Scope :=
  { id := id, name := spec.name,
    trace := match spec.trace with
      | some t => .given t
      | none => match cur with
        | some p => p.trace                     -- `trace_id or current.trace_id`
        | none => .fresh id,                    -- `trace_id or uuid4().hex`
    logger := match spec.logger with
      | some k => .supplied k
      | none => match cur with
        | some p => p.logger                    -- `logger or current._logger`
        | none => .named spec.name }            -- `logger or getLogger(name=scope)`

/-- scopes nested along a path, outermost first; `ids` are their identifiers -/
def build : Option Scope → List (Spec × Nat) → Option Scope
  | cur, [] => cur
  | cur, (spec, id) :: rest => build (some (mkScope cur spec id)) rest

def natChars (n : Nat) : List Char := (toString n).toList

def showTrace : Trace → List Char
  | .given t => t
  | .fresh k => '@' :: 't' :: natChars k

def showIdent (k : Nat) : List Char := '@' :: 'i' :: natChars k

def bracket (s : List Char) : List Char := '[' :: s ++ [']']

/-- `_logger_prefix` -/
def pfx (c : Scope) : List Char :=
  if c.name.isEmpty then bracket (showTrace c.trace) ++ ' ' :: bracket (showIdent c.id)
  else bracket (showTrace c.trace) ++ ' ' :: bracket c.name ++ ' ' :: bracket (showIdent c.id)

inductive Arg where
  | int (n : Nat)
  | str (s : List Char)
  | kvInt (key : List Char) (n : Nat)         -- one item of the single mapping argument
  | kvStr (key : List Char) (s : List Char)
deriving DecidableEq, Repr

def showS : Arg → List Char
  | .int n => natChars n
  | .str s => s
  | .kvInt _ n => natChars n
  | .kvStr _ s => s

def showR : Arg → List Char
  | .int n => natChars n
  | .str s => '\'' :: s ++ ['\'']       -- `repr` of a string without quotes or backslashes
  | .kvInt _ n => natChars n
  | .kvStr _ s => '\'' :: s ++ ['\'']

def Arg.isKv : Arg → Bool
  | .kvInt .. => true
  | .kvStr .. => true
  | _ => false

/-- the value stored under `key` in the mapping (as a positional argument); the last item with that key wins -/
def lookupKey (items : List Arg) (key : List Char) : Option Arg :=
  items.reverse.findSome? fun a => match a with
    | .kvInt k n => if k = key then some (.int n) else none
    | .kvStr k s => if k = key then some (.str s) else none
    | _ => none

/-- one conversion applied to one argument; `none` = unsupported character or ill-typed argument -/
def conv (k : Char) (a : Arg) : Option (List Char) :=
  if k = 's' then some (showS a)
  else if k = 'r' then some (showR a)
  else if k = 'd' then (match a with | .int n => some (natChars n) | _ => none)
  else none

/-- `fmt % args` for a tuple of arguments; `none` = the operator raises -/
def render : List Char → List Arg → Option (List Char)
  | [], args => if args.isEmpty then some [] else none
  | [c], args => if c = '%' then none else if args.isEmpty then some [c] else none
  | c :: k :: rest, args =>
    if c = '%' then
      if k = '%' then (render rest args).map ('%' :: ·)
      else match args with
        | a :: args' =>
          match conv k a with
          | some txt => (render rest args').map (txt ++ ·)
          | none => none
        | [] => none
    else (render (k :: rest) args).map (c :: ·)

/-- where the reader of `fmt % mapping` is: in literal text, after a `%`, inside `%(key`, or at the conversion character -/
inductive Mode where
  | text | pct | key (acc : List Char) | conv (key : List Char)

/-- `fmt % mapping`; `none` = the operator raises (`ValueError` / `KeyError` / `TypeError`) or the format leaves the
modelled fragment (an unnamed conversion) -/
def renderMapAux : Mode → List Char → List Arg → Option (List Char)
  | .text, [], _ => some []
  | .text, c :: rest, items =>
    if c = '%' then renderMapAux .pct rest items else (renderMapAux .text rest items).map (c :: ·)
  | .pct, [], _ => none
  | .pct, c :: rest, items =>
    if c = '%' then (renderMapAux .text rest items).map ('%' :: ·)
    else if c = '(' then renderMapAux (.key []) rest items
    else none
  | .key _, [], _ => none
  | .key acc, c :: rest, items =>
    if c = ')' then renderMapAux (.conv acc.reverse) rest items else renderMapAux (.key (c :: acc)) rest items
  | .conv _, [], _ => none
  | .conv key, c :: rest, items =>
    match lookupKey items key with
    | some a => (match conv c a with
      | some txt => (renderMapAux .text rest items).map (txt ++ ·)
      | none => none)
    | none => none

def renderMap (fmt : List Char) (items : List Arg) : Option (List Char) := renderMapAux .text fmt items

/-- the call's only argument is a non-empty mapping (`logging` then formats with the mapping itself) -/
def isMapping (args : List Arg) : Bool := !args.isEmpty && args.all Arg.isKv

/-- `LogRecord.getMessage`: formatting is applied only when there are arguments -/
def format (fmt : List Char) (args : List Arg) : Option (List Char) :=
  if args.isEmpty then some fmt else if isMapping args then renderMap fmt args else render fmt args

/-- the repaired `ScopeMetrics.log` escapes the prefix when the record will be %-formatted -/
def escape : List Char → List Char
  | [] => []
  | c :: rest => if c = '%' then '%' :: '%' :: escape rest else c :: escape rest

structure Emitted where
  logger : LoggerRef
  level : Level
  fmt : List Char
  args : List Arg
  exc : Bool
deriving Repr

/-- `ctx.log_*` → `MetricsContext.log_*`: in a scope `ScopeMetrics.log`, else the root logger -/
def logIn (cur : Option Scope) (lv : Level) (msg : List Char) (args : List Arg) (exc : Bool) : Emitted :=
  match cur with
  | some c =>
    { logger := c.logger, level := lv,
      fmt := (if args.isEmpty then pfx c else escape (pfx c)) ++ ' ' :: msg, args := args, exc := exc }
  | none => { logger := .root, level := lv, fmt := msg, args := args, exc := exc }

/-- the text a handler gets out of the record (`none`: the record is lost through `handleError`) -/
def Emitted.text (e : Emitted) : Option (List Char) := format e.fmt e.args

end Haiway.Logs
