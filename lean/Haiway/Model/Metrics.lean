/-! Model of `ScopeMetrics.record`, `ScopeMetrics.read`, `ScopeMetrics.metrics(merge=…)` and of the
    `MetricsContext.record` wrapper (`haiway/context/metrics.py`).  (C10)

A metric value is a `State` instance: its class (`ty`) and a payload.  `record` tests the existing value with
`if (current := self._metrics.get(metric_type)) is not None` (the repaired test: presence, not truthiness – a `State`
class may define `__bool__`/`__len__`, and a falsy stored value used to be *replaced* instead of merged).  The field
`truthy` is kept so that theorems can say "whatever its truth value".  User merge functions are arbitrary and may raise. -/
namespace Haiway.Metrics

structure Val where
  ty : Nat
  data : List Nat
  truthy : Bool := true
deriving DecidableEq, Repr

/-- `_metrics`: a Python dict `type ↦ value`, in insertion order -/
abbrev Store := List (Nat × Val)

def get (s : Store) (ty : Nat) : Option Val := (s.find? (·.1 = ty)).map (·.2)

/-- `d[ty] = v`: replaces in place, or appends -/
def put (s : Store) (ty : Nat) (v : Val) : Store :=
  match s with
  | [] => [(ty, v)]
  | (t, x) :: rest => if t = ty then (t, v) :: rest else (t, x) :: put rest ty v

def values (s : Store) : List Val := s.map (·.2)

/-- result of calling a user supplied function: a value, or a raised exception (`isException` = it derives
from `Exception`, as opposed to a bare `BaseException` such as `KeyboardInterrupt`) -/
inductive Res where
  | ok (v : Val)
  | raise (isException : Bool)
deriving DecidableEq, Repr

abbrev Merge := Val → Val → Res

inductive RecOut where
  | stored (s : Store)
  | raised (isException : Bool)
deriving Repr

/-- `ScopeMetrics.record(metric, merge=…)`; `completed` = the scope's completion future is resolved
(the method then fails its first assertion – an `AssertionError`, which is an `Exception`) -/
def record (completed : Bool) (s : Store) (v : Val) (m : Merge) : RecOut :=
  if completed then .raised true
  else match get s v.ty with
    | some cur =>
      match m cur v with
      | .ok r => .stored (put s v.ty r)
      | .raise e => .raised e
    | none => .stored (put s v.ty v)

/-- what the caller of `ctx.record` sees -/
inductive Outcome where
  | returned (logged : Bool)     -- normal return; `logged` = "Failed to record metric" was logged instead
  | propagated                   -- an exception escaped into user code
deriving DecidableEq, Repr

/-- `MetricsContext.record`: `try: current.record(…)  except Exception: log_error(…)`.
`cur = none`: no scope in the context (`LookupError`, an `Exception`). -/
def ctxRecord (cur : Option (Bool × Store)) (v : Val) (m : Merge) : Option Store × Outcome :=
  match cur with
  | none => (none, .returned true)
  | some (completed, s) =>
    match record completed s v m with
    | .stored s' => (some s', .returned false)
    | .raised true => (none, .returned true)
    | .raised false => (none, .propagated)

/-! ### merged view -/

/-- merge function of `metrics(merge=…)`: `(current | MISSING, received) → merged | MISSING` -/
abbrev ViewMerge := Option Val → Val → Option Val

/-- the loop body of `ScopeMetrics.metrics`: fold a list of received values into `acc` -/
def mergeInto (merge : ViewMerge) (acc : Store) : List Val → Store
  | [] => acc
  | v :: rest =>
    mergeInto merge (match merge (get acc v.ty) v with | some r => put acc v.ty r | none => acc) rest

/-- a scope with the scopes registered under it (`_nested`, creation order) -/
inductive Tree where
  | node (own : Store) (nested : List Tree)

mutual
/-- `ScopeMetrics.metrics(merge=merge)` with a merge function -/
def view (merge : ViewMerge) : Tree → Store
  | .node own nested => viewList merge own nested
def viewList (merge : ViewMerge) (acc : Store) : List Tree → Store
  | [] => acc
  | t :: ts => viewList merge (mergeInto merge acc (values (view merge t))) ts
end

/-- `ScopeMetrics.metrics()` without a merge function: the scope's own values only -/
def viewPlain : Tree → List Val
  | .node own _ => values own

end Haiway.Metrics
