/-! `MiniPy`: a deep embedding of the Python subset in which haiway's small synchronous methods (and the
    straight-line parts of its coroutines) are written, with an interpreter.  `harness/py2lean.py` translates the AST of
    /repo's *current* source into `Stmt` terms on every run; the obligations in `Haiway/Bridge/*.lean` are then re-checked
    by Lean about the regenerated terms (proof scripts evaluate the term symbolically, so they do not depend on its
    shape – a behaviour-preserving rewrite inside the subset leaves them provable).

    What is fixed here (and therefore trusted as a description of CPython 3.12): truthiness, `is`, `and`/`or` returning an
    operand, `try/except/else/finally` with replacement of the exception in flight, bare `raise`, `assert`, the class
    hierarchy of the exception classes named below, value semantics for the builtin containers a method owns through a
    field or a local (`list`, `deque`, `tuple`, `dict` – aliasing of such containers is outside the subset), and calls:
    builtin container operations are interpreted here, every other call is an *external* whose behaviour is a parameter
    (`World`), written down per translated class in `Haiway/Bridge`.

    Variables, fields, classes and externals are numbered by the translator (names are kept in comments). -/
namespace Haiway.MiniPy

/-- Python values.  Containers have value semantics; `obj`, `exc` and `cls` have identity (their number). -/
inductive Val where
  | none
  | bool (b : Bool)
  | int (n : Int)
  | str (n : Nat)                  -- interned string literal
  | obj (n : Nat)                  -- opaque object with identity
  | exc (cls : Nat) (id : Nat)     -- exception instance
  | cls (n : Nat)                  -- a class object
  | list (xs : List Val)           -- list / tuple / deque
  | dict (kv : List (Val × Val))   -- insertion ordered

namespace Val

/-- `a is b` / key equality for the atoms; two containers are never "the same" here (the translator refuses `is`
between container expressions). -/
def same : Val → Val → Bool
  | .none, .none => true
  | .bool a, .bool b => a == b
  | .int a, .int b => a == b
  | .str a, .str b => a == b
  | .obj a, .obj b => a == b
  | .exc c a, .exc d b => c == d && a == b
  | .cls a, .cls b => a == b
  | _, _ => false

def truthy : Val → Bool
  | .none => false
  | .bool b => b
  | .int n => n != 0
  | .str _ => true                 -- only non-empty literals are interned
  | .obj _ => true
  | .exc _ _ => true
  | .cls _ => true
  | .list xs => !xs.isEmpty
  | .dict kv => !kv.isEmpty

end Val

/-! ### exception classes (fixed numbering; the translator refuses any other class name) -/
abbrev cBaseException : Nat := 0
abbrev cException : Nat := 1
abbrev cCancelledError : Nat := 2
abbrev cRuntimeError : Nat := 3
abbrev cAssertionError : Nat := 4
abbrev cStopAsyncIteration : Nat := 5
abbrev cLookupError : Nat := 6
abbrev cAttributeError : Nat := 7
abbrev cMissingState : Nat := 8
abbrev cMissingContext : Nat := 9
abbrev cBaseExceptionGroup : Nat := 10
abbrev cTypeError : Nat := 11
abbrev cKeyError : Nat := 12
abbrev cValueError : Nat := 13
abbrev cTimeoutError : Nat := 14
abbrev cUserError : Nat := 20         -- "some subclass of Exception raised by user code"
abbrev cUserBase : Nat := 21          -- "some BaseException that is not an Exception, not a cancellation"

/-- `issubclass(c, d)` -/
def isSub (c d : Nat) : Bool :=
  c == d || d == cBaseException ||
  (d == cException && !(c == cBaseException || c == cCancelledError || c == cBaseExceptionGroup || c == cUserBase)) ||
  (d == cLookupError && c == cKeyError)

/-! ### syntax -/
inductive Expr where
  | lit (v : Val)
  | loc (i : Nat)                       -- local variable / parameter
  | fld (i : Nat)                       -- `self.<field>`
  | is_ (a b : Expr)
  | not_ (a : Expr)
  | and_ (a b : Expr)
  | or_ (a b : Expr)
  | cmp (op : Nat) (a b : Expr)         -- 0 `==`  1 `!=`  2 `<`  3 `<=`  4 `>`  5 `>=`   (ints; `==`/`!=` also atoms)
  | cond (c a b : Expr)                 -- `a if c else b`
  | call (f : Nat) (args : Expr)        -- builtin (< 100) or external (≥ 100) applied to an argument list
  | nil                                 -- argument list / display
  | cons (a rest : Expr)

inductive Stmt where
  | pass
  | seq (a b : Stmt)
  | assign (i : Nat) (e : Expr)
  | setFld (i : Nat) (e : Expr)
  | expr (e : Expr)
  | ite (c : Expr) (t e : Stmt)
  | ret (e : Expr)
  | raise (e : Expr)
  | reraise
  | assert_ (c : Expr)
  | try_ (body handlers orelse final : Stmt)
  | scoped (dst : Nat) (body : Stmt)     -- an inlined call `dst = self.helper(…)`: `return v` inside `body` ends `body` only
  | handler (cls : Nat) (bind : Option Nat) (body rest : Stmt)   -- only inside `try_ _ handlers _ _`
  | noHandler
  | loop (fuel : Nat) (body : Stmt)      -- `while True: body` (at most `fuel` iterations, then stuck: termination is the caller's lemma)
  | cont                                 -- `continue`
  | brk                                  -- `break`
  | forEach (v : Nat) (xs : Expr) (body : Stmt)   -- `for v in xs: body` over a list value (no `else` clause)
  | unsupported                         -- the translator met a construct outside the subset *inside an `if` arm* …

/-! ### builtin calls -/
abbrev bLen : Nat := 0          -- len(x)
abbrev bAppend : Nat := 1       -- xs.append(v)        -> new container   (statement form: field/local update)
abbrev bAppendLeft : Nat := 2   -- xs.appendleft(v)
abbrev bExtend : Nat := 3       -- xs.extend(ys)
abbrev bPopLeft : Nat := 4      -- xs.popleft()        -> [value, new container]   (IndexError unsupported: stuck)
abbrev bHead : Nat := 5         -- xs[0]
abbrev bContains : Nat := 6     -- k in d / v in xs
abbrev bGetItem : Nat := 7      -- d[k]
abbrev bSetItem : Nat := 8      -- d[k] = v            -> new dict
abbrev bIsInstance : Nat := 9   -- isinstance(v, Cls)  (exception classes)
abbrev bNewExc : Nat := 10      -- Cls(...)            -> fresh exception instance of class `args[0]`
abbrev bIndex1 : Nat := 11      -- xs[1]   (second component of a pair produced by bPopLeft)
abbrev bValues : Nat := 12      -- d.values() as a list
abbrev bConcat : Nat := 13      -- [*a, *b]
abbrev bDictOfTypes : Nat := 14 -- {type(e): e for e in xs}   (external `typeOf` supplies type(e))
abbrev bType : Nat := 15        -- type(v) for exception instances
abbrev bGet : Nat := 16         -- d.get(k) / d.get(k, default)
abbrev bAnyInst : Nat := 17     -- any(isinstance(v, c) for c in classes)
abbrev bAdd : Nat := 18         -- a + b (ints)
abbrev bIsNumber : Nat := 19    -- class pattern `int() | float()`: numbers are `.int` (and `bool`, a subclass of `int`)
abbrev bDelItem : Nat := 20     -- del d[k]            -> new dict   (KeyError unsupported: stuck)
abbrev bMoveToEnd : Nat := 21   -- d.move_to_end(k)    -> new dict
abbrev bPopFirst : Nat := 22    -- d.popitem(last=False) -> new dict (the popped pair is not used)
abbrev bPair : Nat := 23        -- a two-field named tuple `T(a, b)`: `[a, b]`
abbrev bSub : Nat := 24         -- a - b (ints)

/-- interpreter state: locals, fields of `self`, the external world, the exception being handled (for bare `raise`),
and a counter for fresh identities -/
structure St (W : Type) where
  loc : Nat → Val
  fld : Nat → Val
  world : W
  handling : Option Val := none
  fresh : Nat := 1000

def upd (f : Nat → Val) (i : Nat) (v : Val) : Nat → Val := fun j => if j = i then v else f j

@[simp] theorem upd_same (f : Nat → Val) (i : Nat) (v : Val) : upd f i v i = v := by simp [upd]
@[simp] theorem upd_other (f : Nat → Val) (i j : Nat) (v : Val) (h : j ≠ i) : upd f i v j = f j := by simp [upd, h]

/-- result of evaluating an expression / an external call -/
inductive R (W : Type) where
  | ok (v : Val) (s : St W)
  | exc (e : Val) (s : St W)
  | stuck                              -- outside the subset (type error the code cannot make, unsupported call)

/-- behaviour of the externals: number, arguments, world, current fields of `self` ↦ value or raised exception, new world,
new fields (an external may be a suspension point during which other code – a producer, a callback – updates the object);
`none` = unsupported -/
abbrev World (W : Type) := Nat → List Val → W → (Nat → Val) → Option ((Val ⊕ Val) × W × (Nat → Val))

def assocGet : List (Val × Val) → Val → Option Val
  | [], _ => none
  | (k, v) :: r, x => if k.same x then some v else assocGet r x

def assocSet : List (Val × Val) → Val → Val → List (Val × Val)
  | [], x, v => [(x, v)]
  | (k, w) :: r, x, v => if k.same x then (k, v) :: r else (k, w) :: assocSet r x v

/-- `del d[k]` (keys of a dict are unique: every pair with that key goes) -/
def assocDel (kv : List (Val × Val)) (x : Val) : List (Val × Val) := kv.filter fun p => !p.1.same x

/-- `[x for x in xs if isinstance(x, BaseException) and x is not v]` -/
def excsExcept (xs : List Val) (v : Val) : List Val :=
  xs.filter fun x => (match x with | .exc _ _ => true | _ => false) && !x.same v

/-- `[x for x in xs if isinstance(x, BaseException)]` -/
def excsOnly (xs : List Val) : List Val := xs.filter fun x => match x with | .exc _ _ => true | _ => false

/-- the comprehensions of the subset (kept apart from `builtin`: the equation compiler's budget for one `match` is finite) -/
def builtin2 {W : Type} (f : Nat) (args : List Val) (s : St W) : R W :=
  match f, args with
  | 25, [.list xs, v] => .ok (.list (excsExcept xs v)) s
  | 26, [.list xs] => .ok (.list (excsOnly xs)) s
  | _, _ => .stuck

def builtin {W : Type} (f : Nat) (args : List Val) (s : St W) : R W :=
  match f, args with
  | 0, [.list xs] => .ok (.int xs.length) s
  | 0, [.dict kv] => .ok (.int kv.length) s
  | 1, [.list xs, v] => .ok (.list (xs ++ [v])) s
  | 2, [.list xs, v] => .ok (.list (v :: xs)) s
  | 3, [.list xs, .list ys] => .ok (.list (xs ++ ys)) s
  | 4, [.list (x :: xs)] => .ok (.list [x, .list xs]) s
  | 5, [.list (x :: _)] => .ok x s
  | 11, [.list (_ :: y :: _)] => .ok y s
  | 6, [k, .dict kv] => .ok (.bool (assocGet kv k).isSome) s
  | 6, [v, .list xs] => .ok (.bool (xs.any (fun x => x.same v))) s
  | 7, [.dict kv, k] => match assocGet kv k with
      | some v => .ok v s
      | none => .exc (.exc cKeyError s.fresh) { s with fresh := s.fresh + 1 }
  | 8, [.dict kv, k, v] => .ok (.dict (assocSet kv k v)) s
  | 9, [.exc c _, .cls d] => .ok (.bool (isSub c d)) s
  | 9, [_, .cls _] => .ok (.bool false) s
  | 10, (.cls c :: _) => .ok (.exc c s.fresh) { s with fresh := s.fresh + 1 }
  | 12, [.dict kv] => .ok (.list (kv.map (·.2))) s
  | 13, [.list xs, .list ys] => .ok (.list (xs ++ ys)) s
  | 15, [.exc c _] => .ok (.cls c) s
  | 16, [.dict kv, k] => .ok ((assocGet kv k).getD .none) s
  | 16, [.dict kv, k, d] => .ok ((assocGet kv k).getD d) s
  | 17, [.exc c _, .list cs] => .ok (.bool (cs.any fun | .cls d => isSub c d | _ => false)) s
  | 18, [.int a, .int b] => .ok (.int (a + b)) s
  | 20, [.dict kv, k] => if (assocGet kv k).isSome then .ok (.dict (assocDel kv k)) s else .stuck
  | 21, [.dict kv, k] => (match assocGet kv k with
      | some v => .ok (.dict (assocDel kv k ++ [(k, v)])) s
      | none => .stuck)
  | 22, [.dict kv] => if kv.isEmpty then .stuck else .ok (.dict kv.tail) s
  | 23, [a, b] => .ok (.list [a, b]) s
  | 24, [.int a, .int b] => .ok (.int (a - b)) s
  | 19, [.int _] => .ok (.bool true) s
  | 19, [.bool _] => .ok (.bool true) s
  | 19, [_] => .ok (.bool false) s
  | f, args => builtin2 f args s

def cmpInt (op : Nat) (a b : Int) : Option Bool :=
  match op with
  | 0 => some (a == b) | 1 => some (a != b) | 2 => some (a < b) | 3 => some (a ≤ b) | 4 => some (a > b) | 5 => some (a ≥ b)
  | _ => none

/-- expressions; `nil`/`cons` evaluate to the list of the evaluated items (left to right) -/
def eval {W : Type} (ext : World W) : Expr → St W → R W
  | .lit v, s => .ok v s
  | .loc i, s => .ok (s.loc i) s
  | .fld i, s => .ok (s.fld i) s
  | .is_ a b, s =>
    match eval ext a s with
    | .ok va s1 => (match eval ext b s1 with
      | .ok vb s2 => .ok (.bool (va.same vb)) s2
      | r => r)
    | r => r
  | .not_ a, s =>
    match eval ext a s with
    | .ok va s1 => .ok (.bool (!va.truthy)) s1
    | r => r
  | .and_ a b, s =>
    match eval ext a s with
    | .ok va s1 => if va.truthy then eval ext b s1 else .ok va s1
    | r => r
  | .or_ a b, s =>
    match eval ext a s with
    | .ok va s1 => if va.truthy then .ok va s1 else eval ext b s1
    | r => r
  | .cmp op a b, s =>
    match eval ext a s with
    | .ok va s1 => (match eval ext b s1 with
      | .ok vb s2 =>
        (match va, vb with
         | .int x, .int y => (match cmpInt op x y with | some r => .ok (.bool r) s2 | none => .stuck)
         | _, _ => if op = 0 then .ok (.bool (va.same vb)) s2 else if op = 1 then .ok (.bool (!va.same vb)) s2 else .stuck)
      | r => r)
    | r => r
  | .cond c a b, s =>
    match eval ext c s with
    | .ok vc s1 => if vc.truthy then eval ext a s1 else eval ext b s1
    | r => r
  | .nil, s => .ok (.list []) s
  | .cons a r, s =>
    match eval ext a s with
    | .ok va s1 => (match eval ext r s1 with
      | .ok (.list vs) s2 => .ok (.list (va :: vs)) s2
      | .ok _ _ => .stuck
      | x => x)
    | x => x
  | .call f args, s =>
    match eval ext args s with
    | .ok (.list vs) s1 =>
      if f < 100 then builtin f vs s1
      else (match ext f vs s1.world s1.fld with
        | some (.inl v, w, fl) => .ok v { s1 with world := w, fld := fl }
        | some (.inr e, w, fl) => .exc e { s1 with world := w, fld := fl }
        | none => .stuck)
    | .ok _ _ => .stuck
    | x => x

/-- how a statement ends -/
inductive Out where
  | normal
  | ret (v : Val)
  | exc (e : Val)
  | stuck
  | cont                                 -- `continue` on its way to the enclosing loop
  | brk                                  -- `break` on its way to the enclosing loop

/-- `while True:` – run `step` until it ends with something other than falling through / `continue` -/
def iter {W : Type} (step : St W → Out × St W) : Nat → St W → Out × St W
  | 0, s => (.stuck, s)
  | n + 1, s =>
    match step s with
    | (.normal, s1) => iter step n s1
    | (.cont, s1) => iter step n s1
    | (.brk, s1) => (.normal, s1)
    | r => r

/-- `for x in xs:` – run `step x` for the elements in order; `break` ends the loop, `continue` goes on with the next element -/
def iterList {W : Type} (step : Val → St W → Out × St W) : List Val → St W → Out × St W
  | [], s => (.normal, s)
  | x :: rest, s =>
    match step x s with
    | (.normal, s1) => iterList step rest s1
    | (.cont, s1) => iterList step rest s1
    | (.brk, s1) => (.normal, s1)
    | r => r

def excClass : Val → Option Nat
  | .exc c _ => some c
  | _ => none

/-- statements.  `handlers` of a `try_` is a chain `handler … (handler … noHandler)`; `execH` picks the first clause
whose class matches (`isinstance`), binds the exception, and runs the clause with `handling` set. -/
def exec {W : Type} (ext : World W) : Stmt → St W → Out × St W
  | .pass, s => (.normal, s)
  | .unsupported, s => (.stuck, s)
  | .noHandler, s => (.stuck, s)
  | .handler _ _ _ _, s => (.stuck, s)
  | .cont, s => (.cont, s)
  | .brk, s => (.brk, s)
  | .loop fuel body, s => iter (exec ext body) fuel s
  | .forEach v e body, s =>
    match eval ext e s with
    | .ok (.list vs) s1 => iterList (fun x st => exec ext body { st with loc := upd st.loc v x }) vs s1
    | .ok _ _ => (.stuck, s)
    | .exc x s1 => (.exc x, s1)
    | .stuck => (.stuck, s)
  | .seq a b, s =>
    match exec ext a s with
    | (.normal, s1) => exec ext b s1
    | r => r
  | .assign i e, s =>
    match eval ext e s with
    | .ok v s1 => (.normal, { s1 with loc := upd s1.loc i v })
    | .exc x s1 => (.exc x, s1)
    | .stuck => (.stuck, s)
  | .setFld i e, s =>
    match eval ext e s with
    | .ok v s1 => (.normal, { s1 with fld := upd s1.fld i v })
    | .exc x s1 => (.exc x, s1)
    | .stuck => (.stuck, s)
  | .expr e, s =>
    match eval ext e s with
    | .ok _ s1 => (.normal, s1)
    | .exc x s1 => (.exc x, s1)
    | .stuck => (.stuck, s)
  | .ite c t e, s =>
    match eval ext c s with
    | .ok v s1 => if v.truthy then exec ext t s1 else exec ext e s1
    | .exc x s1 => (.exc x, s1)
    | .stuck => (.stuck, s)
  | .ret e, s =>
    match eval ext e s with
    | .ok v s1 => (.ret v, s1)
    | .exc x s1 => (.exc x, s1)
    | .stuck => (.stuck, s)
  | .raise e, s =>
    match eval ext e s with
    | .ok (.exc c n) s1 => (.exc (.exc c n), s1)
    | .ok _ _ => (.stuck, s)
    | .exc x s1 => (.exc x, s1)
    | .stuck => (.stuck, s)
  | .scoped dst body, s =>
    match exec ext body s with
    | (.normal, s1) => (.normal, { s1 with loc := upd s1.loc dst .none })
    | (.ret v, s1) => (.normal, { s1 with loc := upd s1.loc dst v })
    | r => r
  | .reraise, s =>
    match s.handling with
    | some e => (.exc e, s)
    | none => (.stuck, s)
  | .assert_ c, s =>
    match eval ext c s with
    | .ok v s1 => if v.truthy then (.normal, s1) else (.exc (.exc cAssertionError s1.fresh), { s1 with fresh := s1.fresh + 1 })
    | .exc x s1 => (.exc x, s1)
    | .stuck => (.stuck, s)
  | .try_ body hs orelse fin, s =>
    let r1 : Out × St W :=
      match exec ext body s with
      | (.normal, s1) => exec ext orelse s1
      | (.exc e, s1) => execH ext hs e s1
      | r => r
    match exec ext fin r1.2 with
    | (.normal, s3) => (r1.1, s3)          -- `finally` completed: the pending outcome stands
    | r => r                                -- `finally` raised / returned: it replaces the pending outcome
where
  execH {W : Type} (ext : World W) : Stmt → Val → St W → Out × St W
  | .handler c bind body rest, e, s =>
    match excClass e with
    | some ce =>
      if isSub ce c then
        let s1 : St W := { s with handling := some e, loc := match bind with | some i => upd s.loc i e | none => s.loc }
        match exec ext body s1 with
        | (o, s2) => (o, { s2 with handling := s.handling })
      else execH ext rest e s
    | none => (.stuck, s)
  | .noHandler, e, s => (.exc e, s)         -- no clause matched: the exception propagates
  | _, _, s => (.stuck, s)

/-- run a method body: falling off the end returns `None` -/
def runMethod {W : Type} (ext : World W) (body : Stmt) (s : St W) : Out × St W :=
  match exec ext body s with
  | (.normal, s1) => (.ret .none, s1)
  | r => r

/-! ### `len(xs)` compared with 0 / 1, in the normal forms `simp` leaves (for the evaluation macros of the bridges: `len(xs) != 0`,
`len(xs) == 0`, `len(xs) > 0`, `len(xs) >= 1`, `len(xs) == 1`, `len(xs) > 1` on a list of known shape) -/
section LenArith
variable (k : Nat)
theorem len1_ne_zero : (((k : Int) + 1) != 0) = true := by
  have : ¬ ((k : Int) + 1 = 0) := by omega
  simpa [bne_iff_ne] using this
theorem len1_beq_zero : (((k : Int) + 1) == 0) = false := by
  have : ¬ ((k : Int) + 1 = 0) := by omega
  simpa using this
theorem len1_eq_zero : (((k : Int) + 1) = 0) = False := by
  have : ¬ ((k : Int) + 1 = 0) := by omega
  simpa using this
theorem len1_pos : ((0 : Int) < (k : Int) + 1) = True := by
  have : (0 : Int) < (k : Int) + 1 := by omega
  simpa using this
theorem len1_ge_one : ((1 : Int) ≤ (k : Int) + 1) = True := by
  have : (1 : Int) ≤ (k : Int) + 1 := by omega
  simpa using this
theorem len2_ge_one : ((1 : Int) ≤ (k : Int) + 1 + 1) = True := by
  have : (1 : Int) ≤ (k : Int) + 1 + 1 := by omega
  simpa using this
theorem len2_eq_one : (((k : Int) + 1 + 1) = 1) = False := by
  have : ¬ ((k : Int) + 1 + 1 = 1) := by omega
  simpa using this
theorem len2_beq_one : (((k : Int) + 1 + 1) == 1) = false := by
  have : ¬ ((k : Int) + 1 + 1 = 1) := by omega
  simpa using this
theorem len2_bne_one : (((k : Int) + 1 + 1) != 1) = true := by
  have : ¬ ((k : Int) + 1 + 1 = 1) := by omega
  simpa [bne_iff_ne] using this
theorem len2_gt_one : ((1 : Int) < (k : Int) + 1 + 1) = True := by
  have : (1 : Int) < (k : Int) + 1 + 1 := by omega
  simpa using this
end LenArith

end Haiway.MiniPy
