/-!
# Model of `haiway.types.missing` (repaired code) and of the ways of obtaining a missing value

Python values are trees (`Val`).  An instance of the class `Missing` carries an *object identity*:
`missing 0` is THE constant `MISSING`; any other id would be a second instance.  The library
tests identity (`is MISSING`) everywhere, so the whole property is: no operation manufactures an
id other than `0`.

* `callType`      `Missing()` – the metaclass `__call__` returns the cached instance
* `reduceMissing` what `copy` / `deepcopy` / `pickle` do with an instance: they ask
                  `__reduce_ex__`, the repaired class answers `(Missing, ())`, reconstruction calls
                  the type
* `copy`          `copy.copy` (shallow: children are shared, only a top-level instance is rebuilt)
* `deepcopy`      `copy.deepcopy` (every node rebuilt; a `State` is rebuilt from deep-copied
                  attributes or is its own copy – the same tree either way)
* `pickle p`      `pickle.loads(pickle.dumps(v, p))`, protocols 0–5; `State` instances of the
                  current code cannot be pickled at all (`__slots__` + immutable `__setattr__`):
                  explicit error
* predicates      `is_missing`, `not_missing`, `when_missing`; truthiness; `==` against `MISSING` in
                  both operand orders (Python's dispatch: left `__eq__`, `NotImplemented` ⇒ reflected);
                  attribute get / set / del
-/
namespace Haiway.Missing

inductive Val where
  | none
  | bool (b : Bool)
  | int (n : Int)
  | str (s : String)
  | missing (id : Nat)                 -- instance of `Missing`; id 0 is the constant `MISSING`
  | list (xs : List Val)
  | tuple (xs : List Val)
  | dict (kvs : List (Val × Val))
  | set (xs : List Val)
  | frozenset (xs : List Val)
  | state (cls : Nat) (fields : List (String × Val))
  | alwaysEq (id : Nat)                -- look-alike: object whose `__eq__` always answers True
  | pretender (id : Nat)               -- look-alike: object of another type that reports `Missing`
                                       -- as its `__class__` (so `isinstance(x, Missing)` is True)
deriving Repr, Inhabited

/-- `Missing()` -/
def callType : Val := .missing 0

/-- reconstruction from `Missing.__reduce__() = (Missing, ())` -/
def reduceMissing (_old : Nat) : Val := callType

/-- `copy.copy` -/
def copy : Val → Val
  | .missing id => reduceMissing id
  | v => v

mutual
/-- `copy.deepcopy` -/
def deepcopy : Val → Val
  | .missing id => reduceMissing id
  | .none => .none
  | .bool b => .bool b
  | .int n => .int n
  | .str s => .str s
  | .list xs => .list (deepcopyList xs)
  | .tuple xs => .tuple (deepcopyList xs)
  | .dict kvs => .dict (deepcopyPairs kvs)
  | .set xs => .set (deepcopyList xs)
  | .frozenset xs => .frozenset (deepcopyList xs)
  | .state c fs => .state c (deepcopyFields fs)
  | .alwaysEq id => .alwaysEq id
  | .pretender id => .pretender id
def deepcopyList : List Val → List Val
  | [] => []
  | x :: xs => deepcopy x :: deepcopyList xs
def deepcopyPairs : List (Val × Val) → List (Val × Val)
  | [] => []
  | (k, v) :: r => (deepcopy k, deepcopy v) :: deepcopyPairs r
def deepcopyFields : List (String × Val) → List (String × Val)
  | [] => []
  | (n, v) :: r => (n, deepcopy v) :: deepcopyFields r
end

mutual
/-- no `State` instance anywhere in the tree -/
def picklable : Val → Bool
  | .state _ _ => false
  | .list xs => picklableList xs
  | .tuple xs => picklableList xs
  | .set xs => picklableList xs
  | .frozenset xs => picklableList xs
  | .dict kvs => picklablePairs kvs
  | _ => true
def picklableList : List Val → Bool
  | [] => true
  | x :: xs => picklable x && picklableList xs
def picklablePairs : List (Val × Val) → Bool
  | [] => true
  | (k, v) :: r => picklable k && picklable v && picklablePairs r
end

inductive PickleErr where
  | badProtocol          -- protocol > 5: `ValueError`
  | stateNotPicklable    -- `State` instances cannot be pickled
deriving DecidableEq, Repr

/-- pickle round trip with protocol `p`: a pickled tree is rebuilt node by node, instances of
`Missing` through `__reduce_ex__(p)`, which for every protocol defers to the class's `__reduce__` -/
def pickle (p : Nat) (v : Val) : Except PickleErr Val :=
  if p > 5 then .error .badProtocol
  else if picklable v then .ok (deepcopy v)
  else .error .stateNotPicklable

/-! ## predicates and operators -/

/-- `check is MISSING` -/
def isMissing : Val → Bool
  | .missing 0 => true
  | _ => false

def notMissing (v : Val) : Bool := !isMissing v

/-- the validator of a State attribute annotated `Missing`: identity with the constant (`value is MISSING`), not
`isinstance` – an object that merely reports `Missing` as its class does not conform -/
def validMissing (v : Val) : Bool := isMissing v

/-- … annotated `str | Missing` -/
def validStrOrMissing : Val → Bool
  | .str _ => true
  | v => isMissing v

def whenMissing (v dflt : Val) : Val := if isMissing v then dflt else v

/-- `bool(v)` -/
def truthy : Val → Bool
  | .none => false
  | .bool b => b
  | .int n => n != 0
  | .str s => s != ""
  | .missing _ => false              -- `Missing.__bool__`
  | .list xs => !xs.isEmpty
  | .tuple xs => !xs.isEmpty
  | .dict kvs => !kvs.isEmpty
  | .set xs => !xs.isEmpty
  | .frozenset xs => !xs.isEmpty
  | .state _ _ => true
  | .alwaysEq _ => true
  | .pretender _ => true

/-- `MISSING == v`: `Missing.__eq__(MISSING, v)` is tried first (no operand here is an instance of a
subclass of `Missing`, the class is final) and answers `v is MISSING` -/
def eqMissingLeft (v : Val) : Bool := isMissing v

/-- `v == MISSING`: an always-equal object answers True; an instance of `Missing` answers
`MISSING is MISSING`; every other left operand answers `NotImplemented` (or, for a `State`,
False) so the reflected `Missing.__eq__(MISSING, v)` decides: `v is MISSING` -/
def eqMissingRight : Val → Bool
  | .alwaysEq _ => true
  | .missing _ => true
  | .state _ _ => false
  | v => isMissing v

inductive AttrErr where | attributeError
deriving DecidableEq, Repr

/-- `getattr(v, name)` for a plain (non-dunder) name on an instance of `Missing`; other values are
not modelled (`none`) -/
def getAttr : Val → String → Option (Except AttrErr Val)
  | .missing _, _ => some (.error .attributeError)
  | _, _ => Option.none

/-- `setattr` / `delattr` -/
def setAttr : Val → String → Val → Option (Except AttrErr Unit)
  | .missing _, _, _ => some (.error .attributeError)
  | _, _, _ => Option.none

def delAttr : Val → String → Option (Except AttrErr Unit)
  | .missing _, _ => some (.error .attributeError)
  | _, _ => Option.none

/-- `object.__setattr__(v, name, x)`, i.e. bypassing `Missing.__setattr__`: an instance has no
storage at all (`__slots__ = ()`: no `__dict__`, no slot), so this fails too -/
def rawSetAttr : Val → String → Val → Option (Except AttrErr Unit)
  | .missing _, _, _ => some (.error .attributeError)
  | _, _, _ => Option.none

/-- `vars(v)` / `v.__dict__`: there is no instance dictionary -/
def varsOf : Val → Option (Except AttrErr (List (String × Val)))
  | .missing _ => some (.error .attributeError)
  | _ => Option.none

mutual
/-- every instance of `Missing` in the tree is the singleton -/
def allSingleton : Val → Bool
  | .missing id => id == 0
  | .list xs => allSingletonList xs
  | .tuple xs => allSingletonList xs
  | .set xs => allSingletonList xs
  | .frozenset xs => allSingletonList xs
  | .dict kvs => allSingletonPairs kvs
  | .state _ fs => allSingletonFields fs
  | _ => true
def allSingletonList : List Val → Bool
  | [] => true
  | x :: xs => allSingleton x && allSingletonList xs
def allSingletonPairs : List (Val × Val) → Bool
  | [] => true
  | (k, v) :: r => allSingleton k && allSingleton v && allSingletonPairs r
def allSingletonFields : List (String × Val) → Bool
  | [] => true
  | (_, v) :: r => allSingleton v && allSingletonFields r
end

/-! ## the pinned code, for the refutation witness only: without `__reduce__` the default
`object.__reduce_ex__` rebuilds an instance with `object.__new__(Missing)`, bypassing the
metaclass `__call__`: a fresh object -/
def reduceMissingPinned (old : Nat) : Val := .missing (old + 1)

def copyPinned : Val → Val
  | .missing id => reduceMissingPinned id
  | v => v

end Haiway.Missing
