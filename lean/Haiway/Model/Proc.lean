/-! Cleanup procedures of `ScopeContext.__aenter__/__aexit__`, `__enter__/__exit__` and `StateContext` (`ctx.updated`)
    as data: a tiny structured IR with Python's exception semantics (an exception raised in a `finally` block or in an
    `except` handler replaces the one in flight; a bare `raise` re-raises it; `__aexit__` is not called when `__aenter__`
    raised; a falsy `__aexit__` result re-raises the body's exception).  The machine holds the task's three context
    variables (state, metrics scope, task group), the tokens recorded on entering, and an effect log.  Which awaiting
    atom fails (and how) is a parameter `Faults`; theorems quantify over all of them.  (C02) -/
namespace Haiway.Proc

inductive Exc where | cancel | user (id : Nat)
deriving DecidableEq, Repr

inductive Atom where
  | groupEnter | dispEnter | stateEnter | metricsEnter
  | dispExit | groupExit | metricsExit | stateExit
  | groupExitCaught     -- the group exit called from an `except … as exc:` handler with `(type(exc), exc, …)`
  | rebindReason        -- `exc_type, exc_val, exc_tb = type(exc), exc, exc.__traceback__` inside a handler
deriving DecidableEq, Repr

/-- `except Exception` does not catch a cancellation (nor any other non-`Exception` error) -/
def Exc.isException : Exc → Bool
  | .cancel => false
  | .user _ => true

structure Ctx where
  state : Nat
  metrics : Nat
  group : Nat
deriving DecidableEq, Repr

/-- machine: the task's context variables, the three saved tokens, the block's new values, an effect log -/
structure M where
  ctx : Ctx
  tok : Ctx          -- old values captured by the tokens
  new : Ctx          -- values this block installs
  log : List Atom := []
  reason : Option Exc := none              -- the `exc_val` variable of `__aexit__` (the exit reason handed on)
  caught : Option Exc := none              -- the exception bound by the innermost `except … as exc`
  dispSaw : Option (Option Exc) := none    -- exit reason the disposables' `__aexit__` received
  groupSaw : Option (Option Exc) := none   -- exit reason the task group's `__aexit__` received
deriving Repr, DecidableEq

inductive Proc where
  | atom (a : Atom)
  | seq (p q : Proc)
  | tryFinally (p q : Proc)
  | tryExcept (all : Bool) (p h : Proc)   -- `except BaseException` (all) / `except Exception` (¬all) `as exc: <h>; raise`
  | skip
deriving Repr

abbrev Faults := Atom → Option Exc

/-- `ContextVar.set` records the old value in the token; `reset(token)` restores the recorded value whatever the
variable holds at that moment.  Only the awaiting atoms (disposables enter/exit, group exit wait) can fail. -/
def runAtom (φ : Faults) (a : Atom) (m : M) : M × Option Exc :=
  let m := { m with log := m.log ++ [a] }
  match a with
  | .groupEnter => ({ m with tok := { m.tok with group := m.ctx.group }, ctx := { m.ctx with group := m.new.group } }, none)
  | .stateEnter => ({ m with tok := { m.tok with state := m.ctx.state }, ctx := { m.ctx with state := m.new.state } }, none)
  | .metricsEnter => ({ m with tok := { m.tok with metrics := m.ctx.metrics }, ctx := { m.ctx with metrics := m.new.metrics } }, none)
  | .groupExit => ({ m with ctx := { m.ctx with group := m.tok.group }, groupSaw := some m.reason }, φ .groupExit)   -- token reset precedes the await
  | .groupExitCaught => ({ m with ctx := { m.ctx with group := m.tok.group }, groupSaw := some m.caught }, φ .groupExit)
  | .rebindReason => ({ m with reason := m.caught }, none)
  | .stateExit => ({ m with ctx := { m.ctx with state := m.tok.state } }, none)
  | .metricsExit => ({ m with ctx := { m.ctx with metrics := m.tok.metrics } }, φ .metricsExit)   -- the reset comes first; then the scope is finished and its "...finished" line logged – a raising logger fails here
  | .dispEnter => (m, φ .dispEnter)
  | .dispExit => ({ m with dispSaw := some m.reason }, φ .dispExit)

def run (φ : Faults) : Proc → M → M × Option Exc
  | .skip, m => (m, none)
  | .atom a, m => runAtom φ a m
  | .seq p q, m =>
    match run φ p m with
    | (m1, some e) => (m1, some e)
    | (m1, none) => run φ q m1
  | .tryFinally p q, m =>
    match run φ p m with
    | (m1, e1) =>
      match run φ q m1 with
      | (m2, some e2) => (m2, some e2)      -- exception in `finally` replaces the one in flight
      | (m2, none) => (m2, e1)
  | .tryExcept all p h, m =>
    match run φ p m with
    | (m1, none) => (m1, none)
    | (m1, some e1) =>
      if all || e1.isException then
        match run φ h { m1 with caught := some e1 } with
        | (m2, some e2) => (m2, some e2)
        | (m2, none) => (m2, some e1)          -- bare `raise`
      else (m1, some e1)                        -- not caught by `except Exception`

/-- `with cm: body` – the body may end with any exception and may leave the context variables in an arbitrary state
(`scramble`; nested blocks are not trusted here).  `__exit__` is not called when `__enter__` raised. -/
def block (enter exit : Proc) (φ : Faults) (body : Option Exc) (scramble : Ctx → Ctx) (m : M) : M × Option Exc :=
  match run φ enter m with
  | (m1, some e) => (m1, some e)
  | (m1, none) =>
    let m2 := { m1 with ctx := scramble m1.ctx, reason := body }   -- `__aexit__(exc_type, exc_val, exc_tb)`
    match run φ exit m2 with
    | (m3, some e) => (m3, some e)
    | (m3, none) => (m3, body)

open Proc Atom

/-- `ScopeContext.__aenter__` (repaired shape): the group is entered first; if building the state (entering the
disposables) fails, the group is exited again and the pre-built metrics node is finished (entered and exited), then the
failure is re-raised. -/
def aenter : Proc :=
  seq (atom groupEnter)
    (seq (tryExcept true (atom dispEnter)
                    (tryFinally (atom groupExitCaught) (seq (atom metricsEnter) (atom metricsExit))))
         (seq (atom stateEnter) (atom metricsEnter)))

/-- `ScopeContext.__aexit__` (repaired shape): every later cleanup step runs under a `finally`. -/
def aexit : Proc :=
  tryFinally (tryExcept true (atom dispExit) (atom rebindReason))
    (tryFinally (atom groupExit) (tryFinally (atom metricsExit) (atom stateExit)))

/-- `ScopeContext.__enter__/__exit__` (synchronous scope: no group, no disposables) -/
def senter : Proc := seq (atom metricsEnter) (atom stateEnter)    -- the metrics context (which refuses re-entrance) first
def sexit : Proc := tryFinally (atom metricsExit) (atom stateExit)   -- (repaired shape) the state is reset even when the metrics exit raises

/-- `StateContext.__enter__/__exit__` (`ctx.updated`) -/
def uenter : Proc := atom stateEnter
def uexit : Proc := atom stateExit

/-- the flat shape of the pinned tree (no `finally`): kept to show the theorems are not vacuous -/
def aexitFlat : Proc := seq (atom dispExit) (seq (atom groupExit) (seq (atom metricsExit) (atom stateExit)))

end Haiway.Proc
