import Haiway.Model.Proc
/-! Nested scope programs over the cleanup IR: a program is a sequence of statements; a block statement installs its own
    values (fresh tokens per block), runs its enter procedure, the nested program, then its exit procedure, each under
    its own fault assignment; `raise` ends the sequence; `try` catches whatever the nested program raised.  Used for the
    "every block of every nesting" form of C02. -/
namespace Haiway.Proc

mutual
inductive Stmt where
  | raise (e : Exc)
  | scopeA (φ : Faults) (new : Ctx) (body : Prog)     -- `async with ctx.scope(...)`
  | scopeS (φ : Faults) (new : Ctx) (body : Prog)     -- `with ctx.scope(...)`
  | updated (φ : Faults) (new : Ctx) (body : Prog)    -- `with ctx.updated(...)`
  | tryCatch (body : Prog)
inductive Prog where
  | nil
  | cons (s : Stmt) (rest : Prog)
end

/-- one block around an already computed body result `(c2, eb)`: context the body left behind, its outcome -/
def around (enter exit : Proc) (φ : Faults) (new c : Ctx) (bodyRun : Ctx → Ctx × Option Exc) : Ctx × Option Exc :=
  let m : M := { ctx := c, tok := c, new := new }
  match run φ enter m with
  | (m1, some e) => (m1.ctx, some e)
  | (m1, none) =>
    let r := bodyRun m1.ctx
    match run φ exit { m1 with ctx := r.1 } with
    | (m3, some e) => (m3.ctx, some e)
    | (m3, none) => (m3.ctx, r.2)

mutual
def execStmt : Stmt → Ctx → Ctx × Option Exc
  | .raise e, c => (c, some e)
  | .scopeA φ new body, c => around aenter aexit φ new c (execProg body)
  | .scopeS φ new body, c => around senter sexit φ new c (execProg body)
  | .updated φ new body, c => around uenter uexit φ new c (execProg body)
  | .tryCatch body, c => ((execProg body c).1, none)
def execProg : Prog → Ctx → Ctx × Option Exc
  | .nil, c => (c, none)
  | .cons s rest, c =>
    match execStmt s c with
    | (c1, some e) => (c1, some e)
    | (c1, none) => execProg rest c1
end

end Haiway.Proc
