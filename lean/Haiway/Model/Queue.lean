/-! Model of `haiway.utils.queue.AsyncQueue` with a single consumer task (C17).
    Labels are the harness-visible operations; `run` is one wake-up of the consumer task. -/
namespace Haiway.Queue

inductive Reason where | stop | err | cancel
deriving DecidableEq, Repr

inductive Waiter where
  | pending
  | res (e : Nat)
  | exc (r : Reason)
  | cancelled
deriving DecidableEq, Repr

inductive Consumer where | idle | scheduled | blocked
deriving DecidableEq, Repr

inductive Obs where
  | elem (e : Nat) | reason (r : Reason) | cancelled
deriving DecidableEq, Repr

structure St where
  buf : List Nat := []
  waiting : Option Waiter := none
  reason : Option Reason := none
  consumer : Consumer := .idle
  must : Bool := false               -- cancellation pending for the consumer task
  got : List Obs := []               -- what the consumer observed (oldest first)
  enq : List Nat := []               -- ghost: everything accepted by enqueue
deriving Repr

inductive Op where
  | enqueue (e : Nat) (es : List Nat)
  | finish (r : Reason)
  | recv
  | cancelRecv
  | run
deriving Repr

def delivered (s : St) : List Nat := s.got.filterMap (fun o => match o with | .elem e => some e | _ => none)
def inFlight (s : St) : List Nat := match s.waiting with | some (.res e) => [e] | _ => []

/-- one wake-up of the consumer task -/
def wake (s : St) : St :=
  match s.consumer with
  | .idle => s
  | .scheduled =>
    if s.must then { s with consumer := .idle, must := false }       -- cancelled before first step: body never runs
    else match s.buf with
      | e :: rest => { s with buf := rest, got := s.got ++ [.elem e], consumer := .idle }
      | [] => match s.reason with
        | some r => { s with got := s.got ++ [.reason r], consumer := .idle }
        | none => { s with waiting := some .pending, consumer := .blocked }
  | .blocked =>
    if s.must then
      let buf := match s.waiting with | some (.res e) => e :: s.buf | _ => s.buf   -- repaired: put the element back
      { s with buf := buf, got := s.got ++ [.cancelled], consumer := .idle, must := false, waiting := none }
    else match s.waiting with
      | some (.res e) => { s with got := s.got ++ [.elem e], consumer := .idle, waiting := none }
      | some (.exc r) => { s with got := s.got ++ [.reason r], consumer := .idle, waiting := none }
      | some .cancelled => { s with got := s.got ++ [.cancelled], consumer := .idle, waiting := none }
      | _ => s

def runnable (s : St) : Bool :=
  match s.consumer with
  | .idle => false
  | .scheduled => true
  | .blocked => s.must || (match s.waiting with | some .pending => false | none => false | _ => true)

def step (s : St) : Op → St
  | .enqueue e es =>
    if s.reason.isSome then s
    else
      let s := { s with enq := s.enq ++ (e :: es) }
      match s.waiting with
      | some .pending => { s with waiting := some (.res e), buf := s.buf ++ es }
      | _ => { s with buf := s.buf ++ (e :: es) }
  | .finish r =>
    if s.reason.isSome then s
    else match s.waiting with
      | some .pending => { s with reason := some r, waiting := some (.exc r) }
      | _ => { s with reason := some r }
  | .recv => if s.consumer = .idle then { s with consumer := .scheduled } else s
  | .cancelRecv =>
    match s.consumer with
    | .idle => s
    | .blocked => match s.waiting with
      | some .pending => { s with waiting := some .cancelled }
      | _ => { s with must := true }
    | .scheduled => { s with must := true }
  | .run => if runnable s then wake s else s

def runOps (s : St) (ops : List Op) : St := ops.foldl step s

/-- the accounting invariant -/
def Acc (s : St) : Prop := delivered s ++ inFlight s ++ s.buf = s.enq

end Haiway.Queue
