import Haiway.Model.Validate
/-! Model of `haiway.state.attributes._resolve_attribute_annotation`: surface type expressions (what
is written in a class body) are normalised to `Ann` trees.  Core Lean only, computable. -/
namespace Haiway.Resolve
open Haiway.Validate

/-- surface annotation syntax -/
inductive TyExpr where
  | none | any | missing | callable | self
  | cls (c : Nat)                         -- a class object: builtin, UUID/date/Path…, Enum, Protocol, State (plain, bare generic, or an already specialised `Box[int]`)
  | literal (ls : List Prim)
  | seq (t : TyExpr) | tupleVar (t : TyExpr) | set (t : TyExpr) | fset (t : TyExpr)
  | map (k v : TyExpr)
  | tupleFixed (ts : List TyExpr)
  | union (ts : List TyExpr)
  | optional (t : TyExpr)
  | annotated (t : TyExpr) | final (t : TyExpr)
  | fwd (name : String)                   -- forward reference (string) to a class
  | tvar (name : String)                  -- type variable
  | alias (name : String) (args : List TyExpr)    -- `type A = …` (no args) / `A[t1, …]` of `type A[P1, …] = …`
  | generic (c : Nat) (args : List TyExpr)        -- `Box[T]`: generic State subscripted inside a generic class / alias body
deriving Repr, Inhabited

structure AliasDef where
  name : String
  params : List String
  body : TyExpr
deriving Repr, Inhabited

/-- the static part of the environment (does not change during resolution) -/
structure StaticEnv where
  bounds : List (String × Nat) := []          -- `T: bound` (bound = a class)
  names : List (String × Nat) := []           -- names visible to forward references → class id
  specs : List (Nat × List Ann × Nat) := []   -- cache of `State.__class_getitem__`: (generic, resolved args) → specialised class
deriving Inhabited

inductive RErr where
  | unknownAlias (n : String) | unknownName (n : String) | unknownSpec (c : Nat)
deriving Repr, Inhabited

/-- first definition of alias `n`, together with the definitions that follow it (an alias body may
only refer to aliases defined later in the list: aliases are not recursive) -/
def findAlias (n : String) : (ds : List AliasDef) →
    Option (AliasDef × {r : List AliasDef // r.length < ds.length})
  | [] => none
  | d :: ds =>
    if d.name == n then some (d, ⟨ds, by simp⟩)
    else match findAlias n ds with
      | some (d', ⟨r, h⟩) => some (d', ⟨r, by simp; omega⟩)
      | none => none

def lookupSpec (specs : List (Nat × List Ann × Nat)) (c : Nat) (args : List Ann) : Option Nat :=
  (specs.find? (fun s => s.1 == c && s.2.1 == args)).map (·.2.2)

mutual
/-- `_resolve_attribute_annotation(annotation, self_annotation, type_parameters, …)` -/
def resolve (E : StaticEnv) (als : List AliasDef) (self : Option Nat) (tp : List (String × Ann)) :
    TyExpr → Except RErr Ann
  | .none => .ok .none
  | .any => .ok .any
  | .missing => .ok .missing
  | .callable => .ok .callable
  | .self => match self with
      | some c => .ok (.nominal c)
      | none => .ok .any                 -- "Unresolved Self attribute annotation, ignoring with Any type"
  | .cls c => .ok (.nominal c)
  | .literal ls => .ok (.literal ls)
  | .seq t => (resolve E als self tp t).map .seq
  | .tupleVar t => (resolve E als self tp t).map .tupleVar
  | .set t => (resolve E als self tp t).map .set
  | .fset t => (resolve E als self tp t).map .set
  | .map k v => match resolve E als self tp k with
      | .error e => .error e
      | .ok k' => (resolve E als self tp v).map (.map k')
  | .tupleFixed ts => (resolveList E als self tp ts).map .tupleFixed
  | .union ts => (resolveList E als self tp ts).map .union
  | .optional t => (resolve E als self tp t).map (fun a => .union [a, .none])
  | .annotated t => resolve E als self tp t
  | .final t => resolve E als self tp t
  | .fwd n => match E.names.lookup n with
      | some c => .ok (.nominal c)
      | none => .error (.unknownName n)
  | .tvar n => match tp.lookup n with
      | some a => .ok a                   -- class type argument / alias argument
      | none => match E.bounds.lookup n with
        | some c => .ok (.nominal c)      -- bound
        | none => .ok .any
  | .alias n args => match findAlias n als with
      | none => .error (.unknownAlias n)
      | some (d, ⟨rest, _⟩) => match resolveList E als none tp args with
        | .error e => .error e
        | .ok args' => resolve E rest none (d.params.zip args' ++ tp) d.body
  | .generic c args => match resolveList E als self tp args with
      | .error e => .error e
      | .ok args' => match lookupSpec E.specs c args' with
        | some c' => .ok (.nominal c')
        | none => .error (.unknownSpec c)
termination_by e => (als.length, sizeOf e)
def resolveList (E : StaticEnv) (als : List AliasDef) (self : Option Nat) (tp : List (String × Ann)) :
    List TyExpr → Except RErr (List Ann)
  | [] => .ok []
  | t :: ts => match resolve E als self tp t with
      | .error e => .error e
      | .ok a => match resolveList E als self tp ts with
        | .error e => .error e
        | .ok as => .ok (a :: as)
termination_by ts => (als.length, sizeOf ts)
end

end Haiway.Resolve
