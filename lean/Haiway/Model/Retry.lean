/-!
# Model of `haiway.helpers.retries` (`retry` → `_wrap_sync.wrapped` / `_wrap_async.wrapped`)

The sync and the async wrapper are the same loop (the async one awaits the function and
`asyncio.sleep` instead of calling `time.sleep`), so one model serves both:

```
attempt = 0
while True:
    try:    return function(*args, **kwargs)
    except CancelledError as exc:  raise exc
    except Exception as exc:
        if attempt < limit and any(isinstance(exc, e) for e in catching):
            attempt += 1
            match delay:
                case None:                      continue
                case int() | float() as strict: sleep(strict)          # repaired dispatch
                case make_delay:                sleep(make_delay(attempt, exc))
        else: raise exc
```

Exception classes are ids with an arbitrary `isSub` relation (`isinstance`); two ids are
distinguished: `clsException` and `clsCancelled`.  Exception *objects* carry an identity `id`, so
"the same exception object" is equality of `Exc` values.  Core Lean only.
-/
namespace Haiway.Retry

/-- class id of `Exception` -/
def clsException : Nat := 0
/-- class id of `asyncio.CancelledError` -/
def clsCancelled : Nat := 1

/-- a raised exception object: its class and its identity -/
structure Exc where
  cls : Nat
  id : Nat
deriving DecidableEq, Repr

/-- what one invocation of the wrapped function does -/
inductive Outcome where
  | ok (v : Nat)
  | raised (e : Exc)
deriving DecidableEq, Repr

/-- the `delay` argument by runtime shape -/
inductive DelayArg where
  | none
  | int (n : Nat)
  | float (n : Nat)
  | bool (b : Bool)                       -- `bool` is a subclass of `int`: matched by `int()`
  | callable (f : Nat → Exc → Nat)        -- `(attempt, exception) ↦ seconds`

structure Cfg where
  limit : Nat
  /-- the classes of `catching` (a lone class has been wrapped into a one-element set) -/
  catching : List Nat
  /-- `isSub c d` = an instance of class `c` is an instance of class `d` -/
  isSub : Nat → Nat → Bool
  delay : DelayArg

/-- observable events of one call of the wrapper, in order -/
inductive Ev where
  | call (idx : Nat)                      -- the wrapped function is invoked (0-based index)
  | delayFn (attempt : Nat) (e : Exc)     -- the delay function is invoked with these arguments
  | pause (d : Nat)                       -- `sleep(d)`
deriving DecidableEq, Repr

structure Result where
  calls : Nat
  final : Outcome
  trace : List Ev
deriving Repr

/-- `except CancelledError: raise` comes first, then `except Exception` with the `catching` test;
anything else (a `BaseException` outside `Exception`) is not handled at all. -/
def retryable (cfg : Cfg) : Outcome → Bool
  | .ok _ => false
  | .raised e =>
    !cfg.isSub e.cls clsCancelled && cfg.isSub e.cls clsException && cfg.catching.any (cfg.isSub e.cls)

/-- the `match delay` statement executed after `attempt += 1` -/
def between (d : DelayArg) (attempt : Nat) (e : Exc) : List Ev :=
  match d with
  | .none => []
  | .int n => [.pause n]
  | .float n => [.pause n]
  | .bool b => [.pause b.toNat]
  | .callable f => [.delayFn attempt e, .pause (f attempt e)]

/-- events between a failed call and the next one -/
def betweenO (d : DelayArg) (attempt : Nat) : Outcome → List Ev
  | .raised e => between d attempt e
  | .ok _ => []

/-- the loop; `attempt` = retries already made = index of the call about to be made, `fuel` =
`limit - attempt` = retries still allowed (so `attempt < limit` is `fuel ≠ 0`; structural
recursion on it) -/
def go (cfg : Cfg) (outs : Nat → Outcome) : (fuel attempt : Nat) → (trace : List Ev) → Result
  | 0, attempt, trace =>
    { calls := attempt + 1, final := outs attempt, trace := trace ++ [.call attempt] }
  | fuel + 1, attempt, trace =>
    let o := outs attempt
    if retryable cfg o then
      go cfg outs fuel (attempt + 1) (trace ++ [.call attempt] ++ betweenO cfg.delay (attempt + 1) o)
    else
      { calls := attempt + 1, final := o, trace := trace ++ [.call attempt] }

/-- one call of the wrapped function object, `outs i` being what the `i`-th invocation does -/
def run (cfg : Cfg) (outs : Nat → Outcome) : Result := go cfg outs cfg.limit 0 []

inductive Err where
  | limitAssertion       -- `assert limit > 0` when the function is wrapped
deriving DecidableEq, Repr

/-- decoration followed by one call -/
def call (cfg : Cfg) (outs : Nat → Outcome) : Except Err Result :=
  if cfg.limit = 0 then .error .limitAssertion else .ok (run cfg outs)

/-- several calls through one wrapper object, however their executions overlap (concurrent tasks, recursion through the
wrapper): the wrapper object holds nothing mutable – `limit`, `delay`, `catching` are only read, `attempt` is a local
variable of each call – so every call is `call` on its own outcome sequence -/
def callMany (cfg : Cfg) (outss : List (Nat → Outcome)) : List (Except Err Result) := outss.map (call cfg)

/-- pauses actually slept, in order -/
def pauses : List Ev → List Nat
  | [] => []
  | .pause d :: rest => d :: pauses rest
  | _ :: rest => pauses rest

end Haiway.Retry
