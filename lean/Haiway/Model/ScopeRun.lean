import Haiway.Model.Completion
import Haiway.Model.Metrics
import Haiway.Model.Logs
/-! Program-level model of the metrics scope machinery as seen through the public API
    (`ctx.scope` as `with` / `async with`, `ctx.record`, `ctx.log_*`, `ctx.spawn`, plain asyncio tasks):
    the cases of the C09 / C10 / C19 correspondence checks are event sequences of this system.

Each task carries its own copy of the two context variables that matter here:
`cur` = `MetricsContext._context` (the current `ScopeMetrics`) and `group` = `TaskGroupContext._context`
(identified by the async scope owning the task group).  Entering a scope saves the previous values in
tokens (`Frame.savedCur/savedGroup`), leaving restores them; a new task copies the creating task's values
(`copy_context`).  `ctx.spawn` makes the new task a member of the current group, whose owner waits for all
members in `__aexit__` before `MetricsContext.__exit__` runs (`blocked`).  Every use of the completion
protocol goes through `compStep`, which refuses ill-formed API use explicitly (`bad`).

Fault paths: an async scope may carry a disposable whose `__aexit__` raises (`Frame.disp`): the cleanup error
becomes the exit reason, the task group is aborted (its members are cancelled) and the metrics context is
still exited.  `Ev.cancel t` is `Task.cancel()` at a quiescent point (the task is suspended in a body or
blocked in an exit): `CancelledError` unwinds every block of the task, each async block first cancelling and
joining its members (`killSet`), each block's `MetricsContext.__exit__` runs; the task ends.
Failing enters: a disposable whose `__aenter__` raises (`openFailing`) or waits on a gate (`openGated`, later
`release`d or cancelled): `ScopeContext.__aenter__` rolls back – task group exit, then the already registered
metrics node is entered and left at once – so the scope counts as left and never blocks its ancestors.
`threadCtor`: `ctx.scope(…)` called in a thread without event loop (in a copy of the context) raises before
anything is registered: a no-op. -/
namespace Haiway.ScopeRun
open Haiway
open Haiway.Completion (upd)

structure Frame where
  scope : Nat
  isAsync : Bool
  disp : Bool := false         -- carries a disposable whose `__aexit__` raises (unless cancelled)
  savedCur : Option Nat        -- token of `MetricsContext._context`
  savedGroup : Option Nat      -- token of `TaskGroupContext._context`
deriving Repr

structure Task where
  cur : Option Nat := none
  group : Option Nat := none
  frames : List Frame := []              -- entered scopes of this task, innermost first
  inherited : Option Nat := none         -- ghost: `cur` when the task was created
  pending : Option (Nat × Bool × Bool) := none  -- a constructed, not yet entered scope object held by the task (id, async, disp)
  alive : Bool := false
  blocked : Bool := false                -- inside `__aexit__` waiting for the group members, or inside `__aenter__`
  entering : Option Nat := none          -- inside `__aenter__` of that scope, waiting for a disposable to enter
  memberOf : Option Nat := none
deriving Repr

structure Sys where
  comp : Completion.Sys := {}
  store : Nat → Metrics.Store := fun _ => []
  info : Nat → Option Logs.Scope := fun _ => none
  tasks : Nat → Task := fun _ => {}
  ntasks : Nat := 0
  emitted : List Logs.Emitted := []       -- records produced by `ctx.log_*` calls, oldest first
  outcomes : List Metrics.Outcome := []   -- what each `ctx.record` call did to its caller
  bad : Bool := false                     -- an event was not enabled (ill-formed case)

def init : Sys := { tasks := upd (fun _ => {}) 0 { alive := true }, ntasks := 1 }

inductive Ev where
  | openScope (t : Nat) (isAsync disp : Bool) (spec : Logs.Spec)   -- `with ctx.scope(…):` construct and enter
  | make (t : Nat) (isAsync disp : Bool) (spec : Logs.Spec)        -- `held = ctx.scope(…)`
  | enter (t : Nat)                                           -- `with held:`
  | exit (t : Nat) (exc : Bool)                               -- leave the innermost block (`exc`: by an exception)
  | record (t : Nat) (v : Metrics.Val) (m : Metrics.Merge)
  | log (t : Nat) (lv : Logs.Level) (msg : List Char) (args : List Logs.Arg) (exc : Bool)
  | spawn (t : Nat) (member : Bool)                           -- `ctx.spawn` / `asyncio.create_task`
  | finishTask (t : Nat)
  | cancel (t : Nat)                                          -- `Task.cancel()` from outside, at a quiescent point
  | openFailing (t : Nat) (spec : Logs.Spec)                  -- `async with ctx.scope(…, disposables=[raises in __aenter__])`
  | openGated (t : Nat) (spec : Logs.Spec)                    -- … `disposables=[waits on a gate in __aenter__]`
  | release (t : Nat)                                         -- the gate opens: the enter completes
  | threadCtor (t : Nat)                                      -- `ctx.scope(…)` in a thread without event loop: RuntimeError
  | tick (dt : Nat)

def canAct (s : Sys) (t : Nat) : Bool :=
  decide (t < s.ntasks) && (s.tasks t).alive && !(s.tasks t).blocked

def compStep (s : Sys) (op : Completion.Op) : Sys :=
  if Completion.wfOp s.comp op then { s with comp := Completion.step s.comp op } else { s with bad := true }

/-- the scope object behind a value of the context variable -/
def scopeOf (s : Sys) (cur : Option Nat) : Option (Option Logs.Scope) :=
  match cur with
  | none => some none
  | some n => match s.info n with
    | some c => some (some c)
    | none => none

def hasLiveMembers (s : Sys) (g : Nat) : Bool :=
  (List.range s.ntasks).any fun t => (s.tasks t).alive && (s.tasks t).memberOf == some g

/-- construction of scope number `comp.size` by task `t` -/
def construct (s : Sys) (t : Nat) (spec : Logs.Spec) : Sys :=
  let tk := s.tasks t
  let id := s.comp.size
  match scopeOf s tk.cur with
  | some cur => compStep { s with info := upd s.info id (some (Logs.mkScope cur spec id)) } (.create tk.cur)
  | none => { s with bad := true }

/-- `__enter__` / `__aenter__` of scope `id` by task `t` -/
def enterScope (s : Sys) (t id : Nat) (isAsync disp : Bool) : Sys :=
  let tk := s.tasks t
  let s := compStep s (.enter id)
  let tk' : Task :=
    { tk with frames := ⟨id, isAsync, disp, tk.cur, tk.group⟩ :: tk.frames, cur := some id,
              group := if isAsync then some id else tk.group, pending := none }
  { s with tasks := upd s.tasks t tk' }

/-- the tail of `__exit__` / `__aexit__` once the task group is done: `MetricsContext.__exit__` -/
def finishExit (s : Sys) (t : Nat) : Sys :=
  let tk := s.tasks t
  match tk.frames with
  | f :: rest =>
    let s := compStep s (.finish f.scope)
    let tk' : Task := { tk with frames := rest, cur := f.savedCur, group := f.savedGroup, blocked := false }
    { s with tasks := upd s.tasks t tk' }
  | [] => { s with bad := true }

def blockedOwner (s : Sys) (g : Nat) : Option Nat :=
  (List.range s.ntasks).find? fun o =>
    (s.tasks o).blocked && (s.tasks o).entering.isNone &&
      (match (s.tasks o).frames with | f :: _ => f.scope == g | [] => false)

/-- leave every block of task `t` (innermost first); `fuel` = number of frames -/
def finishFrames (s : Sys) (t : Nat) : Nat → Sys
  | 0 => s
  | fuel + 1 => finishFrames (finishExit s t) t fuel

/-- the tasks that die with the tasks in `seed`: the live members of the groups of their async blocks,
transitively (`fuel = ntasks` rounds are always enough) -/
def killSet (s : Sys) (seed : List Nat) : Nat → List Nat
  | 0 => seed
  | fuel + 1 =>
    let groups := seed.flatMap fun t => ((s.tasks t).frames.filter (·.isAsync)).map (·.scope)
    let more := (List.range s.ntasks).filter fun u =>
      (s.tasks u).alive && !seed.contains u &&
        (match (s.tasks u).memberOf with | some g => groups.contains g | none => false)
    killSet s (seed ++ more) fuel

/-- the rollback of a failed `__aenter__`: the registered metrics node is entered and left at once -/
def rollbackEnter (s : Sys) (id : Nat) : Sys := compStep (compStep s (.enter id)) (.finish id)

/-- `CancelledError` unwinds task `t`: a pending enter is rolled back, all its blocks are left, the task ends -/
def killTask (s : Sys) (t : Nat) : Sys :=
  let s := match (s.tasks t).entering with
    | some id => rollbackEnter s id
    | none => s
  let s := finishFrames s t (s.tasks t).frames.length
  let tk' : Task := { s.tasks t with alive := false, pending := none, blocked := false, entering := none }
  { s with tasks := upd s.tasks t tk' }

def killAll (s : Sys) (ts : List Nat) : Sys := ts.foldl killTask s

/-- live members of group `g`, and everything that dies with them -/
def membersClosure (s : Sys) (g : Nat) : List Nat :=
  killSet s ((List.range s.ntasks).filter fun u => (s.tasks u).alive && (s.tasks u).memberOf == some g) s.ntasks

/-- after a member of `g` is gone: a blocked owner whose group is empty now completes its exit -/
def releaseOwner (s : Sys) (g : Option Nat) : Sys :=
  match g with
  | some g =>
    if hasLiveMembers s g then s
    else match blockedOwner s g with
      | some o => finishExit s o
      | none => s
  | none => s

def step (s : Sys) : Ev → Sys
  | .openScope t isAsync disp spec =>
    if canAct s t then
      let id := s.comp.size
      let pend := (s.tasks t).pending
      let s := enterScope (construct s t spec) t id isAsync disp
      { s with tasks := upd s.tasks t { s.tasks t with pending := pend } }
    else { s with bad := true }
  | .make t isAsync disp spec =>
    if canAct s t then
      let id := s.comp.size
      let s := construct s t spec
      { s with tasks := upd s.tasks t { s.tasks t with pending := some (id, isAsync, disp) } }
    else { s with bad := true }
  | .enter t =>
    if canAct s t then
      match (s.tasks t).pending with
      | some (id, isAsync, disp) => enterScope s t id isAsync disp
      | none => { s with bad := true }
    else { s with bad := true }
  | .exit t exc =>
    if canAct s t then
      match (s.tasks t).frames with
      | f :: _ =>
        if f.disp then
          -- the failing cleanup becomes the exit reason: the group is aborted, then the metrics context exits
          finishExit (killAll s (membersClosure s f.scope).reverse) t
        else if f.isAsync && hasLiveMembers s f.scope then
          if exc then { s with bad := true }      -- would cancel the members: not part of these programs
          else { s with tasks := upd s.tasks t { s.tasks t with blocked := true } }
        else finishExit s t
      | [] => { s with bad := true }
    else { s with bad := true }
  | .record t v m =>
    if canAct s t then
      let cur := (s.tasks t).cur
      let (st, out) := Metrics.ctxRecord (cur.map fun n => (s.comp.completed n, s.store n)) v m
      { s with store := (match cur, st with | some n, some x => upd s.store n x | _, _ => s.store),
               outcomes := s.outcomes ++ [out] }
    else { s with bad := true }
  | .log t lv msg args exc =>
    if canAct s t then
      match scopeOf s (s.tasks t).cur with
      | some cur => { s with emitted := s.emitted ++ [Logs.logIn cur lv msg args exc] }
      | none => { s with bad := true }
    else { s with bad := true }
  | .spawn t member =>
    if canAct s t then
      let tk := s.tasks t
      let closed := match tk.group with | some g => s.comp.finished g | none => false
      if member && closed then { s with bad := true }     -- `TaskGroup.create_task` on a finished group raises
      else
        let child : Task :=
          { cur := tk.cur, group := tk.group, inherited := tk.cur, alive := true,
            memberOf := if member then tk.group else none }
        { s with ntasks := s.ntasks + 1, tasks := upd s.tasks s.ntasks child }
    else { s with bad := true }
  | .finishTask t =>
    if canAct s t && (s.tasks t).frames.isEmpty then
      let tk := s.tasks t
      let s := { s with tasks := upd s.tasks t { tk with alive := false, pending := none } }
      releaseOwner s tk.memberOf
    else { s with bad := true }
  | .cancel t =>
    if decide (t < s.ntasks) && (s.tasks t).alive then
      let g := (s.tasks t).memberOf
      -- members first, the cancelled task last: an owner joins its members before its own metrics exit
      releaseOwner (killAll s (killSet s [t] s.ntasks).reverse) g
    else { s with bad := true }
  | .openFailing t spec =>
    if canAct s t then rollbackEnter (construct s t spec) s.comp.size
    else { s with bad := true }
  | .openGated t spec =>
    if canAct s t then
      let id := s.comp.size
      let s := construct s t spec
      { s with tasks := upd s.tasks t { s.tasks t with entering := some id, blocked := true } }
    else { s with bad := true }
  | .release t =>
    if decide (t < s.ntasks) && (s.tasks t).alive then
      match (s.tasks t).entering with
      | some id =>
        let pend := (s.tasks t).pending
        let s := enterScope s t id true false
        { s with tasks := upd s.tasks t { s.tasks t with pending := pend, entering := none, blocked := false } }
      | none => { s with bad := true }
    else { s with bad := true }
  | .threadCtor t => if canAct s t then s else { s with bad := true }
  | .tick dt => compStep s (.tick dt)

def run (s : Sys) (evs : List Ev) : Sys := evs.foldl step s

/-- the innermost scope that is active in a task, by lexical nesting: its innermost own block, else the
scope it inherited when it was created -/
def innermost (tk : Task) : Option Nat :=
  match tk.frames with
  | f :: _ => some f.scope
  | [] => tk.inherited

/-- the registered subtree of `n` as a tree of stores (`fuel = comp.size` is always enough) -/
def treeOf (s : Sys) : Nat → Nat → Metrics.Tree
  | 0, n => .node (s.store n) []
  | fuel + 1, n => .node (s.store n) ((s.comp.nested n).map (treeOf s fuel))

/-- `ScopeMetrics.metrics(merge=…)` of scope `n` -/
def viewAt (s : Sys) (merge : Metrics.ViewMerge) (n : Nat) : Metrics.Store :=
  Metrics.view merge (treeOf s s.comp.size n)

end Haiway.ScopeRun
