/-! Model of `haiway.context.state.ScopeState`: the `type ↦ instance` dict as an association list built like
    the dict comprehension, `updated`, exact-type lookup; and the environment-stack specification (C01). -/
namespace Haiway.ScopeState

structure Inst where
  ty : Nat
  val : Nat
deriving DecidableEq, Repr

/-- python dict `{type(e): e for e in xs}`: later element of the same type replaces the value, position of first insertion kept -/
def insert (d : List Inst) (x : Inst) : List Inst :=
  match d with
  | [] => [x]
  | y :: ys => if y.ty = x.ty then x :: ys else y :: insert ys x

def mk (xs : List Inst) : List Inst := xs.foldl insert []

def find (d : List Inst) (t : Nat) : Option Inst := d.find? (·.ty = t)

def updated (s : List Inst) (xs : List Inst) : List Inst :=
  if xs.isEmpty then s else mk (s ++ xs)     -- `[*self._state.values(), *state]`

/-- spec: last element of type `t` in a list -/
def lastOf (xs : List Inst) (t : Nat) : Option Inst := xs.reverse.find? (·.ty = t)

def Keys (d : List Inst) : List Nat := d.map (·.ty)

/-- environment-stack spec: innermost frame (last in list) supplying `t`, last instance inside it -/
def specLookup : List (List Inst) → Nat → Option Inst
  | [], _ => none
  | frames, t => (frames.reverse.findSome? (fun f => lastOf f t))

/-- the state visible after entering the frames one by one -/
def stateOf (frames : List (List Inst)) : List Inst := frames.foldl updated []

end Haiway.ScopeState
