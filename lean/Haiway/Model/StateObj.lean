import Haiway.Model.Resolve
/-! Model of `haiway.state.structure.State` (C04, C05): class table, validating constructor,
`updated`, `copy`, `deepcopy`, attribute assignment/deletion, `as_dict`, and `==` (value equality of
Python objects with the operator-level dispatch).  Core Lean only, computable. -/
namespace Haiway.StateObj
open Haiway.Validate Haiway.Resolve

/-- `StateAttribute`: name, resolved annotation, class-level default (absent = `MISSING`) -/
structure Attr where
  name : String
  ann : Ann
  default : Option PyVal
deriving Repr, Inhabited

/-- a State class after `StateMeta.__new__`: `__ATTRIBUTES__` in declaration order -/
structure ClassDef where
  id : Nat
  attrs : List Attr
deriving Repr, Inhabited

/-- a class as written: attribute annotations are surface expressions -/
structure AttrSrc where
  name : String
  ty : TyExpr
  default : Option PyVal
deriving Repr, Inhabited

/-- `StateMeta.__new__` / `attribute_annotations`: resolve every attribute annotation of class `id`
with the given type-parameter bindings (`State.__class_getitem__` passes them for a specialisation) -/
def mkClass (E : StaticEnv) (als : List AliasDef) (id : Nat) (tp : List (String × Ann)) :
    List AttrSrc → Except RErr (List Attr)
  | [] => .ok []
  | s :: rest => match resolve E als (some id) tp s.ty with
      | .error e => .error e
      | .ok a => match mkClass E als id tp rest with
        | .error e => .error e
        | .ok as => .ok ({ name := s.name, ann := a, default := s.default } :: as)

def isMissing : PyVal → Bool
  | .missing => true | _ => false

/-- `attribute.validated(kwargs.get(name, MISSING))`: MISSING (explicit or by omission) selects the default -/
def effective (a : Attr) (kwargs : List (String × PyVal)) : PyVal :=
  let arg := (kwargs.lookup a.name).getD .missing
  if isMissing arg then a.default.getD .missing else arg

/-- the loop of `State.__init__`: the first attribute that fails aborts the construction -/
def initFields (env : ClsEnv) (kwargs : List (String × PyVal)) :
    List Attr → Except (String × Err) (List (String × PyVal))
  | [] => .ok []
  | a :: rest => match validate env a.ann (effective a kwargs) with
      | .error e => .error (a.name, e)
      | .ok w => match initFields env kwargs rest with
        | .error e => .error e
        | .ok fs => .ok ((a.name, w) :: fs)

/-- `cls(**kwargs)`; `oid` is the identity of the new object -/
def init (env : ClsEnv) (cd : ClassDef) (kwargs : List (String × PyVal)) (oid : Nat) :
    Except (String × Err) PyVal :=
  (initFields env kwargs cd.attrs).map (.inst cd.id oid)

/-- `self.updated(**kwargs)` = `self.__class__(**{**vars(self), **kwargs})` -/
def updated (env : ClsEnv) (cd : ClassDef) (fields : List (String × PyVal)) (kwargs : List (String × PyVal))
    (oid : Nat) : Except (String × Err) PyVal :=
  init env cd (kwargs ++ fields) oid

/-- `copy.copy(self)`, `copy.deepcopy(self)`: an immutable value is its own copy -/
def copy (s : PyVal) : PyVal := s
def deepcopy (s : PyVal) : PyVal := s

inductive AttrError where | immutable
deriving Repr, DecidableEq

/-- `setattr(self, name, value)` / `delattr(self, name)`: always `AttributeError`, nothing changes -/
def setattr (_s : PyVal) (_name : String) (_v : PyVal) : Except AttrError Unit := .error .immutable
def delattr (_s : PyVal) (_name : String) : Except AttrError Unit := .error .immutable

/-- `as_dict()`: attributes whose value is MISSING are left out -/
def asDict (fields : List (String × PyVal)) : List (String × PyVal) :=
  fields.filter (fun p => !isMissing p.2)

/-! ## `==` -/

/-- numeric value in half-units of `bool`/`int`/`float`/int-mixin enum members -/
def numOf : PyVal → Option Int
  | .bool b => some (if b then 2 else 0)
  | .int i => some (2 * i)
  | .float h => some h
  | .enumv _ _ (.int i) => some (2 * i)
  | _ => none

def strOf : PyVal → Option String
  | .str s => some s
  | .enumv _ _ (.str s) => some s
  | _ => none

/-- `getattr(obj, key, MISSING)` on the stored fields -/
def getField (fields : List (String × PyVal)) (k : String) : PyVal := (fields.lookup k).getD .missing

mutual
/-- `a == b` for Python objects: numbers by value across bool/int/float, containers structurally
(set/frozenset and dict/mappingproxy interchangeably, list and tuple not), State instances by
`State.__eq__` with the reflected method of a proper-subclass right operand tried first. -/
def pyEq (env : ClsEnv) (a b : PyVal) : Bool :=
  match a, b with
  | .none, .none => true
  | .missing, .missing => true
  | .bytes s, .bytes t => s == t
  | .list xs, .list ys => listEq env xs ys
  | .tuple xs, .tuple ys => listEq env xs ys
  | .set xs, .set ys => xs.length == ys.length && allIn env xs ys
  | .set xs, .fset ys => xs.length == ys.length && allIn env xs ys
  | .fset xs, .set ys => xs.length == ys.length && allIn env xs ys
  | .fset xs, .fset ys => xs.length == ys.length && allIn env xs ys
  | .dict xs, .dict ys => xs.length == ys.length && allPairsIn env xs ys
  | .dict xs, .mproxy ys => xs.length == ys.length && allPairsIn env xs ys
  | .mproxy xs, .dict ys => xs.length == ys.length && allPairsIn env xs ys
  | .mproxy xs, .mproxy ys => xs.length == ys.length && allPairsIn env xs ys
  | .obj c i, .obj d j => c == d && i == j
  | .callable i, .callable j => i == j
  | .inst c _ fa, .inst d _ fb =>
    if d ≠ c ∧ env.sub d c = true then
      env.sub c d && fieldsEq env fb fa      -- reflected `b.__eq__(a)` first, its answer is final
    else
      env.sub d c && fieldsEq env fa fb      -- `a.__eq__(b)`
  | a, b =>
    match numOf a, numOf b with
    | some x, some y => x == y
    | _, _ => match strOf a, strOf b with
      | some s, some t => s == t
      | _, _ => match a, b with
        | .enumv c i .none, .enumv d j .none => c == d && i == j
        | _, _ => false
termination_by (sizeOf a + sizeOf b, 0)
/-- element-wise equality of two sequences -/
def listEq (env : ClsEnv) : List PyVal → List PyVal → Bool
  | [], [] => true
  | x :: xs, y :: ys => pyEq env x y && listEq env xs ys
  | _, _ => false
termination_by xs ys => (sizeOf xs + sizeOf ys, 1)
/-- `x in ys` -/
def memEq (env : ClsEnv) (x : PyVal) : List PyVal → Bool
  | [] => false
  | y :: ys => pyEq env x y || memEq env x ys
termination_by ys => (sizeOf x + sizeOf ys, 1)
/-- every element of `xs` is in `ys` -/
def allIn (env : ClsEnv) : List PyVal → List PyVal → Bool
  | [], _ => true
  | x :: xs, ys => memEq env x ys && allIn env xs ys
termination_by xs ys => (sizeOf xs + sizeOf ys, 2)
/-- `k in d and d[k] == v` -/
def pairIn (env : ClsEnv) (k v : PyVal) : List (PyVal × PyVal) → Bool
  | [] => false
  | (k', v') :: ys => (pyEq env k k' && pyEq env v v') || pairIn env k v ys
termination_by ys => (sizeOf k + sizeOf v + sizeOf ys, 1)
def allPairsIn (env : ClsEnv) : List (PyVal × PyVal) → List (PyVal × PyVal) → Bool
  | [], _ => true
  | (k, v) :: xs, ys => pairIn env k v ys && allPairsIn env xs ys
termination_by xs ys => (sizeOf xs + sizeOf ys, 2)
/-- `v == getattr(other, k, MISSING)` -/
def fieldEq (env : ClsEnv) (v : PyVal) (k : String) : List (String × PyVal) → Bool
  | [] => pyEq env v .missing
  | (k', w) :: fs => if k' == k then pyEq env v w else fieldEq env v k fs
termination_by fs => (sizeOf v + sizeOf fs, 1)
/-- `all(getattr(self, key, MISSING) == getattr(other, key, MISSING) for key in self.__ATTRIBUTES__)` -/
def fieldsEq (env : ClsEnv) : List (String × PyVal) → List (String × PyVal) → Bool
  | [], _ => true
  | (k, v) :: fs, gs => fieldEq env v k gs && fieldsEq env fs gs
termination_by fs gs => (sizeOf fs + sizeOf gs, 2)
end

end Haiway.StateObj
