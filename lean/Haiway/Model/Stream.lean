/-!
# Model of `ctx.stream` as the code has it (C11)

`ctx.stream(source, …)` (haiway/context/access.py)

* takes `copy_context()` – used only to *create* the async-generator object, which does not bind the
  generator's body to that context: **an async-generator frame executes in the context of whoever resumes it**;
* pre-builds `ctx.scope(source.__name__)`: the scope's metrics node is registered under the creator's current
  metrics scope at creation time;
* returns `async def generator(): async with streaming_context: async for r in source(): yield r`.

So the `async with streaming_context` is entered on the first `__anext__`, in the **consumer's** context: the three
context variables (state, metrics scope, task group) of the consumer are set there, stay set between items, and
are reset from the tokens when the body ends (normally, by an exception, or by `aclose()` in the same context).
A generator that is dropped while suspended is closed by the event loop's async-generator finaliser in a *new*
task, i.e. in a foreign `Context`: every `ContextVar.reset(token)` raises `ValueError` before anything else
happens, so nothing is restored and no metrics scope is finished.

The model is a labelled transition system.  A label is `(task, op)`; every task owns one `Ctx` (its
`contextvars.Context`) and a stack of entered blocks; the heap holds the metrics nodes and the streams.
Generator bodies are instruction trees (`Instr`): `with` blocks are syntactically balanced as in Python.
A suspended generator is a stack of `Entry`s (innermost first): the rest of each syntactic block that is
still open, together with the `Frame` (tokens) its exit will restore.  Core Lean only; everything computable
and structurally recursive (so closed terms evaluate by `decide`).
-/
namespace Haiway.Stream

/-- scope names as the harness prints them -/
inductive Name where
  | task (idx : Nat)      -- `s<idx>`: block entered by a task at step `idx`
  | bsync (v : Nat)       -- `b<v>`: `with ctx.scope(...)` inside a generator body
  | basync (v : Nat)      -- `B<v>`: `async with ctx.scope(...)` inside a generator body
  | gen (g : Nat)         -- `g<g>`: the stream's scope is named after the generator function
deriving DecidableEq, Repr

/-- identity of a task group = who created it -/
inductive Owner where
  | task (idx : Nat)
  | basync (v : Nat)
  | stream (g : Nat) (path : List Nat)   -- the stream `path` (handle, then nested generator indices) of generator `g`
deriving DecidableEq, Repr

/-- the three context variables of one `contextvars.Context`; `none` = variable unset.
`state`: the visible `A` value (`0` = a `ScopeState` without an `A`: lookup default-constructs). -/
structure Ctx where
  state : Option Nat := none
  metrics : Option Nat := none      -- metrics node id
  group : Option Owner := none
deriving DecidableEq, Repr

structure Node where
  name : Name
  parent : Option Nat
  finished : Bool := false
  completed : Bool := false
  recs : List Nat := []
deriving DecidableEq, Repr

/-- an entered block = the tokens its exit resets (the *old* values) and the metrics node it finishes -/
inductive Frame where
  | ascope (node : Nat) (g : Option Owner) (s : Option Nat) (m : Option Nat)   -- `async with ctx.scope`
  | sscope (node : Nat) (s : Option Nat) (m : Option Nat)                      -- `with ctx.scope`
  | upd (s : Option Nat)                                                        -- `with ctx.updated`
deriving DecidableEq, Repr

inductive BK where
  | sync | async | upd
deriving DecidableEq, Repr

/-- generator bodies -/
inductive Instr where
  | yld (i : Nat)                               -- observe the context, `yield i`
  | recd (k : Nat)                              -- `ctx.record(M(k))`
  | fail (base : Bool)                          -- `raise Boom` / `raise BaseBoom`
  | nop                                         -- `await sleep(0)`
  | block (k : BK) (v : Nat) (body : List Instr)
  | sub (g : Nat) (body : List Instr)           -- `async for x in ctx.stream(gen_g): yield x`
deriving Repr

inductive Exc where
  | boom | baseBoom | genExit
deriving DecidableEq, Repr

/-- completion callback fired: name, own records, records merged over the nested scopes -/
structure Event where
  name : Name
  own : List Nat
  merged : List Nat
deriving DecidableEq, Repr

/-- the heap part a running body touches -/
structure World where
  nodes : List Node := []
  events : List Event := []
deriving Repr

/-- context fingerprint: state, scope label, task-group owner -/
structure FP where
  state : Option Nat
  label : Option Name
  group : Option Owner
deriving DecidableEq, Repr

def fpOf (c : Ctx) (w : World) : FP :=
  { state := c.state, label := c.metrics.bind (fun n => (w.nodes[n]?).map (·.name)), group := c.group }

/-! ## metrics nodes -/

def isCompleted (nodes : List Node) (n : Nat) : Bool :=
  match nodes[n]? with
  | some nd => nd.completed
  | none => false

/-- a completed scope cannot wait for nested scopes any more: the nearest ancestor that is not completed
(`while parent is not None and parent._completed.done(): parent = parent._parent`); parents have smaller ids -/
def liveAncestor : Nat → List Node → Option Nat → Option Nat
  | 0, _, _ => none
  | _ + 1, _, none => none
  | fuel + 1, nodes, some p =>
    match nodes[p]? with
    | some nd => if nd.completed then liveAncestor fuel nodes nd.parent else some p
    | none => none

/-- `ScopeMetrics(parent=current)`: registered under the current scope, or its nearest open ancestor -/
def mkNode (w : World) (name : Name) (cur : Option Nat) : World × Nat :=
  ({ w with nodes := w.nodes ++ [{ name := name, parent := liveAncestor (w.nodes.length + 1) w.nodes cur }] },
   w.nodes.length)

def childrenOf (nodes : List Node) (n : Nat) : List Nat :=
  (List.range nodes.length).filter (fun i => match nodes[i]? with
    | some nd => nd.parent == some n
    | none => false)

def ownRecs (nodes : List Node) (n : Nat) : List Nat :=
  match nodes[n]? with
  | some nd => nd.recs
  | none => []

/-- `ScopeMetrics.metrics(merge=concat)` -/
def merged : Nat → List Node → Nat → List Nat
  | 0, _, _ => []
  | fuel + 1, nodes, n => ownRecs nodes n ++ (childrenOf nodes n).flatMap (merged fuel nodes)

def hasCallback : Name → Bool
  | .gen _ => false      -- `ctx.stream` passes no completion callback to its scope
  | _ => true

/-- `_complete_if_able`, walking up the parent chain (parents have smaller ids: fuel `n + 1` suffices) -/
def completeUp : Nat → World → Nat → World
  | 0, w, _ => w
  | fuel + 1, w, n =>
    match w.nodes[n]? with
    | none => w
    | some nd =>
      if nd.finished && !nd.completed && (childrenOf w.nodes n).all (isCompleted w.nodes) then
        let nodes' := w.nodes.set n { nd with completed := true }
        let evs := if hasCallback nd.name
          then w.events ++ [{ name := nd.name, own := nd.recs, merged := merged nodes'.length nodes' n }]
          else w.events
        let w' : World := { nodes := nodes', events := evs }
        match nd.parent with
        | some p => completeUp fuel w' p
        | none => w'
      else w

/-- `MetricsContext.__exit__` → `_finish()` -/
def finish (w : World) (n : Nat) : World :=
  match w.nodes[n]? with
  | none => w
  | some nd => completeUp (n + 1) { w with nodes := w.nodes.set n { nd with finished := true } } n

/-- `ctx.record`: into the current metrics scope; nothing without one, refused (logged) by a completed one -/
def record (w : World) (c : Ctx) (k : Nat) : World :=
  match c.metrics with
  | none => w
  | some n => match w.nodes[n]? with
    | none => w
    | some nd => if nd.completed then w else { w with nodes := w.nodes.set n { nd with recs := nd.recs ++ [k] } }

/-! ## entering and leaving blocks -/

/-- `StateContext.updated(state)`: current value updated (same object when nothing is supplied), or a fresh
`ScopeState` when the variable is unset -/
def newState (cur : Option Nat) (v : Nat) : Nat := if v = 0 then cur.getD 0 else v

/-- the variable part of leaving a block: `ContextVar.reset(token)` puts back the value recorded in the token,
whatever the variable holds now -/
def restore : Frame → Ctx → Ctx
  | .ascope _ g s m, _ => { state := s, metrics := m, group := g }
  | .sscope _ s m, c => { c with state := s, metrics := m }
  | .upd s, c => { c with state := s }

def Frame.node? : Frame → Option Nat
  | .ascope n _ _ _ | .sscope n _ _ => some n
  | .upd _ => none

/-- `__exit__` / `__aexit__` (any outcome of the body: the variable effects do not depend on it) -/
def exitFrame (f : Frame) (c : Ctx) (w : World) : Ctx × World :=
  (restore f c, match f.node? with
    | some n => finish w n
    | none => w)

/-- enter a scope named `name` (its metrics node is created here, under the current one) -/
def enterScope (async : Bool) (name : Name) (owner : Owner) (v : Nat) (c : Ctx) (w : World) : Frame × Ctx × World :=
  let (w', n) := mkNode w name c.metrics
  if async then
    (.ascope n c.group c.state c.metrics,
     { state := some (newState c.state v), metrics := some n, group := some owner }, w')
  else
    (.sscope n c.state c.metrics, { c with state := some (newState c.state v), metrics := some n }, w')

def enterUpd (v : Nat) (c : Ctx) : Frame × Ctx :=
  (.upd c.state, { c with state := some (newState c.state v) })

def enterBlock (k : BK) (v : Nat) (c : Ctx) (w : World) : Frame × Ctx × World :=
  match k with
  | .sync => enterScope false (.bsync v) (.basync v) v c w
  | .async => enterScope true (.basync v) (.basync v) v c w
  | .upd => let (f, c') := enterUpd v c; (f, c', w)

/-- first resumption of a stream whose scope node `n` was pre-built: `async with streaming_context`
in the context of the caller of `__anext__` -/
def startStream (n : Nat) (owner : Owner) (c : Ctx) : Frame × Ctx :=
  (.ascope n c.group c.state c.metrics,
   { state := some (newState c.state 0), metrics := some n, group := some owner })

/-! ## running a generator body -/

/-- a syntactic block of a suspended generator: the rest of its instructions, what its exit restores, and the
stream path of the generator it belongs to (`isStream`: the block is a stream's own `async with`) -/
structure Entry where
  pc : List Instr
  frame : Frame
  path : List Nat
  isStream : Bool
deriving Repr

inductive Res where
  | yielded (i : Nat) (fp : FP) (inner : List Entry) (rest : List Instr) (c : Ctx) (w : World)
  | finished (c : Ctx) (w : World)
  | raised (e : Exc) (c : Ctx) (w : World)

mutual
/-- one instruction in context `c` (the resumer's) -/
def runI (path : List Nat) : Instr → Ctx → World → Res
  | .yld i, c, w => .yielded i (fpOf c w) [] [] c w
  | .recd k, c, w => .finished c (record w c k)
  | .fail base, c, w => .raised (if base then .baseBoom else .boom) c w
  | .nop, c, w => .finished c w
  | .block k v body, c, w =>
    match enterBlock k v c w with
    | (f, c1, w1) =>
      match runL path body c1 w1 with
      | .finished c2 w2 => let r := exitFrame f c2 w2; .finished r.1 r.2
      | .raised e c2 w2 => let r := exitFrame f c2 w2; .raised e r.1 r.2
      | .yielded i fp inner rest c2 w2 =>
        .yielded i fp (inner ++ [{ pc := rest, frame := f, path := path, isStream := false }]) [] c2 w2
  | .sub g body, c, w =>
    -- `ctx.stream(gen_g)` in the running context, first `__anext__` at once
    match mkNode w (.gen g) c.metrics with
    | (w0, n) =>
      match startStream n (.stream g (path ++ [g])) c with
      | (f, c1) =>
        match runL (path ++ [g]) body c1 w0 with
        | .finished c2 w2 => let r := exitFrame f c2 w2; .finished r.1 r.2
        | .raised e c2 w2 => let r := exitFrame f c2 w2; .raised e r.1 r.2
        | .yielded i fp inner rest c2 w2 =>
          .yielded i fp (inner ++ [{ pc := rest, frame := f, path := path ++ [g], isStream := true }]) [] c2 w2
/-- an instruction list up to its first `yield`, end or exception -/
def runL (path : List Nat) : List Instr → Ctx → World → Res
  | [], c, w => .finished c w
  | i :: r, c, w =>
    match runI path i c w with
    | .finished c' w' => runL path r c' w'
    | .raised e c' w' => .raised e c' w'
    | .yielded j fp inner _ c' w' => .yielded j fp inner r c' w'
end

inductive Outcome where
  | item (i : Nat) (fp : FP)
  | stop
  | err (e : Exc)
deriving DecidableEq, Repr

/-- an exception travelling outwards through the open blocks: every exit runs, innermost first -/
def unwind : List Entry → Ctx → World → Ctx × World
  | [], c, w => (c, w)
  | e :: rest, c, w => let r := exitFrame e.frame c w; unwind rest r.1 r.2

/-- resume a suspended generator (stack innermost first) in context `c` -/
def resume : List Entry → Ctx → World → Outcome × List Entry × Ctx × World
  | [], c, w => (.stop, [], c, w)
  | e :: rest, c, w =>
    match runL e.path e.pc c w with
    | .yielded i fp inner pc' c' w' => (.item i fp, inner ++ { e with pc := pc' } :: rest, c', w')
    | .finished c' w' => let r := exitFrame e.frame c' w'; resume rest r.1 r.2
    | .raised x c' w' => let r := unwind (e :: rest) c' w'; (.err x, [], r.1, r.2)

/-- what `aclose()` of a suspended stream unwinds: `GeneratorExit` is thrown into the outermost generator –
`ctx.stream`'s own wrapper – whose `finally` closes the source generator it was iterating (`await
source_generator.aclose()`), so the source's open blocks are left innermost first, in the caller's context, and
then the stream's own `async with`.  A *nested* stream the source was iterating is not closed by anybody (the
source's `async for` merely drops it): the loop's async-generator finaliser closes it later in a foreign
`Context`, where nothing can be reset or finished. -/
def closeEntries (stack : List Entry) : List Entry :=
  match stack.reverse with
  | [] => []
  | top :: below => (top :: below.takeWhile (fun e => !e.isStream)).reverse

/-! ## the system -/

inductive Status where
  | unstarted | running | done | dropped
deriving DecidableEq, Repr

structure Strm where
  g : Nat
  body : List Instr
  node : Nat
  status : Status := .unstarted
  consumer : Nat := 0
  stack : List Entry := []
  -- ghost fields (never read by the transitions): what the consumer received so far, how the body ended,
  -- whether the stream was closed / dropped before its end
  delivered : List Nat := []
  exc : Option Exc := none
  cut : Bool := false
deriving Repr

structure Task where
  ctx : Ctx := {}
  frames : List Frame := []
deriving Repr

structure Sys where
  world : World := {}
  tasks : List (Nat × Task) := [(0, {})]
  streams : List (Nat × Strm) := []
deriving Repr

inductive Op where
  | enterA (v : Nat) | enterS (v : Nat) | enterU (v : Nat) | exit
  | mk (s g : Nat) | next (s : Nat) | close (s : Nat) | abandon (s : Nat)
  | probe | spawn (j : Nat)
  | caught        -- the task was cancelled once and caught the `CancelledError` (its `cancelling()` stays > 0)
deriving DecidableEq, Repr

structure Label where
  task : Nat
  op : Op
deriving DecidableEq, Repr

inductive Obs where
  | ok | dead | bad
  | fp (f : FP)
  | out (o : Outcome)
deriving DecidableEq, Repr

def lookup {α : Type} (l : List (Nat × α)) (k : Nat) : Option α :=
  match l with
  | [] => none
  | (k', a) :: r => if k' = k then some a else lookup r k

def update {α : Type} (l : List (Nat × α)) (k : Nat) (a : α) : List (Nat × α) :=
  match l with
  | [] => [(k, a)]
  | (k', a') :: r => if k' = k then (k, a) :: r else (k', a') :: update r k a

abbrev Gens := List (List Instr)

def setTask (s : Sys) (t : Nat) (tk : Task) : Sys := { s with tasks := update s.tasks t tk }
def setStrm (s : Sys) (h : Nat) (st : Strm) : Sys := { s with streams := update s.streams h st }

/-- the stream after one `__anext__` with outcome `o` (ghost bookkeeping included) -/
def Strm.after (st : Strm) (t : Nat) (o : Outcome) (stack : List Entry) : Strm :=
  match o with
  | .item i _ => { st with status := .running, consumer := t, stack := stack, delivered := st.delivered ++ [i] }
  | .stop => { st with status := .done, consumer := t, stack := [], exc := none }
  | .err e => { st with status := .done, consumer := t, stack := [], exc := some e }

/-- the stream's own block, entered in the context `c` of the first `__anext__` -/
def startEntry (st : Strm) (h : Nat) (c : Ctx) : Entry × Ctx :=
  let fc := startStream st.node (.stream st.g [h]) c
  ({ pc := st.body, frame := fc.1, path := [h], isStream := true }, fc.2)

/-- the suspended generator and the context its next resumption runs in -/
def resumePoint (st : Strm) (h : Nat) (c : Ctx) : List Entry × Ctx :=
  if st.status = .unstarted then ([(startEntry st h c).1], (startEntry st h c).2) else (st.stack, c)

/-- `__anext__` of a stream that has not ended, called by task `t` whose context is `c` -/
def nextOn (st : Strm) (h t : Nat) (c : Ctx) (w : World) : Outcome × Strm × Ctx × World :=
  let r := resume (resumePoint st h c).1 (resumePoint st h c).2 w
  (r.1, st.after t r.1 r.2.1, r.2.2.1, r.2.2.2)

/-- the operation `op` of task `t`, whose state is `tk` -/
def stepOp (gens : Gens) (s : Sys) (idx : Nat) (t : Nat) (tk : Task) : Op → Sys × Obs
  | .enterA v =>
    let r := enterScope true (.task idx) (.task idx) v tk.ctx s.world
    (setTask { s with world := r.2.2 } t { ctx := r.2.1, frames := r.1 :: tk.frames }, .ok)
  | .enterS v =>
    let r := enterScope false (.task idx) (.task idx) v tk.ctx s.world
    (setTask { s with world := r.2.2 } t { ctx := r.2.1, frames := r.1 :: tk.frames }, .ok)
  | .enterU v =>
    let r := enterUpd v tk.ctx
    (setTask s t { ctx := r.2, frames := r.1 :: tk.frames }, .ok)
  | .exit =>
    match tk.frames with
    | [] => (s, .bad)
    | f :: fs =>
      let r := exitFrame f tk.ctx s.world
      (setTask { s with world := r.2 } t { ctx := r.1, frames := fs }, .ok)
  | .mk h g =>
    match lookup s.streams h, gens[g]? with
    | none, some body =>
      let r := mkNode s.world (.gen g) tk.ctx.metrics
      (setStrm { s with world := r.1 } h { g := g, body := body, node := r.2 }, .ok)
    | _, _ => (s, .bad)
  | .next h =>
    match lookup s.streams h with
    | none => (s, .bad)
    | some st =>
      if st.status = .done then (s, .out .stop)
      else if st.status = .dropped then (s, .bad)
      else if st.status = .running ∧ st.consumer ≠ t then (s, .bad)
      else
        let r := nextOn st h t tk.ctx s.world
        (setStrm (setTask { s with world := r.2.2.2 } t { tk with ctx := r.2.2.1 }) h r.2.1, .out r.1)
  | .close h =>
    match lookup s.streams h with
    | none => (s, .bad)
    | some st =>
      match st.status with
      | .done => (s, .ok)
      | .dropped => (s, .bad)
      | .unstarted => (setStrm s h { st with status := .done, cut := true }, .ok)
      | .running =>
        if st.consumer ≠ t then (s, .bad) else
        let r := unwind (closeEntries st.stack) tk.ctx s.world
        (setStrm (setTask { s with world := r.2 } t { tk with ctx := r.1 }) h
          { st with status := .done, stack := [], cut := true }, .ok)
  | .abandon h =>
    match lookup s.streams h with
    | none => (s, .bad)
    | some st =>
      if st.status = .dropped then (s, .bad) else
      (setStrm s h { st with status := .dropped, stack := [], cut := st.cut || st.status != .done }, .ok)
  | .probe => (s, .fp (fpOf tk.ctx s.world))
  | .caught => (s, .ok)   -- a handled cancellation request is no business of streams, scopes or contexts
  | .spawn j =>
    match lookup s.tasks j with
    | some _ => (s, .bad)
    | none => (setTask s j { ctx := tk.ctx, frames := [] }, .ok)

/-- one label; `idx` = position of the label in the run (names the scope a task enters) -/
def step (gens : Gens) (s : Sys) (idx : Nat) (l : Label) : Sys × Obs :=
  match lookup s.tasks l.task with
  | none => (s, .dead)
  | some tk => stepOp gens s idx l.task tk l.op

/-- a run: the labels in execution order, each with its position -/
def runFrom (gens : Gens) : Sys → Nat → List Label → Sys × List Obs
  | s, _, [] => (s, [])
  | s, idx, l :: ls =>
    let r := step gens s idx l
    let rest := runFrom gens r.1 (idx + 1) ls
    (rest.1, r.2 :: rest.2)

def run (gens : Gens) (ls : List Label) : Sys × List Obs := runFrom gens {} 0 ls

end Haiway.Stream
