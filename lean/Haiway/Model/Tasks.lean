import Haiway.Model.ScopeState
/-! Multi-task model of the *state* context variable (`StateContext._context`): every task holds its own
    value of the variable; entering a `ctx.scope` / `ctx.updated` block replaces it by
    `current.updated(direct ++ states yielded by disposables)` and records the previous value in a token;
    leaving restores the token; `ctx.spawn` / `create_task` copy the parent's value (`copy_context`);
    a lookup follows `ScopeState.state`: exact type → explicit default → default construction → MissingState,
    and MissingContext when the variable is unset.  (C01, C03; the state part of C02.) -/
namespace Haiway.Tasks
open Haiway.ScopeState

structure Frame where
  block : Nat
  supplied : List Inst
  saved : Option (List Inst)        -- the token: value of the state variable before the block
deriving Repr

structure Task where
  inherited : Option (List (List Inst))   -- ghost: frames visible where the task was started (none = no context)
  state : Option (List Inst)              -- the task's StateContext variable (none = unset)
  frames : List Frame                     -- own entered blocks, innermost first
  done : Bool := false
deriving Repr

abbrev Sys := List Task

inductive Label where
  | enter (t b : Nat) (direct : List Inst) (disp : List (List Inst))
  | left (t b : Nat)
  | probe (t ty : Nat) (hasDefault : Bool)
  | spawn (t : Nat)
  | finish (t : Nat)
  | foreignExit (t b : Nat)     -- task t calls `__exit__` on a block object that another task entered
deriving Repr

def Label.task : Label → Nat
  | .enter t _ _ _ | .left t _ | .probe t _ _ | .spawn t | .finish t | .foreignExit t _ => t

inductive Obs where
  | none
  | supplied (i : Inst)       -- the instance some enclosing block supplied
  | refused                   -- `ContextVar.reset` rejects a token created in another task's context
  | default                   -- the caller's explicit default
  | constructed               -- a default-constructed instance
  | missingState
  | missingContext
deriving Repr, DecidableEq

/-- what a block supplies: `(*self._state, *await self._disposables.__aenter__())` -/
def suppliedOf (direct : List Inst) (disp : List (List Inst)) : List Inst := direct ++ disp.flatten

def enterState (cur : Option (List Inst)) (supplied : List Inst) : List Inst :=
  match cur with
  | some s => updated s supplied       -- `cls._context.get().updated(state)`
  | none => mk supplied                -- LookupError fallback: `ScopeState(state)`

/-- `ScopeState.state(T, default)` after the exact-type lookup failed -/
def fallback (ctor : Nat → Bool) (ty : Nat) (hasDefault : Bool) : Obs :=
  if hasDefault then .default else if ctor ty then .constructed else .missingState

def lookupObs (ctor : Nat → Bool) (st : Option (List Inst)) (ty : Nat) (hasDefault : Bool) : Obs :=
  match st with
  | none => .missingContext
  | some d => match find d ty with
    | some i => .supplied i
    | none => fallback ctor ty hasDefault

def visibleOf (inh : Option (List (List Inst))) (fs : List Frame) : Option (List (List Inst)) :=
  match inh, fs with
  | none, [] => none
  | inh, fs => some ((inh.getD []) ++ (fs.reverse.map (·.supplied)))

/-- `ctor ty` = the type can be constructed without arguments -/
def step (ctor : Nat → Bool) (s : Sys) : Label → Option (Sys × Obs)
  | .enter t b direct disp =>
    match s[t]? with
    | some tk => if tk.done then none else
        let sup := suppliedOf direct disp
        some (s.set t { tk with state := some (enterState tk.state sup),
                                frames := { block := b, supplied := sup, saved := tk.state } :: tk.frames }, .none)
    | none => none
  | .left t b =>
    match s[t]? with
    | some tk =>
      match tk.frames with
      | f :: rest => if f.block = b ∧ !tk.done then some (s.set t { tk with state := f.saved, frames := rest }, .none) else none
      | [] => none
    | none => none
  | .probe t ty hasDefault =>
    match s[t]? with
    | some tk => if tk.done then none else some (s, lookupObs ctor tk.state ty hasDefault)
    | none => none
  | .spawn t =>
    match s[t]? with
    | some tk => if tk.done then none else
        some (s ++ [{ inherited := visibleOf tk.inherited tk.frames, state := tk.state, frames := [] }], .none)
    | none => none
  | .finish t =>
    match s[t]? with
    | some tk => if tk.done ∨ tk.frames ≠ [] then none else some (s.set t { tk with done := true }, .none)
    | none => none
  | .foreignExit t _ =>
    match s[t]? with
    | some tk => if tk.done then none else some (s, .refused)     -- nothing changes for anybody
    | none => none

/-- run a label sequence, collecting the observations; a label that is not enabled is reported -/
def run (ctor : Nat → Bool) : Sys → List Label → List (Option Obs)
  | _, [] => []
  | s, l :: ls =>
    match step ctor s l with
    | some (s', o) => some o :: run ctor s' ls
    | none => none :: run ctor s ls

/-- final system after a label sequence (disabled labels are skipped) -/
def exec (ctor : Nat → Bool) : Sys → List Label → Sys
  | s, [] => s
  | s, l :: ls =>
    match step ctor s l with
    | some (s', _) => exec ctor s' ls
    | none => exec ctor s ls

/-- the root task runs outside every scope -/
def init : Sys := [{ inherited := none, state := none, frames := [] }]

/-- SPEC (environment stacks): the answer the property prescribes for a lookup, given the frames visible
    to the task (outermost first) -/
def specObs (ctor : Nat → Bool) (vis : Option (List (List Inst))) (ty : Nat) (hasDefault : Bool) : Obs :=
  match vis with
  | none => .missingContext
  | some vs =>
    match vs.reverse.findSome? (fun f => lastOf f ty) with
    | some i => .supplied i
    | none => fallback ctor ty hasDefault

end Haiway.Tasks
