/-!
# Model of `haiway.helpers.throttling._AsyncThrottle.__call__` (repaired wait)

```
async with self._lock:                                   # asyncio.Lock: FIFO
    time_now = monotonic()
    while self._entries:                                 # cleanup old entries
        if self._entries[0] + self._period <= time_now:  self._entries.popleft()
        else: break
    if len(self._entries) >= self._limit:
        await sleep(self._entries[0] + self._period - time_now)
    self._entries.append(monotonic())
return await self._function(*args, **kwargs)
```

Time is exact `Nat` ticks (a tick is a quarter second, see `ticksPerSecond`).  The lock is FIFO and is held from acquisition to the `append`, so the
critical sections run one after the other in arrival order, the `i`-th acquiring at
`max(arrival i, release of the (i-1)-th)`; the release instant is the instant of the `append`,
which is also the instant the wrapped function starts (nothing suspends in between).  The wrapped
function runs outside the lock: its duration and outcome do not influence any start.
Core Lean only.
-/
namespace Haiway.Throttle

structure St where
  /-- recorded start times, oldest first (`_entries`) -/
  entries : List Nat
  /-- instant at which the lock is next available (= last start; 0 initially) -/
  lockFree : Nat
deriving Repr, DecidableEq

/-- what happens to one call inside the critical section -/
inductive Res where
  | started (t : Nat)     -- the wrapped function starts at `t`
  | indexError            -- `self._entries[0]` on an empty deque (possible only with `limit = 0`)
deriving Repr, DecidableEq

/-- `while entries and entries[0] + period <= now: popleft()` -/
def cleanup (P now : Nat) (es : List Nat) : List Nat := es.dropWhile (fun e => e + P ≤ now)

/-- one call arriving at `arrival`; calls are processed in FIFO order -/
def process (limit P : Nat) (s : St) (arrival : Nat) : St × Res :=
  let now := max arrival s.lockFree                 -- lock acquired, `time_now = monotonic()`
  let es := cleanup P now s.entries
  if limit ≤ es.length then
    match es with
    | e :: _ =>
      let t := max now (e + P)                      -- `sleep(entries[0] + period - now)` (a non-positive sleep returns at once)
      ({ entries := es ++ [t], lockFree := t }, .started t)
    | [] => ({ entries := es, lockFree := now }, .indexError)
  else
    ({ entries := es ++ [now], lockFree := now }, .started now)

def run (limit P : Nat) : St → List Nat → List Res
  | _, [] => []
  | s, a :: as => let r := process limit P s a; r.2 :: run limit P r.1 as

def init : St := { entries := [], lockFree := 0 }

/-- model time unit: one tick = a quarter of a second (every instant the correspondence uses is a
multiple of 0.25 s, exact in binary floating point) -/
def ticksPerSecond : Nat := 4

/-- the `period` argument by runtime shape (`match period: case timedelta() …; case seconds …`) -/
inductive PeriodArg where
  | float (quarters : Nat)                   -- the float `quarters * 0.25` (seconds)
  | int (seconds : Nat)                      -- an int number of seconds
  | timedelta (days seconds millis : Nat)    -- `timedelta(days=…, seconds=…, milliseconds=…)`

/-- the period in ticks.  `delta.total_seconds()` = `days * 86400 + seconds + millis / 1000`: days
and the sub-second part both count (exact here when `millis` is a multiple of 250). -/
def PeriodArg.toTicks : PeriodArg → Nat
  | .float q => q
  | .int n => n * ticksPerSecond
  | .timedelta d s ms => (d * 86400 + s) * ticksPerSecond + ms / 250

/-- what the wrapped function does when invoked -/
inductive FnOut where
  | value (v : Nat)
  | raised (id : Nat)       -- an exception object with identity `id`
deriving Repr, DecidableEq

inductive CallerOut where
  | value (v : Nat)
  | raised (id : Nat)
  | indexError
deriving Repr, DecidableEq

/-- `return await self._function(*args, **kwargs)` -/
def callerOutcome : Res → FnOut → CallerOut
  | .started _, .value v => .value v
  | .started _, .raised id => .raised id
  | .indexError, _ => .indexError

/-- start instants of the calls that did start -/
def starts (rs : List Res) : List Nat :=
  rs.filterMap fun r => match r with | .started t => some t | .indexError => none

end Haiway.Throttle
