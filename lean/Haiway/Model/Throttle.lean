/-!
# Model of `haiway.helpers.throttling._AsyncThrottle.__call__` (repaired wait)

```
async with self._lock:                                   # asyncio.Lock: FIFO
    time_now = monotonic()
    while self._entries:                                 # cleanup old entries
        if self._entries[0] + self._period <= time_now:  self._entries.popleft()
        else: break
    if len(self._entries) >= self._limit:
        await sleep(self._entries[0] + self._period - time_now)
    self._entries.append(monotonic())
return await self._function(*args, **kwargs)
```

Time is exact `Nat` ticks (a tick is a quarter second, see `ticksPerSecond`).  The lock is FIFO and is held from acquisition to the `append`, so the
critical sections run one after the other in arrival order, the `i`-th acquiring at
`max(arrival i, release of the (i-1)-th)`; the release instant is the instant of the `append`,
which is also the instant the wrapped function starts (nothing suspends in between).  The wrapped
function runs outside the lock: its duration and outcome do not influence any start.
Core Lean only.
-/
namespace Haiway.Throttle

structure St where
  /-- recorded start times, oldest first (`_entries`) -/
  entries : List Nat
  /-- instant at which the lock is next available (= last start; 0 initially) -/
  lockFree : Nat
deriving Repr, DecidableEq

/-- what happens to one call inside the critical section -/
inductive Res where
  | started (t : Nat)     -- the wrapped function starts at `t`
  | indexError            -- `self._entries[0]` on an empty deque (possible only with `limit = 0`)
deriving Repr, DecidableEq

/-- `while entries and entries[0] + period <= now: popleft()` -/
def cleanup (P now : Nat) (es : List Nat) : List Nat := es.dropWhile (fun e => e + P ≤ now)

/-- one call arriving at `arrival`; calls are processed in FIFO order -/
def process (limit P : Nat) (s : St) (arrival : Nat) : St × Res :=
  let now := max arrival s.lockFree                 -- lock acquired, `time_now = monotonic()`
  let es := cleanup P now s.entries
  if limit ≤ es.length then
    match es with
    | e :: _ =>
      let t := max now (e + P)                      -- `sleep(entries[0] + period - now)` (a non-positive sleep returns at once)
      ({ entries := es ++ [t], lockFree := t }, .started t)
    | [] => ({ entries := es, lockFree := now }, .indexError)
  else
    ({ entries := es ++ [now], lockFree := now }, .started now)

def run (limit P : Nat) : St → List Nat → List Res
  | _, [] => []
  | s, a :: as => let r := process limit P s a; r.2 :: run limit P r.1 as

def init : St := { entries := [], lockFree := 0 }

/-- model time unit: one tick = a quarter of a second (every instant the correspondence uses is a
multiple of 0.25 s, exact in binary floating point) -/
def ticksPerSecond : Nat := 4

/-- the `period` argument by runtime shape (`match period: case timedelta() …; case seconds …`) -/
inductive PeriodArg where
  | float (quarters : Nat)                   -- the float `quarters * 0.25` (seconds)
  | int (seconds : Nat)                      -- an int number of seconds
  | timedelta (days seconds millis : Nat)    -- `timedelta(days=…, seconds=…, milliseconds=…)`

/-- the period in ticks.  `delta.total_seconds()` = `days * 86400 + seconds + millis / 1000`: days
and the sub-second part both count (exact here when `millis` is a multiple of 250). -/
def PeriodArg.toTicks : PeriodArg → Nat
  | .float q => q
  | .int n => n * ticksPerSecond
  | .timedelta d s ms => (d * 86400 + s) * ticksPerSecond + ms / 250

/-- what the wrapped function does when invoked -/
inductive FnOut where
  | value (v : Nat)
  | raised (id : Nat)       -- an exception object with identity `id`
deriving Repr, DecidableEq

inductive CallerOut where
  | value (v : Nat)
  | raised (id : Nat)
  | indexError
  | cancelled               -- `CancelledError` delivered to the caller
deriving Repr, DecidableEq

/-- `return await self._function(*args, **kwargs)` -/
def callerOutcome : Res → FnOut → CallerOut
  | .started _, .value v => .value v
  | .started _, .raised id => .raised id
  | .indexError, _ => .indexError

/-- start instants of the calls that did start -/
def starts (rs : List Res) : List Nat :=
  rs.filterMap fun r => match r with | .started t => some t | .indexError => none

/-! ## cancelled callers

A caller's task may be cancelled (`task.cancel()`, `wait_for`, the timeout wrapper) at any instant.
What that does depends on where the call is at that moment: still queued on the lock (it leaves the
queue, nothing else changes), sleeping inside the throttle as lock holder (the `async with` releases
the lock at that instant; the deque keeps what the cleanup left, nothing is appended, the function
never starts), or already running the wrapped function (the schedule is not affected). -/

/-- a cancellation request; `before` = it is delivered before the timers due at `time` fire (the
other tie order: after everything due at `time` has happened) -/
structure Cancel where
  time : Nat
  before : Bool
deriving Repr, DecidableEq

/-- the cancellation is delivered before the event due at instant `x` happens -/
def preempts (c : Option Cancel) (x : Nat) : Bool :=
  match c with
  | none => false
  | some c => if c.before then decide (c.time ≤ x) else decide (c.time < x)

def cancelTime : Option Cancel → Nat
  | some c => c.time
  | none => 0

inductive ResC where
  | ran (r : Res)             -- went through the critical section (started, or died there)
  | cancelledQueued           -- cancelled while waiting for the lock
  | cancelledSleeping         -- cancelled while holding the lock and sleeping for its turn
deriving Repr, DecidableEq

/-- one call arriving at `arrival` whose caller is (possibly) cancelled by `c` -/
def processC (limit P : Nat) (s : St) (arrival : Nat) (c : Option Cancel) : St × ResC :=
  let now := max arrival s.lockFree
  if preempts c now then (s, .cancelledQueued)          -- never got the lock: nothing changes
  else
    let es := cleanup P now s.entries
    if limit ≤ es.length then
      match es with
      | e :: _ =>
        let t := max now (e + P)
        if preempts c t then
          ({ entries := es, lockFree := max now (cancelTime c) }, .cancelledSleeping)
        else ({ entries := es ++ [t], lockFree := t }, .ran (.started t))
      | [] => ({ entries := es, lockFree := now }, .ran .indexError)
    else
      ({ entries := es ++ [now], lockFree := now }, .ran (.started now))

def runC (limit P : Nat) : St → List (Nat × Option Cancel) → List ResC
  | _, [] => []
  | s, (a, c) :: rest => let r := processC limit P s a c; r.2 :: runC limit P r.1 rest

/-- start instants of the calls that did start -/
def startsC (rs : List ResC) : List Nat :=
  rs.filterMap fun r => match r with | .ran (.started t) => some t | _ => none

/-- what the caller of a call with function duration `dur` and function outcome `o` gets, and when
(`none` = the wrapper died before anything was awaited) -/
def callerOutcomeC (r : ResC) (dur : Nat) (o : FnOut) (c : Option Cancel) : CallerOut × Option Nat :=
  match r with
  | .ran (.started t) =>
    if preempts c (t + dur) then (.cancelled, some (cancelTime c))   -- cancelled while the function runs
    else (callerOutcome (.started t) o, some (t + dur))
  | .ran .indexError => (.indexError, none)
  | .cancelledQueued => (.cancelled, some (cancelTime c))
  | .cancelledSleeping => (.cancelled, some (cancelTime c))

end Haiway.Throttle
