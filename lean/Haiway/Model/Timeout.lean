/-!
# Model of `haiway.helpers.timeouted._AsyncTimeout.__call__` (repaired code)

A finite labelled transition system.  The three objects of the code – the *result future* the
caller awaits, the *inner task* running the wrapped function and the *timer handle* of the
deadline – plus the caller itself; the done-callbacks `on_completion` / `on_result` that asyncio
schedules with `call_soon` are explicit "queued" bits, so every order in which the loop could run
them is a schedule of the model.

Labels (one per harness-visible or loop-level event):

* `taskEnds`        the wrapped function runs to its end (its own result / exception / a
                    `CancelledError` it raises itself); enabled while no cancellation is pending
* `taskSeesCancel`  a pending cancellation request is delivered inside the function: it either
                    swallows it (profile "ignores first cancellation", once) or ends cancelled
* `runCompletion`   the loop runs `on_completion` (task done-callback)
* `timerFires`      the loop runs `on_timeout` (deadline reached; only while the handle is armed)
* `runResult`       the loop runs `on_result` (result-future done-callback): `task.cancel()`
* `callerCancel`    somebody calls `cancel()` on the task awaiting the wrapper
* `callerWakes`     the caller resumes from `await future` (FIFO: after `on_result`, which was
                    registered on the future before the caller's own wake-up)

Values are parametric: only the *kind* of the function's outcome matters.
No time here: the driver (`Driver/Timeout.lean`) decides at which virtual instant the
environment labels (`taskEnds` allowed, `timerFires`, `callerCancel`) happen.
-/
namespace Haiway.Timeout

/-- how the wrapped function ends if nobody cancels it -/
inductive Kind where
  | val          -- returns a value
  | exc          -- raises an `Exception` subclass
  | baseExc      -- raises a `BaseException` subclass that is not an `Exception`
  | selfCancel   -- raises `CancelledError` itself
deriving DecidableEq, Repr

/-- the result future -/
inductive Fut where | pending | res | excUser | excBase | timeout | cancelled
deriving DecidableEq, Repr

/-- what the caller finally gets -/
inductive COut where | res | excUser | excBase | timeout | cancelled
deriving DecidableEq, Repr

/-- the inner task -/
inductive Tsk where
  | running (cancelReq : Bool) (ignored : Bool)   -- `ignored`: it already swallowed one cancellation
  | doneOwn                                        -- ended with its own value / exception
  | doneCancelled                                  -- ended cancelled (request honoured, or self-cancel)
deriving DecidableEq, Repr

inductive Tmr where | armed | fired | cancelled
deriving DecidableEq, Repr

inductive Caller where
  | waiting (mustCancel : Bool)   -- `mustCancel`: cancelled while the future was already done
  | done (o : COut)
deriving DecidableEq, Repr

/-- which event completed the result future (ghost field: never read by `step`'s guards) -/
inductive Dec where | fn | deadline | cancel
deriving DecidableEq, Repr

structure S where
  kind : Kind
  ignoresFirst : Bool
  fut : Fut := .pending
  tsk : Tsk := .running false false
  tmr : Tmr := .armed
  qCompletion : Bool := false   -- `on_completion` scheduled, not yet run
  qResult : Bool := false       -- `on_result` scheduled, not yet run
  caller : Caller := .waiting false
  first : Option Dec := none    -- ghost: who completed the future
  cc : Bool := false            -- ghost: the caller was cancelled while waiting
deriving DecidableEq, Repr

inductive Lbl where
  | taskEnds | taskSeesCancel | runCompletion | timerFires | runResult | callerCancel | callerWakes
deriving DecidableEq, Repr

def labels : List Lbl :=
  [.taskEnds, .taskSeesCancel, .runCompletion, .timerFires, .runResult, .callerCancel, .callerWakes]

/-- state right after `await future` was reached: future pending, task created, timer armed -/
def init (k : Kind) (ig : Bool) : S := { kind := k, ignoresFirst := ig }

def futOfKind : Kind → Fut
  | .val => .res | .exc => .excUser | .baseExc => .excBase | .selfCancel => .cancelled

def outOfFut : Fut → Option COut
  | .pending => none
  | .res => some .res | .excUser => some .excUser | .excBase => some .excBase
  | .timeout => some .timeout | .cancelled => some .cancelled

/-- completing the result future schedules its done-callback `on_result` -/
def setFut (s : S) (f : Fut) (by_ : Dec) : S :=
  { s with fut := f, qResult := true, first := some by_ }

def step (s : S) : Lbl → Option S
  | .taskEnds =>
    match s.tsk with
    | .running false _ =>
      some { s with tsk := (if s.kind = .selfCancel then .doneCancelled else .doneOwn),
                    qCompletion := true }
    | _ => none
  | .taskSeesCancel =>
    match s.tsk with
    | .running true ig =>
      if s.ignoresFirst && !ig then some { s with tsk := .running false true }
      else some { s with tsk := .doneCancelled, qCompletion := true }
    | _ => none
  | .runCompletion =>
    if s.qCompletion then
      -- `timeout_handle.cancel()`
      let s := { s with qCompletion := false, tmr := (if s.tmr = .armed then .cancelled else s.tmr) }
      if s.fut ≠ .pending then some s   -- `if future.done(): return`
      else match s.tsk with
        | .doneCancelled => some (setFut s .cancelled .fn)       -- `future.cancel()`
        | .doneOwn => some (setFut s (futOfKind s.kind) .fn)     -- result / `except BaseException`
        | .running _ _ => none
    else none
  | .timerFires =>
    if s.tmr = .armed then
      let s := { s with tmr := .fired }
      if s.fut ≠ .pending then some s else some (setFut s .timeout .deadline)
    else none
  | .runResult =>
    if s.qResult then
      let s := { s with qResult := false }
      match s.tsk with
      | .running _ ig => some { s with tsk := .running true ig }   -- `task.cancel()`
      | _ => some s
    else none
  | .callerCancel =>
    match s.caller with
    | .waiting false =>
      if s.fut = .pending then some { setFut s .cancelled .cancel with cc := true }
      else some { s with caller := .waiting true, cc := true }
    | _ => none
  | .callerWakes =>
    match s.caller with
    | .waiting mc =>
      if s.qResult then none
      else match outOfFut s.fut with
        | none => none
        | some o => some { s with caller := .done (if mc then .cancelled else o) }
    | .done _ => none

def succs (s : S) : List S := labels.filterMap (step s)

/-- label sequences accepted from a state -/
def run (s : S) : List Lbl → Option S
  | [] => some s
  | l :: ls => match step s l with
    | some t => run t ls
    | none => none

/-! ## Several calls through one wrapper

`_AsyncTimeout` keeps nothing between calls (`_function` and `_timeout` are read-only; future,
task, timer handle and the three callbacks are locals of each `__call__`), so a system of
overlapping calls is the product of independent copies: a label of call `i` steps component `i`
and leaves every other component alone. -/
def stepAt (ss : List S) (i : Nat) (l : Lbl) : Option (List S) :=
  match ss[i]? with
  | none => none
  | some s => (step s l).map (fun s' => ss.set i s')

def runSys (ss : List S) : List (Nat × Lbl) → Option (List S)
  | [] => some ss
  | (i, l) :: tr => match stepAt ss i l with
    | some ss' => runSys ss' tr
    | none => none

/-- the labels of call `j` in a system trace -/
def proj (j : Nat) (tr : List (Nat × Lbl)) : List Lbl := (tr.filter (fun x => x.1 == j)).map (·.2)

/-! ## The pinned code (before the repair), for the refutation witness only

`on_completion` was `try: future.set_result(task.result()) except Exception as exc: …`: a task
that ended cancelled or with a non-`Exception` error makes `task.result()` raise out of the
callback (the loop's exception handler is called) and the future is never completed. -/
def stepPinned (s : S) : Lbl → Option S
  | .runCompletion =>
    if s.qCompletion then
      let s := { s with qCompletion := false, tmr := (if s.tmr = .armed then .cancelled else s.tmr) }
      if s.fut ≠ .pending then some s
      else match s.tsk with
        | .doneCancelled => some s
        | .doneOwn => if s.kind = .baseExc then some s else some (setFut s (futOfKind s.kind) .fn)
        | .running _ _ => none
    else none
  | l => step s l

def runPinned (s : S) : List Lbl → Option S
  | [] => some s
  | l :: ls => match stepPinned s l with
    | some t => runPinned t ls
    | none => none

end Haiway.Timeout
