/-! Model of `haiway.state.validation` (C05, C04): Python values, resolved attribute annotations
(`AttributeAnnotation` trees) and the validator factories of `VALIDATORS`, one Lean equation per
factory.  Core Lean only; everything is computable (the driver `hwmodel validate` runs it). -/
namespace Haiway.Validate

/-- value of the data-type mixin of an `Enum` member (`class E(str, Enum)`), needed by `==` only -/
inductive Mix where
  | none | str (s : String) | int (i : Int)
deriving DecidableEq, Repr, Inhabited

/-- Python values (DESIGN M3).  `float h` is the float `h / 2` (the harness only uses half-integers:
exact in binary floating point, and `1 == 1.0` stays expressible).  Sets list their elements in the
canonical order of the serialisation, dicts in insertion order. -/
inductive PyVal where
  | none
  | missing
  | bool (b : Bool)
  | int (i : Int)
  | float (h : Int)
  | str (s : String)
  | bytes (s : String)
  | list (xs : List PyVal)
  | tuple (xs : List PyVal)
  | set (xs : List PyVal)
  | fset (xs : List PyVal)
  | dict (kvs : List (PyVal × PyVal))
  | mproxy (kvs : List (PyVal × PyVal))
  | inst (cls id : Nat) (fields : List (String × PyVal))   -- State instance
  | enumv (cls idx : Nat) (mix : Mix)                       -- Enum member
  | obj (cls id : Nat)                                      -- any other object (UUID, date, Path, user class …)
  | callable (id : Nat)
deriving Repr, Inhabited

/-- values that may appear inside `Literal[...]` (PEP 586) – decidable equality, type included -/
inductive Prim where
  | none | bool (b : Bool) | int (i : Int) | str (s : String) | bytes (s : String) | enumv (cls idx : Nat)
deriving DecidableEq, Repr, Inhabited

/-- resolved annotation = `AttributeAnnotation(origin, arguments)` grouped by the validator factory
that `VALIDATORS`/`attribute_validator` selects for the origin -/
inductive Ann where
  | any | none | missing | callable
  | nominal (cls : Nat)            -- `_prepare_validator_of_type`: builtins, UUID, date…, Path, Enum, Protocol, State
  | literal (ls : List Prim)
  | seq (a : Ann)                  -- `Sequence[a]`
  | tupleVar (a : Ann)             -- `tuple[a, ...]`
  | set (a : Ann)                  -- `Set[a]`, `frozenset[a]`
  | map (k v : Ann)                -- `Mapping[k, v]`
  | tupleFixed (as : List Ann)     -- `tuple[a1, …, an]`
  | union (as : List Ann)          -- `Union[...]`, `a | b`, `Optional[a]`
deriving Repr, Inhabited, BEq

/-- exception class raised by a validator: `TypeError`, `ValueError`, `ExceptionGroup` -/
inductive Err where | type | value | group
deriving Repr, DecidableEq, Inhabited

/-- class table: `sub c d` = `issubclass(c, d)` on class ids (reflexive). -/
structure ClsEnv where
  sub : Nat → Nat → Bool

/-! builtin class ids (fixed); user classes, enums, protocols, UUID, date … get ids ≥ 20 from the harness -/
def cNoneType := 0
def cMissing := 1
def cBool := 2
def cInt := 3
def cFloat := 4
def cStr := 5
def cBytes := 6
def cList := 7
def cTuple := 8
def cSet := 9
def cFrozenset := 10
def cDict := 11
def cMappingProxy := 12
def cFunction := 13

/-- `type(v)` -/
def classOf : PyVal → Nat
  | .none => cNoneType | .missing => cMissing | .bool _ => cBool | .int _ => cInt | .float _ => cFloat
  | .str _ => cStr | .bytes _ => cBytes | .list _ => cList | .tuple _ => cTuple | .set _ => cSet
  | .fset _ => cFrozenset | .dict _ => cDict | .mproxy _ => cMappingProxy
  | .inst c _ _ => c | .enumv c _ _ => c | .obj c _ => c | .callable _ => cFunction

/-- `isinstance(v, cls)` -/
def isInst (env : ClsEnv) (cls : Nat) (v : PyVal) : Bool := env.sub (classOf v) cls

/-- sequence pattern `case [*elements]` (never matches `str`/`bytes`) -/
def seqElems : PyVal → Option (List PyVal)
  | .list xs => some xs | .tuple xs => some xs | _ => none
/-- `isinstance(value, collections.abc.Set)` -/
def setElems : PyVal → Option (List PyVal)
  | .set xs => some xs | .fset xs => some xs | _ => none
/-- mapping pattern `case {**elements}` and its `.items()` -/
def mapElems : PyVal → Option (List (PyVal × PyVal))
  | .dict xs => some xs | .mproxy xs => some xs | _ => none
/-- `callable(value)` -/
def isCallable : PyVal → Bool
  | .callable _ => true | _ => false
/-- the value seen as a literal candidate: its type and its value -/
def primOf : PyVal → Option Prim
  | .none => some .none | .bool b => some (.bool b) | .int i => some (.int i) | .str s => some (.str s)
  | .bytes s => some (.bytes s) | .enumv c i _ => some (.enumv c i) | _ => none

mutual
/-- `attribute_validator(annotation)(value)` -/
def validate (env : ClsEnv) : Ann → PyVal → Except Err PyVal
  | .any, v => .ok v
  | .none, v => match v with | .none => .ok v | _ => .error .type
  | .missing, v => match v with | .missing => .ok v | _ => .error .type
  | .callable, v => if isCallable v then .ok v else .error .type
  | .nominal c, v => if isInst env c v then .ok v else .error .type
  | .literal ls, v => match primOf v with
      | some p => if p ∈ ls then .ok v else .error .value
      | none => .error .value
  | .seq a, v => match seqElems v with
      | some xs => (validateAll env a xs).map .tuple
      | none => .error .type
  | .tupleVar a, v => match seqElems v with
      | some xs => (validateAll env a xs).map .tuple
      | none => .error .type
  | .set a, v => match setElems v with
      | some xs => (validateAll env a xs).map .fset
      | none => .error .type
  | .map k w, v => match mapElems v with
      | some kvs => (validateKVs env k w kvs).map .mproxy
      | none => .error .type
  | .tupleFixed as, v => match seqElems v with
      | some xs => if xs.length != as.length then .error .value else (validateZip env as xs).map .tuple
      | none => .error .type
  | .union as, v => validateFirst env as v
termination_by a v => (2 * sizeOf a, sizeOf v)
/-- `element_validator(element) for element in elements` -/
def validateAll (env : ClsEnv) (a : Ann) : List PyVal → Except Err (List PyVal)
  | [] => .ok []
  | x :: xs => match validate env a x with
      | .error e => .error e
      | .ok y => match validateAll env a xs with
        | .error e => .error e
        | .ok ys => .ok (y :: ys)
termination_by xs => (2 * sizeOf a + 1, sizeOf xs)
/-- `{key_validator(key): value_validator(value) for key, value in elements.items()}` -/
def validateKVs (env : ClsEnv) (k w : Ann) : List (PyVal × PyVal) → Except Err (List (PyVal × PyVal))
  | [] => .ok []
  | (x, y) :: r => match validate env k x with
      | .error e => .error e
      | .ok x' => match validate env w y with
        | .error e => .error e
        | .ok y' => match validateKVs env k w r with
          | .error e => .error e
          | .ok r' => .ok ((x', y') :: r')
termination_by kvs => (2 * (sizeOf k + sizeOf w) + 1, sizeOf kvs)
/-- `element_validators[idx](value) for idx, value in enumerate(elements)` (lengths already equal) -/
def validateZip (env : ClsEnv) : List Ann → List PyVal → Except Err (List PyVal)
  | a :: as, x :: xs => match validate env a x with
      | .error e => .error e
      | .ok y => match validateZip env as xs with
        | .error e => .error e
        | .ok ys => .ok (y :: ys)
  | _, _ => .ok []
termination_by as xs => (2 * sizeOf as + 1, sizeOf xs)
/-- union: the first alternative that accepts wins, otherwise `ExceptionGroup` -/
def validateFirst (env : ClsEnv) : List Ann → PyVal → Except Err PyVal
  | [], _ => .error .group
  | a :: as, v => match validate env a v with
      | .ok w => .ok w
      | .error _ => validateFirst env as v
termination_by as v => (2 * sizeOf as + 1, sizeOf v)
end

end Haiway.Validate
