/-!
# Model of the call wrappers `asynchronous`, `wrap_async`, `traced` and of `mimic_function` (C18)

A wrapped callable is an arbitrary function of its arguments, the context it runs in and the metrics heap:
it returns or raises, may change the context it runs in (enter blocks it never leaves) and may record metrics
in whatever scope is current for it.  `Args`, values and exceptions are opaque tokens: the wrappers never look
inside them.

* `asynchronous f` (haiway/helpers/asynchrony.py `_ExecutorWrapper.__call__` / `__method_call__`):
  `copy_context()` at the call, `run_in_executor(executor, context.run, partial(f, *args, **kwargs))`:
  `f` runs in *another activity* on a **copy** of the caller's context; the copy is discarded; the heap
  (metrics scopes are shared objects) keeps what `f` recorded.  The outcome travels through a
  `concurrent.futures.Future` copied into an asyncio future: `convertFutureExc`.
* `wrap_async f`: a coroutine function calling `f(*args, **kwargs)` directly – in the caller's own context.
* `traced f` (haiway/helpers/tracing.py, `__debug__`): `with ctx.scope(f.__name__)`: a new metrics scope named
  after the function under the caller's, `ArgumentsTrace` recorded, `f` called inside, `ResultTrace` (value or
  exception) recorded, scope left (state and metrics variables reset from their tokens), same value returned /
  same exception re-raised.
* `mimic_function` / `_mimic_async`: name, docstring and `__wrapped__` of the result are the function's.
-/
namespace Haiway.Wrap

structure Ctx where
  state : Option Nat := none     -- visible `A` value (`0`: default-constructed); `none`: no state context
  scope : Option Nat := none     -- current metrics scope (node id); `none`: no scope
  other : Nat := 0               -- every other context variable (opaque)
deriving DecidableEq, Repr

/-- an exception: its class and the identity of the object (`obj = 0`: an object created by the machinery,
not the one the function raised) -/
structure Exc where
  cls : Nat
  obj : Nat
deriving DecidableEq, Repr

inductive Outcome where
  | ret (v : Nat)
  | raise (e : Exc)
deriving DecidableEq, Repr

/-! exception classes the event loop treats specially (all others are opaque): -/
def cfCancelled : Nat := 2      -- concurrent.futures.CancelledError
def aioCancelled : Nat := 3     -- asyncio.CancelledError
def timeoutError : Nat := 4     -- TimeoutError (= concurrent.futures.TimeoutError = asyncio.TimeoutError)
def cfInvalidState : Nat := 5   -- concurrent.futures.InvalidStateError
def aioInvalidState : Nat := 6  -- asyncio.InvalidStateError

/-- `asyncio.futures._convert_future_exc`, applied when the executor's `concurrent.futures.Future` is copied into
the loop's future (`run_in_executor` → `wrap_future`): three classes are **re-created** (`Cls(*exc.args)`) as
their asyncio counterparts; every other exception object is passed on as it is -/
def convertFutureExc (e : Exc) : Exc :=
  if e.cls = cfCancelled then { cls := aioCancelled, obj := 0 }
  else if e.cls = timeoutError then { cls := timeoutError, obj := 0 }
  else if e.cls = cfInvalidState then { cls := aioInvalidState, obj := 0 }
  else e

def convertOutcome : Outcome → Outcome
  | .ret v => .ret v
  | .raise e => .raise (convertFutureExc e)

inductive Rec where
  | args (a : Nat)               -- ArgumentsTrace
  | result (o : Outcome)         -- ResultTrace
  | metric (k : Nat)             -- something the function recorded itself
deriving DecidableEq, Repr

structure Node where
  name : Nat
  parent : Option Nat
  recs : List Rec := []
  finished : Bool := false
deriving DecidableEq, Repr

/-- the heap: metrics nodes, and (ghost) the contexts in which scripted functions found themselves running -/
structure World where
  nodes : List Node := []
  seen : List Ctx := []
  recvs : List Nat := []        -- (ghost) the receiver each scripted method call found as `self`
  spawns : List Nat := []       -- (ghost) the task group (`Ctx.other`) each `ctx.spawn` of a scripted function joined
deriving DecidableEq, Repr

/-- what a callable does: outcome, the context it leaves behind, the heap it leaves behind -/
abbrev Behaviour := Nat → Ctx → World → Outcome × Ctx × World

structure Fn where
  id : Nat
  name : Nat
  doc : Option Nat
  run : Behaviour

/-- `ctx.record` into the scope current in `c` (nothing without one) -/
def record (w : World) (c : Ctx) (r : Rec) : World :=
  match c.scope with
  | none => w
  | some n => match w.nodes[n]? with
    | none => w
    | some nd => { w with nodes := w.nodes.set n { nd with recs := nd.recs ++ [r] } }

def finish (w : World) (n : Nat) : World :=
  match w.nodes[n]? with
  | none => w
  | some nd => { w with nodes := w.nodes.set n { nd with finished := true } }

/-- the plain call: in the caller's context -/
def callPlain (f : Fn) (a : Nat) (c : Ctx) (w : World) : Outcome × Ctx × World := f.run a c w

/-- `await asynchronous(f)(*args)`: `f` gets a copy of `c`; the caller keeps `c` -/
def callAsynchronous (f : Fn) (a : Nat) (c : Ctx) (w : World) : Outcome × Ctx × World :=
  (convertOutcome (f.run a c w).1, c, (f.run a c w).2.2)

/-- `await wrap_async(f)(*args)` -/
def callWrapAsync (f : Fn) (a : Nat) (c : Ctx) (w : World) : Outcome × Ctx × World := f.run a c w

/-- the context inside `with ctx.scope(f.__name__)` entered from `c`, with the new node appended to the heap -/
def tracedEnter (f : Fn) (c : Ctx) (w : World) : Ctx × World :=
  ({ c with state := some (c.state.getD 0), scope := some w.nodes.length },
   { w with nodes := w.nodes ++ [{ name := f.name, parent := c.scope }] })

/-- `traced(f)(*args)` -/
def callTraced (f : Fn) (a : Nat) (c : Ctx) (w : World) : Outcome × Ctx × World :=
  let cw := tracedEnter f c w
  let w1 := record cw.2 cw.1 (.args a)
  let r := f.run a cw.1 w1
  let w2 := record r.2.2 r.2.1 (.result r.1)       -- `ctx.record` in the context the function left
  (r.1, { r.2.1 with state := c.state, scope := c.scope }, finish w2 w.nodes.length)

/-! ## metadata -/

structure Meta where
  name : Nat
  doc : Option Nat
  wrapped : Nat          -- id of the original function
deriving DecidableEq, Repr

/-- `mimic_function(function, within=target)` / `_mimic_async`: the target's own metadata is overwritten -/
def mimic (f : Fn) (_target : Meta) : Meta := { name := f.name, doc := f.doc, wrapped := f.id }

inductive Deco where
  | asynchronous | wrapAsync | traced | cache | retry | throttle | timeout
deriving DecidableEq, Repr

/-- the metadata each decorator's own wrapper object starts with (a class instance, a local function
called `wrapped` / `traced` / `async_function`, a `partial`) – irrelevant after `mimic` -/
def ownMeta : Deco → Meta
  | .asynchronous => { name := 1001, doc := none, wrapped := 0 }
  | .wrapAsync => { name := 1002, doc := none, wrapped := 0 }
  | .traced => { name := 1003, doc := none, wrapped := 0 }
  | .cache => { name := 1004, doc := none, wrapped := 0 }
  | .retry => { name := 1005, doc := none, wrapped := 0 }
  | .throttle => { name := 1006, doc := none, wrapped := 0 }
  | .timeout => { name := 1007, doc := none, wrapped := 0 }

def decorate (d : Deco) (f : Fn) : Meta := mimic f (ownMeta d)

/-- the decorated object seen as a callable again – it can be decorated in turn (`timeout(1)(retry(f))`): a new object
(`newId`) carrying the mimicked metadata -/
def asFn (m : Meta) (newId : Nat) (run : Behaviour) : Fn := { id := newId, name := m.name, doc := m.doc, run := run }

/-- a stack of decorators, outermost first, each with the identity of the wrapper object it creates -/
def stackFn : List (Deco × Nat) → Fn → Fn
  | [], f => f
  | (d, i) :: rest, f => asFn (decorate d (stackFn rest f)) i (stackFn rest f).run

/-! ## a scripted behaviour, for the driver: what the harness' test functions do -/

/-- outcome `o`; enters `ctx.updated(A(leak))` and never leaves it when `leak > 0`; records `M(k)` when `k > 0` -/
def scripted (o : Outcome) (leak k : Nat) : Behaviour := fun _ c w =>
  let w1 : World := { w with seen := w.seen ++ [c] }
  (o, if leak = 0 then c else { c with state := some leak }, if k = 0 then w1 else record w1 c (.metric k))

/-- a scripted function that also calls `ctx.spawn(child)`: the child joins the task group of the context the
function runs in (`TaskGroupContext._context`, part of `Ctx.other`) -/
def spawning (b : Behaviour) : Behaviour := fun a c w => b a c { w with spawns := w.spawns ++ [c.other] }

/-- the call fails before the body runs (arguments do not fit the signature): `TypeError` from the interpreter -/
def unbound (o : Outcome) : Behaviour := fun _ c w => (o, c, w)

/-! ## methods: the receiver is part of the arguments

Attribute access on an instance (`obj.m`) builds the bound callable afresh from the function and *that* instance
(`partial(__method_call__, instance)`, a bound method for plain-function wrappers): nothing is remembered between
accesses or shared between instances.  A method is therefore a family of callables indexed by the receiver. -/

abbrev Method := Nat → Fn

/-- scripted method: logs the receiver it was called on, then behaves like `scripted` -/
def scriptedMethod (id name : Nat) (doc : Option Nat) (o : Outcome) (leak k : Nat) : Method := fun recv =>
  { id := id, name := name, doc := doc,
    run := fun a c w => scripted o leak k a c { w with recvs := w.recvs ++ [recv] } }

/-- successive calls `(receiver, arguments)` through one wrapper kind, threading context and heap -/
def callSeq (call : Fn → Nat → Ctx → World → Outcome × Ctx × World) (m : Method) :
    List (Nat × Nat) → Ctx → World → List Outcome × Ctx × World
  | [], c, w => ([], c, w)
  | (recv, a) :: rest, c, w =>
    let r := call (m recv) a c w
    let rs := callSeq call m rest r.2.1 r.2.2
    (r.1 :: rs.1, rs.2.1, rs.2.2)

/-- the call site: blocks entered around the call, outermost first: `(kind, v)`, kind 0 = `with ctx.scope`,
1 = `ctx.updated`, 2 = `async with ctx.scope` (which also opens a task group: `other` := node id + 1);
scope names are 100 + position -/
def enterSite : List (Nat × Nat) → Nat → Ctx → World → Ctx × World
  | [], _, c, w => (c, w)
  | (kind, v) :: rest, pos, c, w =>
    let st := some (if v = 0 then c.state.getD 0 else v)
    if kind = 1 then enterSite rest (pos + 1) { c with state := st } w
    else enterSite rest (pos + 1)
      { state := st, scope := some w.nodes.length, other := if kind = 2 then w.nodes.length + 1 else c.other }
      { w with nodes := w.nodes ++ [{ name := 100 + pos, parent := c.scope }] }

end Haiway.Wrap
