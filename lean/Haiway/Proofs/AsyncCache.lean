import Haiway.Model.AsyncCache
/-! Helper lemmas for C13: frame lemmas per label and the invariant of the async-cache LTS. -/
namespace Haiway.AsyncCache

@[simp] theorem upd_same {α : Type} (f : Nat → α) (i : Nat) (v : α) : upd f i v i = v := by simp [upd]
theorem upd_other {α : Type} (f : Nat → α) {i j : Nat} (v : α) (h : j ≠ i) : upd f i v j = f j := by
  simp [upd, h]

/-! ## what `startNew` does -/

theorem startNew_tasks_lt (s : Sys) (c k : Nat) (tbl : List Entry) (t : Nat) (h : t < s.ntasks) :
    (startNew s c k tbl).tasks t = s.tasks t := by
  simp [startNew, upd]; omega

theorem find_some {t : List Entry} {k : Nat} {e : Entry} (h : find t k = some e) : e ∈ t ∧ e.key = k := by
  unfold find at h
  exact ⟨List.mem_of_find?_eq_some h, by simpa using List.find?_some h⟩

theorem find_none {t : List Entry} {k : Nat} (h : find t k = none) : ∀ e ∈ t, e.key ≠ k := by
  unfold find at h
  intro e he; simpa using (List.find?_eq_none.mp h) e he

theorem mem_erase {t : List Entry} {k : Nat} {e : Entry} (h : e ∈ erase t k) : e ∈ t ∧ e.key ≠ k := by
  simpa [erase] using h

theorem nodup_snoc {α : Type} {l : List α} {k : α} (hn : l.Nodup) (hk : k ∉ l) : (l ++ [k]).Nodup := by
  rw [List.nodup_append]
  exact ⟨hn, by simp, by intro a ha b hb; simp at hb; subst hb; intro hab; subst hab; exact hk ha⟩

theorem erase_sublist (t : List Entry) (k : Nat) : (erase t k).Sublist t := List.filter_sublist

theorem nodup_map_inj {α β : Type} (f : α → β) : ∀ (l : List α), (l.map f).Nodup →
    ∀ a ∈ l, ∀ b ∈ l, f a = f b → a = b
  | [], _, a, ha, _, _, _ => by simp at ha
  | x :: xs, hn, a, ha, b, hb, hab => by
    simp only [List.map_cons, List.nodup_cons] at hn
    rcases List.mem_cons.mp ha with ha' | ha' <;> rcases List.mem_cons.mp hb with hb' | hb'
    · rw [ha', hb']
    · subst ha'; exact absurd (List.mem_map.mpr ⟨b, hb', hab.symm⟩) hn.1
    · subst hb'; exact absurd (List.mem_map.mpr ⟨a, ha', hab⟩) hn.1
    · exact nodup_map_inj f xs hn.2 a ha' b hb' hab

/-! ## the invariant -/

structure Inv (s : Sys) : Prop where
  /-- at most one entry per key -/
  keysNodup : (s.table.map (·.key)).Nodup
  /-- one invocation per entry: no two entries share a task -/
  tasksNodup : (s.table.map (·.task)).Nodup
  /-- an entry's task exists and was started for the entry's key -/
  entryTask : ∀ e ∈ s.table, e.task < s.ntasks ∧ s.taskKey e.task = e.key
  /-- the cache never cancels an invocation -/
  notCancelled : ∀ t, s.tasks t ≠ .cancelled
  /-- tasks that do not exist yet are not done -/
  freshRunning : ∀ t, s.ntasks ≤ t → s.tasks t = .running
  /-- a suspended caller joined an existing invocation of its own key -/
  waitingOk : ∀ c t, s.callers c = .waiting t → s.joined c = some t
  /-- an outcome received is the true outcome of the invocation the caller joined -/
  gotOk : ∀ c t o, s.callers c = .got t o → s.joined c = some t ∧ s.tasks t = .done o
  /-- every joined invocation exists and is an invocation for the caller's key -/
  joinedOk : ∀ c t, s.joined c = some t → t < s.ntasks ∧ s.taskKey t = s.callerKey c
  /-- a caller that has not entered the library has joined nothing -/
  spawnedOk : ∀ c k, s.callers c = .spawned k → s.callerKey c = k
  idleOk : ∀ c, s.callers c = .idle → s.joined c = none

theorem init_inv (limit : Nat) (expiration : Option Nat) : Inv (init limit expiration) := by
  refine ⟨by simp [init], by simp [init], by simp [init], ?_, ?_, ?_, ?_, ?_, ?_, ?_⟩ <;> simp [init]

theorem startNew_inv (s : Sys) (c k : Nat) (tbl : List Entry) (h : Inv s)
    (hck : s.callerKey c = k)
    (hsub : ∀ e ∈ tbl, e ∈ s.table) (hk : ∀ e ∈ tbl, e.key ≠ k)
    (hkn : (tbl.map (·.key)).Nodup) (htn : (tbl.map (·.task)).Nodup) :
    Inv (startNew s c k tbl) := by
  have hnew_task : ∀ e ∈ tbl, e.task ≠ s.ntasks := by
    intro e he; have := (h.entryTask e (hsub e he)).1; omega
  have hkn' : ((tbl ++ [({ key := k, task := s.ntasks, expire := stamp s } : Entry)]).map (·.key)).Nodup := by
    simpa using nodup_snoc hkn (by
      intro hm; obtain ⟨e, he, hek⟩ := List.mem_map.mp hm; exact hk e he hek)
  have htn' : ((tbl ++ [({ key := k, task := s.ntasks, expire := stamp s } : Entry)]).map (·.task)).Nodup := by
    simpa using nodup_snoc htn (by
      intro hm; obtain ⟨e, he, hek⟩ := List.mem_map.mp hm; exact hnew_task e he hek)
  have hent : ∀ e ∈ tbl ++ [({ key := k, task := s.ntasks, expire := stamp s } : Entry)],
      e.task < s.ntasks + 1 ∧ upd s.taskKey s.ntasks k e.task = e.key := by
    intro e he
    rcases List.mem_append.mp he with he | he
    · have := h.entryTask e (hsub e he)
      exact ⟨by omega, by rw [upd_other _ _ (hnew_task e he)]; exact this.2⟩
    · simp at he; subst he; simp
  refine ⟨?_, ?_, ?_, ?_, ?_, ?_, ?_, ?_, ?_, ?_⟩
  · simp only [startNew]; split
    · rw [List.map_tail]; exact hkn'.sublist (List.tail_sublist _)
    · exact hkn'
  · simp only [startNew]; split
    · rw [List.map_tail]; exact htn'.sublist (List.tail_sublist _)
    · exact htn'
  · intro e he
    simp only [startNew] at he ⊢
    split at he
    · exact hent e (List.mem_of_mem_tail he)
    · exact hent e he
  · intro t; simp only [startNew, upd]; split
    · simp
    · exact h.notCancelled t
  · intro t ht; simp only [startNew, upd] at ht ⊢; split
    · rfl
    · exact h.freshRunning t (by omega)
  · intro c' t hc'
    simp only [startNew, upd] at hc' ⊢
    by_cases hcc : c' = c
    · subst hcc; simp at hc' ⊢; exact hc'
    · simp [hcc] at hc' ⊢; exact h.waitingOk c' t hc'
  · intro c' t o hc'
    simp only [startNew, upd] at hc' ⊢
    by_cases hcc : c' = c
    · subst hcc; simp at hc'
    · simp [hcc] at hc' ⊢
      have := h.gotOk c' t o hc'
      have hlt := (h.joinedOk c' t this.1).1
      refine ⟨this.1, ?_⟩
      have : t ≠ s.ntasks := by omega
      simp [this]; exact (h.gotOk c' t o hc').2
  · intro c' t hj
    simp only [startNew, upd] at hj ⊢
    by_cases hcc : c' = c
    · subst hcc; simp at hj; subst hj; simp [hck]
    · simp [hcc] at hj
      have := h.joinedOk c' t hj
      have hne : t ≠ s.ntasks := by omega
      simp [hne]; exact ⟨by omega, this.2⟩
  · intro c' k' hc'
    simp only [startNew, upd] at hc' ⊢
    by_cases hcc : c' = c
    · subst hcc; simp at hc'
    · simp [hcc] at hc'; exact h.spawnedOk c' k' hc'
  · intro c' hc'
    simp only [startNew, upd] at hc' ⊢
    by_cases hcc : c' = c
    · subst hcc; simp at hc'
    · simp [hcc] at hc' ⊢; exact h.idleOk c' hc'

theorem step_inv (s s' : Sys) (l : Label) (h : Inv s) (hs : step s l = some s') : Inv s' := by
  cases l with
  | spawn c k =>
    simp only [step] at hs
    split at hs
    · rename_i hidle
      simp only [Option.some.injEq] at hs; subst hs
      refine ⟨h.keysNodup, h.tasksNodup, h.entryTask, h.notCancelled, h.freshRunning, ?_, ?_, ?_, ?_, ?_⟩
      · intro c' t hc'
        by_cases hcc : c' = c
        · subst hcc; simp at hc'
        · simp only [upd_other _ _ hcc] at hc'; exact h.waitingOk c' t hc'
      · intro c' t o hc'
        by_cases hcc : c' = c
        · subst hcc; simp at hc'
        · simp only [upd_other _ _ hcc] at hc'; exact h.gotOk c' t o hc'
      · intro c' t hj
        by_cases hcc : c' = c
        · subst hcc; simp only at hj; rw [h.idleOk c' hidle] at hj; simp at hj
        · simp only [upd_other _ _ hcc]; exact h.joinedOk c' t hj
      · intro c' k' hc'
        by_cases hcc : c' = c
        · subst hcc; simp at hc' ⊢; exact hc'
        · simp only [upd_other _ _ hcc] at hc' ⊢; exact h.spawnedOk c' k' hc'
      · intro c' hc'
        by_cases hcc : c' = c
        · subst hcc; simp at hc'
        · simp only [upd_other _ _ hcc] at hc'; exact h.idleOk c' hc'
    · simp at hs
  | enter c =>
    simp only [step] at hs
    split at hs
    · rename_i k hsp
      have hck := h.spawnedOk c k hsp
      split at hs
      · rename_i hf
        simp only [Option.some.injEq] at hs; subst hs
        exact startNew_inv s c k s.table h hck (fun e he => he) (find_none hf) h.keysNodup h.tasksNodup
      · rename_i e hf
        obtain ⟨hm, hek⟩ := find_some hf
        split at hs
        · simp only [Option.some.injEq] at hs; subst hs
          exact startNew_inv s c k (erase s.table k) h hck (fun e he => (mem_erase he).1)
            (fun e he => (mem_erase he).2)
            (h.keysNodup.sublist ((erase_sublist s.table k).map _))
            (h.tasksNodup.sublist ((erase_sublist s.table k).map _))
        · simp only [Option.some.injEq] at hs; subst hs
          have hsubl : ∀ e' ∈ erase s.table k ++ [e], e' ∈ s.table := by
            intro e' he'
            rcases List.mem_append.mp he' with he' | he'
            · exact (mem_erase he').1
            · simp at he'; subst he'; exact hm
          have hjs : ∀ t o, joinState s e.task = .got t o → t = e.task ∧ s.tasks t = .done o := by
            intro t o hj; unfold joinState at hj
            split at hj <;> simp at hj
            rename_i o' ho'; obtain ⟨rfl, rfl⟩ := hj; exact ⟨rfl, ho'⟩
          have hjw : ∀ t, joinState s e.task = .waiting t → t = e.task := by
            intro t hj; unfold joinState at hj
            split at hj <;> simp at hj
            exact hj.symm
          refine ⟨?_, ?_, ?_, h.notCancelled, h.freshRunning, ?_, ?_, ?_, ?_, ?_⟩
          · have hnot : e.key ∉ (erase s.table k).map (·.key) := by
              intro hmm; obtain ⟨e', he', hk'⟩ := List.mem_map.mp hmm
              exact (mem_erase he').2 (hk'.trans hek)
            have := nodup_snoc (h.keysNodup.sublist ((erase_sublist s.table k).map _)) hnot
            simpa using this
          · have hnot : e.task ∉ (erase s.table k).map (·.task) := by
              intro hmm; obtain ⟨e', he', hk'⟩ := List.mem_map.mp hmm
              have hne : e' ≠ e := by intro heq; subst heq; exact (mem_erase he').2 hek
              -- two different entries of the table with the same task contradict `tasksNodup`
              exact hne (nodup_map_inj _ _ h.tasksNodup e' (mem_erase he').1 e hm hk')
            have := nodup_snoc (h.tasksNodup.sublist ((erase_sublist s.table k).map _)) hnot
            simpa using this
          · intro e' he'; exact h.entryTask e' (hsubl e' he')
          · intro c' t hc'
            by_cases hcc : c' = c
            · subst hcc; simp only [upd_same] at hc' ⊢; rw [hjw t hc']
            · simp only [upd_other _ _ hcc] at hc' ⊢; exact h.waitingOk c' t hc'
          · intro c' t o hc'
            by_cases hcc : c' = c
            · subst hcc; simp only [upd_same] at hc' ⊢
              obtain ⟨rfl, ho⟩ := hjs t o hc'; exact ⟨rfl, ho⟩
            · simp only [upd_other _ _ hcc] at hc' ⊢; exact h.gotOk c' t o hc'
          · intro c' t hj
            by_cases hcc : c' = c
            · subst hcc; simp only [upd_same, Option.some.injEq] at hj; subst hj
              have := h.entryTask e hm
              exact ⟨this.1, by rw [this.2, hek, hck]⟩
            · simp only [upd_other _ _ hcc] at hj; exact h.joinedOk c' t hj
          · intro c' k' hc'
            by_cases hcc : c' = c
            · subst hcc; simp only [upd_same] at hc'
              unfold joinState at hc'; split at hc' <;> simp at hc'
            · simp only [upd_other _ _ hcc] at hc'; exact h.spawnedOk c' k' hc'
          · intro c' hc'
            by_cases hcc : c' = c
            · subst hcc; simp only [upd_same] at hc'
              unfold joinState at hc'; split at hc' <;> simp at hc'
            · simp only [upd_other _ _ hcc] at hc' ⊢; exact h.idleOk c' hc'
    · simp at hs
  | finish t o =>
    simp only [step] at hs
    split at hs
    · rename_i ht
      simp only [Option.some.injEq] at hs; subst hs
      refine ⟨h.keysNodup, h.tasksNodup, h.entryTask, ?_, ?_, h.waitingOk, ?_, h.joinedOk, h.spawnedOk, h.idleOk⟩
      · intro t'; simp only [upd]; split
        · simp
        · exact h.notCancelled t'
      · intro t' ht'
        have ht'' : s.ntasks ≤ t' := ht'
        simp only [upd]; split
        · omega
        · exact h.freshRunning t' ht''
      · intro c t' o' hc
        have := h.gotOk c t' o' hc
        refine ⟨this.1, ?_⟩
        simp only [upd]; split
        · rename_i heq; subst heq; rw [ht.2] at this; simp at this
        · exact this.2
    · simp at hs
  | wake c =>
    simp only [step] at hs
    split at hs
    · rename_i t hw
      split at hs
      · rename_i o ho
        simp only [Option.some.injEq] at hs; subst hs
        refine ⟨h.keysNodup, h.tasksNodup, h.entryTask, h.notCancelled, h.freshRunning, ?_, ?_, h.joinedOk, ?_, ?_⟩
        · intro c' t' hc'
          by_cases hcc : c' = c
          · subst hcc; simp at hc'
          · simp only [upd_other _ _ hcc] at hc'; exact h.waitingOk c' t' hc'
        · intro c' t' o' hc'
          by_cases hcc : c' = c
          · subst hcc; simp only [upd_same, CallerSt.got.injEq] at hc'
            obtain ⟨rfl, rfl⟩ := hc'; exact ⟨h.waitingOk c' t hw, ho⟩
          · simp only [upd_other _ _ hcc] at hc'; exact h.gotOk c' t' o' hc'
        · intro c' k' hc'
          by_cases hcc : c' = c
          · subst hcc; simp at hc'
          · simp only [upd_other _ _ hcc] at hc'; exact h.spawnedOk c' k' hc'
        · intro c' hc'
          by_cases hcc : c' = c
          · subst hcc; simp at hc'
          · simp only [upd_other _ _ hcc] at hc'; exact h.idleOk c' hc'
      · rename_i hcan; exact absurd hcan (h.notCancelled t)
      · simp at hs
    · simp at hs
  | cancel c =>
    simp only [step] at hs
    have hs' : s' = { s with callers := upd s.callers c .cancelled } := by
      split at hs <;> simp_all
    subst hs'
    refine ⟨h.keysNodup, h.tasksNodup, h.entryTask, h.notCancelled, h.freshRunning, ?_, ?_, h.joinedOk, ?_, ?_⟩
    · intro c' t' hc'
      by_cases hcc : c' = c
      · subst hcc; simp at hc'
      · simp only [upd_other _ _ hcc] at hc'; exact h.waitingOk c' t' hc'
    · intro c' t' o' hc'
      by_cases hcc : c' = c
      · subst hcc; simp at hc'
      · simp only [upd_other _ _ hcc] at hc'; exact h.gotOk c' t' o' hc'
    · intro c' k' hc'
      by_cases hcc : c' = c
      · subst hcc; simp at hc'
      · simp only [upd_other _ _ hcc] at hc'; exact h.spawnedOk c' k' hc'
    · intro c' hc'
      by_cases hcc : c' = c
      · subst hcc; simp at hc'
      · simp only [upd_other _ _ hcc] at hc'; exact h.idleOk c' hc'
  | advance d =>
    simp only [step, Option.some.injEq] at hs; subst hs
    exact ⟨h.keysNodup, h.tasksNodup, h.entryTask, h.notCancelled, h.freshRunning, h.waitingOk, h.gotOk,
      h.joinedOk, h.spawnedOk, h.idleOk⟩

theorem run_inv : ∀ (ls : List Label) (s s' : Sys), Inv s → runLabels s ls = some s' → Inv s'
  | [], s, s', h, hr => by simp [runLabels] at hr; subst hr; exact h
  | l :: ls, s, s', h, hr => by
    simp only [runLabels] at hr
    cases hst : step s l with
    | none => simp [hst] at hr
    | some s1 =>
      simp only [hst, Option.bind_some] at hr
      exact run_inv ls s1 s' (step_inv s s1 l h hst) hr

/-! ## frames -/

theorem cancel_frame_aux (s s' : Sys) (c : Nat) (h : step s (.cancel c) = some s') :
    s' = { s with callers := upd s.callers c .cancelled } := by
  simp only [step] at h
  split at h <;> simp_all

theorem caller_frame_aux (s s' : Sys) (l : Label) (c : Nat) (h : step s l = some s') (hl : actor l ≠ some c) :
    s'.callers c = s.callers c := by
  cases l with
  | spawn c' k =>
    have hc : c ≠ c' := by intro h; subst h; simp [actor] at hl
    simp only [step] at h; split at h
    · simp only [Option.some.injEq] at h; subst h; exact upd_other _ _ hc
    · simp at h
  | enter c' =>
    have hc : c ≠ c' := by intro h; subst h; simp [actor] at hl
    simp only [step] at h
    split at h
    · split at h
      · simp only [Option.some.injEq] at h; subst h; simp [startNew, upd_other _ _ hc]
      · split at h <;> (simp only [Option.some.injEq] at h; subst h; simp [startNew, upd_other _ _ hc])
    · simp at h
  | finish t o =>
    simp only [step] at h; split at h
    · simp only [Option.some.injEq] at h; subst h; rfl
    · simp at h
  | wake c' =>
    have hc : c ≠ c' := by intro h; subst h; simp [actor] at hl
    simp only [step] at h
    split at h
    · split at h
      · simp only [Option.some.injEq] at h; subst h; exact upd_other _ _ hc
      · simp only [Option.some.injEq] at h; subst h; exact upd_other _ _ hc
      · simp at h
    · simp at h
  | cancel c' =>
    have hc : c ≠ c' := by intro h; subst h; simp [actor] at hl
    rw [cancel_frame_aux s s' c' h]; exact upd_other _ _ hc
  | advance d => simp only [step, Option.some.injEq] at h; subst h; rfl

/-- `ntasks`, `taskKey`, `callerKey`, `joined` change only at `enter` / `spawn` -/
theorem ghost_frame (s s' : Sys) (l : Label) (h : step s l = some s') :
    s.ntasks ≤ s'.ntasks ∧ (∀ t, t < s.ntasks → s'.taskKey t = s.taskKey t) ∧
    (∀ c, s.callers c ≠ .idle → s'.callerKey c = s.callerKey c ∧ s'.callers c ≠ .idle) ∧
    (∀ c, l ≠ .enter c → s'.joined c = s.joined c) ∧
    ((∀ c, l ≠ .enter c) → s'.ntasks = s.ntasks) := by
  have hidle : ∀ c, s.callers c ≠ .idle → s'.callers c ≠ .idle := by
    intro c hc
    by_cases ha : actor l = some c
    · cases l <;> simp [actor] at ha <;> subst ha
      · simp [step, hc] at h
      · simp only [step] at h
        split at h
        · split at h
          · simp only [Option.some.injEq] at h; subst h; simp [startNew]
          · split at h
            · simp only [Option.some.injEq] at h; subst h; simp [startNew]
            · simp only [Option.some.injEq] at h; subst h
              simp only [upd_same]; unfold joinState; split <;> simp
        · simp at h
      · simp only [step] at h
        split at h
        · split at h
          · simp only [Option.some.injEq] at h; subst h; simp
          · simp only [Option.some.injEq] at h; subst h; simp
          · simp at h
        · simp at h
      · rw [cancel_frame_aux s s' _ h]; simp
    · rw [caller_frame_aux s s' l c h ha]; exact hc
  cases l with
  | spawn c k =>
    simp only [step] at h; split at h
    · rename_i hi
      simp only [Option.some.injEq] at h; subst h
      refine ⟨Nat.le_refl _, fun _ _ => rfl, ?_, fun _ _ => rfl, fun _ => rfl⟩
      intro c' hc'
      have : c' ≠ c := by intro h; subst h; exact hc' hi
      exact ⟨upd_other _ _ this, by simp only [upd_other _ _ this]; exact hc'⟩
    · simp at h
  | enter c =>
    simp only [step] at h
    split at h
    · rename_i k hsp
      have hnew : ∀ tbl, s.ntasks ≤ (startNew s c k tbl).ntasks ∧
          (∀ t, t < s.ntasks → (startNew s c k tbl).taskKey t = s.taskKey t) ∧
          (∀ c', (startNew s c k tbl).callerKey c' = s.callerKey c') ∧
          (∀ c', Label.enter c ≠ .enter c' → (startNew s c k tbl).joined c' = s.joined c') := by
        intro tbl
        refine ⟨by simp [startNew], ?_, fun _ => rfl, ?_⟩
        · intro t ht; simp only [startNew]; exact upd_other _ _ (by omega)
        · intro c' hc'; simp only [startNew]; exact upd_other _ _ (by intro h; subst h; exact hc' rfl)
      split at h
      · simp only [Option.some.injEq] at h; subst h
        exact ⟨(hnew _).1, (hnew _).2.1, fun c' hc' => ⟨(hnew _).2.2.1 c', hidle c' hc'⟩, (hnew _).2.2.2,
          fun hne => absurd rfl (hne c)⟩
      · split at h
        · simp only [Option.some.injEq] at h; subst h
          exact ⟨(hnew _).1, (hnew _).2.1, fun c' hc' => ⟨(hnew _).2.2.1 c', hidle c' hc'⟩, (hnew _).2.2.2,
            fun hne => absurd rfl (hne c)⟩
        · simp only [Option.some.injEq] at h; subst h
          refine ⟨Nat.le_refl _, fun _ _ => rfl, fun c' hc' => ⟨rfl, hidle c' hc'⟩, ?_,
            fun hne => absurd rfl (hne c)⟩
          intro c' hc'
          exact upd_other _ _ (by intro h; subst h; exact hc' rfl)
    · simp at h
  | finish t o =>
    simp only [step] at h; split at h
    · simp only [Option.some.injEq] at h; subst h
      exact ⟨Nat.le_refl _, fun _ _ => rfl, fun c' hc' => ⟨rfl, hidle c' hc'⟩, fun _ _ => rfl, fun _ => rfl⟩
    · simp at h
  | wake c =>
    simp only [step] at h
    split at h
    · split at h
      · simp only [Option.some.injEq] at h; subst h
        exact ⟨Nat.le_refl _, fun _ _ => rfl, fun c' hc' => ⟨rfl, hidle c' hc'⟩, fun _ _ => rfl, fun _ => rfl⟩
      · simp only [Option.some.injEq] at h; subst h
        exact ⟨Nat.le_refl _, fun _ _ => rfl, fun c' hc' => ⟨rfl, hidle c' hc'⟩, fun _ _ => rfl, fun _ => rfl⟩
      · simp at h
    · simp at h
  | cancel c =>
    have h' := cancel_frame_aux s s' c h
    subst h'
    exact ⟨Nat.le_refl _, fun _ _ => rfl, fun c' hc' => ⟨rfl, hidle c' hc'⟩, fun _ _ => rfl, fun _ => rfl⟩
  | advance d =>
    simp only [step, Option.some.injEq] at h; subst h
    exact ⟨Nat.le_refl _, fun _ _ => rfl, fun c' hc' => ⟨rfl, hidle c' hc'⟩, fun _ _ => rfl, fun _ => rfl⟩

/-- ghost facts along a run -/
theorem ghost_run : ∀ (ls : List Label) (s s' : Sys), runLabels s ls = some s' →
    s.ntasks ≤ s'.ntasks ∧ (∀ t, t < s.ntasks → s'.taskKey t = s.taskKey t) ∧
    (∀ c, s.callers c ≠ .idle → s'.callerKey c = s.callerKey c)
  | [], s, s', hr => by simp [runLabels] at hr; subst hr; exact ⟨Nat.le_refl _, fun _ _ => rfl, fun _ _ => rfl⟩
  | l :: ls, s, s', hr => by
    simp only [runLabels] at hr
    cases hst : step s l with
    | none => simp [hst] at hr
    | some s1 =>
      simp only [hst, Option.bind_some] at hr
      obtain ⟨g1, g2, g3, _, _⟩ := ghost_frame s s1 l hst
      obtain ⟨r1, r2, r3⟩ := ghost_run ls s1 s' hr
      refine ⟨Nat.le_trans g1 r1, ?_, ?_⟩
      · intro t ht; rw [r2 t (by omega), g2 t ht]
      · intro c hc; rw [r3 c (g3 c hc).2, (g3 c hc).1]

/-! ## delivery -/

/-- the labels of a caller that has its outcome are all disabled -/
theorem got_no_own_label (s : Sys) (l : Label) (c t : Nat) (o : Outcome) (hg : s.callers c = .got t o)
    (ha : actor l = some c) : step s l = none := by
  cases l <;> simp [actor] at ha <;> subst ha <;> simp [step, hg]

theorem got_stable : ∀ (ls : List Label) (s s' : Sys) (c t : Nat) (o : Outcome),
    runLabels s ls = some s' → s.callers c = .got t o → s'.callers c = .got t o
  | [], s, s', c, t, o, hr, hg => by simp [runLabels] at hr; subst hr; exact hg
  | l :: ls, s, s', c, t, o, hr, hg => by
    simp only [runLabels] at hr
    cases hst : step s l with
    | none => simp [hst] at hr
    | some s1 =>
      simp only [hst, Option.bind_some] at hr
      have hc1 : s1.callers c = .got t o := by
        by_cases ha : actor l = some c
        · rw [got_no_own_label s l c t o hg ha] at hst; simp at hst
        · rw [caller_frame_aux s s1 l c hst ha]; exact hg
      exact got_stable ls s1 s' c t o hr hc1

/-- a caller suspended on `t` that is not cancelled is, in every continuation, still suspended on
`t` or has received the outcome of `t` -/
theorem waiting_progress : ∀ (ls : List Label) (s s' : Sys) (c t : Nat),
    Inv s → runLabels s ls = some s' → s.callers c = .waiting t → Label.cancel c ∉ ls →
    s'.callers c = .waiting t ∨ ∃ o, s'.callers c = .got t o ∧ s'.tasks t = .done o
  | [], s, s', c, t, _, hr, hw, _ => by simp [runLabels] at hr; subst hr; exact Or.inl hw
  | l :: ls, s, s', c, t, hinv, hr, hw, hnc => by
    simp only [runLabels] at hr
    cases hst : step s l with
    | none => simp [hst] at hr
    | some s1 =>
      simp only [hst, Option.bind_some] at hr
      have hinv1 := step_inv s s1 l hinv hst
      have hnc' : Label.cancel c ∉ ls := fun h => hnc (List.mem_cons_of_mem _ h)
      by_cases ha : actor l = some c
      · cases l with
        | spawn c' k => simp [actor] at ha; subst ha; simp [step, hw] at hst
        | enter c' => simp [actor] at ha; subst ha; simp [step, hw] at hst
        | cancel c' => simp [actor] at ha; subst ha; exact absurd (List.mem_cons_self) hnc
        | finish _ _ => simp [actor] at ha
        | advance _ => simp [actor] at ha
        | wake c' =>
          simp [actor] at ha; subst ha
          simp only [step, hw] at hst
          split at hst
          · rename_i o ho
            simp only [Option.some.injEq] at hst
            have hg : s1.callers c' = .got t o := by rw [← hst]; simp
            have hg' := got_stable ls s1 s' c' t o hr hg
            exact Or.inr ⟨o, hg', ((run_inv ls s1 s' hinv1 hr).gotOk c' t o hg').2⟩
          · rename_i hcan; exact absurd hcan (hinv.notCancelled t)
          · simp at hst
      · have hw1 : s1.callers c = .waiting t := by rw [caller_frame_aux s s1 l c hst ha]; exact hw
        exact waiting_progress ls s1 s' c t hinv1 hr hw1 hnc'

theorem wakeAll_frame : ∀ (n : Nat) (s : Sys),
    (wakeAll n s).tasks = s.tasks ∧ (wakeAll n s).table = s.table ∧ (wakeAll n s).ntasks = s.ntasks ∧
    (∀ c, n ≤ c → (wakeAll n s).callers c = s.callers c)
  | 0, s => by simp [wakeAll]
  | n + 1, s => by
    obtain ⟨h1, h2, h3, h4⟩ := wakeAll_frame n s
    simp only [wakeAll]
    cases hst : step (wakeAll n s) (.wake n) with
    | none => exact ⟨h1, h2, h3, fun c hc => h4 c (by omega)⟩
    | some s2 =>
      simp only
      have hst' := hst
      simp only [step] at hst
      split at hst
      · split at hst
        · simp only [Option.some.injEq] at hst; subst hst
          exact ⟨h1, h2, h3, fun c hc => by
            simp only [upd_other _ _ (by omega : c ≠ n)]; exact h4 c (by omega)⟩
        · simp only [Option.some.injEq] at hst; subst hst
          exact ⟨h1, h2, h3, fun c hc => by
            simp only [upd_other _ _ (by omega : c ≠ n)]; exact h4 c (by omega)⟩
        · simp at hst
      · simp at hst

theorem wakeAll_delivers : ∀ (n : Nat) (s : Sys) (c t : Nat) (o : Outcome), c < n →
    s.callers c = .waiting t → s.tasks t = .done o → (wakeAll n s).callers c = .got t o
  | 0, _, _, _, _, hc, _, _ => by omega
  | n + 1, s, c, t, o, hc, hw, hd => by
    obtain ⟨h1, _, _, h4⟩ := wakeAll_frame n s
    simp only [wakeAll]
    by_cases hcn : c = n
    · subst hcn
      have hw' : (wakeAll c s).callers c = .waiting t := by rw [h4 c (Nat.le_refl _)]; exact hw
      have hd' : (wakeAll c s).tasks t = .done o := by rw [h1]; exact hd
      simp [step, hw', hd']
    · have ih := wakeAll_delivers n s c t o (by omega) hw hd
      cases hst : step (wakeAll n s) (.wake n) with
      | none => exact ih
      | some s2 =>
        simp only
        rw [caller_frame_aux _ s2 (.wake n) c hst (by simp [actor]; omega)]; exact ih

/-! ## single flight -/

theorem join_existing (s : Sys) (c k : Nat) (e : Entry) (hc : s.callers c = .spawned k)
    (hf : find s.table k = some e) (hx : expired e s.now = false) :
    step s (.enter c) = some { s with
      table := erase s.table k ++ [e]
      callers := upd s.callers c (joinState s e.task)
      joined := upd s.joined c (some e.task) } := by
  simp [step, hc, hf, hx]

/-- what an `enter` does to the invocation count -/
theorem enter_cases (s s' : Sys) (c k : Nat) (hc : s.callers c = .spawned k)
    (h : step s (.enter c) = some s') :
    (∃ e, find s.table k = some e ∧ expired e s.now = false ∧ s'.ntasks = s.ntasks ∧
        s'.joined c = some e.task) ∨
    ((find s.table k = none ∨ ∃ e, find s.table k = some e ∧ expired e s.now = true) ∧
        s'.ntasks = s.ntasks + 1 ∧ s'.joined c = some s.ntasks ∧ s'.taskKey s.ntasks = k ∧
        s'.tasks s.ntasks = .running ∧ s'.callers c = .waiting s.ntasks) := by
  simp only [step, hc] at h
  split at h
  · rename_i hf
    simp only [Option.some.injEq] at h; subst h
    exact Or.inr ⟨Or.inl hf, by simp [startNew]⟩
  · rename_i e hf
    split at h
    · rename_i hx
      simp only [Option.some.injEq] at h; subst h
      exact Or.inr ⟨Or.inr ⟨e, hf, hx⟩, by simp [startNew]⟩
    · rename_i hx
      simp only [Option.some.injEq] at h; subst h
      exact Or.inl ⟨e, hf, by simpa using hx, rfl, by simp⟩

theorem single_flight_aux (k t : Nat) : ∀ (ls : List Label) (s s' : Sys), Inv s →
    runLabels s ls = some s' → HeldAlong k t s ls →
    (∀ t', s.ntasks ≤ t' → t' < s'.ntasks → s'.taskKey t' ≠ k) ∧
    (∀ c, s'.callerKey c = k → s'.joined c ≠ s.joined c → s'.joined c = some t)
  | [], s, s', _, hr, _ => by
    simp [runLabels] at hr; subst hr
    exact ⟨fun t' h1 h2 => by omega, fun c _ h => absurd rfl h⟩
  | l :: ls, s, s', hinv, hr, hheld => by
    simp only [runLabels] at hr
    cases hst : step s l with
    | none => simp [hst] at hr
    | some s1 =>
      simp only [hst, Option.bind_some] at hr
      obtain ⟨hh, hrest⟩ := hheld
      have hinv1 := step_inv s s1 l hinv hst
      obtain ⟨ih1, ih2⟩ := single_flight_aux k t ls s1 s' hinv1 hr (hrest s1 hst)
      obtain ⟨g1, g2, g3, g4, g5⟩ := ghost_frame s s1 l hst
      obtain ⟨r1, r2, r3⟩ := ghost_run ls s1 s' hr
      obtain ⟨e, hfe, het, hex⟩ := hh
      constructor
      · intro t' h1 h2
        by_cases hlt : s1.ntasks ≤ t'
        · exact ih1 t' hlt h2
        · -- the task was created by this very step: an `enter` that missed, hence not for `k`
          have hlt' : t' < s1.ntasks := by omega
          cases l with
          | enter c =>
            cases hc : s.callers c with
            | spawned k0 =>
              rcases enter_cases s s1 c k0 hc hst with ⟨_, _, _, hn, _⟩ | ⟨hmiss, hn, _, hk0, _⟩
              · omega
              · have ht' : t' = s.ntasks := by omega
                subst ht'
                rw [r2 _ hlt', hk0]
                intro hkk; subst hkk
                rcases hmiss with hnone | ⟨e', hfe', hex'⟩
                · rw [hnone] at hfe; simp at hfe
                · rw [hfe'] at hfe; simp at hfe; subst hfe; rw [hex] at hex'; simp at hex'
            | _ => simp [step, hc] at hst
          | _ => have := g5 (by intro c; simp); omega
      · intro c hck hne
        by_cases hj1 : s'.joined c = s1.joined c
        · -- joined in this very step
          have hne1 : s1.joined c ≠ s.joined c := by rw [← hj1]; exact hne
          cases l with
          | enter c' =>
            by_cases hcc : c = c'
            · subst hcc
              cases hc : s.callers c with
              | spawned k0 =>
                have hk0 : s.callerKey c = k0 := hinv.spawnedOk c k0 hc
                have hnidle : s.callers c ≠ .idle := by rw [hc]; simp
                have hkeep : s'.callerKey c = s.callerKey c := by
                  rw [r3 c (g3 c hnidle).2, (g3 c hnidle).1]
                have hkk : k0 = k := by rw [← hk0, ← hkeep, hck]
                subst hkk
                rw [hj1]
                rcases enter_cases s s1 c k0 hc hst with ⟨e', hfe', _, _, hj⟩ | ⟨hmiss, _⟩
                · rw [hfe'] at hfe; simp at hfe; subst hfe; rw [hj, het]
                · rcases hmiss with hnone | ⟨e', hfe', hex'⟩
                  · rw [hnone] at hfe; simp at hfe
                  · rw [hfe'] at hfe; simp at hfe; subst hfe; rw [hex] at hex'; simp at hex'
              | _ => simp [step, hc] at hst
            · exact absurd (g4 c (by intro h; injection h with h; exact hcc h.symm)) hne1
          | _ => exact absurd (g4 c (by intro h; cases h)) hne1
        · exact ih2 c hck hj1

end Haiway.AsyncCache
