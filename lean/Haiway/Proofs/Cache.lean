import Haiway.Model.Cache
/-! Helper lemmas for C12: table well-formedness (unique keys, capacity, every entry is the latest
product of its key and carries that product's expiry stamp), position lemmas behind `lru_hit`,
and the refinement to the abstract recency list. -/
namespace Haiway.Cache

set_option linter.unusedSectionVars false

variable {κ : Type} [DecidableEq κ]

/-! ## basic table lemmas -/

theorem keys_erase (t : List (Entry κ)) (k : κ) : keys (erase t k) = (keys t).filter (· ≠ k) := by
  simp [erase, keys, List.filter_map, Function.comp_def]

theorem nodup_erase (t : List (Entry κ)) (k : κ) (h : (keys t).Nodup) : (keys (erase t k)).Nodup := by
  rw [keys_erase]; exact h.filter _

theorem not_mem_erase (t : List (Entry κ)) (k : κ) : k ∉ keys (erase t k) := by
  rw [keys_erase]; simp

theorem mem_erase {t : List (Entry κ)} {k : κ} {e : Entry κ} (h : e ∈ erase t k) : e ∈ t ∧ e.key ≠ k := by
  simpa [erase] using h

theorem length_erase_le (t : List (Entry κ)) (k : κ) : (erase t k).length ≤ t.length :=
  List.length_filter_le _ _

theorem find_none_iff (t : List (Entry κ)) (k : κ) : find t k = none ↔ k ∉ keys t := by
  simp [find, keys, List.find?_eq_none]

theorem find_some {t : List (Entry κ)} {k : κ} {e : Entry κ} (h : find t k = some e) :
    e ∈ t ∧ e.key = k := by
  unfold find at h
  exact ⟨List.mem_of_find?_eq_some h, by simpa using List.find?_some h⟩

theorem length_erase_lt {t : List (Entry κ)} {k : κ} {e : Entry κ} (h : find t k = some e) :
    (erase t k).length < t.length := by
  obtain ⟨hm, hk⟩ := find_some h
  unfold erase
  exact List.length_filter_lt_length_iff_exists.mpr ⟨e, hm, by simp [hk]⟩

theorem nodup_snoc {l : List κ} {k : κ} (hn : l.Nodup) (hk : k ∉ l) : (l ++ [k]).Nodup := by
  rw [List.nodup_append]
  exact ⟨hn, by simp, by intro a ha b hb; simp at hb; subst hb; intro hab; subst hab; exact hk ha⟩

/-! ## the invariant -/

/-- an entry is the *latest* invocation of its key, carries its outcome and its expiry stamp -/
structure EntryOk (cfg : Cfg) (s : St κ) (e : Entry κ) : Prop where
  logged : ∃ i, s.log[e.inv]? = some i ∧ i.key = e.key ∧ i.ok = e.ok ∧
             e.expire = stamp cfg i.time ∧ i.time ≤ s.now
  latest : ∀ j i, s.log[j]? = some i → i.key = e.key → j ≤ e.inv
  stored : e.ok = true ∨ cfg.storeFailure = true

structure Wf (cfg : Cfg) (s : St κ) : Prop where
  nodup : (keys s.table).Nodup
  cap : s.table.length ≤ cfg.limit
  entries : ∀ e ∈ s.table, EntryOk cfg s e

theorem init_wf (cfg : Cfg) : Wf cfg ({} : St κ) :=
  ⟨by simp [keys], by simp, by simp⟩

theorem entryOk_log_snoc {cfg : Cfg} {s : St κ} {e : Entry κ} (h : EntryOk cfg s e)
    (tbl : List (Entry κ)) (i : Invocation κ) (hk : i.key ≠ e.key) :
    EntryOk cfg { s with table := tbl, log := s.log ++ [i] } e := by
  obtain ⟨i0, h0, h1, h2, h3, h4⟩ := h.logged
  have hlt : e.inv < s.log.length := by
    rcases Nat.lt_or_ge e.inv s.log.length with h | h
    · exact h
    · rw [List.getElem?_eq_none h] at h0; simp at h0
  refine ⟨⟨i0, ?_, h1, h2, h3, h4⟩, ?_, h.stored⟩
  · simp only; rw [List.getElem?_append_left hlt]; exact h0
  · intro j i' hj hkey
    simp only at hj
    rcases Nat.lt_or_ge j s.log.length with hjl | hjl
    · rw [List.getElem?_append_left hjl] at hj; exact h.latest j i' hj hkey
    · rw [List.getElem?_append_right hjl] at hj
      have : i' = i := by
        cases hx : j - s.log.length with
        | zero => simp [hx] at hj; exact hj.symm
        | succ m => simp [hx] at hj
      subst this; exact absurd hkey hk

theorem miss_wf (cfg : Cfg) (s : St κ) (t : List (Entry κ)) (k : κ) (ok : Bool)
    (hn : (keys t).Nodup) (hk : k ∉ keys t) (hc : t.length ≤ cfg.limit)
    (he : ∀ e ∈ t, EntryOk cfg s e) : Wf cfg (miss cfg s t k ok).1 := by
  have hold : ∀ tbl, ∀ e ∈ t, EntryOk cfg { s with table := tbl, log := s.log ++ [{ key := k, time := s.now, ok := ok }] } e := by
    intro tbl e hm
    apply entryOk_log_snoc (he e hm) tbl
    intro hke; exact hk (by simpa [keys] using ⟨e, hm, hke.symm⟩)
  unfold miss
  by_cases hst : (ok || cfg.storeFailure) = true
  · simp only [hst, ↓reduceIte]
    have hnd : (keys (t ++ [{ key := k, inv := s.log.length, ok := ok, expire := stamp cfg s.now }])).Nodup := by
      simpa [keys] using nodup_snoc (by simpa [keys] using hn) (by simpa [keys] using hk)
    have hnew : ∀ tbl, EntryOk cfg { s with table := tbl, log := s.log ++ [{ key := k, time := s.now, ok := ok }] }
        ({ key := k, inv := s.log.length, ok := ok, expire := stamp cfg s.now } : Entry κ) := by
      intro tbl
      refine ⟨⟨{ key := k, time := s.now, ok := ok }, by simp, rfl, rfl, rfl, Nat.le_refl _⟩, ?_, ?_⟩
      · intro j i hj _
        have : j < (s.log ++ [({ key := k, time := s.now, ok := ok } : Invocation κ)]).length := by
          rcases Nat.lt_or_ge j (s.log ++ [({ key := k, time := s.now, ok := ok } : Invocation κ)]).length with h | h
          · exact h
          · simp only at hj; rw [List.getElem?_eq_none h] at hj; simp at hj
        simp at this; simp; omega
      · simpa [Bool.or_eq_true] using hst
    have hall : ∀ tbl, ∀ e ∈ t ++ [{ key := k, inv := s.log.length, ok := ok, expire := stamp cfg s.now }],
        EntryOk cfg { s with table := tbl, log := s.log ++ [{ key := k, time := s.now, ok := ok }] } e := by
      intro tbl e hm
      rcases List.mem_append.mp hm with hm | hm
      · exact hold tbl e hm
      · simp at hm; subst hm; exact hnew tbl
    split
    · refine ⟨?_, ?_, ?_⟩
      · simp only [keys] at hnd ⊢
        rw [List.map_tail]; exact hnd.sublist (List.tail_sublist _)
      · simp [List.length_tail]; omega
      · intro e hm; exact hall _ e (List.mem_of_mem_tail hm)
    · exact ⟨hnd, by simp at *; omega, fun e hm => hall _ e hm⟩
  · simp only [hst]
    exact ⟨hn, hc, fun e hm => hold _ e hm⟩

theorem entryOk_table {cfg : Cfg} {s : St κ} {e : Entry κ} (h : EntryOk cfg s e)
    (tbl : List (Entry κ)) : EntryOk cfg { s with table := tbl } e :=
  ⟨h.logged, h.latest, h.stored⟩

theorem call_wf (cfg : Cfg) (s : St κ) (k : κ) (ok : Bool) (h : Wf cfg s) :
    Wf cfg (call cfg s k ok).1 := by
  unfold call
  cases hf : find s.table k with
  | none => exact miss_wf cfg s _ k ok h.nodup ((find_none_iff _ _).mp hf) h.cap h.entries
  | some e =>
    simp only
    have hlt := length_erase_lt hf
    obtain ⟨hm, hk⟩ := find_some hf
    split
    · exact miss_wf cfg s _ k ok (nodup_erase _ _ h.nodup) (not_mem_erase _ _)
        (by have := h.cap; omega) (fun e' hm' => h.entries e' (mem_erase hm').1)
    · refine ⟨?_, ?_, ?_⟩
      · have := nodup_snoc (nodup_erase _ k h.nodup) (hk ▸ not_mem_erase s.table k : e.key ∉ _)
        simpa [keys] using this
      · simp; have := h.cap; omega
      · intro e' hm'
        apply entryOk_table
        rcases List.mem_append.mp hm' with hm' | hm'
        · exact h.entries e' (mem_erase hm').1
        · simp at hm'; subst hm'; exact h.entries e' hm

theorem step_wf (cfg : Cfg) (s : St κ) (op : Op κ) (h : Wf cfg s) : Wf cfg (step cfg s op) := by
  cases op with
  | call k ok => exact call_wf cfg s k ok h
  | adv d =>
    refine ⟨h.nodup, h.cap, ?_⟩
    intro e hm
    obtain ⟨i, h0, h1, h2, h3, h4⟩ := (h.entries e hm).logged
    exact ⟨⟨i, h0, h1, h2, h3, by simp [step]; omega⟩, (h.entries e hm).latest, (h.entries e hm).stored⟩

theorem run_wf (cfg : Cfg) (ops : List (Op κ)) (s : St κ) (h : Wf cfg s) : Wf cfg (run cfg s ops) := by
  induction ops generalizing s with
  | nil => simpa [run] using h
  | cons op ops ih => simpa [run] using ih _ (step_wf cfg s op h)

/-! ## position lemmas behind `lru_hit` -/

/-- `e` is in the table and every entry behind it (more recently used) has its key in `S` -/
def Pos (t : List (Entry κ)) (e : Entry κ) (S : List κ) : Prop :=
  ∃ pre post, t = pre ++ e :: post ∧ ∀ x ∈ post, x.key ∈ S

theorem pos_erase {t : List (Entry κ)} {e : Entry κ} {S : List κ} (k : κ) (h : Pos t e S)
    (hk : e.key ≠ k) : Pos (erase t k) e S := by
  obtain ⟨pre, post, rfl, hp⟩ := h
  refine ⟨erase pre k, erase post k, ?_, ?_⟩
  · simp [erase, List.filter_append, hk]
  · intro x hx; exact hp x (List.mem_filter.mp hx).1

theorem pos_append {t : List (Entry κ)} {e : Entry κ} {S : List κ} (x : Entry κ) (h : Pos t e S)
    (hx : x.key ∈ S) : Pos (t ++ [x]) e S := by
  obtain ⟨pre, post, rfl, hp⟩ := h
  refine ⟨pre, post ++ [x], by simp, ?_⟩
  intro y hy
  rcases List.mem_append.mp hy with hy | hy
  · exact hp y hy
  · simp at hy; subst hy; exact hx

theorem nodup_subset_length : ∀ (l S : List κ), l.Nodup → (∀ x ∈ l, x ∈ S) → l.length ≤ S.length
  | [], _, _, _ => by simp
  | x :: l, S, hn, hs => by
    have hx : x ∈ S := hs x (by simp)
    have hn' := List.nodup_cons.mp hn
    have : l.length ≤ (S.erase x).length := by
      apply nodup_subset_length l (S.erase x) hn'.2
      intro y hy
      have hyx : y ≠ x := by intro h; subst h; exact hn'.1 hy
      exact (List.mem_erase_of_ne hyx).mpr (hs y (by simp [hy]))
    rw [List.length_erase_of_mem hx] at this
    have : 0 < S.length := List.length_pos_of_mem hx
    simp; omega

/-- popping the oldest entry cannot remove `e` while fewer than `limit` distinct keys are behind it -/
theorem pos_evict (cfg : Cfg) {t : List (Entry κ)} {e : Entry κ} {S : List κ} (h : Pos t e S)
    (hn : (keys t).Nodup) (hS : S.length < cfg.limit) (hlen : cfg.limit < t.length) :
    Pos t.tail e S := by
  obtain ⟨pre, post, rfl, hp⟩ := h
  cases pre with
  | cons p pre' => exact ⟨pre', post, by simp, hp⟩
  | nil =>
    exfalso
    simp only [List.nil_append, keys, List.map_cons, List.nodup_cons] at hn
    have := nodup_subset_length (post.map (·.key)) S hn.2 (by
      intro x hx; obtain ⟨y, hy, rfl⟩ := List.mem_map.mp hx; exact hp y hy)
    simp at hlen this; omega

theorem pos_miss (cfg : Cfg) (s : St κ) {t : List (Entry κ)} (k : κ) (ok : Bool) {e : Entry κ}
    {S : List κ} (h : Pos t e S) (hn : (keys t).Nodup) (hk : k ∉ keys t) (hcS : k ∈ S)
    (hS : S.length < cfg.limit) : Pos (miss cfg s t k ok).1.table e S := by
  unfold miss
  by_cases hst : (ok || cfg.storeFailure) = true
  · simp only [hst, ↓reduceIte]
    have hp := pos_append ({ key := k, inv := s.log.length, ok := ok, expire := stamp cfg s.now } : Entry κ) h hcS
    split
    · rename_i hlen
      refine pos_evict cfg hp ?_ hS hlen
      simpa [keys] using nodup_snoc (by simpa [keys] using hn) (by simpa [keys] using hk)
    · exact hp
  · simp only [hst]; exact h

/-- a call on another key leaves `e` in place and only adds that key behind it -/
theorem pos_call_other (cfg : Cfg) (s : St κ) (k : κ) (ok : Bool) {e : Entry κ} {S : List κ}
    (hwf : Wf cfg s) (h : Pos s.table e S) (hne : e.key ≠ k) (hcS : k ∈ S)
    (hS : S.length < cfg.limit) : Pos (call cfg s k ok).1.table e S := by
  unfold call
  cases hf : find s.table k with
  | none => exact pos_miss cfg s k ok h hwf.nodup ((find_none_iff _ _).mp hf) hcS hS
  | some e' =>
    simp only
    obtain ⟨hm, hk'⟩ := find_some hf
    split
    · exact pos_miss cfg s k ok (pos_erase k h hne) (nodup_erase _ _ hwf.nodup)
        (not_mem_erase _ _) hcS hS
    · exact pos_append e' (pos_erase k h hne) (hk' ▸ hcS)

theorem pos_run_others (cfg : Cfg) (mid : List (Op κ)) (s : St κ) (e : Entry κ) (S : List κ)
    (hwf : Wf cfg s) (h : Pos s.table e S)
    (hmid : ∀ k ok, Op.call k ok ∈ mid → k ≠ e.key ∧ k ∈ S) (hS : S.length < cfg.limit) :
    Pos (run cfg s mid).table e S ∧ Wf cfg (run cfg s mid) := by
  induction mid generalizing s with
  | nil => simpa [run] using ⟨h, hwf⟩
  | cons m mid ih =>
    have h2 := step_wf cfg s m hwf
    have h1 : Pos (step cfg s m).table e S := by
      cases m with
      | adv d => simpa [step] using h
      | call k ok =>
        have hm := hmid k ok (by simp)
        exact pos_call_other cfg s k ok hwf h (Ne.symm hm.1) hm.2 hS
    simpa [run] using ih _ h2 h1 (fun k ok hx => hmid k ok (by simp [hx]))

/-- with unique keys, the positioned entry is the one `find` returns -/
theorem find_of_pos {t : List (Entry κ)} {e : Entry κ} {S : List κ} (h : Pos t e S)
    (hn : (keys t).Nodup) : find t e.key = some e := by
  obtain ⟨pre, post, rfl, _⟩ := h
  unfold find
  rw [List.find?_append]
  have : pre.find? (·.key = e.key) = none := by
    rw [List.find?_eq_none]; intro x hx hxe
    simp only [keys, List.map_append, List.map_cons] at hn
    rw [List.nodup_append] at hn
    have hxe' : x.key = e.key := by simpa using hxe
    exact hn.2.2 x.key (List.mem_map_of_mem hx) e.key (by simp) hxe'
  simp [this]

/-- the newest entry of a non-empty list survives `tail` when at least one entry is allowed -/
theorem pos_last_tail (cfg : Cfg) (hl : 0 < cfg.limit) (t : List (Entry κ)) (x : Entry κ) (S : List κ) :
    Pos (if cfg.limit < (t ++ [x]).length then (t ++ [x]).tail else t ++ [x]) x S := by
  split
  · rename_i hlen
    cases t with
    | nil => simp at hlen; omega
    | cons y ys => exact ⟨ys, [], by simp, by simp⟩
  · exact ⟨t, [], by simp, by simp⟩

/-- after a call that left a product, its key's entry is the newest one and records the product -/
theorem pos_after_call (cfg : Cfg) (hl : 0 < cfg.limit) (s : St κ) (k : κ) (ok : Bool)
    (hst : (call cfg s k ok).2.returned = true ∨ cfg.storeFailure = true) (S : List κ) :
    ∃ e, e.key = k ∧ e.inv = (call cfg s k ok).2.producer ∧ e.ok = (call cfg s k ok).2.returned ∧
      Pos (call cfg s k ok).1.table e S := by
  have hmiss : ∀ t, ((miss cfg s t k ok).2.returned = true ∨ cfg.storeFailure = true) →
      ∃ e, e.key = k ∧ e.inv = (miss cfg s t k ok).2.producer ∧ e.ok = (miss cfg s t k ok).2.returned ∧
        Pos (miss cfg s t k ok).1.table e S := by
    intro t hst
    unfold miss at hst ⊢
    by_cases hso : (ok || cfg.storeFailure) = true
    · simp only [hso, ↓reduceIte]
      exact ⟨_, rfl, rfl, rfl, pos_last_tail cfg hl t _ S⟩
    · simp only [hso] at hst
      simp [Res.returned] at hst hso
      rcases hst with h | h
      · simp [h] at hso
      · simp [h] at hso
  unfold call at hst ⊢
  cases hf : find s.table k with
  | none => simp only [hf] at hst ⊢; exact hmiss _ hst
  | some e' =>
    simp only [hf] at hst ⊢
    obtain ⟨hm, hk'⟩ := find_some hf
    by_cases hex : expired e' s.now = true
    · simp only [hex, ↓reduceIte] at hst ⊢; exact hmiss _ hst
    · simp only [hex] at hst ⊢
      exact ⟨e', hk', rfl, rfl, ⟨erase s.table k, [], by simp, by simp⟩⟩

/-! ## refinement to the abstract recency list -/

theorem mru_erase (t : List (Entry κ)) (k : κ) :
    (keys (erase t k)).reverse = (keys t).reverse.filter (· ≠ k) := by
  rw [keys_erase, List.filter_reverse]

theorem mru_miss (cfg : Cfg) (s : St κ) (t : List (Entry κ)) (k : κ) (ok : Bool)
    (hc : t.length ≤ cfg.limit) :
    mru (miss cfg s t k ok).1 =
      if (ok || cfg.storeFailure) = true then (k :: (keys t).reverse).take cfg.limit
      else (keys t).reverse := by
  unfold miss mru
  by_cases hst : (ok || cfg.storeFailure) = true
  · simp only [hst, ↓reduceIte]
    split
    · rename_i hlen
      cases t with
      | nil =>
        have : cfg.limit = 0 := by simp at hlen; omega
        simp [keys, this]
      | cons y ys =>
        have hl : cfg.limit = ys.length + 1 := by simp at hlen hc; omega
        simp [keys, hl]
    · rename_i hlen
      have : (k :: (keys t).reverse).length ≤ cfg.limit := by simp [keys] at hlen ⊢; omega
      rw [List.take_of_length_le this]
      simp [keys]
  · simp only [hst]; simp

theorem mru_call (cfg : Cfg) (s : St κ) (k : κ) (ok : Bool) (h : Wf cfg s) :
    mru (call cfg s k ok).1
      = absStep cfg.limit (mru s) k ((call cfg s k ok).2.returned || cfg.storeFailure) := by
  have hmissret : ∀ t, (miss cfg s t k ok).2.returned = ok := by
    intro t; unfold miss; split <;> rfl
  unfold call
  cases hf : find s.table k with
  | none =>
    simp only
    have hk : k ∉ keys s.table := (find_none_iff _ _).mp hf
    have hfil : (keys s.table).reverse.filter (· ≠ k) = (keys s.table).reverse := by
      rw [List.filter_eq_self]; intro a ha; simp at ha ⊢; intro hak; subst hak; exact hk ha
    rw [mru_miss cfg s _ k ok h.cap, hmissret]
    unfold absStep mru
    rw [hfil]
  | some e =>
    simp only
    obtain ⟨hm, hk⟩ := find_some hf
    have hlt := length_erase_lt hf
    split
    · rw [mru_miss cfg s _ k ok (by have := h.cap; omega), hmissret, mru_erase]
      unfold absStep mru; rfl
    · have hst : (e.ok || cfg.storeFailure) = true := by
        rcases (h.entries e hm).stored with h | h <;> simp [h]
      simp only [Res.returned, hst]
      unfold absStep mru
      simp only [↓reduceIte]
      have : (k :: (keys s.table).reverse.filter (· ≠ k)).length ≤ cfg.limit := by
        rw [← mru_erase]; simp [keys]; have := h.cap; omega
      rw [List.take_of_length_le this, ← mru_erase]
      simp [keys, hk]

theorem refines (cfg : Cfg) (ops : List (Op κ)) (s : St κ) (h : Wf cfg s) :
    mru (run cfg s ops) = absFold cfg.limit (mru s) (uses cfg s ops) := by
  induction ops generalizing s with
  | nil => simp [run, uses, absFold]
  | cons op ops ih =>
    cases op with
    | adv d =>
      have := ih (step cfg s (.adv d)) (step_wf cfg s _ h)
      simpa [run, uses, absFold, mru, step] using this
    | call k ok =>
      have := ih (step cfg s (.call k ok)) (step_wf cfg s _ h)
      simp only [run, List.foldl_cons, uses, absFold] at this ⊢
      rw [this]
      simp only [step]
      rw [mru_call cfg s k ok h]

/-- taking the `n` most recent after a use = using on the `n` most recent, for duplicate-free lists -/
theorem take_push (k : κ) : ∀ (n : Nat) (l : List κ), l.Nodup →
    (l.filter (· ≠ k)).take (n - 1) = ((l.take n).filter (· ≠ k)).take (n - 1)
  | 0, l, _ => by simp
  | n + 1, [], _ => by simp
  | n + 1, x :: xs, hn => by
    have hn' := List.nodup_cons.mp hn
    by_cases hx : x = k
    · subst hx
      have hfil : ∀ l : List κ, x ∉ l → l.filter (· ≠ x) = l := by
        intro l hl; rw [List.filter_eq_self]; intro a ha; simp; intro h; subst h; exact hl ha
      have h1 : x ∉ xs.take n := fun h => hn'.1 (List.mem_of_mem_take h)
      have e0 : ∀ l : List κ, (x :: l).filter (· ≠ x) = l.filter (· ≠ x) := by
        intro l; simp
      simp only [Nat.add_sub_cancel, List.take_succ_cons]
      rw [e0, e0, hfil xs hn'.1, hfil _ h1, List.take_take, Nat.min_self]
    · simp only [Nat.add_sub_cancel, List.take_succ_cons]
      have e1 : ∀ l : List κ, (x :: l).filter (· ≠ k) = x :: l.filter (· ≠ k) := by
        intro l; simp [hx]
      rw [e1, e1]
      cases n with
      | zero => simp
      | succ m =>
        have := take_push k (m + 1) xs hn'.2
        simp only [Nat.add_sub_cancel] at this
        rw [List.take_succ_cons, List.take_succ_cons, this]

theorem nodup_push (k : κ) (l : List κ) (h : l.Nodup) : (k :: l.filter (· ≠ k)).Nodup := by
  rw [List.nodup_cons]; exact ⟨by simp, h.filter _⟩

/-- when every use leaves a product, the bounded abstract list is the `limit` most recent of the
unbounded recency order -/
theorem absFold_all_stored (limit : Nat) : ∀ (us : List (κ × Bool)) (r : List κ), r.Nodup →
    (∀ u ∈ us, u.2 = true) →
    absFold limit (r.take limit) us = (mruAll r (us.map (·.1))).take limit
  | [], r, _, _ => by simp [absFold, mruAll]
  | (k, b) :: us, r, hn, hall => by
    have hb : b = true := hall (k, b) (by simp)
    subst hb
    have ih := absFold_all_stored limit us (k :: r.filter (· ≠ k)) (nodup_push k r hn)
      (fun u hu => hall u (by simp [hu]))
    simp only [absFold, List.foldl_cons, List.map_cons, mruAll] at ih ⊢
    rw [← ih]
    congr 1
    unfold absStep
    simp only [↓reduceIte]
    cases limit with
    | zero => simp
    | succ n =>
      have := take_push k (n + 1) r hn
      simp only [Nat.add_sub_cancel] at this
      rw [List.take_succ_cons, List.take_succ_cons, this]

theorem uses_keys (cfg : Cfg) : ∀ (ops : List (Op κ)) (s : St κ), (uses cfg s ops).map (·.1) = callKeys ops
  | [], _ => by simp [uses, callKeys]
  | .adv d :: ops, s => by simp [uses, callKeys, uses_keys cfg ops]
  | .call k ok :: ops, s => by simp [uses, callKeys, uses_keys cfg ops]

end Haiway.Cache
