import Haiway.Proofs.ResolveSound
import Haiway.Proofs.StateInit
/-! Class creation (`StateMeta.__new__`): every attribute annotation is resolved soundly. -/
namespace Haiway.StateObj
open Haiway.Validate Haiway.Resolve

theorem mkClass_sound {env : ClsEnv} {E : StaticEnv} {als : List AliasDef} {id : Nat} {tp : List (String × Ann)} :
    ∀ (srcs : List AttrSrc) (attrs : List Attr), mkClass E als id tp srcs = .ok attrs →
      srcs.length = attrs.length ∧ ∀ q ∈ srcs.zip attrs,
        q.2.name = q.1.name ∧ q.2.default = q.1.default ∧
          ∀ v, Conforms env q.2.ann v ↔ den env E als (some id) tp q.1.ty v := by
  intro srcs
  induction srcs with
  | nil => intro attrs h; simp [mkClass] at h; subst h; simp
  | cons s srcs ih =>
    intro attrs h
    unfold mkClass at h
    cases hr : resolve E als (some id) tp s.ty with
    | error e => simp [hr] at h
    | ok a =>
      cases hm : mkClass E als id tp srcs with
      | error e => simp [hr, hm] at h
      | ok as =>
        simp only [hr, hm, Except.ok.injEq] at h
        subst h
        have := ih as hm
        refine ⟨by simp [this.1], fun q hq => ?_⟩
        simp only [List.zip_cons_cons, List.mem_cons] at hq
        rcases hq with rfl | hq
        · exact ⟨rfl, rfl, (resolve_sound_all (env := env) (E := E)).1 als (some id) tp s.ty a hr⟩
        · exact this.2 q hq

end Haiway.StateObj
