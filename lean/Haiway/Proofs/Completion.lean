import Haiway.Model.Completion
/-! Invariants of the completion protocol (helper lemmas for `Props/C09.lean`). -/
namespace Haiway.Completion

structure Shape (s : Sys) : Prop where
  parent_lt : ∀ c p, s.parent c = some p → p < c ∧ c < s.size
  parent_nested : ∀ c p, s.parent c = some p → c ∈ s.nested p
  nested_parent : ∀ p c, c ∈ s.nested p → s.parent c = some p
  fresh : ∀ n, s.size ≤ n →
    s.finished n = false ∧ s.completed n = false ∧ s.nested n = [] ∧ s.parent n = none
  lex_lt : ∀ c p, s.lex c = some p → p < c ∧ c < s.size

/-- the local completion law at node `n` -/
def Law (s : Sys) (n : Nat) : Prop := s.completed n = able s n

structure Inv (s : Sys) : Prop where
  shape : Shape s
  law : ∀ n, Law s n
  noerr : s.err = false

theorem inv_init : Inv {} := by
  refine ⟨⟨by simp, by simp, by simp, by simp, by simp⟩, by intro n; simp [Law, able], rfl⟩

theorem all_upd_of_not_mem (f : Nat → Bool) (l : List Nat) (i : Nat) (v : Bool) (h : i ∉ l) :
    l.all (upd f i v) = l.all f := by
  induction l with
  | nil => rfl
  | cons x xs ih =>
    simp only [List.mem_cons, not_or] at h
    simp only [List.all_cons, ih h.2, upd]
    have : x ≠ i := fun hx => h.1 hx.symm
    simp [this]

theorem lex_lt_register (s : Sys) (p : Option Nat) (h5 : ∀ c p, s.lex c = some p → p < c ∧ c < s.size)
    (hp : ∀ q, p = some q → q < s.size) :
    ∀ c q, upd s.lex s.size p c = some q → q < c ∧ c < s.size + 1 := by
  intro c q hcq
  simp only [upd] at hcq
  by_cases hcs : c = s.size
  · simp only [hcs, ↓reduceIte] at hcq; have := hp q hcq; omega
  · simp only [hcs, ↓reduceIte] at hcq; have := h5 c q hcq; omega

theorem register_inv (s : Sys) (p a : Option Nat) (h : Inv s) (hp : ∀ q, p = some q → q < s.size)
    (ha : ∀ q, a = some q → q < s.size ∧ s.completed q = false) :
    Inv (register s p a) := by
  obtain ⟨⟨h1, h2, h3, h4, h5⟩, hl, he⟩ := h
  have h5' := lex_lt_register s p h5 hp
  unfold register
  cases a with
  | none =>
    refine ⟨⟨?_, h2, h3, ?_, h5'⟩, hl, he⟩
    · intro c p hc; have := h1 c p hc; exact ⟨this.1, by simp; omega⟩
    · intro n hn; exact h4 n (by simp at hn; omega)
  | some q =>
    have hq := (ha q rfl).1
    have hc : ¬ s.completed q = true := by simp [(ha q rfl).2]
    simp only
    have hfresh := h4 s.size (Nat.le_refl _)
    refine ⟨⟨?_, ?_, ?_, ?_, h5'⟩, ?_, he⟩
    · intro c p hcp
      simp only [upd] at hcp
      by_cases hcs : c = s.size
      · simp [hcs] at hcp; subst hcp; exact ⟨by omega, by simp [hcs]⟩
      · simp [hcs] at hcp; have := h1 c p hcp; exact ⟨this.1, by simp; omega⟩
    · intro c p hcp
      simp only [upd] at hcp ⊢
      by_cases hcs : c = s.size
      · simp [hcs] at hcp; subst hcp; simp [hcs]
      · simp [hcs] at hcp
        have := h2 c p hcp
        by_cases hpq : p = q
        · simp [hpq]; left; exact hpq ▸ this
        · simp [hpq, this]
    · intro p c hc'
      simp only [upd] at hc' ⊢
      by_cases hpq : p = q
      · simp [hpq] at hc'
        rcases hc' with hc' | hc'
        · have := h3 q c hc'
          have hlt := (h1 c q this).2
          have : c ≠ s.size := by omega
          simp [this, hpq]; exact h3 q c hc'
        · simp [hc', hpq]
      · simp [hpq] at hc'
        have := h3 p c hc'
        have hlt := (h1 c p this).2
        have : c ≠ s.size := by omega
        simp [this]; exact h3 p c hc'
    · intro n hn
      simp at hn
      have := h4 n (by omega)
      have hns : n ≠ s.size := by omega
      have hnq : n ≠ q := by omega
      simp [upd, hns, hnq, this]
    · intro n
      simp only [Law, able, upd]
      by_cases hnq : n = q
      · subst hnq
        simp [hfresh.2.1]
        have := hl n; simp [Law, able] at this
        simp [Bool.eq_false_iff.mpr hc] at this ⊢
      · simp [hnq]; exact hl n

/-- the walk to the adopting scope terminates and ends at an open existing scope (or at none) -/
theorem adopter_ok (s : Sys) (h : Inv s) : ∀ (fuel : Nat) (p : Option Nat),
    (∀ q, p = some q → q < fuel ∧ q < s.size) →
    ∃ a, adopter s fuel p = some a ∧ ∀ q, a = some q → q < s.size ∧ s.completed q = false
  | _, none, _ => ⟨none, by simp [adopter], by simp⟩
  | 0, some q, hp => by have := hp q rfl; omega
  | fuel + 1, some q, hp => by
    have hq := hp q rfl
    by_cases hc : s.completed q
    · simp only [adopter, hc, ↓reduceIte]
      apply adopter_ok s h fuel (s.parent q)
      intro r hr
      have := h.shape.parent_lt q r hr
      omega
    · refine ⟨some q, by simp [adopter, hc], ?_⟩
      intro r hr; cases hr; exact ⟨hq.2, by simpa using hc⟩

theorem create_inv (s : Sys) (p : Option Nat) (h : Inv s) (hp : ∀ q, p = some q → q < s.size) :
    Inv (create s p) := by
  obtain ⟨a, ha, hok⟩ := adopter_ok s h s.size p (fun q hq => ⟨hp q hq, hp q hq⟩)
  unfold create
  rw [ha]
  exact register_inv s p a h hp hok

theorem enter_inv (s : Sys) (n : Nat) (h : Inv s) (hn : s.entered n = false) : Inv (enter s n) := by
  obtain ⟨⟨h1, h2, h3, h4, h5⟩, hl, he⟩ := h
  unfold enter
  simp only [hn, Bool.false_eq_true, ↓reduceIte]
  exact ⟨⟨h1, h2, h3, h4, h5⟩, hl, he⟩

theorem tick_inv (s : Sys) (dt : Nat) (h : Inv s) : Inv { s with now := s.now + dt } := by
  obtain ⟨⟨h1, h2, h3, h4, h5⟩, hl, he⟩ := h
  exact ⟨⟨h1, h2, h3, h4, h5⟩, hl, he⟩

/-- the law holds everywhere except possibly at `k`, which is not completed yet -/
structure InvExcept (s : Sys) (k : Nat) : Prop where
  shape : Shape s
  law : ∀ n, n ≠ k → Law s n
  open_k : s.completed k = false
  noerr : s.err = false

theorem not_mem_nested_self (s : Sys) (h : Shape s) (k : Nat) : k ∉ s.nested k := by
  intro hk
  have := h.parent_lt k k (h.nested_parent k k hk)
  omega

/-- the state after resolving the completion future of `k` -/
def mark (s : Sys) (k : Nat) : Sys :=
  { s with completed := upd s.completed k true,
           frozen := upd s.frozen k (s.now - s.created k),
           fired := s.fired ++ [k] }

theorem completeUp_succ (s : Sys) (n fuel : Nat) :
    completeUp s n (fuel + 1) =
      if s.completed n then { s with err := true }
      else if able s n then
        match s.parent n with
        | some p => completeUp (mark s n) p fuel
        | none => mark s n
      else s := rfl

theorem completeUp_inv : ∀ (fuel : Nat) (s : Sys) (k : Nat), InvExcept s k → k < fuel →
    Inv (completeUp s k fuel)
  | 0, _, _, _, hk => by omega
  | fuel + 1, s, k, h, hk => by
    obtain ⟨hs, hl, ho, he⟩ := h
    rw [completeUp_succ]
    simp only [ho, Bool.false_eq_true, ↓reduceIte]
    by_cases ha : able s k
    · simp only [ha, ↓reduceIte]
      have hshape' : Shape (mark s k) :=
        ⟨hs.parent_lt, hs.parent_nested, hs.nested_parent, by
          intro n hn
          have := hs.fresh n hn
          refine ⟨this.1, ?_, this.2.2⟩
          simp only [mark, upd]
          by_cases hnk : n = k
          · subst hnk
            have hf : s.finished n = true := by simp [able] at ha; exact ha.1
            simp [this.1] at hf
          · simp [hnk, this.2.1], hs.lex_lt⟩
      have hlaw_k : Law (mark s k) k := by
        simp only [Law, able, mark, upd]
        rw [all_upd_of_not_mem s.completed (s.nested k) k true (not_mem_nested_self s hs k)]
        simpa [able] using ha
      have hlaw_other : ∀ n, n ≠ k → s.parent k ≠ some n → Law (mark s k) n := by
        intro n hnk hnp
        have hk_not : k ∉ s.nested n := fun hm => hnp (hs.nested_parent n k hm)
        simp only [Law, able, mark, upd, hnk, ↓reduceIte]
        rw [all_upd_of_not_mem s.completed (s.nested n) k true hk_not]
        exact hl n hnk
      cases hp : s.parent k with
      | none =>
        simp only
        refine ⟨hshape', ?_, he⟩
        intro n
        by_cases hnk : n = k
        · subst hnk; exact hlaw_k
        · exact hlaw_other n hnk (by simp [hp])
      | some p =>
        simp only
        have hpk := hs.parent_lt k p hp
        apply completeUp_inv fuel _ p _ (by omega)
        refine ⟨hshape', ?_, ?_, he⟩
        · intro n hnp
          by_cases hnk : n = k
          · subst hnk; exact hlaw_k
          · exact hlaw_other n hnk (by rw [hp]; intro h; exact hnp (Option.some.inj h).symm)
        · have hpne : p ≠ k := by omega
          have hlp := hl p hpne
          have hkin : k ∈ s.nested p := hs.parent_nested k p hp
          simp only [mark, upd, hpne, ↓reduceIte]
          simp only [Law, able] at hlp
          rw [hlp]
          have : (s.nested p).all s.completed = false := by
            rw [List.all_eq_false]; exact ⟨k, hkin, by simp [ho]⟩
          simp [this]
    · simp only [ha, Bool.false_eq_true, ↓reduceIte]
      refine ⟨hs, ?_, he⟩
      intro n
      by_cases hnk : n = k
      · subst hnk; simp [Law, ho]; simpa using ha
      · exact hl n hnk

/-- leaving a scope that is not yet left keeps the invariant; no assertion can fire -/
theorem finish_inv (s : Sys) (n : Nat) (h : Inv s) (hn : n < s.size) (hopen : s.finished n = false) :
    Inv (finish s n) := by
  obtain ⟨hs, hl, he⟩ := h
  have hc : s.completed n = false := by
    have := hl n; simp [Law, able, hopen] at this; exact this
  unfold finish
  simp only [hc, hopen, Bool.or_self, Bool.false_eq_true, ↓reduceIte]
  apply completeUp_inv (n + 1) _ n _ (by omega)
  refine ⟨⟨hs.parent_lt, hs.parent_nested, hs.nested_parent, ?_, hs.lex_lt⟩, ?_, hc, he⟩
  · intro m hm
    have := hs.fresh m hm
    have hmn : m ≠ n := by simp at hm; omega
    exact ⟨by simp [upd, hmn, this.1], this.2⟩
  · intro m hmn
    simp only [Law, able, upd, hmn, ↓reduceIte]
    exact hl m

theorem step_inv (s : Sys) (op : Op) (h : Inv s) (hw : wfOp s op = true) : Inv (step s op) := by
  cases op with
  | create p =>
    apply create_inv s p h
    intro q hq; subst hq; simpa [wfOp] using hw
  | enter n => simp [wfOp] at hw; exact enter_inv s n h hw.2
  | finish n => simp [wfOp] at hw; exact finish_inv s n h hw.1.1 hw.2
  | tick dt => exact tick_inv s dt h

theorem run_inv : ∀ (ops : List Op) (s : Sys), Inv s → wf s ops = true → Inv (run s ops)
  | [], _, h, _ => h
  | op :: ops, s, h, hw => by
    simp only [wf, Bool.and_eq_true] at hw
    simpa [run] using run_inv ops (step s op) (step_inv s op h hw.1) hw.2

theorem wf_append (s : Sys) : ∀ (a b : List Op), wf s (a ++ b) = (wf s a && wf (run s a) b)
  | [], b => by simp [wf, run]
  | op :: a, b => by
    simp only [List.cons_append, wf, run, List.foldl_cons, Bool.and_assoc]
    rw [wf_append (step s op) a b]; rfl

theorem run_append (s : Sys) (a b : List Op) : run s (a ++ b) = run (run s a) b := by
  simp [run, List.foldl_append]

/-! ### the callback log: `fired` lists exactly the completed nodes, each once (no well-formedness needed) -/

structure FiredInv (s : Sys) : Prop where
  nodup : s.fired.Nodup
  iff : ∀ n, n ∈ s.fired ↔ s.completed n = true

theorem fired_init : FiredInv {} := ⟨by simp, by simp⟩

theorem completeUp_fired : ∀ (fuel : Nat) (s : Sys) (k : Nat), FiredInv s → FiredInv (completeUp s k fuel)
  | 0, s, k, h => ⟨h.nodup, h.iff⟩
  | fuel + 1, s, k, h => by
    rw [completeUp_succ]
    by_cases hc : s.completed k
    · simp only [hc, ↓reduceIte]; exact ⟨h.nodup, h.iff⟩
    · simp only [hc, Bool.false_eq_true, ↓reduceIte]
      by_cases ha : able s k
      · simp only [ha, ↓reduceIte]
        have hk : k ∉ s.fired := fun hm => hc ((h.iff k).1 hm)
        have hm : FiredInv (mark s k) := by
          refine ⟨?_, ?_⟩
          · simp only [mark]
            rw [List.nodup_append]
            refine ⟨h.nodup, by simp, ?_⟩
            intro a ha' b hb
            simp at hb; subst hb
            intro hab; subst hab; exact hk ha'
          · intro n
            simp only [mark, upd, List.mem_append, List.mem_singleton]
            by_cases hnk : n = k
            · simp [hnk]
            · simp [hnk, h.iff n]
        cases s.parent k with
        | none => exact hm
        | some p => exact completeUp_fired fuel _ p hm
      · simp only [ha, Bool.false_eq_true, ↓reduceIte]; exact h

theorem step_fired (s : Sys) (op : Op) (h : FiredInv s) : FiredInv (step s op) := by
  cases op with
  | create p =>
    simp only [step, create]
    cases adopter s s.size p with
    | none => exact ⟨h.nodup, h.iff⟩
    | some a => cases a <;> exact ⟨h.nodup, h.iff⟩
  | enter n =>
    simp only [step, enter]
    by_cases he : s.entered n <;> simp only [he] <;> exact ⟨h.nodup, h.iff⟩
  | finish n =>
    simp only [step, finish]
    by_cases hc : (s.completed n || s.finished n)
    · simp only [hc, ↓reduceIte]; exact ⟨h.nodup, h.iff⟩
    · simp only [hc, Bool.false_eq_true, ↓reduceIte]
      exact completeUp_fired _ _ _ ⟨h.nodup, h.iff⟩
  | tick dt => exact ⟨h.nodup, h.iff⟩

theorem run_fired : ∀ (ops : List Op) (s : Sys), FiredInv s → FiredInv (run s ops)
  | [], _, h => h
  | op :: ops, s, h => by simpa [run] using run_fired ops (step s op) (step_fired s op h)

theorem completeUp_prefix : ∀ (fuel : Nat) (s : Sys) (k : Nat),
    ∃ new, (completeUp s k fuel).fired = s.fired ++ new
  | 0, s, _ => ⟨[], by simp [completeUp]⟩
  | fuel + 1, s, k => by
    rw [completeUp_succ]
    by_cases hc : s.completed k
    · exact ⟨[], by simp [hc]⟩
    · simp only [hc, Bool.false_eq_true, ↓reduceIte]
      by_cases ha : able s k
      · simp only [ha, ↓reduceIte]
        cases s.parent k with
        | none => exact ⟨[k], rfl⟩
        | some p =>
          obtain ⟨new, hn⟩ := completeUp_prefix fuel (mark s k) p
          refine ⟨k :: new, ?_⟩
          rw [hn]; simp [mark]
      · exact ⟨[], by simp [ha]⟩

theorem step_prefix (s : Sys) (op : Op) : ∃ new, (step s op).fired = s.fired ++ new := by
  cases op with
  | create p =>
    simp only [step, create]
    cases adopter s s.size p with
    | none => exact ⟨[], by simp⟩
    | some a => cases a <;> exact ⟨[], by simp [register]⟩
  | enter n =>
    simp only [step, enter]
    split <;> exact ⟨[], by simp⟩
  | finish n =>
    simp only [step, finish]
    split
    · exact ⟨[], by simp⟩
    · exact completeUp_prefix _ _ _
  | tick dt => exact ⟨[], by simp [step]⟩

/-! ### monotonicity: a resolved completion future stays resolved with the same result -/

def Frozen (s t : Sys) : Prop :=
  ∀ n, s.completed n = true → t.completed n = true ∧ t.frozen n = s.frozen n

theorem Frozen.refl (s : Sys) : Frozen s s := fun _ h => ⟨h, rfl⟩

theorem Frozen.trans {a b c : Sys} (h1 : Frozen a b) (h2 : Frozen b c) : Frozen a c := by
  intro n hn
  have := h1 n hn
  have h' := h2 n this.1
  exact ⟨h'.1, by rw [h'.2, this.2]⟩

theorem completeUp_frozen : ∀ (fuel : Nat) (s : Sys) (k : Nat), Frozen s (completeUp s k fuel)
  | 0, s, k => fun _ h => ⟨h, rfl⟩
  | fuel + 1, s, k => by
    rw [completeUp_succ]
    by_cases hc : s.completed k
    · simp only [hc, ↓reduceIte]; exact fun _ h => ⟨h, rfl⟩
    · simp only [hc, Bool.false_eq_true, ↓reduceIte]
      by_cases ha : able s k
      · simp only [ha, ↓reduceIte]
        have hm : Frozen s (mark s k) := by
          intro n hn
          have hnk : n ≠ k := by intro h; subst h; exact hc hn
          simp [mark, upd, hnk, hn]
        cases s.parent k with
        | none => exact hm
        | some p => exact hm.trans (completeUp_frozen fuel _ p)
      · simp only [ha, Bool.false_eq_true, ↓reduceIte]; exact Frozen.refl s

theorem step_frozen (s : Sys) (op : Op) : Frozen s (step s op) := by
  cases op with
  | create p =>
    simp only [step, create]
    cases adopter s s.size p with
    | none => exact fun _ h => ⟨h, rfl⟩
    | some a => cases a <;> exact fun _ h => ⟨h, rfl⟩
  | enter n =>
    simp only [step, enter]
    by_cases he : s.entered n <;> simp only [he] <;> exact fun _ h => ⟨h, rfl⟩
  | finish n =>
    simp only [step, finish]
    by_cases hc : (s.completed n || s.finished n)
    · simp only [hc, ↓reduceIte]; exact fun _ h => ⟨h, rfl⟩
    · simp only [hc, Bool.false_eq_true, ↓reduceIte]
      have h1 : Frozen s { s with finished := upd s.finished n true } := fun _ h => ⟨h, rfl⟩
      exact h1.trans (completeUp_frozen _ _ _)
  | tick dt => exact fun _ h => ⟨h, rfl⟩

theorem run_frozen : ∀ (ops : List Op) (s : Sys), Frozen s (run s ops)
  | [], s => Frozen.refl s
  | op :: ops, s => by
    simpa [run] using (step_frozen s op).trans (run_frozen ops (step s op))

/-! ### registered subtrees -/

theorem sub_finished (s : Sys) (h : Inv s) {n m : Nat} (hs : InSub s n m) :
    s.completed n = true → s.finished m = true := by
  induction hs with
  | refl n =>
    intro hc
    have := h.law n; simp only [Law, able] at this
    rw [this] at hc; simp at hc; exact hc.1
  | @step n c m hcn _ ih =>
    intro hc
    have := h.law n; simp only [Law, able] at this
    rw [this] at hc; simp at hc
    exact ih (hc.2 c hcn)

theorem completed_of_sub : ∀ (k : Nat) (s : Sys), Inv s → ∀ n, s.size - n ≤ k →
    (∀ m, InSub s n m → s.finished m = true) → s.completed n = true
  | 0, s, h, n, hk, hall => by
    have hf := hall n (.refl n)
    have := (h.shape.fresh n (by omega)).1
    simp [this] at hf
  | k + 1, s, h, n, hk, hall => by
    have hlaw := h.law n
    simp only [Law, able] at hlaw
    rw [hlaw]
    simp only [Bool.and_eq_true, List.all_eq_true]
    refine ⟨hall n (.refl n), ?_⟩
    intro c hc
    have hp := h.shape.parent_lt c n (h.shape.nested_parent n c hc)
    exact completed_of_sub k s h c (by omega) (fun m hm => hall m (.step hc hm))

/-! ### lexical nesting versus registration -/

theorem InSub.trans {s : Sys} {a b c : Nat} (h1 : InSub s a b) (h2 : InSub s b c) : InSub s a c := by
  induction h1 with
  | refl _ => exact h2
  | step hm _ ih => exact .step hm (ih h2)

theorem InSub.snoc {s : Sys} {a q c : Nat} (h1 : InSub s a q) (h2 : c ∈ s.nested q) : InSub s a c :=
  h1.trans (.step h2 (.refl c))

/-- the last edge of a path in the registered tree -/
theorem InSub.last {s : Sys} {a c : Nat} (h : InSub s a c) :
    a = c ∨ ∃ r, c ∈ s.nested r ∧ InSub s a r := by
  induction h with
  | refl _ => exact .inl rfl
  | @step n x m hm _ ih =>
    rcases ih with ih | ⟨r, hr, hs⟩
    · subst ih; exact .inr ⟨n, hm, .refl n⟩
    · exact .inr ⟨r, hr, .step hm hs⟩

theorem InSub.of_nil {s : Sys} {a c : Nat} (hn : s.nested a = []) (h : InSub s a c) : a = c := by
  cases h with
  | refl _ => rfl
  | step hm _ => rw [hn] at hm; simp at hm

theorem InSub.mono {s t : Sys} (hn : ∀ n x, x ∈ s.nested n → x ∈ t.nested n) {a c : Nat}
    (h : InSub s a c) : InSub t a c := by
  induction h with
  | refl _ => exact .refl _
  | step hm _ ih => exact .step (hn _ _ hm) ih

theorem LexAnc.mono {s t : Sys} (hl : ∀ c p, s.lex c = some p → t.lex c = some p) {a c : Nat}
    (h : LexAnc s a c) : LexAnc t a c := by
  induction h with
  | parent h => exact .parent (hl _ _ h)
  | up h _ ih => exact .up (hl _ _ h) ih

theorem LexAnc.lt {s : Sys} (hs : Shape s) {a c : Nat} (h : LexAnc s a c) : a < c ∧ c < s.size := by
  induction h with
  | parent h => exact hs.lex_lt _ _ h
  | up h _ ih => have := hs.lex_lt _ _ h; omega

/-- completion of a registered ancestor implies completion of the descendant -/
theorem sub_completed (s : Sys) (h : Inv s) {n m : Nat} (hs : InSub s n m) :
    s.completed n = true → s.completed m = true := by
  induction hs with
  | refl n => exact id
  | @step n c m hcn _ ih =>
    intro hc
    have := h.law n; simp only [Law, able] at this
    rw [this] at hc; simp at hc
    exact ih (hc.2 c hcn)

structure LexOk (s : Sys) : Prop where
  seen_done : ∀ c a, s.seenDone c a = true → s.completed a = true
  anc : ∀ a c, LexAnc s a c → s.seenDone c a = true ∨ InSub s a c
  sub_lex : ∀ a c, InSub s a c → a = c ∨ LexAnc s a c

theorem lexok_init : LexOk {} := by
  refine ⟨by simp, ?_, ?_⟩
  · intro a c h; cases h with
    | parent h => simp at h
    | up h _ => simp at h
  · intro a c h; cases h with
    | refl _ => exact .inl rfl
    | step hm _ => simp at hm

/-- the adopting scope is the current scope or one of its registered ancestors -/
theorem adopter_anc (s : Sys) (h : Inv s) : ∀ (fuel p0 q : Nat),
    adopter s fuel (some p0) = some (some q) → InSub s q p0
  | 0, _, _, hq => by simp [adopter] at hq
  | fuel + 1, p0, q, hq => by
    by_cases hc : s.completed p0
    · simp only [adopter, hc, ↓reduceIte] at hq
      cases hp : s.parent p0 with
      | none => rw [hp] at hq; simp [adopter] at hq
      | some r =>
        rw [hp] at hq
        exact (adopter_anc s h fuel r q hq).snoc (h.shape.parent_nested p0 r hp)
    · simp only [adopter, hc, Bool.false_eq_true, ↓reduceIte, Option.some.injEq] at hq
      subst hq; exact .refl _

/-- an open registered ancestor of the current scope is at or above the adopting scope -/
theorem adopter_sub (s : Sys) (h : Inv s) : ∀ (fuel p0 a : Nat) (areg : Option Nat),
    InSub s a p0 → s.completed a = false → adopter s fuel (some p0) = some areg →
    ∃ q, areg = some q ∧ InSub s a q
  | 0, _, _, _, _, _, hq => by simp [adopter] at hq
  | fuel + 1, p0, a, areg, hs, ha, hq => by
    by_cases hc : s.completed p0
    · simp only [adopter, hc, ↓reduceIte] at hq
      rcases hs.last with heq | ⟨r, hr, hsr⟩
      · subst heq; simp [hc] at ha
      · have hp := h.shape.nested_parent r p0 hr
        rw [hp] at hq
        exact adopter_sub s h fuel r a areg hsr ha hq
    · simp only [adopter, hc, Bool.false_eq_true, ↓reduceIte, Option.some.injEq] at hq
      subst hq; exact ⟨p0, rfl, hs⟩

theorem register_nested_mono (s : Sys) (p a : Option Nat) :
    ∀ n x, x ∈ s.nested n → x ∈ (register s p a).nested n := by
  intro n x hx
  cases a with
  | none => exact hx
  | some q =>
    simp only [register, upd]
    by_cases hnq : n = q
    · subst hnq; simp [hx]
    · simp [hnq, hx]

theorem register_lex_mono (s : Sys) (hs : Shape s) (p a : Option Nat) :
    ∀ c q, s.lex c = some q → (register s p a).lex c = some q := by
  intro c q hc
  have hne : c ≠ s.size := by have := hs.lex_lt c q hc; omega
  cases a <;> simp [register, upd, hne, hc]

theorem register_lex (s : Sys) (p a : Option Nat) (c : Nat) :
    (register s p a).lex c = if c = s.size then p else s.lex c := by
  cases a <;> simp [register, upd]

theorem register_seen (s : Sys) (p a : Option Nat) (c x : Nat) :
    (register s p a).seenDone c x = if c = s.size then s.completed x else s.seenDone c x := by
  cases a <;> simp only [register, upd] <;> split <;> rfl

theorem register_completed (s : Sys) (p a : Option Nat) : (register s p a).completed = s.completed := by
  cases a <;> rfl

/-- paths of the registered tree after a construction: old targets have old paths, the new node hangs
under the adopting scope -/
theorem register_sub_old (s : Sys) (hs : Shape s) (p a : Option Nat)
    (ha : ∀ q, a = some q → q < s.size) {x c : Nat}
    (h : InSub (register s p a) x c) : c ≠ s.size → InSub s x c := by
  induction h with
  | refl _ => intro _; exact .refl _
  | @step n y m hm hrest ih =>
    intro hc
    have hrest' := ih hc
    have hy : y ≠ s.size := by
      intro hy
      subst hy
      exact hc (hrest'.of_nil (hs.fresh _ (Nat.le_refl _)).2.2.1).symm
    have : y ∈ s.nested n := by
      cases a with
      | none => exact hm
      | some q =>
        simp only [register, upd] at hm
        by_cases hnq : n = q
        · simp only [hnq, ↓reduceIte, List.mem_append, List.mem_singleton] at hm
          rcases hm with hm | hm
          · exact hnq ▸ hm
          · exact absurd hm hy
        · simpa [hnq] using hm
    exact .step this hrest'

theorem register_sub_new (s : Sys) (hs : Shape s) (p a : Option Nat)
    (ha : ∀ q, a = some q → q < s.size) {x : Nat}
    (h : InSub (register s p a) x s.size) : x = s.size ∨ ∃ q, a = some q ∧ InSub s x q := by
  rcases h.last with heq | ⟨r, hr, hsr⟩
  · exact .inl heq
  · right
    cases a with
    | none =>
      have : s.size ∈ s.nested r := hr
      have := hs.parent_lt _ _ (hs.nested_parent r _ this); omega
    | some q =>
      simp only [register, upd] at hr
      by_cases hrq : r = q
      · subst hrq
        have hne : r ≠ s.size := by have := ha r rfl; omega
        exact ⟨r, rfl, register_sub_old s hs p (some r) ha hsr hne⟩
      · simp only [hrq, ↓reduceIte] at hr
        have := hs.parent_lt _ _ (hs.nested_parent r _ hr); omega

theorem register_lexanc_old (s : Sys) (hs : Shape s) (p a : Option Nat) {x c : Nat}
    (h : LexAnc (register s p a) x c) : c ≠ s.size → LexAnc s x c := by
  induction h with
  | parent hl =>
    intro hc
    rw [register_lex] at hl; simp only [hc, ↓reduceIte] at hl
    exact .parent hl
  | up hl _ ih =>
    intro hc
    rw [register_lex] at hl; simp only [hc, ↓reduceIte] at hl
    have := hs.lex_lt _ _ hl
    exact .up hl (ih (by omega))

theorem register_lexok (s : Sys) (p : Option Nat) (a : Option Nat) (h : Inv s) (hl : LexOk s)
    (hp : ∀ q, p = some q → q < s.size) (hadopt : adopter s s.size p = some a)
    (ha : ∀ q, a = some q → q < s.size ∧ s.completed q = false) :
    LexOk (register s p a) := by
  have hs := h.shape
  have ha' : ∀ q, a = some q → q < s.size := fun q hq => (ha q hq).1
  refine ⟨?_, ?_, ?_⟩
  · intro c x hcx
    rw [register_seen] at hcx
    rw [register_completed]
    by_cases hc : c = s.size
    · simpa [hc] using hcx
    · simp only [hc, ↓reduceIte] at hcx; exact hl.seen_done c x hcx
  · intro x c hxc
    rw [register_seen]
    by_cases hc : c = s.size
    · subst hc
      simp only [↓reduceIte]
      by_cases hx : s.completed x
      · exact .inl hx
      · right
        have hx' : s.completed x = false := by simpa using hx
        -- the lexical parent of the new node
        have hpar : ∃ p0, p = some p0 ∧ InSub s x p0 := by
          cases hxc with
          | parent hlx =>
            rw [register_lex] at hlx; simp only [↓reduceIte] at hlx
            exact ⟨x, hlx, .refl x⟩
          | up hlx hrest =>
            rename_i q
            rw [register_lex] at hlx; simp only [↓reduceIte] at hlx
            have hq := hp q hlx
            have hrest' := register_lexanc_old s hs p a hrest (by omega)
            rcases hl.anc x q hrest' with hsd | hsub
            · have := hl.seen_done q x hsd; simp [this] at hx'
            · exact ⟨q, hlx, hsub⟩
        obtain ⟨p0, hp0, hsub⟩ := hpar
        subst hp0
        obtain ⟨q, hq, hxq⟩ := adopter_sub s h s.size p0 x a hsub hx' hadopt
        subst hq
        have hmem : s.size ∈ (register s (some p0) (some q)).nested q := by
          simp [register, upd]
        exact (hxq.mono (register_nested_mono s (some p0) (some q))).snoc hmem
    · simp only [hc, ↓reduceIte]
      have := register_lexanc_old s hs p a hxc hc
      rcases hl.anc x c this with h1 | h1
      · exact .inl h1
      · exact .inr (h1.mono (register_nested_mono s p a))
  · intro x c hxc
    by_cases hc : c = s.size
    · subst hc
      rcases register_sub_new s hs p a ha' hxc with heq | ⟨q, hq, hxq⟩
      · exact .inl heq
      · right
        subst hq
        -- `p` is some `p0` and `q` is at or above it
        cases p with
        | none => simp [adopter] at hadopt
        | some p0 =>
          have hqp := adopter_anc s h s.size p0 q hadopt
          have hlexnew : (register s (some p0) (some q)).lex s.size = some p0 := by
            rw [register_lex]; simp
          rcases hl.sub_lex x p0 (hxq.trans hqp) with heq | hanc
          · subst heq; exact .parent hlexnew
          · exact .up hlexnew (hanc.mono (register_lex_mono s hs (some p0) (some q)))
    · have := register_sub_old s hs p a ha' hxc hc
      rcases hl.sub_lex x c this with h1 | h1
      · exact .inl h1
      · exact .inr (h1.mono (register_lex_mono s hs p a))

theorem completeUp_static : ∀ (fuel : Nat) (s : Sys) (k : Nat),
    (completeUp s k fuel).nested = s.nested ∧ (completeUp s k fuel).lex = s.lex ∧
    (completeUp s k fuel).seenDone = s.seenDone
  | 0, _, _ => ⟨rfl, rfl, rfl⟩
  | fuel + 1, s, k => by
    rw [completeUp_succ]
    by_cases hc : s.completed k
    · simp [hc]
    · simp only [hc, Bool.false_eq_true, ↓reduceIte]
      by_cases ha : able s k
      · simp only [ha, ↓reduceIte]
        cases s.parent k with
        | none => exact ⟨rfl, rfl, rfl⟩
        | some p => exact completeUp_static fuel (mark s k) p
      · simp [ha]

theorem lexok_congr {s t : Sys} (hn : t.nested = s.nested) (hx : t.lex = s.lex) (hd : t.seenDone = s.seenDone)
    (hc : ∀ n, s.completed n = true → t.completed n = true) (hl : LexOk s) : LexOk t := by
  have e1 : ∀ {a c}, InSub t a c → InSub s a c := fun h => h.mono (by rw [hn]; exact fun _ _ h => h)
  have e2 : ∀ {a c}, InSub s a c → InSub t a c := fun h => h.mono (by rw [hn]; exact fun _ _ h => h)
  have f1 : ∀ {a c}, LexAnc t a c → LexAnc s a c := fun h => h.mono (by rw [hx]; exact fun _ _ h => h)
  have f2 : ∀ {a c}, LexAnc s a c → LexAnc t a c := fun h => h.mono (by rw [hx]; exact fun _ _ h => h)
  refine ⟨?_, ?_, ?_⟩
  · intro c a h; rw [hd] at h; exact hc a (hl.seen_done c a h)
  · intro a c h
    rcases hl.anc a c (f1 h) with h1 | h1
    · left; rw [hd]; exact h1
    · exact .inr (e2 h1)
  · intro a c h
    rcases hl.sub_lex a c (e1 h) with h1 | h1
    · exact .inl h1
    · exact .inr (f2 h1)

theorem step_lexok (s : Sys) (op : Op) (h : Inv s) (hw : wfOp s op = true) (hl : LexOk s) :
    LexOk (step s op) := by
  cases op with
  | create p =>
    have hp : ∀ q, p = some q → q < s.size := by intro q hq; subst hq; simpa [wfOp] using hw
    obtain ⟨a, ha, hok⟩ := adopter_ok s h s.size p (fun q hq => ⟨hp q hq, hp q hq⟩)
    simp only [step, create, ha]
    exact register_lexok s p a h hl hp ha hok
  | enter n =>
    simp only [step, enter]
    split <;> exact lexok_congr (s := s) rfl rfl rfl (fun _ h => h) hl
  | finish n =>
    have hfz := step_frozen s (.finish n)
    simp only [step, finish] at hfz ⊢
    by_cases hc : (s.completed n || s.finished n)
    · simp only [hc, ↓reduceIte]; exact lexok_congr (s := s) rfl rfl rfl (fun _ h => h) hl
    · simp only [hc, Bool.false_eq_true, ↓reduceIte] at hfz ⊢
      have hst := completeUp_static (n + 1) { s with finished := upd s.finished n true } n
      exact lexok_congr (s := s) hst.1 hst.2.1 hst.2.2 (fun m hm => (hfz m hm).1) hl
  | tick dt => exact lexok_congr (s := s) rfl rfl rfl (fun _ h => h) hl

theorem run_lexok : ∀ (ops : List Op) (s : Sys), Inv s → LexOk s → wf s ops = true → LexOk (run s ops)
  | [], _, _, hl, _ => hl
  | op :: ops, s, h, hl, hw => by
    simp only [wf, Bool.and_eq_true] at hw
    simpa [run] using
      run_lexok ops (step s op) (step_inv s op h hw.1) (step_lexok s op h hw.1 hl) hw.2

/-- every state reached by well-formed API use satisfies both invariants -/
theorem reach (ops : List Op) (hw : wf {} ops = true) : Inv (run {} ops) ∧ LexOk (run {} ops) :=
  ⟨run_inv ops {} inv_init hw, run_lexok ops {} inv_init lexok_init hw⟩

end Haiway.Completion
