import Haiway.Model.Disposables
/-! Counting lemmas for C08. -/
namespace Haiway.Disposables

@[simp] theorem count_nil (p : Ev → Bool) : count [] p = 0 := rfl
@[simp] theorem count_append (a b : List Ev) (p : Ev → Bool) : count (a ++ b) p = count a p + count b p := by
  simp [count, List.filter_append]
@[simp] theorem count_cons (e : Ev) (a : List Ev) (p : Ev → Bool) :
    count (e :: a) p = (if p e then 1 else 0) + count a p := by
  simp only [count, List.filter_cons]; split <;> simp <;> omega

theorem enterEvs_count (ds : List Disp) (i d : Nat) :
    count (enterEvs i ds) (isEnter d) = if i ≤ d ∧ d < i + ds.length then 1 else 0 := by
  induction ds generalizing i with
  | nil => simp [enterEvs]
  | cons x xs ih =>
    simp only [enterEvs, count_cons, ih, isEnter, List.length_cons]
    by_cases h : i = d
    · subst h; simp; omega
    · have : (i == d) = false := by simp [h]
      simp only [this, Bool.false_eq_true, ↓reduceIte, Nat.zero_add]
      split <;> split <;> first | rfl | omega

theorem enterEvs_no_exit (ds : List Disp) (i d : Nat) : count (enterEvs i ds) (isExit d) = 0 := by
  induction ds generalizing i with
  | nil => simp [enterEvs]
  | cons x xs ih => simp [enterEvs, ih, isExit]

theorem exitEvs_no_enter (exc : Bool) (ds : List Disp) (i d : Nat) : count (exitEvs exc i ds) (isEnter d) = 0 := by
  induction ds generalizing i with
  | nil => simp [exitEvs]
  | cons x xs ih => simp only [exitEvs, count_append, ih]; split <;> simp [isEnter]

theorem exitEvs_count (exc : Bool) (ds : List Disp) (i d : Nat) :
    count (exitEvs exc i ds) (isExit d) =
      if i ≤ d ∧ d < i + ds.length ∧ (ds[d - i]?).map (·.enter) = some .entered then 1 else 0 := by
  induction ds generalizing i with
  | nil => simp [exitEvs]
  | cons x xs ih =>
    simp only [exitEvs, count_append, ih, List.length_cons]
    by_cases h : i = d
    · subst h
      by_cases hx : x.enter = .entered
      · simp [hx, isExit]; omega
      · simp [hx]; omega
    · have hne : (i == d) = false := by simp [h]
      have h0 : count (if x.enter = .entered then [Ev.exitCall i exc] else []) (isExit d) = 0 := by
        split <;> simp [isExit, hne]
      rw [h0, Nat.zero_add]
      by_cases hlt : i < d
      · have hidx : d - i = (d - (i + 1)) + 1 := by omega
        simp only [hidx, List.getElem?_cons_succ]
        by_cases hP : (xs[d - (i + 1)]?).map (·.enter) = some EnterOut.entered
        · simp only [hP, and_true]; split <;> split <;> first | rfl | omega
        · simp [hP]
      · have : ¬ (i ≤ d) := by omega
        have : ¬ (i + 1 ≤ d) := by omega
        simp [*]

theorem enterEvs_no_body (ds : List Disp) (i : Nat) : count (enterEvs i ds) isBody = 0 := by
  induction ds generalizing i with
  | nil => simp [enterEvs]
  | cons x xs ih => simp [enterEvs, ih, isBody]

theorem exitEvs_no_body (exc : Bool) (ds : List Disp) (i : Nat) : count (exitEvs exc i ds) isBody = 0 := by
  induction ds generalizing i with
  | nil => simp [exitEvs]
  | cons x xs ih => simp only [exitEvs, count_append, ih]; split <;> simp [isBody]

end Haiway.Disposables
