import Haiway.Model.Disposables
/-! Counting lemmas for C08. -/
namespace Haiway.Disposables

@[simp] theorem count_nil (p : Ev → Bool) : count [] p = 0 := rfl
@[simp] theorem count_append (a b : List Ev) (p : Ev → Bool) : count (a ++ b) p = count a p + count b p := by
  simp [count, List.filter_append]
@[simp] theorem count_cons (e : Ev) (a : List Ev) (p : Ev → Bool) :
    count (e :: a) p = (if p e then 1 else 0) + count a p := by
  simp only [count, List.filter_cons]; split <;> simp <;> omega

theorem enterEvs_count (ds : List Disp) (i d : Nat) :
    count (enterEvs i ds) (isEnter d) = if i ≤ d ∧ d < i + ds.length then 1 else 0 := by
  induction ds generalizing i with
  | nil => simp [enterEvs]
  | cons x xs ih =>
    simp only [enterEvs, count_cons, ih, isEnter, List.length_cons]
    by_cases h : i = d
    · subst h; simp; omega
    · have : (i == d) = false := by simp [h]
      simp only [this, Bool.false_eq_true, ↓reduceIte, Nat.zero_add]
      split <;> split <;> first | rfl | omega

theorem enterEvs_no_exit (ds : List Disp) (i d : Nat) : count (enterEvs i ds) (isExit d) = 0 := by
  induction ds generalizing i with
  | nil => simp [enterEvs]
  | cons x xs ih => simp [enterEvs, ih, isExit]

theorem exitEvs_no_enter (exc : Bool) (ds : List Disp) (i d : Nat) : count (exitEvs exc i ds) (isEnter d) = 0 := by
  induction ds generalizing i with
  | nil => simp [exitEvs]
  | cons x xs ih => simp only [exitEvs, count_append, ih]; split <;> simp [isEnter]

theorem exitEvs_count (exc : Bool) (ds : List Disp) (i d : Nat) :
    count (exitEvs exc i ds) (isExit d) =
      if i ≤ d ∧ d < i + ds.length ∧ (ds[d - i]?).map (·.enter) = some .entered then 1 else 0 := by
  induction ds generalizing i with
  | nil => simp [exitEvs]
  | cons x xs ih =>
    simp only [exitEvs, count_append, ih, List.length_cons]
    by_cases h : i = d
    · subst h
      by_cases hx : x.enter = .entered
      · simp [hx, isExit]; omega
      · simp [hx]; omega
    · have hne : (i == d) = false := by simp [h]
      have h0 : count (if x.enter = .entered then [Ev.exitCall i exc] else []) (isExit d) = 0 := by
        split <;> simp [isExit, hne]
      rw [h0, Nat.zero_add]
      by_cases hlt : i < d
      · have hidx : d - i = (d - (i + 1)) + 1 := by omega
        simp only [hidx, List.getElem?_cons_succ]
        by_cases hP : (xs[d - (i + 1)]?).map (·.enter) = some EnterOut.entered
        · simp only [hP, and_true]; split <;> split <;> first | rfl | omega
        · simp [hP]
      · have : ¬ (i ≤ d) := by omega
        have : ¬ (i + 1 ≤ d) := by omega
        simp [*]

theorem enterEvs_no_body (ds : List Disp) (i : Nat) : count (enterEvs i ds) isBody = 0 := by
  induction ds generalizing i with
  | nil => simp [enterEvs]
  | cons x xs ih => simp [enterEvs, ih, isBody]

theorem exitEvs_no_body (exc : Bool) (ds : List Disp) (i : Nat) : count (exitEvs exc i ds) isBody = 0 := by
  induction ds generalizing i with
  | nil => simp [exitEvs]
  | cons x xs ih => simp only [exitEvs, count_append, ih]; split <;> simp [isBody]

theorem exitArgs_enterEvs (ds : List Disp) (i : Nat) : exitArgs (enterEvs i ds) = [] := by
  induction ds generalizing i with
  | nil => simp [enterEvs, exitArgs]
  | cons x xs ih => simpa [enterEvs, exitArgs] using ih (i + 1)

theorem exitArgs_exitEvs (exc : Bool) (ds : List Disp) (i : Nat) : ∀ w ∈ exitArgs (exitEvs exc i ds), w = exc := by
  induction ds generalizing i with
  | nil => simp [exitEvs, exitArgs]
  | cons x xs ih =>
    intro w hw
    simp only [exitEvs, exitArgs, List.filterMap_append, List.mem_append] at hw
    rcases hw with hw | hw
    · split at hw <;> simp at hw; exact hw
    · exact ih (i + 1) w hw

theorem phase_enterEvs (ds : List Disp) (i : Nat) : ∀ e ∈ enterEvs i ds, phase e = 0 := by
  induction ds generalizing i with
  | nil => simp [enterEvs]
  | cons x xs ih =>
    intro e he
    simp only [enterEvs, List.mem_cons] at he
    rcases he with rfl | he
    · rfl
    · exact ih (i + 1) e he

theorem phase_exitEvs (exc : Bool) (ds : List Disp) (i : Nat) : ∀ e ∈ exitEvs exc i ds, phase e = 2 := by
  induction ds generalizing i with
  | nil => simp [exitEvs]
  | cons x xs ih =>
    intro e he
    simp only [exitEvs, List.mem_append] at he
    rcases he with he | he
    · split at he <;> simp at he; subst he; rfl
    · exact ih (i + 1) e he

theorem pairwise_of_const (l : List Ev) (k : Nat) (h : ∀ e ∈ l, phase e = k) :
    (l.map phase).Pairwise (· ≤ ·) := by
  induction l with
  | nil => simp
  | cons x xs ih =>
    simp only [List.map_cons, List.pairwise_cons, List.mem_map]
    refine ⟨?_, ih (fun e he => h e (List.mem_cons_of_mem _ he))⟩
    rintro _ ⟨e, he, rfl⟩
    rw [h x (List.mem_cons_self ..), h e (List.mem_cons_of_mem _ he)]
    exact Nat.le_refl _

end Haiway.Disposables
