import Haiway.Model.Groups
/-! Structural invariants of the task-group LTS `Haiway.Groups` (used by C06 and C07). -/
namespace Haiway.Groups

/-! ### projections of the primitive updates -/

@[simp] theorem upd_same {α} (f : Nat → α) (i : Nat) (v : α) : upd f i v i = v := by simp [upd]
theorem upd_other {α} (f : Nat → α) (i j : Nat) (v : α) (h : j ≠ i) : upd f i v j = f j := by simp [upd, h]
theorem upd_apply {α} (f : Nat → α) (i j : Nat) (v : α) : upd f i v j = if j = i then v else f j := rfl

@[simp] theorem setTask_tasks (s : Sys) (t : Nat) (T : Task) (c : Nat) :
    (setTask s t T).tasks c = if c = t then T else s.tasks c := rfl
@[simp] theorem setTask_groups (s : Sys) (t : Nat) (T : Task) : (setTask s t T).groups = s.groups := rfl
@[simp] theorem setTask_released (s : Sys) (t : Nat) (T : Task) : (setTask s t T).released = s.released := rfl
@[simp] theorem setGroup_groups (s : Sys) (g : Nat) (G : Group) (g' : Nat) :
    (setGroup s g G).groups g' = if g' = g then G else s.groups g' := rfl
@[simp] theorem setGroup_tasks (s : Sys) (g : Nat) (G : Group) : (setGroup s g G).tasks = s.tasks := rfl
@[simp] theorem setGroup_released (s : Sys) (g : Nat) (G : Group) : (setGroup s g G).released = s.released := rfl

theorem requestCancel_eq (T : Task) :
    requestCancel T = if isLive T then { T with cancelReq := T.cancelReq + 1, mustCancel := true, touched := true, asks := T.asks + 1 } else T := rfl

@[simp] theorem requestCancel_status (T : Task) : (requestCancel T).status = T.status := by
  unfold requestCancel; split <;> rfl
@[simp] theorem requestCancel_frames (T : Task) : (requestCancel T).frames = T.frames := by
  unfold requestCancel; split <;> rfl
@[simp] theorem requestCancel_base (T : Task) : (requestCancel T).base = T.base := by
  unfold requestCancel; split <;> rfl
@[simp] theorem requestCancel_member (T : Task) : (requestCancel T).member = T.member := by
  unfold requestCancel; split <;> rfl
@[simp] theorem requestCancel_owed (T : Task) : (requestCancel T).owed = T.owed := by
  unfold requestCancel; split <;> rfl
@[simp] theorem requestCancel_isDone (T : Task) : isDone (requestCancel T) = isDone T := by simp [isDone]
@[simp] theorem requestCancel_isLive (T : Task) : isLive (requestCancel T) = isLive T := by simp [isLive]
theorem requestCancel_must (T : Task) (h : isLive T = true) : (requestCancel T).mustCancel = true := by
  simp [requestCancel, h]
theorem requestCancel_must_mono (T : Task) (h : T.mustCancel = true) : (requestCancel T).mustCancel = true := by
  unfold requestCancel; split <;> simp [h]
theorem requestCancel_asks (T : Task) (h : isLive T = true) : 0 < (requestCancel T).asks := by
  simp [requestCancel, h]
theorem requestCancel_asks_mono (T : Task) : T.asks ≤ (requestCancel T).asks := by
  unfold requestCancel; split <;> simp
theorem requestCancel_cancelReq_mono (T : Task) : T.cancelReq ≤ (requestCancel T).cancelReq := by
  unfold requestCancel; split <;> simp
theorem requestCancel_touched (T : Task) (h : T.touched = true) : (requestCancel T).touched = true := by
  unfold requestCancel; split <;> simp [h]

@[simp] theorem requestParentCancel_status (T : Task) : (requestParentCancel T).status = T.status := by
  unfold requestParentCancel; split <;> rfl
@[simp] theorem requestParentCancel_frames (T : Task) : (requestParentCancel T).frames = T.frames := by
  unfold requestParentCancel; split <;> rfl
@[simp] theorem requestParentCancel_base (T : Task) : (requestParentCancel T).base = T.base := by
  unfold requestParentCancel; split <;> rfl
@[simp] theorem requestParentCancel_member (T : Task) : (requestParentCancel T).member = T.member := by
  unfold requestParentCancel; split <;> rfl
@[simp] theorem requestParentCancel_owed (T : Task) : (requestParentCancel T).owed = T.owed := by
  unfold requestParentCancel; split <;> rfl
@[simp] theorem requestParentCancel_asks (T : Task) : (requestParentCancel T).asks = T.asks := by
  unfold requestParentCancel; split <;> rfl
@[simp] theorem requestParentCancel_isDone (T : Task) : isDone (requestParentCancel T) = isDone T := by simp [isDone]
@[simp] theorem requestParentCancel_isLive (T : Task) : isLive (requestParentCancel T) = isLive T := by simp [isLive]
theorem requestParentCancel_must_mono (T : Task) (h : T.mustCancel = true) : (requestParentCancel T).mustCancel = true := by
  unfold requestParentCancel; split <;> simp [h]

@[simp] theorem abort_tasks (s : Sys) (g c : Nat) :
    (abort s g).tasks c = if c ∈ (s.groups g).members then requestCancel (s.tasks c) else s.tasks c := rfl
@[simp] theorem abort_groups (s : Sys) (g g' : Nat) :
    (abort s g).groups g' = if g' = g then { s.groups g with aborting := true } else s.groups g' := rfl
@[simp] theorem abort_released (s : Sys) (g : Nat) : (abort s g).released = s.released := rfl

theorem abort_status (s : Sys) (g c : Nat) : ((abort s g).tasks c).status = (s.tasks c).status := by
  simp only [abort_tasks]; split <;> simp
theorem abort_frames (s : Sys) (g c : Nat) : ((abort s g).tasks c).frames = (s.tasks c).frames := by
  simp only [abort_tasks]; split <;> simp
theorem abort_base (s : Sys) (g c : Nat) : ((abort s g).tasks c).base = (s.tasks c).base := by
  simp only [abort_tasks]; split <;> simp
theorem abort_member (s : Sys) (g c : Nat) : ((abort s g).tasks c).member = (s.tasks c).member := by
  simp only [abort_tasks]; split <;> simp
theorem abort_owed (s : Sys) (g c : Nat) : ((abort s g).tasks c).owed = (s.tasks c).owed := by
  simp only [abort_tasks]; split <;> simp
theorem abort_isDone (s : Sys) (g c : Nat) : isDone ((abort s g).tasks c) = isDone (s.tasks c) := by
  simp only [abort_tasks]; split <;> simp
theorem abort_isLive (s : Sys) (g c : Nat) : isLive ((abort s g).tasks c) = isLive (s.tasks c) := by
  simp only [abort_tasks]; split <;> simp
theorem abort_members (s : Sys) (g g' : Nat) : ((abort s g).groups g').members = (s.groups g').members := by
  simp only [abort_groups]; split <;> simp_all
theorem abort_owner (s : Sys) (g g' : Nat) : ((abort s g).groups g').owner = (s.groups g').owner := by
  simp only [abort_groups]; split <;> simp_all
theorem abort_entered (s : Sys) (g g' : Nat) : ((abort s g).groups g').entered = (s.groups g').entered := by
  simp only [abort_groups]; split <;> simp_all
theorem abort_asks_mono (s : Sys) (g c : Nat) : (s.tasks c).asks ≤ ((abort s g).tasks c).asks := by
  simp only [abort_tasks]; split
  · exact requestCancel_asks_mono _
  · exact Nat.le_refl _

theorem isLive_not_done (T : Task) (h : isLive T = true) : isDone T = false := by
  unfold isLive at h; unfold isDone; cases hs : T.status <;> simp_all


theorem isLive_not_absent (T : Task) (h : isLive T = true) : T.status ≠ .absent := by
  unfold isLive at h; intro hs; simp [hs] at h

theorem asyncGroups_cons (f : Frame) (fs : List Frame) :
    asyncGroups (f :: fs) = if f.isAsync then f.block :: asyncGroups fs else asyncGroups fs := rfl

/-! ### the structural invariant -/

structure Wf (s : Sys) : Prop where
  absent : ∀ c, (s.tasks c).status = .absent → s.tasks c = {}
  unentered : ∀ g, (s.groups g).entered = false → s.groups g = {}
  frames_owner : ∀ t g, g ∈ asyncGroups (s.tasks t).frames → (s.groups g).owner = t ∧ (s.groups g).entered = true
  base_entered : ∀ t g, (s.tasks t).base = some g → (s.groups g).entered = true
  member_base : ∀ t g, (s.tasks t).member = some g → (s.tasks t).base = some g
  wait_top : ∀ t b susp, (s.tasks t).status = .exitWait b susp → ∃ rest, (s.tasks t).frames = ⟨b, true⟩ :: rest
  /-- only tasks spawned into a group are listed in it -/
  listed : ∀ g c, c ∈ (s.groups g).members → (s.tasks c).member = some g ∧ (s.tasks c).status ≠ .absent
  /-- every task spawned into a group and not yet done is still listed in it -/
  mem : ∀ c g, (s.tasks c).member = some g → isDone (s.tasks c) = false → c ∈ (s.groups g).members
  /-- once a group aborts, every live member has been asked to cancel -/
  aborted : ∀ g c, (s.groups g).aborting = true → c ∈ (s.groups g).members → isLive (s.tasks c) = true →
    0 < (s.tasks c).asks

/-- `T'` is `T` after a step that neither creates the task nor changes what it is spawned into / inherits / its
entered async scopes, and that starts a group-exit wait only for the innermost entered async scope -/
structure TaskQuiet (T T' : Task) : Prop where
  agroups : asyncGroups T'.frames = asyncGroups T.frames
  base : T'.base = T.base
  member : T'.member = T.member
  absent : T.status = .absent → T' = T
  absent' : T'.status = .absent → T.status = .absent
  done : isDone T = true → isDone T' = true
  live : isLive T' = true → isLive T = true
  wait : ∀ b susp, T'.status = .exitWait b susp →
    T'.frames = T.frames ∧ ((∃ susp', T.status = .exitWait b susp') ∨ ∃ rest, T.frames = ⟨b, true⟩ :: rest)
  asks : T.asks ≤ T'.asks

structure GroupQuiet (G G' : Group) : Prop where
  owner : G'.owner = G.owner
  entered : G'.entered = G.entered
  members : G'.members = G.members
  unentered : G.entered = false → G' = G

theorem TaskQuiet.rfl' (T : Task) : TaskQuiet T T :=
  ⟨rfl, rfl, rfl, fun _ => rfl, id, id, id, fun b susp h => ⟨rfl, Or.inl ⟨susp, h⟩⟩, Nat.le_refl _⟩

theorem GroupQuiet.rfl' (G : Group) : GroupQuiet G G := ⟨rfl, rfl, rfl, fun _ => rfl⟩

/-- changing only counters / flags that the structural invariant does not read -/
theorem TaskQuiet.post {T T' T'' : Task} (h : TaskQuiet T T') (hs : T''.status = T'.status) (hf : T''.frames = T'.frames)
    (hb : T''.base = T'.base) (hm : T''.member = T'.member) (ha : T'.asks ≤ T''.asks)
    (habs : T'.status = .absent → T'' = T') : TaskQuiet T T'' where
  agroups := by rw [hf]; exact h.agroups
  base := hb.trans h.base
  member := hm.trans h.member
  absent := fun hh => by
    have h1 := h.absent hh
    have : T'.status = .absent := by rw [h1]; exact hh
    rw [habs this]; exact h1
  absent' := fun hh => h.absent' (hs ▸ hh)
  done := fun hh => by have := h.done hh; simp only [isDone, hs] at this ⊢; exact this
  live := fun hh => h.live (by simp only [isLive, hs] at hh ⊢; exact hh)
  wait := fun b susp hh => by
    obtain ⟨h1, h2⟩ := h.wait b susp (hs ▸ hh)
    exact ⟨hf.trans h1, h2⟩
  asks := Nat.le_trans h.asks ha

theorem TaskQuiet.requestCancel {T T' : Task} (h : TaskQuiet T T') : TaskQuiet T (requestCancel T') :=
  h.post (by simp) (by simp) (by simp) (by simp) (requestCancel_asks_mono _)
    (fun hh => by simp [requestCancel_eq, isLive, hh])

theorem TaskQuiet.requestParentCancel {T T' : Task} (h : TaskQuiet T T') : TaskQuiet T (requestParentCancel T') :=
  h.post (by simp) (by simp) (by simp) (by simp) (by simp)
    (fun hh => by simp [Haiway.Groups.requestParentCancel, isLive, hh])

/-- the generic preservation lemma: quiet task changes, quiet group changes, and every group that starts aborting
has asked all its live members to cancel -/
theorem Wf_quiet {s s' : Sys} (h : Wf s)
    (hT : ∀ c, TaskQuiet (s.tasks c) (s'.tasks c)) (hG : ∀ g, GroupQuiet (s.groups g) (s'.groups g))
    (hA : ∀ g c, (s'.groups g).aborting = true → (s.groups g).aborting = false → c ∈ (s.groups g).members →
      isLive (s'.tasks c) = true → 0 < (s'.tasks c).asks) : Wf s' where
  absent := fun c hc => by
    have h1 := (hT c).absent' hc
    rw [(hT c).absent h1]; exact h.absent c h1
  unentered := fun g hg => by
    have h1 : (s.groups g).entered = false := by rw [← (hG g).entered]; exact hg
    rw [(hG g).unentered h1]; exact h.unentered g h1
  frames_owner := fun t g hg => by
    rw [(hT t).agroups] at hg
    have := h.frames_owner t g hg
    rw [(hG g).owner, (hG g).entered]; exact this
  base_entered := fun t g hb => by
    rw [(hT t).base] at hb; rw [(hG g).entered]; exact h.base_entered t g hb
  member_base := fun t g hm => by
    rw [(hT t).member] at hm; rw [(hT t).base]; exact h.member_base t g hm
  wait_top := fun t b susp hw => by
    obtain ⟨hf, hc⟩ := (hT t).wait b susp hw
    rw [hf]
    rcases hc with ⟨susp', hc⟩ | hc
    · exact h.wait_top t b susp' hc
    · exact hc
  listed := fun g c hc => by
    rw [(hG g).members] at hc
    obtain ⟨h1, h2⟩ := h.listed g c hc
    exact ⟨by rw [(hT c).member]; exact h1, fun ha => h2 ((hT c).absent' ha)⟩
  mem := fun c g hm hd => by
    rw [(hT c).member] at hm
    rw [(hG g).members]
    refine h.mem c g hm ?_
    cases hd0 : isDone (s.tasks c) with
    | false => rfl
    | true => rw [(hT c).done hd0] at hd; cases hd
  aborted := fun g c ha hc hl => by
    cases hab : (s.groups g).aborting with
    | true =>
      rw [(hG g).members] at hc
      exact Nat.lt_of_lt_of_le (h.aborted g c hab hc ((hT c).live hl)) (hT c).asks
    | false =>
      rw [(hG g).members] at hc
      exact hA g c ha hab hc hl

theorem Wf_setTask {s : Sys} (h : Wf s) (t : Nat) (T' : Task) (hq : TaskQuiet (s.tasks t) T') : Wf (setTask s t T') :=
  Wf_quiet h (fun c => by
      simp only [setTask_tasks]; split
      · rename_i hc; subst hc; exact hq
      · exact TaskQuiet.rfl' _)
    (fun g => GroupQuiet.rfl' _) (fun g c ha hb => by simp at ha; rw [ha] at hb; cases hb)


theorem Wf_setGroup {s : Sys} (h : Wf s) (g : Nat) (G' : Group) (hq : GroupQuiet (s.groups g) G')
    (ha : G'.aborting = true → (s.groups g).aborting = true) : Wf (setGroup s g G') :=
  Wf_quiet h (fun c => TaskQuiet.rfl' _)
    (fun g' => by
      simp only [setGroup_groups]; split
      · rename_i hg; subst hg; exact hq
      · exact GroupQuiet.rfl' _)
    (fun g' c h1 h2 => by
      simp only [setGroup_groups] at h1
      split at h1
      · rename_i hg; subst hg; rw [ha h1] at h2; cases h2
      · rw [h1] at h2; cases h2)

theorem Wf_abort {s : Sys} (h : Wf s) (g : Nat) (he : (s.groups g).entered = true) : Wf (abort s g) :=
  Wf_quiet h
    (fun c => by
      simp only [abort_tasks]; split
      · exact (TaskQuiet.rfl' _).requestCancel
      · exact TaskQuiet.rfl' _)
    (fun g' => by
      simp only [abort_groups]; split
      · rename_i hg; subst hg
        exact ⟨rfl, rfl, rfl, fun hh => by rw [he] at hh; cases hh⟩
      · exact GroupQuiet.rfl' _)
    (fun g' c h1 h2 hc hl => by
      by_cases hg : g' = g
      · subst hg
        simp only [abort_tasks, hc, ↓reduceIte] at hl ⊢
        exact requestCancel_asks _ (by simpa using hl)
      · simp only [abort_groups, hg, ↓reduceIte] at h1; rw [h1] at h2; cases h2)

/-- a finished member is removed from its group's list -/
theorem Wf_dropMember {s : Sys} (h : Wf s) (g c : Nat) (failed : Bool) (hd : isDone (s.tasks c) = true)
    (hc : c ∈ (s.groups g).members) : Wf (dropMember s g c failed) := by
  have hent : (s.groups g).entered = true := by
    cases he : (s.groups g).entered with
    | true => rfl
    | false => rw [h.unentered g he] at hc; simp at hc
  have hmem : ∀ g' x, x ∈ ((dropMember s g c failed).groups g').members → x ∈ (s.groups g').members := by
    intro g' x hx
    simp only [dropMember, setGroup_groups] at hx
    split at hx
    · rename_i hg; subst hg; exact List.mem_of_mem_erase hx
    · exact hx
  refine ⟨h.absent, ?_, ?_, ?_, h.member_base, h.wait_top, ?_, ?_, ?_⟩
  · intro g' hg'
    simp only [dropMember, setGroup_groups] at hg' ⊢
    split
    · rename_i hg; subst hg; simp [hent] at hg'
    · rename_i hg; simp only [hg, ↓reduceIte] at hg'; exact h.unentered g' hg'
  · intro t g' hg'
    have := h.frames_owner t g' hg'
    simp only [dropMember, setGroup_groups]
    split
    · rename_i hg; subst hg; exact this
    · exact this
  · intro t g' hb
    have := h.base_entered t g' hb
    simp only [dropMember, setGroup_groups]
    split
    · rename_i hg; subst hg; exact this
    · exact this
  · intro g' x hx; exact h.listed g' x (hmem g' x hx)
  · intro x g' hm hdn
    have := h.mem x g' hm hdn
    simp only [dropMember, setGroup_groups]
    split
    · rename_i hg; subst hg
      have hxc : x ≠ c := by intro hxc; subst hxc; simp only [setGroup_tasks, dropMember] at hdn; rw [hd] at hdn; cases hdn
      exact (List.mem_erase_of_ne hxc).mpr this
    · exact this
  · intro g' x ha hx hl
    refine h.aborted g' x ?_ (hmem g' x hx) hl
    simp only [dropMember, setGroup_groups] at ha
    split at ha
    · rename_i hg; subst hg; exact ha
    · exact ha

theorem Wf_failGroup {s : Sys} (h : Wf s) (g : Nat) (he : (s.groups g).entered = true) : Wf (failGroup s g) := by
  unfold failGroup
  simp only
  split
  · have h1 := Wf_abort h g he
    have h2 := Wf_setGroup h1 g { (abort s g).groups g with pcr := true } ⟨rfl, rfl, rfl, fun hh => by
      simp [he] at hh⟩ (fun hh => hh)
    exact Wf_setTask h2 _ _ (TaskQuiet.rfl' _).requestParentCancel
  · exact h


/-- proves `TaskQuiet T T'` when `T'` is `T` with new status / flags and the facts in context decide the rest -/
macro "quiet_fields" : tactic =>
  `(tactic| (constructor <;> simp_all [isDone, isLive, bodyOutcome, asyncGroups_cons] <;> done))

theorem markDone_Wf {s : Sys} (h : Wf s) (t : Nat) (o : Outcome) (hl : isLive (s.tasks t) = true)
    (hw : ∀ b susp, (s.tasks t).status ≠ .exitWait b susp) : Wf (markDone s t o) := by
  unfold markDone
  refine Wf_setTask h t _ ?_
  have hna := isLive_not_absent _ hl
  constructor <;> simp_all [isDone, isLive]

theorem ctxGroup_entered {s : Sys} (h : Wf s) (t g : Nat) (hc : ctxGroup (s.tasks t) = some g) :
    (s.groups g).entered = true := by
  unfold ctxGroup at hc
  split at hc
  · rename_i g' rest hag
    simp only [Option.some.injEq] at hc; subst hc
    exact (h.frames_owner t g' (by rw [hag]; simp)).2
  · exact h.base_entered t g hc

/-- `TaskGroup.__aexit__` begins for the innermost entered async scope of a task that is running code -/
theorem beginExit_Wf {s : Sys} (h : Wf s) (t b : Nat) (o : Outcome) (rest : List Frame)
    (hfr : (s.tasks t).frames = ⟨b, true⟩ :: rest)
    (hst : (s.tasks t).status = .body ∨ ∃ o', (s.tasks t).status = .unwinding o') : Wf (beginExit s t b o) := by
  have hent : (s.groups b).entered = true := (h.frames_owner t b (by rw [hfr]; simp [asyncGroups_cons])).2
  unfold beginExit
  simp only
  have h1 := Wf_setTask h t (exitTask (s.tasks t) (s.groups b) b) (by
    unfold exitTask
    rcases hst with hst | ⟨o', hst⟩ <;> (constructor <;> simp_all [isDone, isLive]))
  have h2 := Wf_setGroup h1 b (exitGroup (s.tasks t) (s.groups b) o)
    ⟨rfl, rfl, rfl, fun hh => by simp [hent] at hh⟩ (fun hh => hh)
  split
  · exact Wf_abort h2 b (by simp [exitGroup, hent])
  · exact h2

theorem bodyOutcome_status {T : Task} {o : Outcome} (h : bodyOutcome T = some o) :
    T.status = .body ∨ ∃ o', T.status = .unwinding o' := by
  unfold bodyOutcome at h; split at h <;> simp_all

theorem step_Wf {s s' : Sys} {l : Label} (h : Wf s) (hs : step s l = some s') : Wf s' := by
  cases l with
  | rel g =>
    simp only [step, Option.some.injEq] at hs; subst hs
    exact ⟨h.absent, h.unentered, h.frames_owner, h.base_entered, h.member_base, h.wait_top, h.listed, h.mem, h.aborted⟩
  | cancel t =>
    simp only [step] at hs
    split at hs
    · simp at hs
    · split at hs
      · simp only [Option.some.injEq] at hs; subst hs; exact h
      · rename_i hna hnd
        simp only [Option.some.injEq] at hs; subst hs
        refine Wf_setTask h t _ ?_
        exact (TaskQuiet.rfl' _).requestCancel.post rfl rfl rfl rfl (Nat.le_refl _) (fun hh => by simp at hh; exact absurd hh hna)
  | start t =>
    simp only [step] at hs
    split at hs
    · rename_i hc; simp only [Option.some.injEq] at hs; subst hs
      exact Wf_setTask h t _ (by quiet_fields)
    · simp at hs
  | silentEnd t =>
    simp only [step] at hs
    split at hs
    · rename_i hc; simp only [Option.some.injEq] at hs; subst hs
      exact markDone_Wf h t _ (by simp [isLive, hc.1]) (by simp [hc.1])
    · simp at hs
  | enter t b isAsync =>
    simp only [step] at hs
    split at hs
    · rename_i hb
      split at hs
      · rename_i hasync
        split at hs
        · simp at hs
        · rename_i hne
          simp only [Option.some.injEq] at hs; subst hs
          have hne' : (s.groups b).entered = false := by simpa using hne
          have hdef := h.unentered b hne'
          -- b is not referenced anywhere yet
          have hnf : ∀ c, b ∉ asyncGroups (s.tasks c).frames := fun c hc => by
            have := (h.frames_owner c b hc).2; rw [hne'] at this; cases this
          refine ⟨?_, ?_, ?_, ?_, ?_, ?_, ?_, ?_, ?_⟩
          · intro c hc
            simp only [setGroup_tasks, setTask_tasks] at hc ⊢
            split at hc
            · simp only at hc; rw [hb] at hc; cases hc
            · rename_i hct; simp only [hct, ↓reduceIte]; exact h.absent c hc
          · intro g hg
            simp only [setGroup_groups] at hg ⊢
            split at hg
            · simp at hg
            · rename_i hgb; simp only [hgb, ↓reduceIte]; exact h.unentered g hg
          · intro c g hg
            simp only [setGroup_tasks, setTask_tasks, setGroup_groups] at hg ⊢
            split at hg
            · rename_i hct; subst hct
              simp only [asyncGroups_cons, ↓reduceIte, List.mem_cons] at hg
              rcases hg with rfl | hg
              · simp
              · have hgb : g ≠ b := fun e => hnf c (e ▸ hg)
                simp only [hgb, ↓reduceIte]; exact h.frames_owner c g hg
            · have hgb : g ≠ b := fun e => hnf c (e ▸ hg)
              simp only [hgb, ↓reduceIte]; exact h.frames_owner c g hg
          · intro c g hbse
            simp only [setGroup_tasks, setTask_tasks, setGroup_groups] at hbse ⊢
            have hbse' : (s.tasks c).base = some g := by split at hbse <;> simp_all
            split
            · rfl
            · exact h.base_entered c g hbse'
          · intro c g hm
            simp only [setGroup_tasks, setTask_tasks] at hm ⊢
            split at hm
            · rename_i hct; subst hct; simp only [↓reduceIte]; exact h.member_base c g hm
            · rename_i hct; simp only [hct, ↓reduceIte]; exact h.member_base c g hm
          · intro c b' susp hw
            simp only [setGroup_tasks, setTask_tasks] at hw ⊢
            split at hw
            · rename_i hct; subst hct; simp [hb] at hw
            · rename_i hct; simp only [hct, ↓reduceIte]; exact h.wait_top c b' susp hw
          · intro g c hc
            simp only [setGroup_tasks, setTask_tasks, setGroup_groups] at hc ⊢
            split at hc
            · simp at hc
            · have := h.listed g c hc
              split
              · rename_i hct; subst hct; exact ⟨this.1, by simp [hb]⟩
              · exact this
          · intro c g hm hd
            simp only [setGroup_tasks, setTask_tasks, setGroup_groups] at hm hd ⊢
            have hm' : (s.tasks c).member = some g := by split at hm <;> simp_all
            have hd' : isDone (s.tasks c) = false := by
              split at hd
              · rename_i hct; subst hct; simp [isDone, hb]
              · exact hd
            have hin := h.mem c g hm' hd'
            split
            · rename_i hgb; subst hgb; rw [hdef] at hin; simp at hin
            · exact hin
          · intro g c ha hc hl
            simp only [setGroup_tasks, setTask_tasks, setGroup_groups] at ha hc hl ⊢
            split at ha
            · simp at ha
            · rename_i hgb
              simp only [hgb, ↓reduceIte] at hc
              have hl' : isLive (s.tasks c) = true := by
                split at hl
                · rename_i hct; subst hct; simp [isLive, hb]
                · exact hl
              have := h.aborted g c ha hc hl'
              split
              · rename_i hct; subst hct; exact this
              · exact this
      · rename_i hasync
        simp only [Option.some.injEq] at hs; subst hs
        have hf : isAsync = false := by simpa using hasync
        subst hf
        exact Wf_setTask h t _ (by quiet_fields)
    · simp at hs
  | enterfail t b o =>
    simp only [step] at hs
    split at hs
    · rename_i hc
      split at hs
      · simp at hs
      · simp only [Option.some.injEq] at hs; subst hs
        exact Wf_setTask h t _ (by quiet_fields)
      · split at hs
        · simp only [Option.some.injEq] at hs; subst hs
          exact Wf_setTask h t _ (by quiet_fields)
        · simp at hs
    · simp at hs
  | spawn t c viaGroup =>
    simp only [step] at hs
    split at hs
    · rename_i hb
      obtain ⟨hbody, habs⟩ := hb
      have hcdef := h.absent c habs
      have hcnot : ∀ g, c ∉ (s.groups g).members := fun g hc => (h.listed g c hc).2 habs
      -- creating task c (not listed anywhere) with inherited group `base` and membership `m` listed in `m`
      have key : ∀ (bse : Option Nat) (d : Nat) (s1 : Sys),
          (∀ g, bse = some g → (s.groups g).entered = true) →
          s1.tasks = (setTask s c { status := .fresh, base := bse, member := none, depth := d }).tasks →
          s1.groups = s.groups → Wf s1 := by
        intro bse d s1 hbe ht hg
        refine ⟨?_, ?_, ?_, ?_, ?_, ?_, ?_, ?_, ?_⟩
        · intro x hx; rw [ht] at hx ⊢; simp only [setTask_tasks] at hx ⊢
          split at hx
          · simp at hx
          · rename_i hxc; simp only [hxc, ↓reduceIte]; exact h.absent x hx
        · intro g hg'; rw [hg] at hg' ⊢; exact h.unentered g hg'
        · intro x g hx; rw [ht] at hx; rw [hg]; simp only [setTask_tasks] at hx
          split at hx
          · simp [asyncGroups] at hx
          · exact h.frames_owner x g hx
        · intro x g hx; rw [ht] at hx; rw [hg]; simp only [setTask_tasks] at hx
          split at hx
          · exact hbe g hx
          · exact h.base_entered x g hx
        · intro x g hx; rw [ht] at hx ⊢; simp only [setTask_tasks] at hx ⊢
          split at hx
          · simp at hx
          · rename_i hxc; simp only [hxc, ↓reduceIte]; exact h.member_base x g hx
        · intro x b' susp hx; rw [ht] at hx ⊢; simp only [setTask_tasks] at hx ⊢
          split at hx
          · simp at hx
          · rename_i hxc; simp only [hxc, ↓reduceIte]; exact h.wait_top x b' susp hx
        · intro g x hx; rw [hg] at hx; rw [ht]; simp only [setTask_tasks]
          have hxc : x ≠ c := fun e => hcnot g (e ▸ hx)
          simp only [hxc, ↓reduceIte]; exact h.listed g x hx
        · intro x g hm hd; rw [ht] at hm hd; rw [hg]; simp only [setTask_tasks] at hm hd
          split at hm
          · simp at hm
          · rename_i hxc; simp only [hxc, ↓reduceIte] at hd; exact h.mem x g hm hd
        · intro g x ha hx hl; rw [hg] at ha hx; rw [ht] at hl ⊢; simp only [setTask_tasks] at hl ⊢
          have hxc : x ≠ c := fun e => hcnot g (e ▸ hx)
          simp only [hxc, ↓reduceIte] at hl ⊢; exact h.aborted g x ha hx hl
      split at hs
      · -- ctx.spawn
        split at hs
        · rename_i hcg
          simp only [Option.some.injEq] at hs; subst hs
          exact key none _ _ (fun g hg => by cases hg) rfl rfl
        · rename_i g hcg
          split at hs
          · simp at hs
          · rename_i hnr
            simp only [Option.some.injEq] at hs; subst hs
            have hent := ctxGroup_entered h t g hcg
            have hnab : (s.groups g).aborting = false := by
              simp only [refuses, Bool.or_eq_true, not_or] at hnr
              simpa using hnr.1
            refine ⟨?_, ?_, ?_, ?_, ?_, ?_, ?_, ?_, ?_⟩
            · intro x hx; simp only [setGroup_tasks, setTask_tasks] at hx ⊢
              split at hx
              · simp at hx
              · rename_i hxc; simp only [hxc, ↓reduceIte]; exact h.absent x hx
            · intro g' hg'; simp only [setGroup_groups] at hg' ⊢
              split at hg'
              · rename_i e; subst e; simp [hent] at hg'
              · rename_i e; simp only [e, ↓reduceIte]; exact h.unentered g' hg'
            · intro x g' hx; simp only [setGroup_tasks, setTask_tasks, setGroup_groups] at hx ⊢
              have hx' : g' ∈ asyncGroups (s.tasks x).frames := by
                split at hx
                · simp [asyncGroups] at hx
                · exact hx
              have := h.frames_owner x g' hx'
              split
              · rename_i e; subst e; exact this
              · exact this
            · intro x g' hx; simp only [setGroup_tasks, setTask_tasks, setGroup_groups] at hx ⊢
              have : (s.groups g').entered = true := by
                split at hx
                · simp only [Option.some.injEq] at hx; subst hx; exact hent
                · exact h.base_entered x g' hx
              split
              · rename_i e; subst e; exact this
              · exact this
            · intro x g' hx; simp only [setGroup_tasks, setTask_tasks] at hx ⊢
              split at hx
              · rename_i hxc; simp only [hxc, ↓reduceIte]; exact hx
              · rename_i hxc; simp only [hxc, ↓reduceIte]; exact h.member_base x g' hx
            · intro x b' susp hx; simp only [setGroup_tasks, setTask_tasks] at hx ⊢
              split at hx
              · simp at hx
              · rename_i hxc; simp only [hxc, ↓reduceIte]; exact h.wait_top x b' susp hx
            · intro g' x hx; simp only [setGroup_tasks, setTask_tasks, setGroup_groups] at hx ⊢
              split at hx
              · rename_i e; subst e
                simp only [List.mem_append, List.mem_singleton] at hx
                rcases hx with hx | rfl
                · have hxc : x ≠ c := fun e => hcnot g' (e ▸ hx)
                  simp only [hxc, ↓reduceIte]; exact h.listed g' x hx
                · simp
              · have hxc : x ≠ c := fun e => hcnot g' (e ▸ hx)
                simp only [hxc, ↓reduceIte]; exact h.listed g' x hx
            · intro x g' hm hd; simp only [setGroup_tasks, setTask_tasks, setGroup_groups] at hm hd ⊢
              split at hm
              · rename_i hxc; subst hxc
                simp only [Option.some.injEq] at hm; subst hm; simp
              · rename_i hxc; simp only [hxc, ↓reduceIte] at hd
                have := h.mem x g' hm hd
                split
                · rename_i e; subst e; simp [this]
                · exact this
            · intro g' x ha hx hl; simp only [setGroup_tasks, setTask_tasks, setGroup_groups] at ha hx hl ⊢
              split at ha
              · rename_i e; subst e; simp [hnab] at ha
              · rename_i e; simp only [e, ↓reduceIte] at hx
                have hxc : x ≠ c := fun e => hcnot g' (e ▸ hx)
                simp only [hxc, ↓reduceIte] at hl ⊢; exact h.aborted g' x ha hx hl
      · simp only [Option.some.injEq] at hs; subst hs
        exact key (ctxGroup (s.tasks t)) _ _ (fun g hg => ctxGroup_entered h t g hg) rfl rfl
    · simp at hs
  | spawnfail t c =>
    simp only [step] at hs
    split at hs
    · split at hs
      · split at hs
        · simp only [Option.some.injEq] at hs; subst hs; exact h
        · simp at hs
      · simp at hs
    · simp at hs
  | await t g =>
    simp only [step] at hs
    split at hs
    · rename_i hc; simp only [Option.some.injEq] at hs; subst hs
      exact Wf_setTask h t _ (by quiet_fields)
    · simp at hs
  | resume t g cancelled =>
    simp only [step] at hs
    split at hs
    · rename_i hc
      split at hs
      · split at hs
        · simp only [Option.some.injEq] at hs; subst hs
          exact Wf_setTask h t _ (by quiet_fields)
        · simp at hs
      · split at hs
        · simp only [Option.some.injEq] at hs; subst hs
          exact Wf_setTask h t _ (by quiet_fields)
        · simp at hs
    · simp at hs
  | raise t base =>
    simp only [step] at hs
    split at hs
    · rename_i o ho
      simp only [Option.some.injEq] at hs; subst hs
      refine Wf_setTask h t _ ?_
      unfold bodyOutcome at ho
      split at ho <;> first | (simp at ho; done) | quiet_fields
    · simp at hs
  | caught t o =>
    simp only [step] at hs
    split at hs
    · rename_i hc; simp only [Option.some.injEq] at hs; subst hs
      exact Wf_setTask h t _ (by quiet_fields)
    · simp at hs
  | check t raised =>
    simp only [step] at hs
    split at hs
    · rename_i hc; simp only [Option.some.injEq] at hs; subst hs
      split
      · exact Wf_setTask h t _ (by quiet_fields)
      · exact h
    · simp at hs
  | cancelself t =>
    simp only [step] at hs
    split at hs
    · rename_i hc; simp only [Option.some.injEq] at hs; subst hs
      refine Wf_setTask h t _ ?_
      exact (TaskQuiet.rfl' _).requestCancel.post rfl rfl rfl rfl (Nat.le_refl _) (fun hh => by simp [hc] at hh)
    · simp at hs
  | bodyEnd t b o =>
    simp only [step] at hs
    split at hs
    · rename_i f rest hfr
      split at hs
      · rename_i hc
        obtain ⟨hf, hbo⟩ := hc
        subst hf
        simp only [Option.some.injEq] at hs; subst hs
        exact beginExit_Wf h t b o rest hfr (bodyOutcome_status hbo)
      · simp at hs
    · simp at hs
  | cleanupEnd t b o consumed =>
    simp only [step] at hs
    split at hs
    · rename_i f rest o0 hfr hbo
      split at hs
      · rename_i hf
        subst hf
        have hst := bodyOutcome_status hbo
        split at hs
        · split at hs
          · simp only [Option.some.injEq] at hs; subst hs
            have h1 := Wf_setTask h t { s.tasks t with mustCancel := false } (by
              rcases hst with hst | ⟨o', hst⟩ <;> (constructor <;> simp_all [isDone, isLive]))
            exact beginExit_Wf h1 t b .cancelled rest (by simpa using hfr) (by simpa using hst)
          · simp at hs
        · split at hs
          · simp only [Option.some.injEq] at hs; subst hs
            exact beginExit_Wf h t b o rest hfr hst
          · simp at hs
      · simp at hs
    · simp at hs
  | left t b o =>
    simp only [step] at hs
    split at hs
    · rename_i f rest hfr
      split at hs
      · rename_i hfb
        split at hs
        · rename_i hasync
          split at hs
          · rename_i b' susp hst
            split at hs
            · rename_i hc
              simp only [Option.some.injEq] at hs; subst hs
              have hfeq : f = ⟨b, true⟩ := by cases f; simp_all
              subst hfeq
              have hent : (s.groups b).entered = true := (h.frames_owner t b (by rw [hfr]; simp [asyncGroups_cons])).2
              -- first the group flag (quiet), then the pop
              have h1 := Wf_setGroup h b { s.groups b with finished := true } ⟨rfl, rfl, rfl, fun hh => by simp [hent] at hh⟩ (fun hh => hh)
              have hab : afterBlock o = .body ∨ afterBlock o = .unwinding o := by unfold afterBlock; split <;> simp
              refine ⟨?_, h1.unentered, ?_, ?_, ?_, ?_, ?_, ?_, ?_⟩
              · intro c hc'
                simp only [setTask_tasks] at hc' ⊢
                split at hc'
                · rcases hab with e | e <;> simp [e] at hc'
                · rename_i hct; simp only [hct, ↓reduceIte]; exact h1.absent c hc'
              · intro c g hg
                simp only [setTask_tasks] at hg
                split at hg
                · rename_i hct; subst hct
                  refine h1.frames_owner c g ?_
                  simp only [setGroup_tasks]; rw [hfr]; simp [asyncGroups_cons, hg]
                · exact h1.frames_owner c g hg
              · intro c g hbse
                simp only [setTask_tasks] at hbse
                split at hbse
                · rename_i hct; subst hct; exact h1.base_entered c g hbse
                · exact h1.base_entered c g hbse
              · intro c g hm
                simp only [setTask_tasks] at hm ⊢
                split at hm
                · rename_i hct; subst hct; simp only [↓reduceIte]; exact h1.member_base c g hm
                · rename_i hct; simp only [hct, ↓reduceIte]; exact h1.member_base c g hm
              · intro c b'' susp' hw
                simp only [setTask_tasks] at hw ⊢
                split at hw
                · rcases hab with e | e <;> simp [e] at hw
                · rename_i hct; simp only [hct, ↓reduceIte]; exact h1.wait_top c b'' susp' hw
              · intro g c hc'
                have := h1.listed g c hc'
                simp only [setTask_tasks]
                split
                · rename_i hct; subst hct
                  refine ⟨this.1, ?_⟩
                  rcases hab with e | e <;> simp [e]
                · exact this
              · intro c g hm hd
                simp only [setTask_tasks] at hm hd
                split at hm
                · rename_i hct; subst hct
                  exact h1.mem c g hm (by simp [isDone, hst])
                · rename_i hct; simp only [hct, ↓reduceIte] at hd; exact h1.mem c g hm hd
              · intro g c ha hc' hl
                simp only [setTask_tasks] at hl ⊢
                split
                · rename_i hct; subst hct
                  exact h1.aborted g c ha hc' (by simp [isLive, hst])
                · rename_i hct; simp only [hct, ↓reduceIte] at hl; exact h1.aborted g c ha hc' hl
            · simp at hs
          · simp at hs
        · rename_i hasync
          split at hs
          · rename_i hbo
            simp only [Option.some.injEq] at hs; subst hs
            have hst : (s.tasks t).status = .body ∨ ∃ o', (s.tasks t).status = .unwinding o' := by
              unfold bodyOutcome at hbo; split at hbo <;> simp_all
            refine Wf_setTask h t _ ?_
            have hfa : f.isAsync = false := by simpa using hasync
            rcases hst with hst | ⟨o', hst⟩ <;>
              (constructor <;> simp_all [isDone, isLive, asyncGroups_cons])
          · simp at hs
      · simp at hs
    · simp at hs
  | deliver t =>
    simp only [step] at hs
    split at hs
    · rename_i b hst
      split at hs
      · rename_i hm
        simp only [Option.some.injEq] at hs; subst hs
        obtain ⟨rest, hfr⟩ := h.wait_top t b true hst
        have hent : (s.groups b).entered = true := (h.frames_owner t b (by rw [hfr]; simp [asyncGroups_cons])).2
        have h1 : Wf (deliverGroup s b) := by
          unfold deliverGroup
          split
          · exact h
          · exact Wf_abort (Wf_setGroup h b { s.groups b with propagate := true }
              ⟨rfl, rfl, rfl, fun hh => by simp [hent] at hh⟩ (fun hh => hh)) b (by simp [hent])
        refine Wf_setTask h1 t _ ?_
        have hst1 : ((deliverGroup s b).tasks t).status = .exitWait b true := by
          unfold deliverGroup
          split
          · exact hst
          · rw [abort_status]; exact hst
        refine ⟨rfl, rfl, rfl, ?_, ?_, ?_, ?_, ?_, Nat.le_refl _⟩
        · intro hh; rw [hst1] at hh; cases hh
        · intro hh; simp at hh
        · intro hh; simp [isDone, hst1] at hh
        · intro _; simp [isLive, hst1]
        intro b' susp hw
        simp only [Status.exitWait.injEq] at hw
        obtain ⟨rfl, _⟩ := hw
        exact ⟨rfl, Or.inl ⟨true, hst1⟩⟩
      · simp at hs
    · simp at hs
  | reap c =>
    simp only [step] at hs
    split at hs
    · rename_i o g hst hmem
      split at hs
      · rename_i hc
        simp only [Option.some.injEq] at hs; subst hs
        have hd : isDone (s.tasks c) = true := by simp [isDone, hst]
        have h1 := Wf_dropMember h g c o.isExc hd hc
        have hent : (s.groups g).entered = true := by
          cases he : (s.groups g).entered with
          | true => rfl
          | false => rw [h.unentered g he] at hc; simp at hc
        split
        · exact Wf_failGroup h1 g (by simp [dropMember, hent])
        · exact h1
      · simp at hs
    · simp at hs
  | end_ t o =>
    simp only [step] at hs
    split at hs
    · rename_i hc
      simp only [Option.some.injEq] at hs; subst hs
      have hst : (s.tasks t).status = .body ∨ ∃ o', (s.tasks t).status = .unwinding o' := by
        have := hc.2; unfold bodyOutcome at this; split at this <;> simp_all
      refine markDone_Wf h t _ ?_ ?_
      · rcases hst with e | ⟨o', e⟩ <;> simp [isLive, e]
      · rcases hst with e | ⟨o', e⟩ <;> simp [e]
    · simp at hs

theorem failGroup_status (s : Sys) (g c : Nat) : ((failGroup s g).tasks c).status = (s.tasks c).status := by
  unfold failGroup; simp only; split
  · simp only [setTask_tasks, setGroup_tasks]; split
    · rename_i hc; subst hc; simp only [requestParentCancel_status]; exact abort_status s g _
    · exact abort_status s g c
  · rfl

theorem failGroup_frames (s : Sys) (g c : Nat) : ((failGroup s g).tasks c).frames = (s.tasks c).frames := by
  unfold failGroup; simp only; split
  · simp only [setTask_tasks, setGroup_tasks]; split
    · rename_i hc; subst hc; simp only [requestParentCancel_frames]; exact abort_frames s g _
    · exact abort_frames s g c
  · rfl

theorem failGroup_members (s : Sys) (g g' : Nat) : ((failGroup s g).groups g').members = (s.groups g').members := by
  unfold failGroup; simp only; split
  · simp only [setTask_groups, setGroup_groups]; split
    · rename_i hg; subst hg; simp
    · exact abort_members s g g'
  · rfl

theorem init_Wf : Wf init := by
  refine ⟨?_, ?_, ?_, ?_, ?_, ?_, ?_, ?_, ?_⟩ <;> intros <;> simp_all [init, upd_apply] <;>
    (first | done | (split at * <;> simp_all [asyncGroups]))

theorem run_Wf : ∀ (ls : List Label) (s s' : Sys), Wf s → run s ls = some s' → Wf s'
  | [], s, s', h, hr => by simp [run] at hr; exact hr ▸ h
  | l :: ls, s, s', h, hr => by
    simp only [run] at hr
    cases hs : step s l with
    | none => simp [hs] at hr
    | some s1 => simp only [hs] at hr; exact run_Wf ls s1 s' (step_Wf h hs) hr

theorem Reach.wf {s : Sys} (h : Reach s) : Wf s := by
  obtain ⟨ls, hr⟩ := h
  exact run_Wf ls init s init_Wf hr

end Haiway.Groups
