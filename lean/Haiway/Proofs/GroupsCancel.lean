import Haiway.Proofs.GroupsCount
/-! C07 on the product machine: a cancellation request that reached a live task is never lost, as long as the task's
own code neither raises nor catches and no member of its groups ends with an error (the hypotheses of
`C07.not_swallowed_partial`, checked along the run by `quietFor`). -/
namespace Haiway.Groups
set_option linter.unusedVariables false

/-- the steps the partial theorem admits for victim `t`: no user exception / catch in `t`, no failed member reaped
into a group owned by `t` -/
def quietFor (t : Nat) (s : Sys) : Label → Bool
  | .raise x _ => x != t
  | .caught x _ => x != t
  | .enterfail x _ o => !(x == t && o.isExc)          -- a disposable of the victim raising while the scope is entered
  | .cleanupEnd x _ o _ => !(x == t && o.isExc)       -- … or during the cleanup (it replaces whatever was propagating)
  | .reap c =>
    match (s.tasks c).status, (s.tasks c).member with
    | .done o, some g => !(o.isExc && (s.groups g).owner == t)
    | _, _ => true
  | _ => true

def runQ (t : Nat) (s : Sys) : List Label → Option Sys
  | [] => some s
  | l :: ls => if quietFor t s l then (match step s l with | some s' => runQ t s' ls | none => none) else none

theorem runQ_run (t : Nat) : ∀ (ls : List Label) (s s' : Sys), runQ t s ls = some s' → run s ls = some s'
  | [], s, s', h => by simpa [runQ, run] using h
  | l :: ls, s, s', h => by
    simp only [runQ] at h
    split at h
    · simp only [run]
      cases hs : step s l with
      | none => simp [hs] at h
      | some s1 => simp only [hs] at h ⊢; exact runQ_run t ls s1 s' h
    · simp at h

def GroupOk (G : Group) : Prop :=
  G.errors = 0 ∧ G.pcr = false ∧ G.bodyOut.isExc = false ∧
  (G.aborting = true → G.exiting = true ∧ (G.bodyOut = .cancelled ∨ G.propagate = true))

/-- the group will hand a cancellation back when its exit completes -/
def reraises (G : Group) : Prop := G.bodyOut = .cancelled ∨ G.propagate = true

/-- what a task that was asked to cancel looks like until it has ended cancelled -/
def Owed (gs : Nat → Group) (T : Task) : Prop :=
  T.mustCancel = true ∨ T.status = .unwinding .cancelled ∨
  (∃ b susp, T.status = .exitWait b susp ∧ reraises (gs b)) ∨ T.status = .done .cancelled

structure K (t : Nat) (s : Sys) : Prop where
  groups : ∀ g, (s.groups g).owner = t → GroupOk (s.groups g)
  noexc : ∀ b, (s.tasks t).status ≠ .unwinding (.exc b)
  owed : (s.tasks t).owed = true → Owed s.groups (s.tasks t)

theorem Owed_must {gs : Nat → Group} {T : Task} (h : T.mustCancel = true) : Owed gs T := Or.inl h

/-- outside the three places where a delivered cancellation can be, an owed task still has it pending -/
theorem Owed.must {gs : Nat → Group} {T : Task} (h : Owed gs T) (h1 : T.status ≠ .unwinding .cancelled)
    (h2 : ∀ b susp, T.status ≠ .exitWait b susp) (h3 : T.status ≠ .done .cancelled) : T.mustCancel = true := by
  rcases h with h | h | ⟨b, susp, h, _⟩ | h
  · exact h
  · exact absurd h h1
  · exact absurd h (h2 b susp)
  · exact absurd h h3

theorem Owed.requestCancel {gs : Nat → Group} {T : Task} (h : Owed gs T) : Owed gs (requestCancel T) := by
  rcases h with h | h | ⟨b, susp, h, h'⟩ | h
  · exact Or.inl (requestCancel_must_mono T h)
  · exact Or.inr (Or.inl (by simpa using h))
  · exact Or.inr (Or.inr (Or.inl ⟨b, susp, by simpa using h, h'⟩))
  · exact Or.inr (Or.inr (Or.inr (by simpa using h)))

theorem Owed.requestParentCancel {gs : Nat → Group} {T : Task} (h : Owed gs T) : Owed gs (requestParentCancel T) := by
  rcases h with h | h | ⟨b, susp, h, h'⟩ | h
  · exact Or.inl (requestParentCancel_must_mono T h)
  · exact Or.inr (Or.inl (by simpa using h))
  · exact Or.inr (Or.inr (Or.inl ⟨b, susp, by simpa using h, h'⟩))
  · exact Or.inr (Or.inr (Or.inr (by simpa using h)))

/-- `Owed` reads the groups only through `reraises` of the group whose exit the task waits in -/
theorem Owed.mono {gs gs' : Nat → Group} {T : Task} (h : Owed gs T)
    (hg : ∀ b susp, T.status = .exitWait b susp → reraises (gs b) → reraises (gs' b)) : Owed gs' T := by
  rcases h with h | h | ⟨b, susp, h, h'⟩ | h
  · exact Or.inl h
  · exact Or.inr (Or.inl h)
  · exact Or.inr (Or.inr (Or.inl ⟨b, susp, h, hg b susp h h'⟩))
  · exact Or.inr (Or.inr (Or.inr h))

theorem wait_owner {s : Sys} (hw : Wf s) {t b : Nat} {susp : Bool} (hst : (s.tasks t).status = .exitWait b susp) :
    (s.groups b).owner = t ∧ (s.groups b).entered = true := by
  obtain ⟨rest, hfr⟩ := hw.wait_top t b susp hst
  exact hw.frames_owner t b (by rw [hfr]; simp [asyncGroups_cons])

theorem K_congr {t : Nat} {s s' : Sys} (hk : K t s) (ht : s'.tasks t = s.tasks t) (hg : s'.groups = s.groups) : K t s' :=
  ⟨fun g h => by rw [hg] at h ⊢; exact hk.groups g h, fun b => by rw [ht]; exact hk.noexc b,
   fun h => by rw [ht] at h ⊢; rw [hg]; exact hk.owed h⟩

/-- the victim's own record changes, the groups do not -/
theorem K_setTask {t : Nat} {s : Sys} (hk : K t s) (T' : Task) (hne : ∀ b, T'.status ≠ .unwinding (.exc b))
    (ho : T'.owed = true → Owed s.groups T') : K t (setTask s t T') :=
  ⟨hk.groups, fun b => by simpa using hne b, fun h => by simpa using ho (by simpa using h)⟩

/-- another task's record changes -/
theorem K_setTask_other {t x : Nat} {s : Sys} (hk : K t s) (hx : x ≠ t) (T' : Task) : K t (setTask s x T') :=
  K_congr hk (by simp [Ne.symm hx]) rfl

/-- a group not owned by the victim changes (its owner stays somebody else) -/
theorem K_setGroup_other {t g : Nat} {s : Sys} (hw : Wf s) (hk : K t s) (G' : Group) (ho : (s.groups g).owner ≠ t)
    (he : (s.groups g).entered = true) (ho' : G'.owner ≠ t) : K t (setGroup s g G') := by
  refine ⟨?_, hk.noexc, ?_⟩
  · intro g' h
    simp only [setGroup_groups] at h ⊢
    split at h
    · exact absurd h ho'
    · rename_i e; simp only [e, ↓reduceIte]; exact hk.groups g' h
  · intro h
    refine (hk.owed h).mono ?_
    intro b susp hst hr
    simp only [setGroup_groups]
    split
    · rename_i e; subst e; exact absurd (wait_owner hw hst).1 ho
    · exact hr

/-- abort of a group not owned by the victim: at most one more request on the victim -/
theorem K_abort_other {t g : Nat} {s : Sys} (hw : Wf s) (hk : K t s) (ho : (s.groups g).owner ≠ t) : K t (abort s g) := by
  refine ⟨?_, ?_, ?_⟩
  · intro g' h
    simp only [abort_groups] at h ⊢
    split at h
    · rename_i e; subst e; exact absurd h ho
    · rename_i e; simp only [e, ↓reduceIte]; exact hk.groups g' h
  · intro b; rw [abort_status]; exact hk.noexc b
  · intro h
    rw [abort_owed] at h
    have h0 := hk.owed h
    have h1 : Owed s.groups ((abort s g).tasks t) := by
      simp only [abort_tasks]; split
      · exact h0.requestCancel
      · exact h0
    refine h1.mono ?_
    intro b susp hst hr
    rw [abort_status] at hst
    simp only [abort_groups]
    split
    · rename_i e; subst e; exact absurd (wait_owner hw hst).1 ho
    · exact hr


/-- labels whose whole effect is an update of one task's own record -/
def Label.local? : Label → Option Nat
  | .start x | .silentEnd x | .enter x _ false | .enterfail x _ _ | .spawnfail x _ | .await x _ | .resume x _ _
  | .raise x _ | .caught x _ | .check x _ | .cancelself x | .end_ x _ | .cancel x => some x
  | _ => none

theorem step_local {s s' : Sys} {l : Label} {x : Nat} (hl : l.local? = some x) (hs : step s l = some s') :
    s'.groups = s.groups ∧ ∀ c, c ≠ x → s'.tasks c = s.tasks c := by
  cases l <;> simp [Label.local?] at hl <;> subst_vars <;> simp only [step] at hs <;>
    (repeat' split at hs) <;> simp_all <;> subst_vars <;> simp_all [markDone]

theorem bodyOutcome_cases {T : Task} {o : Outcome} (h : bodyOutcome T = some o) :
    (T.status = .body ∧ o = .ok) ∨ T.status = .unwinding o := by
  unfold bodyOutcome at h; split at h <;> simp_all

theorem GroupOk_fresh (t : Nat) : GroupOk { owner := t, entered := true } := by simp [GroupOk, Outcome.isExc]

/-- the victim's own group exit begins with a reason that is not a user exception -/
theorem beginExit_K_self {s : Sys} (hw : Wf s) (h2 : Wf2 s) (x b : Nat) (o : Outcome) (rest : List Frame)
    (hfr : (s.tasks x).frames = ⟨b, true⟩ :: rest)
    (hst : (s.tasks x).status = .body ∨ ∃ o', (s.tasks x).status = .unwinding o')
    (hgk : ∀ g, (s.groups g).owner = x → GroupOk (s.groups g)) (hoex : o.isExc = false)
    (howed : (s.tasks x).owed = true → (s.tasks x).mustCancel = true ∨ o = .cancelled) :
    K x (beginExit s x b o) := by
  have hin : b ∈ asyncGroups (s.tasks x).frames := by rw [hfr]; simp [asyncGroups_cons]
  obtain ⟨hown, hent⟩ := hw.frames_owner x b hin
  have hnw : ∀ g susp, (s.tasks x).status ≠ .exitWait g susp := by
    intro g susp hh; rcases hst with e | ⟨o', e⟩ <;> rw [e] at hh <;> cases hh
  obtain ⟨herr, hpcr, hbx, habt⟩ := hgk b hown
  have hnex : (s.groups b).exiting = false := by
    cases he : (s.groups b).exiting with
    | false => rfl
    | true => obtain ⟨susp, hh⟩ := h2.exiting_wait x b hin he; exact absurd hh (hnw b susp)
  have hnab : (s.groups b).aborting = false := by
    cases ha : (s.groups b).aborting with
    | false => rfl
    | true => have := (habt ha).1; rw [hnex] at this; cases this
  -- state before the optional abort
  have hk1 : K x (setGroup (setTask s x (exitTask (s.tasks x) (s.groups b) b)) b (exitGroup (s.tasks x) (s.groups b) o)) ∧
      ((o ≠ .ok) → reraises (exitGroup (s.tasks x) (s.groups b) o)) := by
    have hrr : o ≠ .ok → reraises (exitGroup (s.tasks x) (s.groups b) o) := by
      intro hne
      cases o with
      | ok => exact absurd rfl hne
      | cancelled => left; simp [exitGroup]
      | exc b' => simp [Outcome.isExc] at hoex
    refine ⟨⟨?_, ?_, ?_⟩, hrr⟩
    · intro g hg
      simp only [setGroup_groups] at hg ⊢
      split
      · refine ⟨by simp [exitGroup, herr], by simp [exitGroup, hpcr], by simp [exitGroup, hoex], ?_⟩
        intro ha; simp [exitGroup, hnab] at ha
      · rename_i e; simp only [e, ↓reduceIte] at hg; exact hgk g hg
    · intro b'; simp [exitTask]
    · intro ho
      simp only [setGroup_tasks, setTask_tasks, ↓reduceIte, exitTask] at ho ⊢
      rcases howed ho with h | h
      · exact Or.inl h
      · right; right; left
        refine ⟨b, _, rfl, ?_⟩
        simp only [setGroup_groups, ↓reduceIte]
        subst h; left; simp [exitGroup]
  unfold beginExit
  simp only
  split
  · rename_i hcond
    -- abort of the victim's own group: members get requests; the group is aborting and re-raises
    have hone : o ≠ .ok := by intro e; subst e; simp at hcond
    generalize hS : setGroup (setTask s x (exitTask (s.tasks x) (s.groups b) b)) b
      (exitGroup (s.tasks x) (s.groups b) o) = S at hk1
    have hSb : S.groups b = exitGroup (s.tasks x) (s.groups b) o := by rw [← hS]; simp
    refine ⟨?_, ?_, ?_⟩
    · intro g hg
      simp only [abort_groups] at hg ⊢
      split
      · rename_i e; subst e
        have := hk1.1.groups g (by simpa using hg)
        refine ⟨this.1, this.2.1, this.2.2.1, fun _ => ⟨?_, ?_⟩⟩
        · rw [hSb]; simp [exitGroup]
        · have := hk1.2 hone; rw [← hSb] at this; exact this
      · rename_i e; simp only [e, ↓reduceIte] at hg; exact hk1.1.groups g hg
    · intro b'; rw [abort_status]; exact hk1.1.noexc b'
    · intro ho
      rw [abort_owed] at ho
      have h0 := hk1.1.owed ho
      have h1 : Owed S.groups ((abort S b).tasks x) := by
        simp only [abort_tasks]; split
        · exact h0.requestCancel
        · exact h0
      refine h1.mono ?_
      intro b' susp _ hr
      simp only [abort_groups]; split
      · rename_i e; subst e; exact hr
      · exact hr
  · exact hk1.1

/-- somebody else's group exit begins -/
theorem beginExit_K_other {t : Nat} {s : Sys} (hw : Wf s) (hk : K t s) (x b : Nat) (o : Outcome) (rest : List Frame)
    (hx : x ≠ t) (hfr : (s.tasks x).frames = ⟨b, true⟩ :: rest)
    (hst : (s.tasks x).status = .body ∨ ∃ o', (s.tasks x).status = .unwinding o') : K t (beginExit s x b o) := by
  have hin : b ∈ asyncGroups (s.tasks x).frames := by rw [hfr]; simp [asyncGroups_cons]
  obtain ⟨hown, hent⟩ := hw.frames_owner x b hin
  have hown' : (s.groups b).owner ≠ t := fun e => hx (hown.symm.trans e)
  have h1 := K_setTask_other hk hx (exitTask (s.tasks x) (s.groups b) b)
  have hw1 : Wf (setTask s x (exitTask (s.tasks x) (s.groups b) b)) := by
    exact Wf_setTask hw x _ (by
      unfold exitTask
      rcases hst with e | ⟨o', e⟩ <;> (constructor <;> simp_all [isDone, isLive]))
  have h2' := K_setGroup_other hw1 h1 (exitGroup (s.tasks x) (s.groups b) o) (by simpa using hown') (by simpa using hent)
    (by simpa [exitGroup] using hown')
  unfold beginExit
  simp only
  split
  · refine K_abort_other ?_ h2' (by simpa [exitGroup] using hown')
    exact Wf_setGroup hw1 b _ ⟨rfl, rfl, rfl, fun hh => by simp [hent] at hh⟩ (fun hh => hh)
  · exact h2'

theorem step_K {t : Nat} {s s' : Sys} {l : Label} (hw : Wf s) (h2 : Wf2 s) (hk : K t s)
    (hq : quietFor t s l = true) (hs : step s l = some s') : K t s' := by
  -- labels that only touch one task's record, acted by somebody else
  by_cases hloc : ∃ x, l.local? = some x ∧ x ≠ t
  · obtain ⟨x, hl, hx⟩ := hloc
    obtain ⟨hg, ht⟩ := step_local hl hs
    exact K_congr hk (ht t (Ne.symm hx)) hg
  cases l with
  | rel g => simp only [step, Option.some.injEq] at hs; subst hs; exact K_congr hk rfl rfl
  | cancel x =>
    have hx : x = t := by
      cases Decidable.em (x = t) with
      | inl e => exact e
      | inr e => exact absurd ⟨x, rfl, e⟩ hloc
    subst hx
    simp only [step] at hs
    split at hs
    · simp at hs
    · split at hs
      · simp only [Option.some.injEq] at hs; subst hs; exact hk
      · rename_i hna hnd
        simp only [Option.some.injEq] at hs; subst hs
        have hl : isLive (s.tasks x) = true := by
          unfold isLive; unfold isDone at hnd; cases hst : (s.tasks x).status <;> simp_all
        refine K_setTask hk _ (by simpa using hk.noexc) (fun _ => Owed_must ?_)
        exact requestCancel_must _ hl
  | start x =>
    have hx : x = t := by
      cases Decidable.em (x = t) with
      | inl e => exact e
      | inr e => exact absurd ⟨x, rfl, e⟩ hloc
    subst hx
    simp only [step] at hs
    split at hs
    · rename_i hc; simp only [Option.some.injEq] at hs; subst hs
      refine K_setTask hk _ (by simp) (fun ho => ?_)
      have := (hk.owed ho).must (by simp [hc.1]) (by simp [hc.1]) (by simp [hc.1])
      rw [hc.2] at this; cases this
    · simp at hs
  | silentEnd x =>
    have hx : x = t := by
      cases Decidable.em (x = t) with
      | inl e => exact e
      | inr e => exact absurd ⟨x, rfl, e⟩ hloc
    subst hx
    simp only [step] at hs
    split at hs
    · simp only [Option.some.injEq] at hs; subst hs
      exact K_setTask hk _ (by simp) (fun _ => Or.inr (Or.inr (Or.inr rfl)))
    · simp at hs
  | enterfail x b o =>
    have hx : x = t := by
      cases Decidable.em (x = t) with
      | inl e => exact e
      | inr e => exact absurd ⟨x, rfl, e⟩ hloc
    subst hx
    simp only [step] at hs
    split at hs
    · split at hs
      · simp at hs
      · simp [quietFor, Outcome.isExc] at hq
      · split at hs
        · simp only [Option.some.injEq] at hs; subst hs
          exact K_setTask hk _ (by simp) (fun _ => Or.inr (Or.inl rfl))
        · simp at hs
    · simp at hs
  | spawnfail x c =>
    have hx : x = t := by
      cases Decidable.em (x = t) with
      | inl e => exact e
      | inr e => exact absurd ⟨x, rfl, e⟩ hloc
    subst hx
    simp only [step] at hs
    split at hs
    · split at hs
      · split at hs
        · simp only [Option.some.injEq] at hs; subst hs; exact hk
        · simp at hs
      · simp at hs
    · simp at hs
  | await x g =>
    have hx : x = t := by
      cases Decidable.em (x = t) with
      | inl e => exact e
      | inr e => exact absurd ⟨x, rfl, e⟩ hloc
    subst hx
    simp only [step] at hs
    split at hs
    · rename_i hc; simp only [Option.some.injEq] at hs; subst hs
      refine K_setTask hk _ (by simp) (fun ho => Owed_must ?_)
      exact (hk.owed ho).must (by simp [hc]) (by simp [hc]) (by simp [hc])
    · simp at hs
  | resume x g cancelled =>
    have hx : x = t := by
      cases Decidable.em (x = t) with
      | inl e => exact e
      | inr e => exact absurd ⟨x, rfl, e⟩ hloc
    subst hx
    simp only [step] at hs
    split at hs
    · rename_i hc
      split at hs
      · split at hs
        · simp only [Option.some.injEq] at hs; subst hs
          exact K_setTask hk _ (by simp) (fun _ => Or.inr (Or.inl rfl))
        · simp at hs
      · split at hs
        · rename_i hm
          simp only [Option.some.injEq] at hs; subst hs
          refine K_setTask hk _ (by simp) (fun ho => ?_)
          have := (hk.owed ho).must (by simp [hc]) (by simp [hc]) (by simp [hc])
          simp [this] at hm
        · simp at hs
    · simp at hs
  | raise x base =>
    have hx : x = t := by
      cases Decidable.em (x = t) with
      | inl e => exact e
      | inr e => exact absurd ⟨x, rfl, e⟩ hloc
    subst hx; simp [quietFor] at hq
  | caught x o =>
    have hx : x = t := by
      cases Decidable.em (x = t) with
      | inl e => exact e
      | inr e => exact absurd ⟨x, rfl, e⟩ hloc
    subst hx; simp [quietFor] at hq
  | check x raised =>
    have hx : x = t := by
      cases Decidable.em (x = t) with
      | inl e => exact e
      | inr e => exact absurd ⟨x, rfl, e⟩ hloc
    subst hx
    simp only [step] at hs
    split at hs
    · rename_i hc; simp only [Option.some.injEq] at hs; subst hs
      split
      · exact K_setTask hk _ (by simp) (fun _ => Or.inr (Or.inl rfl))
      · exact hk
    · simp at hs
  | cancelself x =>
    have hx : x = t := by
      cases Decidable.em (x = t) with
      | inl e => exact e
      | inr e => exact absurd ⟨x, rfl, e⟩ hloc
    subst hx
    simp only [step] at hs
    split at hs
    · rename_i hc; simp only [Option.some.injEq] at hs; subst hs
      refine K_setTask hk _ (by simpa using hk.noexc) (fun _ => Owed_must ?_)
      exact requestCancel_must _ (by simp [isLive, hc])
    · simp at hs
  | end_ x o =>
    have hx : x = t := by
      cases Decidable.em (x = t) with
      | inl e => exact e
      | inr e => exact absurd ⟨x, rfl, e⟩ hloc
    subst hx
    simp only [step] at hs
    split at hs
    · rename_i hc
      simp only [Option.some.injEq] at hs; subst hs
      unfold markDone
      refine K_setTask hk _ (by simp) (fun ho => ?_)
      simp only at ho
      have h0 := hk.owed ho
      right; right; right
      simp only [finalOutcome]
      rcases bodyOutcome_cases hc.2 with ⟨hst, rfl⟩ | hst
      · have := h0.must (by simp [hst]) (by simp [hst]) (by simp [hst])
        simp [this]
      · rcases h0 with hm | hu | ⟨b, susp, hw', _⟩ | hd
        · cases o with
          | ok => simp [hm]
          | cancelled => simp
          | exc b => exact absurd hst (hk.noexc b)
        · rw [hst] at hu; simp only [Status.unwinding.injEq] at hu; subst hu; simp
        · rw [hst] at hw'; cases hw'
        · rw [hst] at hd; cases hd
    · simp at hs
  | enter x b isAsync =>
    cases isAsync with
    | false =>
      have hx : x = t := by
        cases Decidable.em (x = t) with
        | inl e => exact e
        | inr e => exact absurd ⟨x, rfl, e⟩ hloc
      subst hx
      simp only [step] at hs
      split at hs
      · simp only [Bool.false_eq_true, ↓reduceIte, Option.some.injEq] at hs; subst hs
        exact K_setTask hk _ (by simpa using hk.noexc) (fun ho => by
          rcases hk.owed ho with h | h | ⟨b', susp, h, h'⟩ | h
          · exact Or.inl h
          · exact Or.inr (Or.inl h)
          · exact Or.inr (Or.inr (Or.inl ⟨b', susp, h, h'⟩))
          · exact Or.inr (Or.inr (Or.inr h)))
      · simp at hs
    | true =>
      simp only [step] at hs
      split at hs
      · rename_i hb
        simp only [↓reduceIte] at hs
        split at hs
        · simp at hs
        · rename_i hne
          simp only [Option.some.injEq] at hs; subst hs
          have hne' : (s.groups b).entered = false := by simpa using hne
          refine ⟨?_, ?_, ?_⟩
          · intro g hg
            simp only [setGroup_groups] at hg ⊢
            split
            · exact GroupOk_fresh x
            · rename_i e; simp only [e, ↓reduceIte] at hg; exact hk.groups g hg
          · intro b'
            simp only [setGroup_tasks, setTask_tasks]
            split
            · rename_i e; subst e; simpa using hk.noexc b'
            · exact hk.noexc b'
          · intro ho
            simp only [setGroup_tasks, setTask_tasks] at ho ⊢
            have hgs : ∀ b' susp, (s.tasks t).status = .exitWait b' susp → reraises (s.groups b') →
                reraises ((setGroup (setTask s x { s.tasks x with frames := ⟨b, true⟩ :: (s.tasks x).frames }) b
                  { owner := x, entered := true }).groups b') := by
              intro b' susp hst hr
              simp only [setGroup_groups]
              split
              · rename_i e; subst e; have := (wait_owner hw hst).2; rw [hne'] at this; cases this
              · exact hr
            split
            · rename_i e; subst e
              simp only [↓reduceIte] at ho
              have hm := (hk.owed ho).must (by simp [hb]) (by simp [hb]) (by simp [hb])
              exact Or.inl hm
            · rename_i e; simp only [e, ↓reduceIte] at ho
              exact (hk.owed ho).mono hgs
      · simp at hs
  | spawn x c viaGroup =>
    simp only [step] at hs
    split at hs
    · rename_i hb
      obtain ⟨hbody, habs⟩ := hb
      have hcdef := hw.absent c habs
      -- new task c (fresh, not owed); groups keep everything `K` reads
      have key : ∀ (T' : Task) (s1 : Sys), T'.status = .fresh → T'.owed = false →
          s1.tasks = (setTask s c T').tasks →
          (∀ g, (s1.groups g).owner = (s.groups g).owner ∧ (GroupOk (s.groups g) → GroupOk (s1.groups g)) ∧
            (reraises (s.groups g) → reraises (s1.groups g))) → K t s1 := by
        intro T' s1 h1 h5 ht hg
        refine ⟨?_, ?_, ?_⟩
        · intro g h; rw [(hg g).1] at h; exact (hg g).2.1 (hk.groups g h)
        · intro b'; rw [ht]; simp only [setTask_tasks]; split
          · rw [h1]; simp
          · exact hk.noexc b'
        · intro ho; rw [ht] at ho ⊢; simp only [setTask_tasks] at ho ⊢
          split
          · rename_i e; simp only [e, ↓reduceIte] at ho; rw [h5] at ho; cases ho
          · rename_i e; simp only [e, ↓reduceIte] at ho
            exact (hk.owed ho).mono (fun b' _ _ hr => (hg b').2.2 hr)
      split at hs
      · split at hs
        · simp only [Option.some.injEq] at hs; subst hs
          exact key _ _ rfl rfl rfl (fun g => ⟨rfl, id, id⟩)
        · rename_i g hcg
          split at hs
          · simp at hs
          · simp only [Option.some.injEq] at hs; subst hs
            refine key { status := .fresh, base := some g, member := some g, depth := (s.tasks x).depth + 1 } _ rfl rfl rfl (fun g' => ?_)
            simp only [setGroup_groups, setTask_groups]; split
            · rename_i e; subst e; exact ⟨rfl, id, id⟩
            · exact ⟨rfl, id, id⟩
      · simp only [Option.some.injEq] at hs; subst hs
        exact key _ _ rfl rfl rfl (fun g => ⟨rfl, id, id⟩)
    · simp at hs
  | bodyEnd x b o =>
    simp only [step] at hs
    split at hs
    · rename_i f rest hfr
      split at hs
      · rename_i hc
        obtain ⟨hf, hbo⟩ := hc
        subst hf
        simp only [Option.some.injEq] at hs; subst hs
        have hst := bodyOutcome_status hbo
        have hstx := bodyOutcome_cases hbo
        by_cases hx : x = t
        · subst hx
          refine beginExit_K_self hw h2 x b o rest hfr hst hk.groups ?_ ?_
          · rcases hstx with ⟨_, rfl⟩ | e
            · rfl
            · cases o with
              | exc b' => exact absurd e (hk.noexc b')
              | _ => rfl
          · intro ho
            rcases hk.owed ho with h | h | ⟨b', susp, h, _⟩ | h
            · exact Or.inl h
            · right
              rcases hstx with ⟨e, _⟩ | e
              · rw [e] at h; cases h
              · rw [e] at h; simp only [Status.unwinding.injEq] at h; exact h
            · rcases hst with e | ⟨o', e⟩ <;> rw [e] at h <;> cases h
            · rcases hst with e | ⟨o', e⟩ <;> rw [e] at h <;> cases h
        · exact beginExit_K_other hw hk x b o rest hx hfr hst
      · simp at hs
    · simp at hs
  | cleanupEnd x b o consumed =>
    simp only [step] at hs
    split at hs
    · rename_i f rest o0 hfr hbo
      split at hs
      · rename_i hf
        subst hf
        have hst := bodyOutcome_status hbo
        have hstx := bodyOutcome_cases hbo
        split at hs
        · split at hs
          · rename_i hcc
            simp only [Option.some.injEq] at hs; subst hs
            have hq : TaskQuiet2 (s.tasks x) { s.tasks x with mustCancel := false } := by
              rcases hst with hst | ⟨o', hst⟩ <;>
                (refine ⟨by constructor <;> simp_all [isDone, isLive], ?_, ?_, ?_, ?_, ?_⟩ <;> simp_all)
            have hw1 := Wf_setTask hw x { s.tasks x with mustCancel := false } hq.base
            have h21 := Wf2_setTask h2 x { s.tasks x with mustCancel := false } hq
            by_cases hx : x = t
            · subst hx
              exact beginExit_K_self hw1 h21 x b .cancelled rest (by simpa using hfr) (by simpa using hst)
                hk.groups rfl (fun _ => Or.inr rfl)
            · exact beginExit_K_other hw1 (K_setTask_other hk hx _) x b .cancelled rest hx (by simpa using hfr) (by simpa using hst)
          · simp at hs
        · split at hs
          · rename_i hcc
            simp only [Option.some.injEq] at hs; subst hs
            by_cases hx : x = t
            · subst hx
              have hne : o.isExc = false := by
                cases he : o.isExc with
                | false => rfl
                | true => simp [quietFor, he] at hq
              have hoo : o = o0 := by
                rcases hcc with e | e
                · exact e
                · rw [hne] at e; cases e
              subst hoo
              refine beginExit_K_self hw h2 x b o rest hfr hst hk.groups hne ?_
              intro ho
              rcases hk.owed ho with h | h | ⟨b', susp, h, _⟩ | h
              · exact Or.inl h
              · right
                rcases hstx with ⟨e, _⟩ | e
                · rw [e] at h; cases h
                · rw [e] at h; simp only [Status.unwinding.injEq] at h; exact h
              · rcases hst with e | ⟨o', e⟩ <;> rw [e] at h <;> cases h
              · rcases hst with e | ⟨o', e⟩ <;> rw [e] at h <;> cases h
            · exact beginExit_K_other hw hk x b o rest hx hfr hst
          · simp at hs
      · simp at hs
    · simp at hs
  | left x b o =>
    simp only [step] at hs
    split at hs
    · rename_i f rest hfr
      split at hs
      · rename_i hfb
        split at hs
        · rename_i hasync
          split at hs
          · rename_i b' susp hst
            split at hs
            · rename_i hc
              simp only [Option.some.injEq] at hs; subst hs
              obtain ⟨hbb, hmem, hsm, hres⟩ := hc
              subst hbb
              obtain ⟨hown, hent⟩ := wait_owner hw hst
              have hab : afterBlock o = .body ∨ afterBlock o = .unwinding o := by unfold afterBlock; split <;> simp
              by_cases hx : x = t
              · subst hx
                obtain ⟨herr, hpcr, hbx, habt⟩ := hk.groups b' hown
                -- either the group's own result, or a still pending cancellation delivered during the exit
                have hres' : exitResult (s.groups b') = o ∨ ((s.tasks x).mustCancel = true ∧ o = .cancelled) := by
                  simp only [Bool.or_eq_true, Bool.and_eq_true, beq_iff_eq] at hres; exact hres
                have hexr : (exitResult (s.groups b')).isExc = false := by
                  unfold exitResult; split
                  · rfl
                  · exact hbx
                have hoex : o.isExc = false := by
                  rcases hres' with e | ⟨_, e⟩
                  · rw [← e]; exact hexr
                  · rw [e]; rfl
                refine ⟨?_, ?_, ?_⟩
                · intro g hg
                  simp only [setTask_groups, setGroup_groups] at hg ⊢
                  split
                  · rename_i e; subst e; exact ⟨herr, hpcr, hbx, habt⟩
                  · rename_i e; simp only [e, ↓reduceIte] at hg; exact hk.groups g hg
                · intro bb
                  simp only [setTask_tasks, ↓reduceIte]
                  rcases hab with e | e
                  · rw [e]; simp
                  · rw [e]; intro hh; simp only [Status.unwinding.injEq] at hh; subst hh; simp [Outcome.isExc] at hoex
                · intro ho
                  simp only [setTask_tasks, ↓reduceIte] at ho ⊢
                  -- a cancelled exit leaves the task unwinding with the cancellation
                  have hcanc : o = .cancelled → Owed (setTask (setGroup s b' { s.groups b' with finished := true }) x
                      { s.tasks x with frames := rest, status := afterBlock o,
                                       mustCancel := (exitResult (s.groups b') == o) && (s.tasks x).mustCancel }).groups
                      { s.tasks x with frames := rest, status := afterBlock o,
                                       mustCancel := (exitResult (s.groups b') == o) && (s.tasks x).mustCancel } := by
                    intro hoc; subst hoc; right; left; simp [afterBlock]
                  rcases hk.owed ho with h | h | ⟨b'', susp', h, hr⟩ | h
                  · rcases hres' with e | ⟨_, e⟩
                    · left; simp [e, h]
                    · exact hcanc e
                  · rw [hst] at h; cases h
                  · rw [hst] at h; simp only [Status.exitWait.injEq] at h
                    obtain ⟨rfl, _⟩ := h
                    rcases hres' with e | ⟨_, e⟩
                    · refine hcanc ?_
                      rw [← e]; unfold exitResult
                      rcases hr with hr | hr
                      · split
                        · rfl
                        · exact hr
                      · simp [hr, herr]
                    · exact hcanc e
                  · rw [hst] at h; cases h
              · have hown' : (s.groups b').owner ≠ t := fun e => hx (hown.symm.trans e)
                have h1 := K_setGroup_other hw hk { s.groups b' with finished := true } hown' hent (by simpa using hown')
                exact K_setTask_other h1 hx _
            · simp at hs
          · simp at hs
        · rename_i hasync
          split at hs
          · rename_i hbo
            simp only [Option.some.injEq] at hs; subst hs
            by_cases hx : x = t
            · subst hx
              exact K_setTask hk _ (by simpa using hk.noexc) (fun ho => by
                rcases hk.owed ho with h | h | ⟨b', susp, h, h'⟩ | h
                · exact Or.inl h
                · exact Or.inr (Or.inl h)
                · exact Or.inr (Or.inr (Or.inl ⟨b', susp, h, h'⟩))
                · exact Or.inr (Or.inr (Or.inr h)))
            · exact K_setTask_other hk hx _
          · simp at hs
      · simp at hs
    · simp at hs
  | deliver x =>
    simp only [step] at hs
    split at hs
    · rename_i b hst
      split at hs
      · rename_i hm
        simp only [Option.some.injEq] at hs; subst hs
        obtain ⟨hown, hent⟩ := wait_owner hw hst
        by_cases hx : x = t
        · subst hx
          obtain ⟨herr, hpcr, hbx, habt⟩ := hk.groups b hown
          have hex := h2.wait_exiting x b true hst
          have hst1 : ((deliverGroup s b).tasks x).status = .exitWait b true := by
            unfold deliverGroup
            split
            · exact hst
            · rw [abort_status]; exact hst
          have hrr : reraises ((deliverGroup s b).groups b) := by
            unfold deliverGroup
            split
            · rename_i ha; exact (habt ha).2
            · right; simp
          refine ⟨?_, ?_, ?_⟩
          · intro g hg
            simp only [setTask_groups] at hg ⊢
            unfold deliverGroup at hg ⊢
            split
            · rename_i ha; simp only [ha, ↓reduceIte] at hg; exact hk.groups g hg
            · rename_i ha; simp only [ha] at hg
              simp only [abort_groups, setGroup_groups] at hg ⊢
              split
              · refine ⟨herr, hpcr, hbx, fun _ => ⟨hex, Or.inr rfl⟩⟩
              · rename_i e
                have hg' : (s.groups g).owner = x := by simpa [e] using hg
                exact hk.groups g hg'
          · intro bb hh; simp only [setTask_tasks, ↓reduceIte] at hh; cases hh
          · intro _
            simp only [setTask_tasks, ↓reduceIte, setTask_groups]
            right; right; left
            exact ⟨b, _, rfl, hrr⟩
        · have hown' : (s.groups b).owner ≠ t := fun e => hx (hown.symm.trans e)
          have h1 : K t (deliverGroup s b) := by
            unfold deliverGroup
            split
            · exact hk
            · have hwg := Wf_setGroup hw b { s.groups b with propagate := true }
                ⟨rfl, rfl, rfl, fun hh => by simp [hent] at hh⟩ (fun hh => hh)
              exact K_abort_other hwg (K_setGroup_other hw hk _ hown' hent (by simpa using hown')) (by simpa using hown')
          exact K_setTask_other h1 hx _
      · simp at hs
    · simp at hs
  | reap c =>
    simp only [step] at hs
    split at hs
    · rename_i o g hst hmem
      split at hs
      · rename_i hc
        simp only [Option.some.injEq] at hs; subst hs
        have hd : isDone (s.tasks c) = true := by simp [isDone, hst]
        have hent : (s.groups g).entered = true := by
          cases he : (s.groups g).entered with
          | true => rfl
          | false => rw [hw.unentered g he] at hc; simp at hc
        simp only [quietFor, hst, hmem] at hq
        by_cases hog : (s.groups g).owner = t
        · -- a member of the victim's own group: it did not fail
          have hne : o.isExc = false := by
            cases he : o.isExc with
            | false => rfl
            | true => simp [he, hog] at hq
          simp only [hne, Bool.false_eq_true, ↓reduceIte]
          refine ⟨?_, hk.noexc, ?_⟩
          · intro g' hg'
            simp only [dropMember, setGroup_groups] at hg' ⊢
            split
            · rename_i e; subst e
              have := hk.groups g' hog
              exact ⟨by simpa using this.1, this.2.1, this.2.2.1, this.2.2.2⟩
            · rename_i e; simp only [e, ↓reduceIte] at hg'; exact hk.groups g' hg'
          · intro ho
            refine (hk.owed ho).mono ?_
            intro b susp _ hr
            simp only [dropMember, setGroup_groups]; split
            · rename_i e; subst e; exact hr
            · exact hr
        · have h1 : K t (dropMember s g c o.isExc) := K_setGroup_other hw hk _ hog hent (by simpa using hog)
          have hw1 := Wf_dropMember hw g c o.isExc hd hc
          split
          · unfold failGroup
            simp only
            split
            · have hog1 : ((dropMember s g c o.isExc).groups g).owner ≠ t := by simpa [dropMember] using hog
              have hent1 : ((dropMember s g c o.isExc).groups g).entered = true := by simpa [dropMember] using hent
              have h3 := K_abort_other hw1 h1 hog1
              have hw3 := Wf_abort hw1 g hent1
              have h4 := K_setGroup_other hw3 h3 { (abort (dropMember s g c o.isExc) g).groups g with pcr := true }
                (by rw [abort_owner]; exact hog1) (by rw [abort_entered]; exact hent1)
                (by simp only [abort_groups, ↓reduceIte]; exact hog1)
              exact K_setTask_other h4 hog1 _
            · exact h1
          · exact h1
      · simp at hs
    · simp at hs

/-- a finished task carries no pending cancellation flag -/
def DC (T : Task) : Prop := isDone T = true → T.mustCancel = false

theorem DC_requestCancel {T : Task} (h : DC T) : DC (requestCancel T) := by
  intro hd
  have hd' : isDone T = true := by simpa using hd
  have : isLive T = false := by unfold isLive; unfold isDone at hd'; cases hs : T.status <;> simp_all
  simp [requestCancel_eq, this]; exact h hd'

theorem DC_requestParentCancel {T : Task} (h : DC T) : DC (requestParentCancel T) := by
  intro hd
  have hd' : isDone T = true := by simpa using hd
  have : isLive T = false := by unfold isLive; unfold isDone at hd'; cases hs : T.status <;> simp_all
  simp [Haiway.Groups.requestParentCancel, this]; exact h hd'

theorem DC_abort {s : Sys} (h : ∀ c, DC (s.tasks c)) (g : Nat) : ∀ c, DC ((abort s g).tasks c) := by
  intro c; simp only [abort_tasks]; split
  · exact DC_requestCancel (h c)
  · exact h c

theorem DC_setTask {s : Sys} (h : ∀ c, DC (s.tasks c)) (t : Nat) (T' : Task) (h' : DC T') : ∀ c, DC ((setTask s t T').tasks c) := by
  intro c; simp only [setTask_tasks]; split
  · exact h'
  · exact h c

theorem beginExit_DC {s : Sys} (h : ∀ c, DC (s.tasks c)) (t b : Nat) (o : Outcome) : ∀ c, DC ((beginExit s t b o).tasks c) := by
  have h1 : ∀ c, DC ((setGroup (setTask s t (exitTask (s.tasks t) (s.groups b) b)) b (exitGroup (s.tasks t) (s.groups b) o)).tasks c) :=
    DC_setTask h t _ (by intro hd; simp [isDone, exitTask] at hd)
  unfold beginExit; simp only; split
  · exact DC_abort h1 b
  · exact h1

theorem step_DC {s s' : Sys} {l : Label} (h : ∀ c, DC (s.tasks c)) (hs : step s l = some s') : ∀ c, DC (s'.tasks c) := by
  cases l with
  | bodyEnd t b o =>
    simp only [step] at hs
    split at hs
    · split at hs
      · simp only [Option.some.injEq] at hs; subst hs
        exact beginExit_DC h t b o
      · simp at hs
    · simp at hs
  | cleanupEnd t b o consumed =>
    simp only [step] at hs
    split at hs
    · rename_i f rest o0 hfr hbo
      split at hs
      · split at hs
        · split at hs
          · simp only [Option.some.injEq] at hs; subst hs
            refine beginExit_DC (DC_setTask h t _ ?_) t b .cancelled
            intro hd
            have := bodyOutcome_status hbo
            rcases this with e | ⟨o', e⟩ <;> simp [isDone, e] at hd
          · simp at hs
        · split at hs
          · simp only [Option.some.injEq] at hs; subst hs
            exact beginExit_DC h t b o
          · simp at hs
      · simp at hs
    · simp at hs
  | deliver t =>
    simp only [step] at hs
    split at hs
    · rename_i b hst
      split at hs
      · simp only [Option.some.injEq] at hs; subst hs
        have h1 : ∀ c, DC ((deliverGroup s b).tasks c) := by
          unfold deliverGroup; split
          · exact h
          · exact DC_abort (s := setGroup s _ _) h _
        exact DC_setTask h1 t _ (by intro hd; simp [isDone] at hd)
      · simp at hs
    · simp at hs
  | reap c =>
    simp only [step] at hs
    split at hs
    · rename_i o g hst hmem
      split at hs
      · simp only [Option.some.injEq] at hs; subst hs
        have h1 : ∀ x, DC ((dropMember s g c o.isExc).tasks x) := h
        split
        · unfold failGroup; simp only; split
          · have h3 := DC_abort h1 g
            exact DC_setTask (s := setGroup (abort (dropMember s g c o.isExc) g) g _) h3 _ _ (DC_requestParentCancel (h3 _))
          · exact h1
        · exact h1
      · simp at hs
    · simp at hs
  | left t b o =>
    simp only [step] at hs
    split at hs
    · split at hs
      · split at hs
        · split at hs
          · split at hs
            · simp only [Option.some.injEq] at hs; subst hs
              refine DC_setTask (s := setGroup s b _) h t _ ?_
              intro hd
              have hab : afterBlock o = .body ∨ afterBlock o = .unwinding o := by unfold afterBlock; split <;> simp
              rcases hab with e | e <;> simp [isDone, e] at hd
            · simp at hs
          · simp at hs
        · split at hs
          · rename_i hbo
            simp only [Option.some.injEq] at hs; subst hs
            refine DC_setTask h t _ ?_
            intro hd
            have := bodyOutcome_cases hbo
            rcases this with ⟨e, _⟩ | e <;> simp [isDone, e] at hd
          · simp at hs
      · simp at hs
    · simp at hs
  | _ =>
    simp only [step] at hs
    (repeat' split at hs) <;> simp_all <;> subst_vars <;> intro c <;> simp only [setTask_tasks, setGroup_tasks, markDone] <;>
      (try split) <;> (try exact h _) <;> (try exact DC_requestCancel (h _)) <;> (intro hd; simp_all [isDone, DC]; try (split at hd <;> simp_all))

/-- the ghost flag `owed` (a request reached the live task) is never reset -/
def OW (T T' : Task) : Prop := T.owed = true → T.status ≠ .absent → T'.owed = true ∧ T'.status ≠ .absent

theorem OW_rfl (T : Task) : OW T T := fun h h' => ⟨h, h'⟩
theorem OW_requestCancel (T : Task) : OW T (requestCancel T) := fun h h' => ⟨by simpa using h, by simpa using h'⟩
theorem OW_trans {A B C : Task} (h1 : OW A B) (h2 : OW B C) : OW A C := fun h h' => by
  obtain ⟨a, b⟩ := h1 h h'; exact h2 a b

theorem beginExit_OW (s : Sys) (t b : Nat) (o : Outcome) : ∀ c, OW (s.tasks c) ((beginExit s t b o).tasks c) := by
  intro c
  have h1 : OW (s.tasks c) ((setGroup (setTask s t (exitTask (s.tasks t) (s.groups b) b)) b (exitGroup (s.tasks t) (s.groups b) o)).tasks c) := by
    simp only [setGroup_tasks, setTask_tasks]; split
    · rename_i e; subst e; intro h h'; exact ⟨h, by simp [exitTask]⟩
    · exact OW_rfl _
  unfold beginExit; simp only; split
  · refine OW_trans h1 ?_
    simp only [abort_tasks]; split
    · exact OW_requestCancel _
    · exact OW_rfl _
  · exact h1

theorem step_owed {s s' : Sys} {l : Label} (hw : Wf s) (hs : step s l = some s') : ∀ c, OW (s.tasks c) (s'.tasks c) := by
  have habort : ∀ (S : Sys) g c, OW (S.tasks c) ((abort S g).tasks c) := by
    intro S g c; simp only [abort_tasks]; split
    · exact OW_requestCancel _
    · exact OW_rfl _
  cases l with
  | spawn t c viaGroup =>
    simp only [step] at hs
    split at hs
    · rename_i hb
      have hcdef := hw.absent c hb.2
      have key : ∀ T' (s1 : Sys), s1.tasks = (setTask s c T').tasks → ∀ x, OW (s.tasks x) (s1.tasks x) := by
        intro T' s1 ht x; rw [ht]; simp only [setTask_tasks]; split
        · rename_i e; subst e; intro h; rw [hcdef] at h; simp at h
        · exact OW_rfl _
      split at hs
      · split at hs
        · simp only [Option.some.injEq] at hs; subst hs; exact key _ _ rfl
        · split at hs
          · simp at hs
          · simp only [Option.some.injEq] at hs; subst hs; exact key _ _ rfl
      · simp only [Option.some.injEq] at hs; subst hs; exact key _ _ rfl
    · simp at hs
  | bodyEnd t b o =>
    simp only [step] at hs
    split at hs
    · split at hs
      · simp only [Option.some.injEq] at hs; subst hs
        exact beginExit_OW s t b o
      · simp at hs
    · simp at hs
  | cleanupEnd t b o consumed =>
    simp only [step] at hs
    split at hs
    · rename_i f rest o0 hfr hbo
      split at hs
      · split at hs
        · split at hs
          · simp only [Option.some.injEq] at hs; subst hs
            intro c
            refine OW_trans ?_ (beginExit_OW _ t b .cancelled c)
            simp only [setTask_tasks]; split
            · rename_i e; subst e; exact fun h h' => ⟨h, h'⟩
            · exact OW_rfl _
          · simp at hs
        · split at hs
          · simp only [Option.some.injEq] at hs; subst hs
            exact beginExit_OW s t b o
          · simp at hs
      · simp at hs
    · simp at hs
  | deliver t =>
    simp only [step] at hs
    split at hs
    · rename_i b hst
      split at hs
      · simp only [Option.some.injEq] at hs; subst hs
        intro c
        have h1 : OW (s.tasks c) ((deliverGroup s b).tasks c) := by
          unfold deliverGroup; split
          · exact OW_rfl _
          · exact habort (setGroup s b _) b c
        simp only [setTask_tasks]; split
        · rename_i e; subst e; intro h h'; obtain ⟨a, _⟩ := h1 h h'; exact ⟨a, by simp⟩
        · exact h1
      · simp at hs
    · simp at hs
  | reap c =>
    simp only [step] at hs
    split at hs
    · rename_i o g hst hmem
      split at hs
      · simp only [Option.some.injEq] at hs; subst hs
        intro x
        split
        · unfold failGroup; simp only; split
          · simp only [setTask_tasks, setGroup_tasks]; split
            · rename_i e; subst e
              exact OW_trans (habort (dropMember s g c o.isExc) g _) (fun h h' => ⟨by simpa using h, by simpa using h'⟩)
            · exact habort (dropMember s g c o.isExc) g x
          · exact OW_rfl _
        · exact OW_rfl _
      · simp at hs
    · simp at hs
  | left t b o =>
    simp only [step] at hs
    split at hs
    · split at hs
      · split at hs
        · split at hs
          · split at hs
            · simp only [Option.some.injEq] at hs; subst hs
              intro c; simp only [setTask_tasks, setGroup_tasks]; split
              · rename_i e; subst e; intro h h'
                have hab : afterBlock o = .body ∨ afterBlock o = .unwinding o := by unfold afterBlock; split <;> simp
                exact ⟨h, by rcases hab with e | e <;> simp [e]⟩
              · exact OW_rfl _
            · simp at hs
          · simp at hs
        · split at hs
          · simp only [Option.some.injEq] at hs; subst hs
            intro c; simp only [setTask_tasks]; split
            · rename_i e; subst e; exact fun h h' => ⟨h, h'⟩
            · exact OW_rfl _
          · simp at hs
      · simp at hs
    · simp at hs
  | _ =>
    simp only [step] at hs
    (repeat' split at hs) <;> simp_all <;> subst_vars <;> intro c <;> (try simp only [setTask_tasks, setGroup_tasks, markDone]) <;>
      (try split) <;> (try exact OW_rfl _) <;> (intro h h'; first | exact ⟨h, h'⟩ | (simp_all [bodyOutcome]; done) | skip)

theorem init_K (t : Nat) : K t init := by
  refine ⟨fun g _ => by simp [init, GroupOk, Outcome.isExc], ?_, ?_⟩
  · intro b; simp only [init, upd_apply]; split <;> simp
  · intro h; simp only [init, upd_apply] at h; split at h <;> simp at h

theorem init_DC : ∀ c, DC (init.tasks c) := by
  intro c hd; simp only [init, upd_apply] at hd ⊢; split <;> simp_all [isDone]

structure AllInv (t : Nat) (s : Sys) : Prop where
  wf : Wf s
  wf2 : Wf2 s
  k : K t s
  dc : ∀ c, DC (s.tasks c)

theorem runQ_inv (t : Nat) : ∀ (ls : List Label) (s s' : Sys), AllInv t s → runQ t s ls = some s' → AllInv t s'
  | [], s, s', h, hr => by simp [runQ] at hr; exact hr ▸ h
  | l :: ls, s, s', h, hr => by
    simp only [runQ] at hr
    split at hr
    · rename_i hq
      cases hs : step s l with
      | none => simp [hs] at hr
      | some s1 =>
        simp only [hs] at hr
        exact runQ_inv t ls s1 s' ⟨step_Wf h.wf hs, step_Wf2 h.wf h.wf2 hs, step_K h.wf h.wf2 h.k hq hs, step_DC h.dc hs⟩ hr
    · simp at hr

theorem init_inv (t : Nat) : AllInv t init := ⟨init_Wf, init_Wf2, init_K t, init_DC⟩


theorem runQ_owed (t c : Nat) : ∀ (ls : List Label) (s s' : Sys), AllInv t s → runQ t s ls = some s' →
    (s.tasks c).owed = true → (s.tasks c).status ≠ .absent → (s'.tasks c).owed = true
  | [], s, s', _, hr, ho, _ => by simp [runQ] at hr; exact hr ▸ ho
  | l :: ls, s, s', h, hr, ho, hna => by
    simp only [runQ] at hr
    split at hr
    · rename_i hq
      cases hs : step s l with
      | none => simp [hs] at hr
      | some s1 =>
        simp only [hs] at hr
        obtain ⟨ho1, hna1⟩ := step_owed h.wf hs c ho hna
        exact runQ_owed t c ls s1 s' ⟨step_Wf h.wf hs, step_Wf2 h.wf h.wf2 hs, step_K h.wf h.wf2 h.k hq hs, step_DC h.dc hs⟩ hr ho1 hna1
    · simp at hr

/-- a group that remembers a failed / cancelled body or a parked cancellation is aborting -/
def GI (G : Group) : Prop := (G.bodyOut ≠ .ok → G.aborting = true) ∧ (G.propagate = true → G.aborting = true)

theorem GI_abort {s : Sys} (b : Nat) (h : ∀ g, g ≠ b → GI (s.groups g)) : ∀ g, GI ((abort s b).groups g) := by
  intro g; simp only [abort_groups]; split
  · exact ⟨fun _ => rfl, fun _ => rfl⟩
  · rename_i e; exact h g e

theorem GI_setGroup {s : Sys} (h : ∀ g, GI (s.groups g)) (b : Nat) (G' : Group) (h' : GI G') :
    ∀ g, GI ((setGroup s b G').groups g) := by
  intro g; simp only [setGroup_groups]; split
  · exact h'
  · exact h g

theorem beginExit_GI {s : Sys} (h : ∀ g, GI (s.groups g)) (t b : Nat) (o : Outcome) : ∀ g, GI ((beginExit s t b o).groups g) := by
  unfold beginExit; simp only; split
  · exact GI_abort b (fun g hg => by simpa [hg] using h g)
  · rename_i hc
    refine GI_setGroup (s := setTask s t _) h b _ ?_
    have hh : o = .ok ∨ (s.groups b).aborting = true := by
      cases o <;> cases ha : (s.groups b).aborting <;> simp_all
    rcases hh with rfl | ha
    · exact ⟨fun hne => by simp [exitGroup] at hne, fun hp => by simp [exitGroup] at hp⟩
    · exact ⟨fun _ => by simp [exitGroup, ha], fun _ => by simp [exitGroup, ha]⟩

theorem step_GI {s s' : Sys} {l : Label} (h : ∀ g, GI (s.groups g)) (hs : step s l = some s') : ∀ g, GI (s'.groups g) := by
  cases l with
  | bodyEnd t b o =>
    simp only [step] at hs
    split at hs
    · split at hs
      · simp only [Option.some.injEq] at hs; subst hs
        exact beginExit_GI h t b o
      · simp at hs
    · simp at hs
  | cleanupEnd t b o consumed =>
    simp only [step] at hs
    split at hs
    · split at hs
      · split at hs
        · split at hs
          · simp only [Option.some.injEq] at hs; subst hs
            exact beginExit_GI (s := setTask s t _) h t b .cancelled
          · simp at hs
        · split at hs
          · simp only [Option.some.injEq] at hs; subst hs
            exact beginExit_GI h t b o
          · simp at hs
      · simp at hs
    · simp at hs
  | deliver t =>
    simp only [step] at hs
    split at hs
    · rename_i b hst
      split at hs
      · simp only [Option.some.injEq] at hs; subst hs
        simp only [setTask_groups]
        unfold deliverGroup; split
        · exact h
        · exact GI_abort b (fun g hg => by simpa [hg] using h g)
      · simp at hs
    · simp at hs
  | reap c =>
    simp only [step] at hs
    split at hs
    · rename_i o g hst hmem
      split at hs
      · simp only [Option.some.injEq] at hs; subst hs
        have h1 : ∀ g', GI ((dropMember s g c o.isExc).groups g') :=
          GI_setGroup h g _ (h g)
        split
        · unfold failGroup; simp only; split
          · intro g'
            simp only [setTask_groups, setGroup_groups]; split
            · exact ⟨fun _ => by simp, fun _ => by simp⟩
            · exact GI_abort g (fun g'' _ => h1 g'') g'
          · exact h1
        · exact h1
      · simp at hs
    · simp at hs
  | enter t b isAsync =>
    simp only [step] at hs
    split at hs
    · split at hs
      · split at hs
        · simp at hs
        · simp only [Option.some.injEq] at hs; subst hs
          exact GI_setGroup (s := setTask s t _) h b _ ⟨fun hne => by simp at hne, fun hp => by simp at hp⟩
      · simp only [Option.some.injEq] at hs; subst hs; exact h
    · simp at hs
  | spawn t c viaGroup =>
    simp only [step] at hs
    split at hs
    · split at hs
      · split at hs
        · simp only [Option.some.injEq] at hs; subst hs; exact h
        · rename_i g hcg
          split at hs
          · simp at hs
          · simp only [Option.some.injEq] at hs; subst hs
            exact GI_setGroup (s := setTask s c _) h g _ (h g)
      · simp only [Option.some.injEq] at hs; subst hs; exact h
    · simp at hs
  | left t b o =>
    simp only [step] at hs
    split at hs
    · split at hs
      · split at hs
        · split at hs
          · split at hs
            · simp only [Option.some.injEq] at hs; subst hs
              exact GI_setGroup h b _ (h b)
            · simp at hs
          · simp at hs
        · split at hs
          · simp only [Option.some.injEq] at hs; subst hs; exact h
          · simp at hs
      · simp at hs
    · simp at hs
  | _ =>
    simp only [step] at hs
    (repeat' split at hs) <;> simp_all <;> subst_vars <;> intro g <;> (try simp only [setTask_groups, markDone]) <;> exact h g

theorem init_GI : ∀ g, GI (init.groups g) := fun g => ⟨fun h => by simp [init] at h, fun h => by simp [init] at h⟩

theorem Reach.gi {s : Sys} (hr : Reach s) : ∀ g, GI (s.groups g) := by
  obtain ⟨ls, hr⟩ := hr
  have : ∀ (ls : List Label) (s s' : Sys), (∀ g, GI (s.groups g)) → run s ls = some s' → ∀ g, GI (s'.groups g) := by
    intro ls
    induction ls with
    | nil => intro s s' h hr; simp [run] at hr; exact hr ▸ h
    | cons l ls ih =>
      intro s s' h hr
      simp only [run] at hr
      cases hs : step s l with
      | none => simp [hs] at hr
      | some s1 => simp only [hs] at hr; exact ih s1 s' (step_GI h hs) hr
  exact this ls init s init_GI hr

end Haiway.Groups
