import Haiway.Proofs.Groups
/-! Second invariant bundle of `Haiway.Groups`: entered async scopes are distinct, a group is exiting exactly while
its owner waits in its exit, and the accounting of `Task.cancelling()`: every `cancel()` that did not come from an own
group's parent-cancel is still counted (C07: the cancellation check). -/
namespace Haiway.Groups
set_option linter.unusedVariables false

/-- parent-cancels of own groups that `TaskGroup.__aexit__` will still take back with `uncancel()` -/
def pendPred (s : Sys) (g : Nat) : Bool := (s.groups g).pcr && !(s.groups g).exiting

def pend (s : Sys) (T : Task) : Nat := (asyncGroups T.frames).countP (pendPred s)

structure Wf2 (s : Sys) : Prop where
  nodup : ∀ t, (asyncGroups (s.tasks t).frames).Nodup
  exiting_wait : ∀ t g, g ∈ asyncGroups (s.tasks t).frames → (s.groups g).exiting = true →
    ∃ susp, (s.tasks t).status = .exitWait g susp
  wait_exiting : ∀ t b susp, (s.tasks t).status = .exitWait b susp → (s.groups b).exiting = true
  untouched : ∀ t, (s.tasks t).touched = false → (s.tasks t).cancelReq = 0 ∧ (s.tasks t).mustCancel = false
  owed_asks : ∀ t, (s.tasks t).owed = true → 0 < (s.tasks t).asks
  count : ∀ t, (s.tasks t).asks + pend s (s.tasks t) ≤ (s.tasks t).cancelReq

structure TaskQuiet2 (T T' : Task) : Prop where
  base : TaskQuiet T T'
  wait_old : ∀ b susp, T'.status = .exitWait b susp → ∃ susp', T.status = .exitWait b susp'
  wait_keep : ∀ b susp, T.status = .exitWait b susp → ∃ susp', T'.status = .exitWait b susp'
  untouched : T'.touched = false → T.touched = false ∧ T'.cancelReq ≤ T.cancelReq ∧ (T'.mustCancel = true → T.mustCancel = true)
  owed : T'.owed = true → T.owed = true ∨ 0 < T'.asks
  count : T.cancelReq + T'.asks ≤ T'.cancelReq + T.asks

theorem TaskQuiet2.rfl' (T : Task) : TaskQuiet2 T T :=
  ⟨TaskQuiet.rfl' T, fun b s h => ⟨s, h⟩, fun b s h => ⟨s, h⟩, fun h => ⟨h, Nat.le_refl _, id⟩, Or.inl, Nat.le_refl _⟩

theorem TaskQuiet2.requestCancel (T : Task) : TaskQuiet2 T (requestCancel T) := by
  refine ⟨(TaskQuiet.rfl' T).requestCancel, ?_, ?_, ?_, ?_, ?_⟩
  · intro b s h; exact ⟨s, by simpa using h⟩
  · intro b s h; exact ⟨s, by simpa using h⟩
  · unfold Haiway.Groups.requestCancel; split <;> simp
  · intro h; left; simpa using h
  · unfold Haiway.Groups.requestCancel; split <;> simp <;> omega

theorem pend_congr (s s' : Sys) (T T' : Task) (hf : asyncGroups T'.frames = asyncGroups T.frames)
    (hg : ∀ g ∈ asyncGroups T.frames, pendPred s' g = pendPred s g) : pend s' T' = pend s T := by
  unfold pend; rw [hf]
  exact List.countP_congr (fun g hg' => by rw [hg g hg'])

theorem Wf2_quiet {s s' : Sys} (h : Wf2 s) (hT : ∀ c, TaskQuiet2 (s.tasks c) (s'.tasks c))
    (hG : ∀ g, (s'.groups g).pcr = (s.groups g).pcr ∧ (s'.groups g).exiting = (s.groups g).exiting) : Wf2 s' where
  nodup := fun t => by rw [(hT t).base.agroups]; exact h.nodup t
  exiting_wait := fun t g hg he => by
    rw [(hT t).base.agroups] at hg; rw [(hG g).2] at he
    obtain ⟨susp, hs⟩ := h.exiting_wait t g hg he
    exact (hT t).wait_keep g susp hs
  wait_exiting := fun t b susp hs => by
    obtain ⟨susp', hs'⟩ := (hT t).wait_old b susp hs
    rw [(hG b).2]; exact h.wait_exiting t b susp' hs'
  untouched := fun t ht => by
    obtain ⟨h1, h2, h3⟩ := (hT t).untouched ht
    have := h.untouched t h1
    refine ⟨by omega, ?_⟩
    cases hm : (s'.tasks t).mustCancel with
    | false => rfl
    | true => rw [h3 hm] at this; exact absurd this.2 (by simp)
  owed_asks := fun t ho => by
    rcases (hT t).owed ho with h1 | h1
    · exact Nat.lt_of_lt_of_le (h.owed_asks t h1) (hT t).base.asks
    · exact h1
  count := fun t => by
    have hp : pend s' (s'.tasks t) = pend s (s.tasks t) :=
      pend_congr s s' _ _ (hT t).base.agroups (fun g _ => by simp [pendPred, (hG g).1, (hG g).2])
    have := h.count t
    have := (hT t).count
    omega

theorem Wf2_setTask {s : Sys} (h : Wf2 s) (t : Nat) (T' : Task) (hq : TaskQuiet2 (s.tasks t) T') : Wf2 (setTask s t T') :=
  Wf2_quiet h (fun c => by
      simp only [setTask_tasks]; split
      · rename_i hc; subst hc; exact hq
      · exact TaskQuiet2.rfl' _)
    (fun g => ⟨rfl, rfl⟩)

theorem Wf2_setGroup {s : Sys} (h : Wf2 s) (g : Nat) (G' : Group) (hp : G'.pcr = (s.groups g).pcr)
    (he : G'.exiting = (s.groups g).exiting) : Wf2 (setGroup s g G') :=
  Wf2_quiet h (fun c => TaskQuiet2.rfl' _) (fun g' => by
    simp only [setGroup_groups]; split
    · rename_i hg; subst hg; exact ⟨hp, he⟩
    · exact ⟨rfl, rfl⟩)

theorem Wf2_abort {s : Sys} (h : Wf2 s) (g : Nat) : Wf2 (abort s g) :=
  Wf2_quiet h (fun c => by
      simp only [abort_tasks]; split
      · exact TaskQuiet2.requestCancel _
      · exact TaskQuiet2.rfl' _)
    (fun g' => by simp only [abort_groups]; split <;> simp_all)


macro "quiet2_fields" : tactic =>
  `(tactic| (refine ⟨by quiet_fields, ?_, ?_, ?_, ?_, ?_⟩ <;> simp_all [isDone, isLive, bodyOutcome]))

theorem countP_le_of_imp (l : List Nat) (p q : Nat → Bool) (h : ∀ x ∈ l, p x = true → q x = true) :
    l.countP p ≤ l.countP q := by
  induction l with
  | nil => simp
  | cons a l ih =>
    have ih' := ih (fun x hx => h x (List.mem_cons_of_mem _ hx))
    simp only [List.countP_cons]
    have := h a (by simp)
    cases hp : p a <;> cases hq : q a <;> simp_all <;> omega

theorem markDone_Wf2 {s : Sys} (h : Wf2 s) (t : Nat) (o : Outcome)
    (hw : ∀ b susp, (s.tasks t).status ≠ .exitWait b susp) (hna : (s.tasks t).status ≠ .absent)
    (hnd : isDone (s.tasks t) = false) : Wf2 (markDone s t o) := by
  unfold markDone
  refine Wf2_setTask h t _ ⟨?_, ?_, ?_, ?_, ?_, ?_⟩
  · constructor <;> simp_all [isDone, isLive]
  · intro b susp hh; simp at hh
  · intro b susp hh; exact absurd hh (hw b susp)
  · intro hh; exact ⟨hh, Nat.le_refl _, by simp⟩
  · intro hh; exact Or.inl hh
  · exact Nat.le_refl _

/-- `_on_task_done` of a failed member: the group records its parent-cancel and the owner's counter goes up together -/
theorem Wf2_parentCancel {S : Sys} (hw2 : Wf S) (h2 : Wf2 S) (g ow : Nat) (hO : (S.groups g).owner = ow) (G' : Group)
    (hG1 : G'.pcr = true) (hG2 : G'.exiting = (S.groups g).exiting) (hpcr : (S.groups g).pcr = false)
    (hndS : isDone (S.tasks ow) = false) :
    Wf2 (setTask (setGroup S g G') ow (requestParentCancel (S.tasks ow))) := by
  have hother : ∀ x, x ≠ ow → g ∉ asyncGroups (S.tasks x).frames := fun x hx hxg =>
    hx ((hw2.frames_owner x g hxg).1.symm.trans hO)
  have hpp : ∀ g', g' ≠ g → pendPred (setTask (setGroup S g G') ow (requestParentCancel (S.tasks ow))) g' = pendPred S g' := by
    intro g' hg'; simp [pendPred, hg']
  have hlive_or : isLive (S.tasks ow) = true ∨ S.tasks ow = {} := by
    cases hl : isLive (S.tasks ow) with
    | true => exact Or.inl rfl
    | false =>
      right
      apply hw2.absent
      unfold isLive at hl; unfold isDone at hndS
      cases hss : (S.tasks ow).status <;> simp_all
  refine ⟨?_, ?_, ?_, ?_, ?_, ?_⟩
  · intro x; simp only [setTask_tasks, setGroup_tasks]; split
    · rename_i e; subst e; simp only [requestParentCancel_frames]; exact h2.nodup x
    · exact h2.nodup x
  · intro x g' hg' he
    simp only [setTask_tasks, setGroup_tasks, setTask_groups, setGroup_groups] at hg' he ⊢
    have he' : (S.groups g').exiting = true := by
      split at he
      · rename_i e; subst e; rw [← hG2]; exact he
      · exact he
    have hg'' : g' ∈ asyncGroups (S.tasks x).frames := by
      split at hg'
      · rename_i e; subst e; simpa using hg'
      · exact hg'
    obtain ⟨susp, hh⟩ := h2.exiting_wait x g' hg'' he'
    split
    · rename_i e; subst e; exact ⟨susp, by simpa using hh⟩
    · exact ⟨susp, hh⟩
  · intro x b' susp hx
    simp only [setTask_tasks, setGroup_tasks, setTask_groups, setGroup_groups] at hx ⊢
    have hx' : (S.tasks x).status = .exitWait b' susp := by
      split at hx
      · rename_i e; subst e; simpa using hx
      · exact hx
    have := h2.wait_exiting x b' susp hx'
    split
    · rename_i e; subst e; rw [hG2]; exact this
    · exact this
  · intro x hx
    simp only [setTask_tasks, setGroup_tasks] at hx ⊢
    split
    · rename_i e; subst e
      simp only [↓reduceIte] at hx
      rcases hlive_or with hl | hl
      · simp [Haiway.Groups.requestParentCancel, hl] at hx
      · rw [hl]; simp [Haiway.Groups.requestParentCancel, isLive]
    · rename_i e; simp only [e, ↓reduceIte] at hx; exact h2.untouched x hx
  · intro x hx
    simp only [setTask_tasks, setGroup_tasks] at hx ⊢
    split
    · rename_i e; subst e
      simp only [↓reduceIte, requestParentCancel_owed] at hx
      simp only [requestParentCancel_asks]; exact h2.owed_asks x hx
    · rename_i e; simp only [e, ↓reduceIte] at hx; exact h2.owed_asks x hx
  · intro x
    have hc0 := h2.count x
    simp only [setTask_tasks, setGroup_tasks]
    split
    · rename_i e; subst e
      rcases hlive_or with hl | hl
      · -- live owner: counter +1, at most one more pending group (g occurs at most once)
        have hle : pend (setTask (setGroup S g G') x (requestParentCancel (S.tasks x)))
            (requestParentCancel (S.tasks x)) ≤ pend S (S.tasks x) + 1 := by
          simp only [pend, requestParentCancel_frames]
          have hnd' := h2.nodup x
          generalize asyncGroups (S.tasks x).frames = L at hnd'
          induction L with
          | nil => simp
          | cons a L ih =>
            simp only [List.nodup_cons] at hnd'
            simp only [List.countP_cons]
            by_cases hag : a = g
            · subst hag
              have : L.countP (pendPred (setTask (setGroup S a G') x (requestParentCancel (S.tasks x))))
                  = L.countP (pendPred S) :=
                List.countP_congr (fun g' hg' => by rw [hpp g' (fun e => hnd'.1 (e ▸ hg'))])
              rw [this]
              split <;> split <;> omega
            · rw [hpp a hag]
              have := ih hnd'.2
              split <;> omega
        have hcr : (requestParentCancel (S.tasks x)).cancelReq = (S.tasks x).cancelReq + 1 := by
          simp [Haiway.Groups.requestParentCancel, hl]
        rw [hcr, requestParentCancel_asks]; omega
      · rw [hl]; simp [Haiway.Groups.requestParentCancel, isLive, pend, asyncGroups]
    · rename_i e
      have : pend (setTask (setGroup S g G') ow (requestParentCancel (S.tasks ow))) (S.tasks x) = pend S (S.tasks x) :=
        pend_congr _ _ _ _ rfl (fun g' hg' => hpp g' (fun e' => hother x e (e' ▸ hg')))
      rw [this]; exact hc0

/-- the owner leaves an async block: the innermost frame is popped, control state becomes body / unwinding -/
theorem Wf2_leftAsync {s : Sys} (h : Wf2 s) (t b' : Nat) (susp : Bool) (rest : List Frame)
    (hst : (s.tasks t).status = .exitWait b' susp) (hfr : (s.tasks t).frames = ⟨b', true⟩ :: rest)
    (T' : Task) (G' : Group) (hf : T'.frames = rest)
    (hab : T'.status = .body ∨ ∃ o, T'.status = .unwinding o)
    (hcr : T'.cancelReq = (s.tasks t).cancelReq) (hto : T'.touched = (s.tasks t).touched)
    (how : T'.owed = (s.tasks t).owed) (has : T'.asks = (s.tasks t).asks)
    (hmc : T'.mustCancel = true → (s.tasks t).mustCancel = true)
    (hp : G'.pcr = (s.groups b').pcr) (he : G'.exiting = (s.groups b').exiting) :
    Wf2 (setTask (setGroup s b' G') t T') := by
  have hnd := h.nodup t
  rw [hfr] at hnd
  simp only [asyncGroups_cons, ↓reduceIte, List.nodup_cons] at hnd
  have hpp : ∀ g, pendPred (setTask (setGroup s b' G') t T') g = pendPred s g := by
    intro g; simp only [pendPred, setTask_groups, setGroup_groups]; split
    · rename_i e; subst e; rw [hp, he]
    · rfl
  refine ⟨?_, ?_, ?_, ?_, ?_, ?_⟩
  · intro x; simp only [setTask_tasks, setGroup_tasks]; split
    · rw [hf]; exact hnd.2
    · exact h.nodup x
  · intro x g hg hex
    simp only [setTask_tasks, setGroup_tasks, setTask_groups, setGroup_groups] at hg hex ⊢
    have he' : (s.groups g).exiting = true := by
      split at hex
      · rename_i e; subst e; rw [← he]; exact hex
      · exact hex
    split at hg
    · rename_i e; subst e
      rw [hf] at hg
      obtain ⟨susp', hh⟩ := h.exiting_wait x g (by rw [hfr]; simp [asyncGroups_cons, hg]) he'
      rw [hst] at hh; simp only [Status.exitWait.injEq] at hh
      obtain ⟨rfl, _⟩ := hh
      exact absurd hg hnd.1
    · rename_i e; simp only [e, ↓reduceIte]; exact h.exiting_wait x g hg he'
  · intro x b'' susp' hx
    simp only [setTask_tasks, setGroup_tasks, setTask_groups, setGroup_groups] at hx ⊢
    split at hx
    · rcases hab with e | ⟨o, e⟩ <;> rw [e] at hx <;> cases hx
    · have := h.wait_exiting x b'' susp' hx
      split
      · rename_i e; subst e; rw [he]; exact this
      · exact this
  · intro x hx
    simp only [setTask_tasks, setGroup_tasks] at hx ⊢
    split
    · rename_i e; subst e
      simp only [↓reduceIte] at hx
      rw [hto] at hx
      have := h.untouched x hx
      refine ⟨by rw [hcr]; exact this.1, ?_⟩
      cases hm : T'.mustCancel with
      | false => rfl
      | true => have := hmc hm; simp_all
    · rename_i e; simp only [e, ↓reduceIte] at hx; exact h.untouched x hx
  · intro x hx
    simp only [setTask_tasks, setGroup_tasks] at hx ⊢
    split
    · rename_i e; subst e; simp only [↓reduceIte] at hx; rw [how] at hx; rw [has]; exact h.owed_asks x hx
    · rename_i e; simp only [e, ↓reduceIte] at hx; exact h.owed_asks x hx
  · intro x
    have hc0 := h.count x
    simp only [setTask_tasks, setGroup_tasks]
    split
    · rename_i e; subst e
      simp only [pend, hfr, asyncGroups_cons, ↓reduceIte, List.countP_cons] at hc0
      simp only [pend, hf, has, hcr]
      have : (asyncGroups rest).countP (pendPred (setTask (setGroup s b' G') x T')) = (asyncGroups rest).countP (pendPred s) :=
        List.countP_congr (fun g _ => by rw [hpp g])
      rw [this]; omega
    · have : pend (setTask (setGroup s b' G') t T') (s.tasks x) = pend s (s.tasks x) :=
        pend_congr _ _ _ _ rfl (fun g _ => hpp g)
      rw [this]; exact hc0

/-- `TaskGroup.__aexit__` begins for the innermost entered async scope of a task that is running code -/
theorem beginExit_Wf2 {s : Sys} (hw : Wf s) (h : Wf2 s) (t b : Nat) (o : Outcome) (rest : List Frame)
    (hfr : (s.tasks t).frames = ⟨b, true⟩ :: rest)
    (hst : (s.tasks t).status = .body ∨ ∃ o', (s.tasks t).status = .unwinding o') : Wf2 (beginExit s t b o) := by
  have hin : b ∈ asyncGroups (s.tasks t).frames := by rw [hfr]; simp [asyncGroups_cons]
  have hown := (hw.frames_owner t b hin).1
  have hnw : ∀ g susp, (s.tasks t).status ≠ .exitWait g susp := by
    intro g susp hh; rcases hst with e | ⟨o', e⟩ <;> rw [e] at hh <;> cases hh
  have hnex : (s.groups b).exiting = false := by
    cases he : (s.groups b).exiting with
    | false => rfl
    | true => obtain ⟨susp, hh⟩ := h.exiting_wait t b hin he; exact absurd hh (hnw b susp)
  have hnd := h.nodup t
  rw [hfr] at hnd
  simp only [asyncGroups_cons, ↓reduceIte, List.nodup_cons] at hnd
  have hother : ∀ x, x ≠ t → b ∉ asyncGroups (s.tasks x).frames := fun x hx hxb =>
    hx ((hw.frames_owner x b hxb).1.symm.trans hown)
  -- the state before the (quiet) abort
  have h0 : Wf2 (setGroup (setTask s t (exitTask (s.tasks t) (s.groups b) b)) b (exitGroup (s.tasks t) (s.groups b) o)) := by
    have hpp : ∀ g, g ≠ b → pendPred (setGroup (setTask s t (exitTask (s.tasks t) (s.groups b) b)) b
        (exitGroup (s.tasks t) (s.groups b) o)) g = pendPred s g := by
      intro g hg; simp [pendPred, hg]
    refine ⟨?_, ?_, ?_, ?_, ?_, ?_⟩
    · intro x; simp only [setGroup_tasks, setTask_tasks]; split
      · rename_i e; subst e; exact h.nodup x
      · exact h.nodup x
    · intro x g hg he
      simp only [setGroup_tasks, setTask_tasks, setGroup_groups] at hg he ⊢
      by_cases hgb : g = b
      · subst hgb
        have hxt : x = t := by
          have hg' : g ∈ asyncGroups (s.tasks x).frames := by
            split at hg
            · rename_i e; subst e; exact hg
            · exact hg
          exact (hw.frames_owner x g hg').1.symm.trans hown
        subst hxt; exact ⟨!(s.groups g).members.isEmpty, by simp [exitTask]⟩
      · simp only [hgb, ↓reduceIte] at he
        have hg' : g ∈ asyncGroups (s.tasks x).frames := by
          split at hg
          · rename_i e; subst e; exact hg
          · exact hg
        obtain ⟨susp, hh⟩ := h.exiting_wait x g hg' he
        split
        · rename_i e; subst e; exact absurd hh (hnw g susp)
        · exact ⟨susp, hh⟩
    · intro x b' susp hx
      simp only [setGroup_tasks, setTask_tasks, setGroup_groups] at hx ⊢
      split at hx
      · rename_i e; subst e
        simp only [exitTask, Status.exitWait.injEq] at hx
        obtain ⟨rfl, _⟩ := hx
        simp [exitGroup]
      · have := h.wait_exiting x b' susp hx
        split
        · simp [exitGroup]
        · exact this
    · intro x hx
      simp only [setGroup_tasks, setTask_tasks] at hx ⊢
      split
      · rename_i e; subst e
        simp only [↓reduceIte, exitTask] at hx
        have := h.untouched x hx
        simp only [exitTask, uncancelled]
        refine ⟨?_, this.2⟩
        split <;> omega
      · rename_i e; simp only [e, ↓reduceIte] at hx; exact h.untouched x hx
    · intro x hx
      simp only [setGroup_tasks, setTask_tasks] at hx ⊢
      split
      · rename_i e; subst e; simp only [↓reduceIte, exitTask] at hx; exact h.owed_asks x hx
      · rename_i e; simp only [e, ↓reduceIte] at hx; exact h.owed_asks x hx
    · intro x
      have hc0 := h.count x
      simp only [setGroup_tasks, setTask_tasks]
      split
      · rename_i e; subst e
        have hfr' : (exitTask (s.tasks x) (s.groups b) b).frames = ⟨b, true⟩ :: rest := hfr
        have hcr : (exitTask (s.tasks x) (s.groups b) b).cancelReq = uncancelled (s.tasks x) (s.groups b) := rfl
        have has : (exitTask (s.tasks x) (s.groups b) b).asks = (s.tasks x).asks := rfl
        generalize hS' : setGroup (setTask s x (exitTask (s.tasks x) (s.groups b) b)) b
          (exitGroup (s.tasks x) (s.groups b) o) = S' at hpp ⊢
        have h1 : pendPred S' b = false := by rw [← hS']; simp [pendPred, exitGroup]
        simp only [pend, hfr', hcr, has, asyncGroups_cons, ↓reduceIte, List.countP_cons, h1]
        have h2 : (asyncGroups rest).countP (pendPred S') = (asyncGroups rest).countP (pendPred s) :=
          List.countP_congr (fun g hg => by rw [hpp g (fun e => hnd.1 (e ▸ hg))])
        rw [h2]
        simp only [pend, hfr, asyncGroups_cons, ↓reduceIte, List.countP_cons] at hc0
        have h3 : pendPred s b = (s.groups b).pcr := by simp [pendPred, hnex]
        rw [h3] at hc0
        simp only [uncancelled]
        cases hp : (s.groups b).pcr <;> simp [hp] at hc0 ⊢ <;> omega
      · rename_i e
        have : pend (setGroup (setTask s t (exitTask (s.tasks t) (s.groups b) b)) b (exitGroup (s.tasks t) (s.groups b) o))
            (s.tasks x) = pend s (s.tasks x) :=
          pend_congr _ _ _ _ rfl (fun g hg => hpp g (fun e' => hother x e (e' ▸ hg)))
        rw [this]; exact hc0
  unfold beginExit
  simp only
  split
  · exact Wf2_abort h0 b
  · exact h0

theorem step_Wf2 {s s' : Sys} {l : Label} (hw : Wf s) (h : Wf2 s) (hs : step s l = some s') : Wf2 s' := by
  cases l with
  | rel g =>
    simp only [step, Option.some.injEq] at hs; subst hs
    exact ⟨h.nodup, h.exiting_wait, h.wait_exiting, h.untouched, h.owed_asks, h.count⟩
  | cancel t =>
    simp only [step] at hs
    split at hs
    · simp at hs
    · split at hs
      · simp only [Option.some.injEq] at hs; subst hs; exact h
      · rename_i hna hnd
        simp only [Option.some.injEq] at hs; subst hs
        refine Wf2_setTask h t _ ?_
        have hq := TaskQuiet2.requestCancel (s.tasks t)
        have hl : isLive (s.tasks t) = true := by
          unfold isLive; unfold isDone at hnd; cases hst : (s.tasks t).status <;> simp_all
        refine ⟨hq.base.post rfl rfl rfl rfl (Nat.le_refl _) (fun hh => by simp at hh; exact absurd hh hna),
          hq.wait_old, hq.wait_keep, ?_, ?_, hq.count⟩
        · intro hh; simp [requestCancel_eq, hl] at hh
        · intro _; right; exact requestCancel_asks _ hl
  | start t =>
    simp only [step] at hs
    split at hs
    · rename_i hc; simp only [Option.some.injEq] at hs; subst hs
      exact Wf2_setTask h t _ (by quiet2_fields)
    · simp at hs
  | silentEnd t =>
    simp only [step] at hs
    split at hs
    · rename_i hc; simp only [Option.some.injEq] at hs; subst hs
      exact markDone_Wf2 h t _ (by simp [hc.1]) (by simp [hc.1]) (by simp [isDone, hc.1])
    · simp at hs
  | enter t b isAsync =>
    simp only [step] at hs
    split at hs
    · rename_i hb
      split at hs
      · rename_i hasync
        split at hs
        · simp at hs
        · rename_i hne
          simp only [Option.some.injEq] at hs; subst hs
          have hne' : (s.groups b).entered = false := by simpa using hne
          have hdef := hw.unentered b hne'
          have hnf : ∀ c, b ∉ asyncGroups (s.tasks c).frames := fun c hc => by
            have := (hw.frames_owner c b hc).2; rw [hne'] at this; cases this
          have hpp : ∀ g, g ≠ b → pendPred (setGroup (setTask s t { s.tasks t with frames := ⟨b, true⟩ :: (s.tasks t).frames }) b
              { owner := t, entered := true }) g = pendPred s g := by
            intro g hg; simp [pendPred, hg]
          refine ⟨?_, ?_, ?_, ?_, ?_, ?_⟩
          · intro c
            simp only [setGroup_tasks, setTask_tasks]
            split
            · rename_i hct; subst hct
              simp only [asyncGroups_cons, ↓reduceIte, List.nodup_cons]
              exact ⟨hnf c, h.nodup c⟩
            · exact h.nodup c
          · intro c g hg he
            simp only [setGroup_tasks, setTask_tasks, setGroup_groups] at hg he ⊢
            by_cases hgb : g = b
            · subst hgb; simp at he
            · simp only [hgb, ↓reduceIte] at he
              have hg' : g ∈ asyncGroups (s.tasks c).frames := by
                split at hg
                · rename_i hct; subst hct
                  simp only [asyncGroups_cons, ↓reduceIte, List.mem_cons] at hg
                  rcases hg with e | e
                  · exact absurd e hgb
                  · exact e
                · exact hg
              obtain ⟨susp, hst⟩ := h.exiting_wait c g hg' he
              split
              · rename_i hct; subst hct; exact ⟨susp, hst⟩
              · exact ⟨susp, hst⟩
          · intro c b' susp hst
            simp only [setGroup_tasks, setTask_tasks, setGroup_groups] at hst ⊢
            have hst' : (s.tasks c).status = .exitWait b' susp := by
              split at hst
              · rename_i hct; subst hct; exact hst
              · exact hst
            have := h.wait_exiting c b' susp hst'
            split
            · rename_i hbb; subst hbb; rw [hdef] at this; simp at this
            · exact this
          · intro c hc
            simp only [setGroup_tasks, setTask_tasks] at hc ⊢
            split
            · rename_i hct; subst hct; simp only [↓reduceIte] at hc; exact h.untouched c hc
            · rename_i hct; simp only [hct, ↓reduceIte] at hc; exact h.untouched c hc
          · intro c hc
            simp only [setGroup_tasks, setTask_tasks] at hc ⊢
            split
            · rename_i hct; subst hct; simp only [↓reduceIte] at hc; exact h.owed_asks c hc
            · rename_i hct; simp only [hct, ↓reduceIte] at hc; exact h.owed_asks c hc
          · intro c
            have hc0 := h.count c
            simp only [setGroup_tasks, setTask_tasks]
            split
            · rename_i hct; subst hct
              simp only [pend, asyncGroups_cons, ↓reduceIte, List.countP_cons]
              have h1 : pendPred (setGroup (setTask s c { s.tasks c with frames := ⟨b, true⟩ :: (s.tasks c).frames }) b
                  { owner := c, entered := true }) b = false := by simp [pendPred]
              rw [h1]
              have h2 : (asyncGroups (s.tasks c).frames).countP (pendPred (setGroup (setTask s c { s.tasks c with frames := ⟨b, true⟩ :: (s.tasks c).frames }) b
                  { owner := c, entered := true })) = (asyncGroups (s.tasks c).frames).countP (pendPred s) :=
                List.countP_congr (fun g hg => by rw [hpp g (fun e => hnf c (e ▸ hg))])
              rw [h2]; simp only [pend] at hc0; simpa using hc0
            · have : pend (setGroup (setTask s t { s.tasks t with frames := ⟨b, true⟩ :: (s.tasks t).frames }) b
                  { owner := t, entered := true }) (s.tasks c) = pend s (s.tasks c) :=
                pend_congr _ _ _ _ rfl (fun g hg => hpp g (fun e => hnf c (e ▸ hg)))
              rw [this]; exact hc0
      · rename_i hasync
        simp only [Option.some.injEq] at hs; subst hs
        have hf : isAsync = false := by simpa using hasync
        subst hf
        exact Wf2_setTask h t _ (by quiet2_fields)
    · simp at hs
  | enterfail t b o =>
    simp only [step] at hs
    split at hs
    · rename_i hc
      split at hs
      · simp at hs
      · simp only [Option.some.injEq] at hs; subst hs
        exact Wf2_setTask h t _ (by quiet2_fields)
      · split at hs
        · rename_i hm
          simp only [Option.some.injEq] at hs; subst hs
          refine Wf2_setTask h t _ ?_
          have hto : (s.tasks t).touched = true := by
            cases htt : (s.tasks t).touched with
            | true => rfl
            | false => have := (h.untouched t htt).2; rw [hm] at this; cases this
          quiet2_fields
        · simp at hs
    · simp at hs
  | spawn t c viaGroup =>
    simp only [step] at hs
    split at hs
    · rename_i hb
      obtain ⟨hbody, habs⟩ := hb
      have hcdef := hw.absent c habs
      have key : ∀ (T' : Task) (s1 : Sys), T'.status = .fresh → T'.frames = [] → T'.cancelReq = 0 → T'.asks = 0 →
          T'.owed = false → T'.mustCancel = false → s1.tasks = (setTask s c T').tasks →
          (∀ g, (s1.groups g).pcr = (s.groups g).pcr ∧ (s1.groups g).exiting = (s.groups g).exiting) → Wf2 s1 := by
        intro T' s1 h1 h2 h3 h4 h5 h6 ht hg
        have hpp : ∀ g, pendPred s1 g = pendPred s g := fun g => by simp [pendPred, (hg g).1, (hg g).2]
        refine ⟨?_, ?_, ?_, ?_, ?_, ?_⟩
        · intro x; rw [ht]; simp only [setTask_tasks]; split
          · simp [h2, asyncGroups]
          · exact h.nodup x
        · intro x g hx he; rw [ht] at hx ⊢; simp only [setTask_tasks] at hx ⊢
          split at hx
          · simp [h2, asyncGroups] at hx
          · rename_i hxc; simp only [hxc, ↓reduceIte]; rw [(hg g).2] at he; exact h.exiting_wait x g hx he
        · intro x b' susp hx; rw [ht] at hx; simp only [setTask_tasks] at hx
          split at hx
          · rw [h1] at hx; cases hx
          · rw [(hg b').2]; exact h.wait_exiting x b' susp hx
        · intro x hx; rw [ht] at hx ⊢; simp only [setTask_tasks] at hx ⊢
          split
          · exact ⟨h3, h6⟩
          · rename_i hxc; simp only [hxc, ↓reduceIte] at hx; exact h.untouched x hx
        · intro x hx; rw [ht] at hx ⊢; simp only [setTask_tasks] at hx ⊢
          split
          · rename_i hxc; simp only [hxc, ↓reduceIte] at hx; rw [h5] at hx; cases hx
          · rename_i hxc; simp only [hxc, ↓reduceIte] at hx; exact h.owed_asks x hx
        · intro x; rw [ht]; simp only [setTask_tasks]
          split
          · simp [pend, h2, asyncGroups, h4]
          · have : pend s1 (s.tasks x) = pend s (s.tasks x) := pend_congr _ _ _ _ rfl (fun g _ => hpp g)
            rw [this]; exact h.count x
      split at hs
      · split at hs
        · simp only [Option.some.injEq] at hs; subst hs
          exact key _ _ rfl rfl rfl rfl rfl rfl rfl (fun g => ⟨rfl, rfl⟩)
        · rename_i g hcg
          split at hs
          · simp at hs
          · simp only [Option.some.injEq] at hs; subst hs
            refine key { status := .fresh, base := some g, member := some g, depth := (s.tasks t).depth + 1 } _ rfl rfl rfl rfl rfl rfl rfl (fun g' => ?_)
            simp only [setGroup_groups, setTask_groups]; split
            · rename_i e; subst e; exact ⟨rfl, rfl⟩
            · exact ⟨rfl, rfl⟩
      · simp only [Option.some.injEq] at hs; subst hs
        exact key _ _ rfl rfl rfl rfl rfl rfl rfl (fun g => ⟨rfl, rfl⟩)
    · simp at hs
  | spawnfail t c =>
    simp only [step] at hs
    split at hs
    · split at hs
      · split at hs
        · simp only [Option.some.injEq] at hs; subst hs; exact h
        · simp at hs
      · simp at hs
    · simp at hs
  | await t g =>
    simp only [step] at hs
    split at hs
    · rename_i hc; simp only [Option.some.injEq] at hs; subst hs
      exact Wf2_setTask h t _ (by quiet2_fields)
    · simp at hs
  | resume t g cancelled =>
    simp only [step] at hs
    split at hs
    · rename_i hc
      split at hs
      · split at hs
        · rename_i hm
          simp only [Option.some.injEq] at hs; subst hs
          refine Wf2_setTask h t _ ?_
          have hto : (s.tasks t).touched = true := by
            cases htt : (s.tasks t).touched with
            | true => rfl
            | false => have := (h.untouched t htt).2; rw [hm] at this; cases this
          quiet2_fields
        · simp at hs
      · split at hs
        · simp only [Option.some.injEq] at hs; subst hs
          exact Wf2_setTask h t _ (by quiet2_fields)
        · simp at hs
    · simp at hs
  | raise t base =>
    simp only [step] at hs
    split at hs
    · rename_i o ho
      simp only [Option.some.injEq] at hs; subst hs
      refine Wf2_setTask h t _ ?_
      unfold bodyOutcome at ho
      split at ho <;> first | (simp at ho; done) | quiet2_fields
    · simp at hs
  | caught t o =>
    simp only [step] at hs
    split at hs
    · rename_i hc; simp only [Option.some.injEq] at hs; subst hs
      exact Wf2_setTask h t _ (by quiet2_fields)
    · simp at hs
  | check t raised =>
    simp only [step] at hs
    split at hs
    · rename_i hc; simp only [Option.some.injEq] at hs; subst hs
      split
      · exact Wf2_setTask h t _ (by quiet2_fields)
      · exact h
    · simp at hs
  | cancelself t =>
    simp only [step] at hs
    split at hs
    · rename_i hc; simp only [Option.some.injEq] at hs; subst hs
      refine Wf2_setTask h t _ ?_
      have hq := TaskQuiet2.requestCancel (s.tasks t)
      have hl : isLive (s.tasks t) = true := by simp [isLive, hc]
      refine ⟨hq.base.post rfl rfl rfl rfl (Nat.le_refl _) (fun hh => by simp [hc] at hh),
        hq.wait_old, hq.wait_keep, ?_, ?_, hq.count⟩
      · intro hh; simp [requestCancel_eq, hl] at hh
      · intro _; right; exact requestCancel_asks _ hl
    · simp at hs
  | bodyEnd t b o =>
    simp only [step] at hs
    split at hs
    · rename_i f rest hfr
      split at hs
      · rename_i hc
        obtain ⟨hf, hbo⟩ := hc
        subst hf
        simp only [Option.some.injEq] at hs; subst hs
        exact beginExit_Wf2 hw h t b o rest hfr (bodyOutcome_status hbo)
      · simp at hs
    · simp at hs
  | cleanupEnd t b o consumed =>
    simp only [step] at hs
    split at hs
    · rename_i f rest o0 hfr hbo
      split at hs
      · rename_i hf
        subst hf
        have hst := bodyOutcome_status hbo
        split at hs
        · split at hs
          · simp only [Option.some.injEq] at hs; subst hs
            have hq : TaskQuiet2 (s.tasks t) { s.tasks t with mustCancel := false } := by
              rcases hst with hst | ⟨o', hst⟩ <;>
                (refine ⟨by constructor <;> simp_all [isDone, isLive], ?_, ?_, ?_, ?_, ?_⟩ <;> simp_all)
            have hw1 := Wf_setTask hw t { s.tasks t with mustCancel := false } hq.base
            have h1 := Wf2_setTask h t { s.tasks t with mustCancel := false } hq
            exact beginExit_Wf2 hw1 h1 t b .cancelled rest (by simpa using hfr) (by simpa using hst)
          · simp at hs
        · split at hs
          · simp only [Option.some.injEq] at hs; subst hs
            exact beginExit_Wf2 hw h t b o rest hfr hst
          · simp at hs
      · simp at hs
    · simp at hs
  | left t b o =>
    simp only [step] at hs
    split at hs
    · rename_i f rest hfr
      split at hs
      · rename_i hfb
        split at hs
        · rename_i hasync
          split at hs
          · rename_i b' susp hst
            split at hs
            · rename_i hc
              simp only [Option.some.injEq] at hs; subst hs
              have hfeq : f = ⟨b, true⟩ := by cases f; simp_all
              subst hfeq
              obtain ⟨hbb, _, _, _⟩ := hc
              subst hbb
              exact Wf2_leftAsync h t b' susp rest hst hfr _ _ rfl
                (by unfold afterBlock; split <;> simp) rfl rfl rfl rfl (by intro hh; simp at hh; exact hh.2) rfl rfl
            · simp at hs
          · simp at hs
        · rename_i hasync
          split at hs
          · rename_i hbo
            simp only [Option.some.injEq] at hs; subst hs
            have hst : (s.tasks t).status = .body ∨ ∃ o', (s.tasks t).status = .unwinding o' := by
              unfold bodyOutcome at hbo; split at hbo <;> simp_all
            refine Wf2_setTask h t _ ?_
            have hfa : f.isAsync = false := by simpa using hasync
            rcases hst with hst | ⟨o', hst⟩ <;>
              (refine ⟨by constructor <;> simp_all [isDone, isLive, asyncGroups_cons], ?_, ?_, ?_, ?_, ?_⟩ <;> simp_all)
          · simp at hs
      · simp at hs
    · simp at hs
  | deliver t =>
    simp only [step] at hs
    split at hs
    · rename_i b hst
      split at hs
      · rename_i hm
        simp only [Option.some.injEq] at hs; subst hs
        have h1 : Wf2 (deliverGroup s b) := by
          unfold deliverGroup
          split
          · exact h
          · exact Wf2_abort (Wf2_setGroup h b { s.groups b with propagate := true } rfl rfl) b
        refine Wf2_setTask h1 t _ ?_
        have hst1 : ((deliverGroup s b).tasks t).status = .exitWait b true := by
          unfold deliverGroup
          split
          · exact hst
          · rw [abort_status]; exact hst
        have hto : ((deliverGroup s b).tasks t).touched = true := by
          have hm1 : ((deliverGroup s b).tasks t).mustCancel = true := by
            unfold deliverGroup
            split
            · exact hm
            · simp only [abort_tasks, setGroup_tasks]; split
              · exact requestCancel_must_mono _ hm
              · exact hm
          cases htt : ((deliverGroup s b).tasks t).touched with
          | true => rfl
          | false => have := (h1.untouched t htt).2; rw [hm1] at this; cases this
        refine ⟨⟨rfl, rfl, rfl, ?_, ?_, ?_, ?_, ?_, Nat.le_refl _⟩, ?_, ?_, ?_, ?_, Nat.le_refl _⟩
        · intro hh; rw [hst1] at hh; cases hh
        · intro hh; simp at hh
        · intro hh; simp [isDone, hst1] at hh
        · intro _; simp [isLive, hst1]
        · intro b' susp hh
          simp only [Status.exitWait.injEq] at hh
          obtain ⟨rfl, _⟩ := hh
          exact ⟨rfl, Or.inl ⟨true, hst1⟩⟩
        · intro b' susp hh
          simp only [Status.exitWait.injEq] at hh
          obtain ⟨rfl, _⟩ := hh
          exact ⟨true, hst1⟩
        · intro b' susp hh
          rw [hst1] at hh; simp only [Status.exitWait.injEq] at hh
          obtain ⟨rfl, _⟩ := hh
          exact ⟨_, rfl⟩
        · intro hh; simp only at hh; rw [hto] at hh; cases hh
        · intro hh; exact Or.inl hh
      · simp at hs
    · simp at hs
  | reap c =>
    simp only [step] at hs
    split at hs
    · rename_i o g hst hmem
      split at hs
      · rename_i hc
        simp only [Option.some.injEq] at hs; subst hs
        have hd : isDone (s.tasks c) = true := by simp [isDone, hst]
        have hw1 := Wf_dropMember hw g c o.isExc hd hc
        have h1 : Wf2 (dropMember s g c o.isExc) := Wf2_setGroup h g _ rfl rfl
        split
        · -- failGroup
          unfold failGroup
          simp only
          split
          · rename_i hcond
            simp only [Bool.and_eq_true, Bool.not_eq_true'] at hcond
            obtain ⟨⟨hnd, hnab⟩, hnp⟩ := hcond
            have h2 := Wf2_abort h1 g
            have hw2 := Wf_abort hw1 g (by
              cases he : ((dropMember s g c o.isExc).groups g).entered with
              | true => rfl
              | false =>
                have : (s.groups g).entered = false := by simpa [dropMember] using he
                rw [hw.unentered g this] at hc; simp at hc)
            exact Wf2_parentCancel hw2 h2 g _ (abort_owner _ g g) _ rfl rfl
              (by simpa [dropMember] using hnp) (by rw [abort_isDone]; exact hnd)
          · exact h1
        · exact h1
      · simp at hs
    · simp at hs
  | end_ t o =>
    simp only [step] at hs
    split at hs
    · rename_i hc
      simp only [Option.some.injEq] at hs; subst hs
      have hst : (s.tasks t).status = .body ∨ ∃ o', (s.tasks t).status = .unwinding o' := by
        have := hc.2; unfold bodyOutcome at this; split at this <;> simp_all
      refine markDone_Wf2 h t _ ?_ ?_ ?_
      · rcases hst with e | ⟨o', e⟩ <;> simp [e]
      · rcases hst with e | ⟨o', e⟩ <;> simp [e]
      · rcases hst with e | ⟨o', e⟩ <;> simp [isDone, e]
    · simp at hs


theorem init_Wf2 : Wf2 init := by
  refine ⟨?_, ?_, ?_, ?_, ?_, ?_⟩ <;> intros <;> simp_all [init, upd_apply, pend] <;>
    (first | done | (split at * <;> simp_all [asyncGroups]) | (split <;> simp [asyncGroups]))

theorem run_Wf_Wf2 : ∀ (ls : List Label) (s s' : Sys), Wf s → Wf2 s → run s ls = some s' → Wf s' ∧ Wf2 s'
  | [], s, s', h, h2, hr => by simp [run] at hr; exact hr ▸ ⟨h, h2⟩
  | l :: ls, s, s', h, h2, hr => by
    simp only [run] at hr
    cases hs : step s l with
    | none => simp [hs] at hr
    | some s1 => simp only [hs] at hr; exact run_Wf_Wf2 ls s1 s' (step_Wf h hs) (step_Wf2 h h2 hs) hr

theorem Reach.wf2 {s : Sys} (h : Reach s) : Wf2 s := by
  obtain ⟨ls, hr⟩ := h
  exact (run_Wf_Wf2 ls init s init_Wf init_Wf2 hr).2

end Haiway.Groups
