import Haiway.Proofs.Groups
/-! The ghost `depth` of a task (length of the chain of spawns that led to it) orders the waits-for relation of group exits:
    every member of a group is strictly deeper than the group's owner.  (helper lemmas for `C06.exit_progress`) -/
namespace Haiway.Groups

@[simp] theorem requestCancel_depth (T : Task) : (requestCancel T).depth = T.depth := by
  unfold requestCancel; split <;> rfl
@[simp] theorem requestParentCancel_depth (T : Task) : (requestParentCancel T).depth = T.depth := by
  unfold requestParentCancel; split <;> rfl

/-- owner and `entered` flag of a group -/
def GO (G : Group) : Nat × Bool := (G.owner, G.entered)

@[simp] theorem abort_GO (s : Sys) (b g : Nat) : GO ((abort s b).groups g) = GO (s.groups g) := by
  simp only [abort_groups]; split
  · rename_i e; subst e; rfl
  · rfl

@[simp] theorem beginExit_GO (s : Sys) (t b : Nat) (o : Outcome) (g : Nat) :
    GO ((beginExit s t b o).groups g) = GO (s.groups g) := by
  unfold beginExit; simp only; split
  · rw [abort_GO]; simp only [setGroup_groups, setTask_groups]; split
    · rename_i e; subst e; rfl
    · rfl
  · simp only [setGroup_groups, setTask_groups]; split
    · rename_i e; subst e; rfl
    · rfl

@[simp] theorem deliverGroup_GO (s : Sys) (b g : Nat) : GO ((deliverGroup s b).groups g) = GO (s.groups g) := by
  unfold deliverGroup; split
  · rfl
  · rw [abort_GO]; simp only [setGroup_groups]; split
    · rename_i e; subst e; rfl
    · rfl

@[simp] theorem dropMember_GO (s : Sys) (b c : Nat) (f : Bool) (g : Nat) :
    GO ((dropMember s b c f).groups g) = GO (s.groups g) := by
  unfold dropMember; simp only [setGroup_groups]; split
  · rename_i e; subst e; rfl
  · rfl

@[simp] theorem failGroup_GO (s : Sys) (b g : Nat) : GO ((failGroup s b).groups g) = GO (s.groups g) := by
  unfold failGroup; simp only; split
  · simp only [setTask_groups, setGroup_groups]; split
    · rename_i e; subst e; exact abort_GO s g g
    · exact abort_GO s b g
  · rfl

@[simp] theorem markDone_groups (s : Sys) (t : Nat) (o : Outcome) : (markDone s t o).groups = s.groups := rfl

/-- every step leaves owner and `entered` of every group alone, except `enter` of an async scope, which makes the entering
task (running its body) the owner of a group that was not entered before -/
theorem step_GO {s s' : Sys} {l : Label} (hs : step s l = some s') (g : Nat) :
    GO (s'.groups g) = GO (s.groups g) ∨
    (∃ t, l = .enter t g true ∧ (s.groups g).entered = false ∧ (s.tasks t).status = .body ∧ GO (s'.groups g) = (t, true)) := by
  cases l <;> simp only [step] at hs
  all_goals (repeat' split at hs)
  all_goals (try (simp at hs; done))
  all_goals (try (simp only [Option.some.injEq] at hs; subst hs))
  all_goals (first
    | (left; rfl)
    | (left; simp only [setTask_groups, setGroup_groups, beginExit_GO, deliverGroup_GO, dropMember_GO, failGroup_GO,
          markDone_groups]; done)
    | (left; simp only [setTask_groups, setGroup_groups, beginExit_GO, deliverGroup_GO, dropMember_GO, failGroup_GO,
          markDone_groups]; split <;> (first | rfl | (rename_i e; subst e; rfl)); done)
    | skip)
  -- what is left: `enter t b true` of a group that was not entered
  rename_i t b ia hst hia hne
  by_cases e : g = b
  · subst e
    right
    exact ⟨t, by rw [hia], by simpa using hne, hst, by simp [GO]⟩
  · left; simp [e]

theorem beq_absent_false {st : Status} (h : st ≠ .absent) : (st == Status.absent) = false := by simp [h]
@[simp] theorem unwinding_beq_absent (o : Outcome) : (Status.unwinding o == Status.absent) = false :=
  beq_absent_false (by intro h; cases h)
@[simp] theorem exitWait_beq_absent (b : Nat) (x : Bool) : (Status.exitWait b x == Status.absent) = false :=
  beq_absent_false (by intro h; cases h)
@[simp] theorem done_beq_absent (o : Outcome) : (Status.done o == Status.absent) = false :=
  beq_absent_false (by intro h; cases h)
@[simp] theorem awaiting_beq_absent (g : Nat) : (Status.awaiting g == Status.absent) = false :=
  beq_absent_false (by intro h; cases h)
@[simp] theorem body_beq_absent : (Status.body == Status.absent) = false := by decide
@[simp] theorem fresh_beq_absent : (Status.fresh == Status.absent) = false := by decide

/-- what the depth argument reads of a task: inherited group, depth, whether the task exists -/
def TP (T : Task) : Option Nat × Nat × Bool := (T.base, T.depth, T.status == .absent)

@[simp] theorem requestCancel_TP (T : Task) : TP (requestCancel T) = TP T := by simp [TP]
@[simp] theorem requestParentCancel_TP (T : Task) : TP (requestParentCancel T) = TP T := by simp [TP]

@[simp] theorem abort_TP (s : Sys) (b t : Nat) : TP ((abort s b).tasks t) = TP (s.tasks t) := by
  simp only [abort_tasks]; split <;> simp

@[simp] theorem deliverGroup_TP (s : Sys) (b t : Nat) : TP ((deliverGroup s b).tasks t) = TP (s.tasks t) := by
  unfold deliverGroup; split
  · rfl
  · rw [abort_TP]; rfl

@[simp] theorem dropMember_tasks (s : Sys) (b c : Nat) (f : Bool) : (dropMember s b c f).tasks = s.tasks := rfl

@[simp] theorem failGroup_TP (s : Sys) (b t : Nat) : TP ((failGroup s b).tasks t) = TP (s.tasks t) := by
  unfold failGroup; simp only; split
  · simp only [setTask_tasks, setGroup_tasks]; split
    · rename_i e; subst e; rw [requestParentCancel_TP]; exact abort_TP s b _
    · exact abort_TP s b t
  · rfl

theorem status_ne_absent_of_bodyOutcome {T : Task} {o : Outcome} (h : bodyOutcome T = some o) :
    (T.status == Status.absent) = false := by
  unfold bodyOutcome at h; split at h <;> simp_all

theorem beginExit_TP (s : Sys) (t b : Nat) (o : Outcome) (x : Nat) (h : ((s.tasks t).status == Status.absent) = false) :
    TP ((beginExit s t b o).tasks x) = TP (s.tasks x) := by
  unfold beginExit; simp only
  have key : TP ((setGroup (setTask s t (exitTask (s.tasks t) (s.groups b) b)) b (exitGroup (s.tasks t) (s.groups b) o)).tasks x)
      = TP (s.tasks x) := by
    simp only [setGroup_tasks, setTask_tasks]; split
    · rename_i e; subst e; simp [TP, exitTask, h]
    · rfl
  split
  · rw [abort_TP]; exact key
  · exact key

theorem markDone_TP (s : Sys) (t : Nat) (o : Outcome) (x : Nat) (h : ((s.tasks t).status == Status.absent) = false) :
    TP ((markDone s t o).tasks x) = TP (s.tasks x) := by
  unfold markDone; simp only [setTask_tasks]; split
  · rename_i e; subst e; simp [TP, h]
  · rfl

theorem afterBlock_beq_absent (o : Outcome) : (afterBlock o == Status.absent) = false := by
  unfold afterBlock; split <;> simp

/-- closes `TP ((setTask s t T').tasks x) = TP (s.tasks x)` goals when `T'` keeps base and depth and neither the old nor the new
status is `absent` (facts in context) -/
macro "tp_set" : tactic => `(tactic|
  (simp only [setTask_tasks, setGroup_tasks, deliverGroup_TP, dropMember_tasks, failGroup_TP]
   split
   · simp_all (config := { decide := true }) [TP, afterBlock_beq_absent]
   · first | rfl | simp))

/-- every step leaves inherited group, depth and existence of every task alone, except `spawn`, which creates the (so far
absent) child one level deeper than the spawner, inheriting nothing or the group the spawner sees -/
theorem step_TP {s s' : Sys} {l : Label} (hs : step s l = some s') (x : Nat) :
    TP (s'.tasks x) = TP (s.tasks x) ∨
    (∃ u v, l = .spawn u x v ∧ (s.tasks x).status = .absent ∧ (s.tasks u).status = .body ∧
      (s'.tasks x).depth = (s.tasks u).depth + 1 ∧ (s'.tasks x).status = .fresh ∧
      ((s'.tasks x).base = none ∨ (s'.tasks x).base = ctxGroup (s.tasks u))) := by
  cases l with
  | spawn t c viaGroup =>
    simp only [step] at hs
    split at hs
    · rename_i hb
      obtain ⟨hbody, habs⟩ := hb
      by_cases e : x = c
      · subst e
        right
        refine ⟨t, viaGroup, rfl, habs, hbody, ?_⟩
        split at hs
        · split at hs
          · simp only [Option.some.injEq] at hs; subst hs; simp
          · split at hs
            · simp at hs
            · rename_i g hcg hnr
              simp only [Option.some.injEq] at hs; subst hs
              simp [hcg]
        · simp only [Option.some.injEq] at hs; subst hs; simp
      · left
        split at hs
        · split at hs
          · simp only [Option.some.injEq] at hs; subst hs; simp [e]
          · split at hs
            · simp at hs
            · simp only [Option.some.injEq] at hs; subst hs; simp [e]
        · simp only [Option.some.injEq] at hs; subst hs; simp [e]
    · simp at hs
  | raise t base =>
    simp only [step] at hs
    split at hs
    · rename_i o ho
      simp only [Option.some.injEq] at hs; subst hs
      left
      have hb := status_ne_absent_of_bodyOutcome ho
      tp_set
    · simp at hs
  | bodyEnd t b o =>
    simp only [step] at hs
    repeat' split at hs
    all_goals (try (simp at hs; done))
    simp only [Option.some.injEq] at hs; subst hs
    rename_i hc
    left; exact beginExit_TP s t b o x (status_ne_absent_of_bodyOutcome hc.2)
  | cleanupEnd t b o consumed =>
    simp only [step] at hs
    repeat' split at hs
    all_goals (try (simp at hs; done))
    all_goals (simp only [Option.some.injEq] at hs; subst hs; left)
    · rename_i o0 hfr hbo hf hcons hmc
      have hb := status_ne_absent_of_bodyOutcome hbo
      rw [beginExit_TP _ t b .cancelled x (by simp only [setTask_tasks, ↓reduceIte]; exact hb)]
      tp_set
    · rename_i o0 hfr hbo hf hcons hmc
      exact beginExit_TP s t b o x (status_ne_absent_of_bodyOutcome hbo)
  | left t b o =>
    simp only [step] at hs
    repeat' split at hs
    all_goals (try (simp at hs; done))
    all_goals (simp only [Option.some.injEq] at hs; subst hs; left)
    · tp_set
    · rename_i hbo
      have hb := status_ne_absent_of_bodyOutcome hbo
      tp_set
  | deliver t =>
    simp only [step] at hs
    repeat' split at hs
    all_goals (try (simp at hs; done))
    simp only [Option.some.injEq] at hs; subst hs
    left
    simp only [setTask_tasks]
    split
    · rename_i e; subst e
      rename_i b hst _
      have h1 := deliverGroup_TP s b x
      simp only [TP, Prod.mk.injEq] at h1 ⊢
      refine ⟨h1.1, h1.2.1, ?_⟩
      simp [hst]
    · rename_i b _ _ _
      exact deliverGroup_TP s b x
  | reap c =>
    simp only [step] at hs
    repeat' split at hs
    all_goals (try (simp at hs; done))
    all_goals (simp only [Option.some.injEq] at hs; subst hs; left)
    all_goals (first | (rw [failGroup_TP]; rfl) | rfl)
  | end_ t o =>
    simp only [step] at hs
    split at hs
    · rename_i hc
      simp only [Option.some.injEq] at hs; subst hs
      left; exact markDone_TP s t _ x (status_ne_absent_of_bodyOutcome hc.2)
    · simp at hs
  | silentEnd t =>
    simp only [step] at hs
    split at hs
    · rename_i hc
      simp only [Option.some.injEq] at hs; subst hs
      left; exact markDone_TP s t _ x (by simp [hc.1])
    · simp at hs
  | _ =>
    simp only [step] at hs
    repeat' split at hs
    all_goals (try (simp at hs; done))
    all_goals (try (simp only [Option.some.injEq] at hs; subst hs))
    all_goals (first
      | (left; rfl)
      | (left; tp_set; done)
      | skip)

/-! ### the depth invariant -/

structure Dp (s : Sys) : Prop where
  /-- a task that inherited a group is strictly deeper than the group's owner -/
  base_depth : ∀ t g, (s.tasks t).base = some g → (s.tasks (s.groups g).owner).depth < (s.tasks t).depth
  /-- the owner of an entered group exists -/
  owner_live : ∀ g, (s.groups g).entered = true → (s.tasks (s.groups g).owner).status ≠ .absent
  /-- depths are bounded (finitely many spawns so far) -/
  bound : ∃ B, ∀ t, (s.tasks t).depth ≤ B

theorem Dp_init : Dp init := by
  refine ⟨?_, ?_, ⟨0, ?_⟩⟩
  · intro t g h; simp [init, upd] at h; split at h <;> simp at h
  · intro g h; simp [init] at h
  · intro t; simp only [init, upd]; split <;> simp

theorem ctxGroup_cases (T : Task) (g : Nat) (h : ctxGroup T = some g) :
    g ∈ asyncGroups T.frames ∨ T.base = some g := by
  unfold ctxGroup at h
  split at h
  · rename_i g' rest hg
    simp only [Option.some.injEq] at h; subst h
    left; rw [hg]; simp
  · right; exact h

theorem TP_base {T T' : Task} (h : TP T' = TP T) : T'.base = T.base := by
  simp only [TP, Prod.mk.injEq] at h; exact h.1
theorem TP_depth {T T' : Task} (h : TP T' = TP T) : T'.depth = T.depth := by
  simp only [TP, Prod.mk.injEq] at h; exact h.2.1
theorem TP_absent {T T' : Task} (h : TP T' = TP T) : T'.status = .absent ↔ T.status = .absent := by
  simp only [TP, Prod.mk.injEq] at h
  have := h.2.2
  constructor
  · intro h1; rw [h1] at this; simpa using this.symm
  · intro h1; rw [h1] at this; simpa using this
theorem GO_owner {G G' : Group} (h : GO G' = GO G) : G'.owner = G.owner := by
  simp only [GO, Prod.mk.injEq] at h; exact h.1
theorem GO_entered {G G' : Group} (h : GO G' = GO G) : G'.entered = G.entered := by
  simp only [GO, Prod.mk.injEq] at h; exact h.2

/-- depth of an existing task never changes -/
theorem step_depth_of_live {s s' : Sys} {l : Label} (hs : step s l = some s') (o : Nat)
    (ho : (s.tasks o).status ≠ .absent) : (s'.tasks o).depth = (s.tasks o).depth ∧ (s'.tasks o).status ≠ .absent := by
  rcases step_TP hs o with h | ⟨u, v, _, habs, _⟩
  · exact ⟨TP_depth h, fun h1 => ho ((TP_absent h).mp h1)⟩
  · exact absurd habs ho

theorem step_Dp {s s' : Sys} {l : Label} (hw : Wf s) (h : Dp s) (hs : step s l = some s') : Dp s' := by
  refine ⟨?_, ?_, ?_⟩
  · intro t g hb
    rcases step_TP hs t with ht | ⟨u, v, hl, habs, hbody, hdep, _, hbase⟩
    · -- t keeps base and depth
      have hb0 : (s.tasks t).base = some g := by rw [← TP_base ht]; exact hb
      have hent := hw.base_entered t g hb0
      rcases step_GO hs g with hg | ⟨t', _, hne, _⟩
      · rw [GO_owner hg, TP_depth ht]
        have hol := h.owner_live g hent
        rw [(step_depth_of_live hs _ hol).1]
        exact h.base_depth t g hb0
      · rw [hne] at hent; cases hent
    · -- t was just spawned by u
      rcases hbase with hb' | hb'
      · rw [hb'] at hb; cases hb
      · rw [hb'] at hb
        have hent := ctxGroup_entered hw u g hb
        have hg : GO (s'.groups g) = GO (s.groups g) := by
          rcases step_GO hs g with hg | ⟨t', hl', _⟩
          · exact hg
          · rw [hl] at hl'; cases hl'
        have hol := h.owner_live g hent
        rw [GO_owner hg, (step_depth_of_live hs _ hol).1, hdep]
        rcases ctxGroup_cases _ g hb with hin | hbu
        · rw [(hw.frames_owner u g hin).1]; exact Nat.lt_succ_self _
        · exact Nat.lt_succ_of_lt (h.base_depth u g hbu)
  · intro g hent
    rcases step_GO hs g with hg | ⟨t, hl, hne, hbody, hgo⟩
    · rw [GO_owner hg]
      rw [GO_entered hg] at hent
      exact (step_depth_of_live hs _ (h.owner_live g hent)).2
    · have : (s'.groups g).owner = t := by simp only [GO, Prod.mk.injEq] at hgo; exact hgo.1
      rw [this]
      exact (step_depth_of_live hs t (by rw [hbody]; intro hh; cases hh)).2
  · obtain ⟨B, hB⟩ := h.bound
    refine ⟨B + 1, fun t => ?_⟩
    rcases step_TP hs t with ht | ⟨u, v, _, _, _, hdep, _⟩
    · rw [TP_depth ht]; exact Nat.le_succ_of_le (hB t)
    · rw [hdep]; exact Nat.succ_le_succ (hB u)

theorem run_Dp : ∀ (ls : List Label) (s s' : Sys), Wf s → Dp s → run s ls = some s' → Dp s'
  | [], s, s', _, h, hr => by simp only [run, Option.some.injEq] at hr; subst hr; exact h
  | l :: ls, s, s', hw, h, hr => by
    simp only [run] at hr
    cases hs : step s l with
    | none => rw [hs] at hr; cases hr
    | some s1 =>
      rw [hs] at hr
      exact run_Dp ls s1 s' (step_Wf hw hs) (step_Dp hw h hs) hr

theorem Reach.dp {s : Sys} (h : Reach s) : Dp s := by
  obtain ⟨ls, hr⟩ := h
  exact run_Dp ls init s (Reach.wf ⟨[], rfl⟩) Dp_init hr

/-- a member is strictly deeper than the owner of its group -/
theorem member_deeper {s : Sys} (hw : Wf s) (hd : Dp s) (g c : Nat) (hc : c ∈ (s.groups g).members) :
    (s.tasks (s.groups g).owner).depth < (s.tasks c).depth :=
  hd.base_depth c g (hw.member_base c g (hw.listed g c hc).1)

end Haiway.Groups
