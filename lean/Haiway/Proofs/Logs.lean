import Haiway.Model.Logs
/-! Helper lemmas for `Props/C19.lean`. -/
namespace Haiway.Logs

/-- the nearest explicitly given trace id along a path (outermost first) -/
def nearestTrace (path : List (Spec × Nat)) : Option (List Char) := path.reverse.findSome? (·.1.trace)
/-- the nearest explicitly given logger along a path -/
def nearestLogger (path : List (Spec × Nat)) : Option Nat := path.reverse.findSome? (·.1.logger)

theorem nearestTrace_cons (x : Spec × Nat) (rest : List (Spec × Nat)) :
    nearestTrace (x :: rest) = match nearestTrace rest with | some t => some t | none => x.1.trace := by
  simp only [nearestTrace, List.reverse_cons, List.findSome?_append]
  cases rest.reverse.findSome? (·.1.trace) <;> cases h : x.1.trace <;> simp [h]

theorem nearestLogger_cons (x : Spec × Nat) (rest : List (Spec × Nat)) :
    nearestLogger (x :: rest) = match nearestLogger rest with | some t => some t | none => x.1.logger := by
  simp only [nearestLogger, List.reverse_cons, List.findSome?_append]
  cases rest.reverse.findSome? (·.1.logger) <;> cases h : x.1.logger <;> simp [h]

theorem build_some (p : Scope) (path : List (Spec × Nat)) : ∃ c, build (some p) path = some c := by
  induction path generalizing p with
  | nil => exact ⟨p, rfl⟩
  | cons x rest ih => exact ih _

theorem build_trace (path : List (Spec × Nat)) : ∀ (p c : Scope), build (some p) path = some c →
    c.trace = match nearestTrace path with | some t => .given t | none => p.trace := by
  induction path with
  | nil => intro p c h; simp only [build, Option.some.injEq] at h; subst h; simp [nearestTrace]
  | cons x rest ih =>
    intro p c h
    obtain ⟨spec, id⟩ := x
    simp only [build] at h
    rw [ih _ c h, nearestTrace_cons]
    cases nearestTrace rest with
    | some t => rfl
    | none => cases hs : spec.trace <;> simp [mkScope, hs]

theorem build_logger (path : List (Spec × Nat)) : ∀ (p c : Scope), build (some p) path = some c →
    c.logger = match nearestLogger path with | some k => .supplied k | none => p.logger := by
  induction path with
  | nil => intro p c h; simp only [build, Option.some.injEq] at h; subst h; simp [nearestLogger]
  | cons x rest ih =>
    intro p c h
    obtain ⟨spec, id⟩ := x
    simp only [build] at h
    rw [ih _ c h, nearestLogger_cons]
    cases nearestLogger rest with
    | some t => rfl
    | none => cases hs : spec.logger <;> simp [mkScope, hs]

/-! ### the %-format reader and the escaped prefix -/

theorem render_cons_ne (c : Char) (x : List Char) (args : List Arg) (h : c ≠ '%') :
    render (c :: x) args = (render x args).map (c :: ·) := by
  cases x with
  | nil =>
    simp only [render, h, ↓reduceIte]
    split <;> simp
  | cons k rest => rw [render.eq_def]; simp [h]

theorem render_pct_pct (x : List Char) (args : List Arg) :
    render ('%' :: '%' :: x) args = (render x args).map ('%' :: ·) := by
  rw [render.eq_def]; simp

theorem render_escape_append (p x : List Char) (args : List Arg) :
    render (escape p ++ x) args = (render x args).map (p ++ ·) := by
  induction p with
  | nil => simp [escape]
  | cons c rest ih =>
    by_cases hc : c = '%'
    · subst hc
      simp only [escape, ↓reduceIte, List.cons_append]
      rw [render_pct_pct, ih]
      cases render x args <;> simp
    · simp only [escape, hc, ↓reduceIte, List.cons_append]
      rw [render_cons_ne c _ args hc, ih]
      cases render x args <;> simp

theorem renderMap_escape_append (p x : List Char) (items : List Arg) :
    renderMap (escape p ++ x) items = (renderMap x items).map (p ++ ·) := by
  unfold renderMap
  induction p with
  | nil => simp [escape]
  | cons c rest ih =>
    by_cases hc : c = '%'
    · subst hc
      simp only [escape, ↓reduceIte, List.cons_append, renderMapAux]
      rw [ih]
      cases renderMapAux .text x items <;> simp
    · simp only [escape, hc, ↓reduceIte, List.cons_append, renderMapAux]
      rw [ih]
      cases renderMapAux .text x items <;> simp

theorem renderMap_cons_ne (c : Char) (x : List Char) (items : List Arg) (h : c ≠ '%') :
    renderMap (c :: x) items = (renderMap x items).map (c :: ·) := by
  simp [renderMap, renderMapAux, h]

end Haiway.Logs
