import Haiway.Model.Metrics
/-! Helper lemmas and specification-side definitions for `Props/C10.lean`. -/
namespace Haiway.Metrics

theorem get_put (s : Store) (ty ty' : Nat) (v : Val) :
    get (put s ty v) ty' = if ty' = ty then some v else get s ty' := by
  induction s with
  | nil => simp [put, get]; split <;> simp_all [eq_comm]
  | cons p rest ih =>
    obtain ⟨t, x⟩ := p
    unfold put
    by_cases ht : t = ty
    · subst ht
      by_cases h' : ty' = t
      · subst h'; simp [get]
      · have : ¬ t = ty' := fun h => h' h.symm
        simp [get, List.find?, this, h']
    · simp only [ht, ↓reduceIte]
      by_cases h' : t = ty'
      · subst h'
        have : ¬ t = ty := ht
        simp [get, List.find?, this]
      · simp only [get, List.find?_cons, h', decide_false] at ih ⊢
        simpa [get] using ih

/-- one `ctx.record` on an open scope, as the store sees it: a raising merge leaves the store unchanged -/
def recordStep (s : Store) (r : Val × Merge) : Store :=
  match record false s r.1 r.2 with
  | .stored s' => s'
  | .raised _ => s

/-- a sequence of records, in recording order -/
def recordAll (s : Store) (recs : List (Val × Merge)) : Store := recs.foldl recordStep s

/-- specification: what one record does to the value of type `ty` -/
def foldStep (ty : Nat) (acc : Option Val) (r : Val × Merge) : Option Val :=
  if r.1.ty = ty then
    match acc with
    | some cur => (match r.2 cur r.1 with | .ok x => some x | .raise _ => acc)
    | none => some r.1
  else acc

theorem get_recordStep (s : Store) (r : Val × Merge) (ty : Nat) :
    get (recordStep s r) ty = foldStep ty (get s ty) r := by
  obtain ⟨v, m⟩ := r
  unfold recordStep record foldStep
  simp only [Bool.false_eq_true, ↓reduceIte]
  by_cases hty : v.ty = ty
  · subst hty
    cases hg : get s v.ty with
    | none => simp [get_put]
    | some cur =>
      cases hm : m cur v with
      | ok x => simp [hm, get_put]
      | raise e => simp [hm, hg]
  · have hne : ¬ ty = v.ty := fun h => hty h.symm
    simp only [hty, ↓reduceIte]
    cases hg : get s v.ty with
    | none => simp [get_put, hne]
    | some cur =>
      cases hm : m cur v with
      | ok x => simp [hm, get_put, hne]
      | raise e => simp [hm]

theorem get_recordAll (recs : List (Val × Merge)) (s : Store) (ty : Nat) :
    get (recordAll s recs) ty = recs.foldl (foldStep ty) (get s ty) := by
  induction recs generalizing s with
  | nil => rfl
  | cons r rest ih =>
    simp only [recordAll, List.foldl_cons] at ih ⊢
    rw [ih, get_recordStep]

/-- a total merge function as a `Merge` -/
def total (f : Val → Val → Val) : Merge := fun a b => .ok (f a b)

theorem foldl_some {α β : Type} (f : α → β → α) (l : List β) (a : α) :
    l.foldl (fun acc b => match acc with | some c => some (f c b) | none => none) (some a)
      = some (l.foldl f a) := by
  induction l generalizing a with
  | nil => rfl
  | cons b rest ih => simp only [List.foldl_cons]; exact ih (f a b)

/-- the left fold of the records' own merge functions over the records of one type -/
def leftFold : List (Val × (Val → Val → Val)) → Option Val
  | [] => none
  | (v0, _) :: rest => some (rest.foldl (fun acc r => r.2 acc r.1) v0)

theorem foldStep_total (ty : Nat) (recs : List (Val × (Val → Val → Val))) :
    ∀ (acc : Val),
      (recs.map (fun r => (r.1, total r.2))).foldl (foldStep ty) (some acc)
        = some ((recs.filter (fun r => r.1.ty = ty)).foldl (fun acc r => r.2 acc r.1) acc) := by
  induction recs with
  | nil => intro acc; rfl
  | cons r rest ih =>
    intro acc
    simp only [List.map_cons, List.foldl_cons]
    by_cases hty : r.1.ty = ty
    · simp only [foldStep, hty, ↓reduceIte, total, List.filter_cons, decide_true, List.foldl_cons]
      exact ih (r.2 acc r.1)
    · simp only [foldStep, hty, ↓reduceIte, List.filter_cons, decide_false, Bool.false_eq_true]
      exact ih acc

/-! ### merged view -/

theorem viewList_eq (merge : ViewMerge) (ts : List Tree) (acc : Store) :
    viewList merge acc ts = ts.foldl (fun acc t => mergeInto merge acc (values (view merge t))) acc := by
  induction ts generalizing acc with
  | nil => simp [viewList]
  | cons t ts ih => simp only [viewList, List.foldl_cons]; exact ih _

theorem mergeInto_eq (merge : ViewMerge) (vs : List Val) (acc : Store) :
    mergeInto merge acc vs
      = vs.foldl (fun acc v => match merge (get acc v.ty) v with | some r => put acc v.ty r | none => acc) acc := by
  induction vs generalizing acc with
  | nil => rfl
  | cons v rest ih => simp only [mergeInto, List.foldl_cons]; exact ih _

end Haiway.Metrics
