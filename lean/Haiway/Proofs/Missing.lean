import Haiway.Model.Missing
/-! Helper lemmas for C20: the mutual inductions over value trees. -/
namespace Haiway.Missing

/-- every tree that comes out of `deepcopy` holds only the singleton -/
theorem deepcopy_singleton_all :
    (∀ v, allSingleton (deepcopy v) = true) ∧
    (∀ fs, allSingletonFields (deepcopyFields fs) = true) ∧
    (∀ kvs, allSingletonPairs (deepcopyPairs kvs) = true) ∧
    (∀ xs, allSingletonList (deepcopyList xs) = true) := by
  apply deepcopy.mutual_induct
  all_goals
    intros
    simp_all [deepcopy, deepcopyList, deepcopyPairs, deepcopyFields, allSingleton, allSingletonList,
      allSingletonPairs, allSingletonFields, reduceMissing, callType]

/-- a tree that holds only the singleton is reproduced exactly by `deepcopy` -/
theorem deepcopy_faithful_all :
    (∀ v, allSingleton v = true → deepcopy v = v) ∧
    (∀ fs, allSingletonFields fs = true → deepcopyFields fs = fs) ∧
    (∀ kvs, allSingletonPairs kvs = true → deepcopyPairs kvs = kvs) ∧
    (∀ xs, allSingletonList xs = true → deepcopyList xs = xs) := by
  apply deepcopy.mutual_induct
  all_goals
    intros
    simp_all [deepcopy, deepcopyList, deepcopyPairs, deepcopyFields, allSingleton, allSingletonList,
      allSingletonPairs, allSingletonFields, reduceMissing, callType]

end Haiway.Missing

namespace Haiway.Missing

theorem allSingletonList_iff (xs : List Val) :
    allSingletonList xs = true ↔ ∀ x ∈ xs, allSingleton x = true := by
  induction xs with
  | nil => simp [allSingletonList]
  | cons x xs ih => simp [allSingletonList, ih]

theorem allSingletonPairs_iff (kvs : List (Val × Val)) :
    allSingletonPairs kvs = true ↔ ∀ kv ∈ kvs, allSingleton kv.1 = true ∧ allSingleton kv.2 = true := by
  induction kvs with
  | nil => simp [allSingletonPairs]
  | cons kv kvs ih => obtain ⟨k, v⟩ := kv; simp [allSingletonPairs, ih, and_assoc]

theorem allSingletonFields_iff (fs : List (String × Val)) :
    allSingletonFields fs = true ↔ ∀ f ∈ fs, allSingleton f.2 = true := by
  induction fs with
  | nil => simp [allSingletonFields]
  | cons f fs ih => obtain ⟨n, v⟩ := f; simp [allSingletonFields, ih]

/-- Values a program can get hold of: the constant, a call of the type, ordinary values, containers
and `State` instances built from such values, their elements, and anything produced from them by
`copy`, `deepcopy` or a pickle round trip with any protocol. -/
inductive Obtained : Val → Prop where
  | const : Obtained (.missing 0)
  | call : Obtained callType
  | none : Obtained .none
  | bool (b) : Obtained (.bool b)
  | int (n) : Obtained (.int n)
  | str (s) : Obtained (.str s)
  | alwaysEq (i) : Obtained (.alwaysEq i)
  | pretender (i) : Obtained (.pretender i)
  | list {xs} : (∀ x ∈ xs, Obtained x) → Obtained (.list xs)
  | tuple {xs} : (∀ x ∈ xs, Obtained x) → Obtained (.tuple xs)
  | set {xs} : (∀ x ∈ xs, Obtained x) → Obtained (.set xs)
  | frozenset {xs} : (∀ x ∈ xs, Obtained x) → Obtained (.frozenset xs)
  | dict {kvs : List (Val × Val)} : (∀ kv ∈ kvs, Obtained kv.1) → (∀ kv ∈ kvs, Obtained kv.2) →
      Obtained (.dict kvs)
  | state {c} {fs : List (String × Val)} : (∀ f ∈ fs, Obtained f.2) → Obtained (.state c fs)
  | listElem {xs x} : Obtained (.list xs) → x ∈ xs → Obtained x
  | tupleElem {xs x} : Obtained (.tuple xs) → x ∈ xs → Obtained x
  | dictValue {kvs : List (Val × Val)} {kv} : Obtained (.dict kvs) → kv ∈ kvs → Obtained kv.2
  | attr {c} {fs : List (String × Val)} {f} : Obtained (.state c fs) → f ∈ fs → Obtained f.2
  | copy {v} : Obtained v → Obtained (copy v)
  | deepcopy {v} : Obtained v → Obtained (deepcopy v)
  | pickle {p v r} : Obtained v → pickle p v = .ok r → Obtained r

theorem copy_singleton {v : Val} (h : allSingleton v = true) : allSingleton (copy v) = true := by
  cases v <;> simp_all [copy, reduceMissing, callType, allSingleton]

theorem pickle_singleton {p : Nat} {v r : Val} (h : pickle p v = .ok r) : allSingleton r = true := by
  unfold pickle at h
  split at h
  · cases h
  · split at h
    · cases h; exact deepcopy_singleton_all.1 v
    · cases h

end Haiway.Missing
