import Haiway.Model.ProcProg
/-! Restoration for nested scope programs (helper lemmas for C02). -/
namespace Haiway.Proc

/-- an async scope block gives the context back whatever its body does with it -/
theorem around_async_ctx (φ : Faults) (new c : Ctx) (bodyRun : Ctx → Ctx × Option Exc) :
    (around aenter aexit φ new c bodyRun).1 = c := by
  unfold around aenter aexit
  simp only [run, runAtom]
  cases h1 : φ .dispEnter <;> cases h2 : φ .groupExit <;> cases h3 : φ .dispExit <;> cases h4 : φ .metricsExit <;> simp

/-- a sync scope block gives the context back provided its body does -/
theorem around_sync_ctx (φ : Faults) (new c : Ctx) (bodyRun : Ctx → Ctx × Option Exc)
    (hb : ∀ c', (bodyRun c').1 = c') : (around senter sexit φ new c bodyRun).1 = c := by
  unfold around senter sexit
  cases h4 : φ .metricsExit <;> simp [run, runAtom, hb, h4]

theorem around_updated_ctx (φ : Faults) (new c : Ctx) (bodyRun : Ctx → Ctx × Option Exc)
    (hb : ∀ c', (bodyRun c').1 = c') : (around uenter uexit φ new c bodyRun).1 = c := by
  unfold around uenter uexit
  simp [run, runAtom, hb]

mutual
/-- every statement of every nested program leaves the context as it found it -/
theorem execStmt_ctx : ∀ (s : Stmt) (c : Ctx), (execStmt s c).1 = c
  | .raise _, _ => rfl
  | .scopeA φ new body, c => by
    simp only [execStmt]; exact around_async_ctx φ new c (execProg body)
  | .scopeS φ new body, c => by
    simp only [execStmt]; exact around_sync_ctx φ new c (execProg body) (execProg_ctx body)
  | .updated φ new body, c => by
    simp only [execStmt]; exact around_updated_ctx φ new c (execProg body) (execProg_ctx body)
  | .tryCatch body, c => by
    simp only [execStmt]; exact execProg_ctx body c
theorem execProg_ctx : ∀ (p : Prog) (c : Ctx), (execProg p c).1 = c
  | .nil, _ => rfl
  | .cons s rest, c => by
    simp only [execProg]
    have hs := execStmt_ctx s c
    cases h : execStmt s c with
    | mk c1 e =>
      rw [h] at hs; simp only at hs; subst hs
      cases e with
      | some e => rfl
      | none => exact execProg_ctx rest c1
end

/-- the body's own exception passes through an async block unchanged when no cleanup step fails -/
theorem around_async_exc (φ : Faults) (new c : Ctx) (bodyRun : Ctx → Ctx × Option Exc)
    (h : ∀ a, φ a = none) : (around aenter aexit φ new c bodyRun).2 = (bodyRun { c with state := new.state, metrics := new.metrics, group := new.group }).2 := by
  unfold around aenter aexit
  simp [run, runAtom, h]

end Haiway.Proc
