import Haiway.Model.Queue
/-! Helper lemmas for C17 (invariant preservation). -/
namespace Haiway.Queue

/-- structural well-formedness: a waiter exists exactly while the consumer is blocked -/
def Wf (s : St) : Prop :=
  (s.consumer = .blocked ↔ s.waiting.isSome) ∧ (s.waiting = some .pending → s.buf = [])

theorem wake_inv (s : St) (h : Acc s) (hw : Wf s) : Acc (wake s) ∧ Wf (wake s) := by
  unfold wake
  obtain ⟨hw1, hw2⟩ := hw
  cases hc : s.consumer with
  | idle => simp [hc]; exact ⟨h, by simpa [Wf, hc] using hw1, hw2⟩
  | scheduled =>
    have hnone : s.waiting = none := by
      cases hwt : s.waiting with
      | none => rfl
      | some w => have := hw1.mpr (by simp [hwt]); simp [hc] at this
    by_cases hm : s.must
    · simp [hc, hm, Acc, Wf, delivered, inFlight, hnone] at *
      simpa [Acc, delivered, inFlight, hnone] using h
    · cases hb : s.buf with
      | cons e rest =>
        simp [hc, hm, hb, Acc, Wf, inFlight, hnone, delivered, List.filterMap_append] at *
        simpa [Acc, delivered, inFlight, hnone, hb] using h
      | nil =>
        cases hr : s.reason with
        | some r =>
          simp [hc, hm, hb, hr, Acc, Wf, inFlight, hnone, delivered, List.filterMap_append] at *
          simpa [Acc, delivered, inFlight, hnone, hb] using h
        | none =>
          simp [hc, hm, hb, hr, Acc, Wf, inFlight, delivered] at *
          simpa [Acc, delivered, inFlight, hnone, hb] using h
  | blocked =>
    have hsome : s.waiting.isSome := hw1.mp hc
    cases hwt : s.waiting with
    | none => simp [hwt] at hsome
    | some w =>
      by_cases hm : s.must
      · cases w <;>
          simp [hc, hm, hwt, Acc, Wf, inFlight, delivered, List.filterMap_append] at * <;>
          first
            | (simpa [Acc, delivered, inFlight, hwt] using h)
            | skip
      · cases w <;>
          simp [hc, hm, hwt, Acc, Wf, inFlight, delivered, List.filterMap_append] at * <;>
          first
            | (simpa [Acc, delivered, inFlight, hwt] using h)
            | (exact ⟨h, hw2⟩)
            | skip


theorem step_inv (s : St) (op : Op) (h : Acc s) (hw : Wf s) : Acc (step s op) ∧ Wf (step s op) := by
  cases op with
  | enqueue e es =>
    unfold step
    by_cases hr : s.reason.isSome
    · simp [hr]; exact ⟨h, hw⟩
    · obtain ⟨hw1, hw2⟩ := hw
      cases hwt : s.waiting with
      | none =>
        simp [hr, hwt, Acc, Wf, delivered, inFlight] at *
        refine ⟨?_, hw1⟩
        rw [← h]; simp
      | some w =>
        cases w with
        | pending =>
          have hb := hw2 hwt
          simp [hr, hwt, Acc, Wf, delivered, inFlight, hb] at *
          refine ⟨?_, hw1⟩
          rw [← h]
        | res x =>
          simp [hr, hwt, Acc, Wf, delivered, inFlight] at *
          refine ⟨?_, hw1⟩
          rw [← h]; simp
        | exc r =>
          simp [hr, hwt, Acc, Wf, delivered, inFlight] at *
          refine ⟨?_, hw1⟩
          rw [← h]; simp
        | cancelled =>
          simp [hr, hwt, Acc, Wf, delivered, inFlight] at *
          refine ⟨?_, hw1⟩
          rw [← h]; simp
  | finish r =>
    unfold step
    by_cases hr : s.reason.isSome
    · simp [hr]; exact ⟨h, hw⟩
    · obtain ⟨hw1, hw2⟩ := hw
      cases hwt : s.waiting with
      | none => simp [hr, hwt, Acc, Wf, delivered, inFlight] at *; exact ⟨h, hw1⟩
      | some w =>
        cases w <;> simp [hr, hwt, Acc, Wf, delivered, inFlight] at * <;>
          first | exact ⟨h, hw1⟩ | (exact ⟨by simpa [hw2] using h, hw1⟩) | skip
  | recv =>
    unfold step
    obtain ⟨hw1, hw2⟩ := hw
    by_cases hc : s.consumer = .idle
    · have hn : s.waiting = none := by
        cases hwt : s.waiting with
        | none => rfl
        | some w => have := hw1.mpr (by simp [hwt]); simp [hc] at this
      simp [hc, Acc, Wf, delivered, inFlight, hn] at *
      exact h
    · simp [hc]; exact ⟨h, hw1, hw2⟩
  | cancelRecv =>
    unfold step
    obtain ⟨hw1, hw2⟩ := hw
    cases hc : s.consumer with
    | idle => simp; exact ⟨h, by simpa [hc] using hw1, hw2⟩
    | scheduled =>
      simp [Acc, Wf, delivered, inFlight, hc] at *
      exact ⟨h, hw1, hw2⟩
    | blocked =>
      cases hwt : s.waiting with
      | none => simp [Acc, Wf, delivered, inFlight, hc, hwt] at *
      | some w =>
        cases w <;> simp [Acc, Wf, delivered, inFlight, hc, hwt] at * <;>
          first | exact h | (exact ⟨h, hw2⟩) | skip
  | run =>
    unfold step
    by_cases hrn : runnable s
    · simp [hrn]; exact wake_inv s h hw
    · simp [hrn]; exact ⟨h, hw⟩

theorem init_inv : Acc ({} : St) ∧ Wf ({} : St) := by
  simp [Acc, Wf, delivered, inFlight]

end Haiway.Queue
