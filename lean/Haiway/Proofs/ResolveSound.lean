import Haiway.Spec.Surface
import Haiway.Proofs.ValidateAccepts
/-! `resolve` agrees with the surface denotation `den` (C05.resolve_sound). -/
namespace Haiway.Resolve
open Haiway.Validate
variable {env : ClsEnv} {E : StaticEnv}

theorem conforms_seq_iff {a v} : Conforms env (.seq a) v ↔ ∃ xs, seqElems v = some xs ∧ ∀ x ∈ xs, Conforms env a x :=
  ⟨Conforms.seq_inv, fun ⟨_, h1, h2⟩ => .seq h1 h2⟩
theorem conforms_tupleVar_iff {a v} :
    Conforms env (.tupleVar a) v ↔ ∃ xs, seqElems v = some xs ∧ ∀ x ∈ xs, Conforms env a x :=
  ⟨Conforms.tupleVar_inv, fun ⟨_, h1, h2⟩ => .tupleVar h1 h2⟩
theorem conforms_set_iff {a v} : Conforms env (.set a) v ↔ ∃ xs, setElems v = some xs ∧ ∀ x ∈ xs, Conforms env a x :=
  ⟨Conforms.set_inv, fun ⟨_, h1, h2⟩ => .set h1 h2⟩
theorem conforms_map_iff {k w v} : Conforms env (.map k w) v ↔
    ∃ kvs, mapElems v = some kvs ∧ (∀ p ∈ kvs, Conforms env k p.1) ∧ (∀ p ∈ kvs, Conforms env w p.2) :=
  ⟨Conforms.map_inv, fun ⟨_, h1, h2, h3⟩ => .map h1 h2 h3⟩
theorem conforms_tupleFixed_iff {as v} : Conforms env (.tupleFixed as) v ↔
    ∃ xs, seqElems v = some xs ∧ as.length = xs.length ∧ ∀ p ∈ as.zip xs, Conforms env p.1 p.2 :=
  ⟨Conforms.tupleFixed_inv, fun ⟨_, h1, h2, h3⟩ => .tupleFixed h1 h2 h3⟩
theorem conforms_union_iff {as v} : Conforms env (.union as) v ↔ ∃ a ∈ as, Conforms env a v :=
  ⟨Conforms.union_inv, fun ⟨_, h1, h2⟩ => .union h1 h2⟩
theorem conforms_nominal_iff {c v} : Conforms env (.nominal c) v ↔ isInst env c v = true :=
  ⟨Conforms.nominal_inv, .nominal⟩
theorem conforms_none_iff {v} : Conforms env .none v ↔ v = .none :=
  ⟨Conforms.none_inv, fun h => h ▸ .none⟩
theorem conforms_missing_iff {v} : Conforms env .missing v ↔ v = .missing :=
  ⟨Conforms.missing_inv, fun h => h ▸ .missing⟩
theorem conforms_callable_iff {v} : Conforms env .callable v ↔ isCallable v = true :=
  ⟨Conforms.callable_inv, .callable⟩
theorem conforms_any_iff {v} : Conforms env .any v ↔ True := ⟨fun _ => trivial, fun _ => .any v⟩
theorem conforms_literal_iff {ls v} : Conforms env (.literal ls) v ↔ ∃ p, primOf v = some p ∧ p ∈ ls :=
  ⟨Conforms.literal_inv, fun ⟨_, h1, h2⟩ => .literal h1 h2⟩

/-- annotations and predicates that agree position by position -/
def Agree (env : ClsEnv) (as : List Ann) (ps : List (PyVal → Prop)) : Prop :=
  as.length = ps.length ∧ ∀ q ∈ as.zip ps, ∀ v, Conforms env q.1 v ↔ q.2 v

theorem agree_pointwise : ∀ (as : List Ann) (ps : List (PyVal → Prop)) (xs : List PyVal), Agree env as ps →
    ((as.length = xs.length ∧ ∀ p ∈ as.zip xs, Conforms env p.1 p.2) ↔ Pointwise ps xs) := by
  intro as
  induction as with
  | nil =>
    intro ps xs h
    cases ps with
    | nil => simp [Pointwise]
    | cons p ps => simp [Agree] at h
  | cons a as ih =>
    intro ps xs h
    cases ps with
    | nil => simp [Agree] at h
    | cons p ps =>
      have hag : Agree env as ps := ⟨by simpa using h.1, fun q hq => h.2 q (by simp [hq])⟩
      have h0 : ∀ v, Conforms env a v ↔ p v := h.2 (a, p) (by simp)
      cases xs with
      | nil => simp [Pointwise]
      | cons x xs =>
        have := ih ps xs hag
        simp only [Pointwise, List.length_cons, Nat.add_right_cancel_iff, List.zip_cons_cons, List.mem_cons,
          forall_eq_or_imp] at this ⊢
        rw [← h0 x]
        constructor
        · rintro ⟨h1, h2, h3⟩
          have := this.mp ⟨h1, h3⟩
          exact ⟨this.1, h2, this.2⟩
        · rintro ⟨h1, h2, h3⟩
          have := this.mpr ⟨h1, h3⟩
          exact ⟨this.1, h2, this.2⟩

theorem agree_exists : ∀ (as : List Ann) (ps : List (PyVal → Prop)) (v : PyVal), Agree env as ps →
    ((∃ a ∈ as, Conforms env a v) ↔ ∃ P ∈ ps, P v) := by
  intro as
  induction as with
  | nil =>
    intro ps v h
    cases ps with
    | nil => simp
    | cons p ps => simp [Agree] at h
  | cons a as ih =>
    intro ps v h
    cases ps with
    | nil => simp [Agree] at h
    | cons p ps =>
      have hag : Agree env as ps := ⟨by simpa using h.1, fun q hq => h.2 q (by simp [hq])⟩
      have h0 : ∀ v, Conforms env a v ↔ p v := h.2 (a, p) (by simp)
      simp only [List.mem_cons, exists_eq_or_imp]
      rw [h0 v, ih ps v hag]

theorem resolve_sound_all :
    (∀ als self tp e, ∀ a, resolve E als self tp e = .ok a → ∀ v, Conforms env a v ↔ den env E als self tp e v) ∧
    (∀ als self tp ts, ∀ as, resolveList E als self tp ts = .ok as → Agree env as (denList env E als self tp ts)) := by
  apply resolve.mutual_induct E
  case case1 => intro als self tp a h v; simp [resolve] at h; subst h; rw [den]; exact conforms_none_iff
  case case2 => intro als self tp a h v; simp [resolve] at h; subst h; rw [den]; exact conforms_any_iff
  case case3 => intro als self tp a h v; simp [resolve] at h; subst h; rw [den]; exact conforms_missing_iff
  case case4 => intro als self tp a h v; simp [resolve] at h; subst h; rw [den]; exact conforms_callable_iff
  case case5 => intro als tp c a h v; simp [resolve] at h; subst h; rw [den]; exact conforms_nominal_iff
  case case6 => intro als tp a h v; simp [resolve] at h; subst h; rw [den]; exact conforms_any_iff
  case case7 => intro als self tp c a h v; simp [resolve] at h; subst h; rw [den]; exact conforms_nominal_iff
  case case8 => intro als self tp ls a h v; simp [resolve] at h; subst h; rw [den]; exact conforms_literal_iff
  case case9 =>
    intro als self tp t ih a h v
    rw [resolve] at h; obtain ⟨a', ha', rfl⟩ := map_ok h
    rw [den, conforms_seq_iff]; simp only [ih a' ha']
  case case10 =>
    intro als self tp t ih a h v
    rw [resolve] at h; obtain ⟨a', ha', rfl⟩ := map_ok h
    rw [den, conforms_tupleVar_iff]; simp only [ih a' ha']
  case case11 =>
    intro als self tp t ih a h v
    rw [resolve] at h; obtain ⟨a', ha', rfl⟩ := map_ok h
    rw [den, conforms_set_iff]; simp only [ih a' ha']
  case case12 =>
    intro als self tp t ih a h v
    rw [resolve] at h; obtain ⟨a', ha', rfl⟩ := map_ok h
    rw [den, conforms_set_iff]; simp only [ih a' ha']
  case case13 => intro als self tp k w e he _ a h; rw [resolve] at h; simp [he] at h
  case case14 =>
    intro als self tp k w k' hk ihk ihw a h v
    rw [resolve] at h; simp only [hk] at h
    obtain ⟨w', hw', rfl⟩ := map_ok h
    rw [den, conforms_map_iff]; simp only [ihk k' hk, ihw w' hw']
  case case15 =>
    intro als self tp ts ih a h v
    rw [resolve] at h; obtain ⟨as, has, rfl⟩ := map_ok h
    rw [den, conforms_tupleFixed_iff]
    constructor
    · rintro ⟨xs, h1, h2, h3⟩; exact ⟨xs, h1, (agree_pointwise as _ xs (ih as has)).mp ⟨h2, h3⟩⟩
    · rintro ⟨xs, h1, h2⟩
      have := (agree_pointwise as _ xs (ih as has)).mpr h2
      exact ⟨xs, h1, this.1, this.2⟩
  case case16 =>
    intro als self tp ts ih a h v
    rw [resolve] at h; obtain ⟨as, has, rfl⟩ := map_ok h
    rw [den, conforms_union_iff]
    exact agree_exists as _ v (ih as has)
  case case17 =>
    intro als self tp t ih a h v
    rw [resolve] at h; obtain ⟨a', ha', rfl⟩ := map_ok h
    rw [den, conforms_union_iff]
    simp only [List.mem_cons, List.not_mem_nil, or_false, exists_eq_or_imp, exists_eq_left, ih a' ha',
      conforms_none_iff]
  case case18 => intro als self tp t ih a h v; rw [resolve] at h; rw [den]; exact ih a h v
  case case19 => intro als self tp t ih a h v; rw [resolve] at h; rw [den]; exact ih a h v
  case case20 =>
    intro als self tp n c hc a h v
    rw [resolve] at h; simp only [hc] at h; cases h
    rw [den, conforms_nominal_iff]; simp [hc]
  case case21 => intro als self tp n hc a h; rw [resolve] at h; simp [hc] at h
  case case22 =>
    intro als self tp n a' hl a h v
    rw [resolve] at h; simp only [hl] at h; cases h
    rw [den]; simp [hl]
  case case23 =>
    intro als self tp n hl c hb a h v
    rw [resolve] at h; simp only [hl, hb] at h; cases h
    rw [den]; simp only [hl, hb]; exact conforms_nominal_iff
  case case24 =>
    intro als self tp n hl hb a h v
    rw [resolve] at h; simp only [hl, hb] at h; cases h
    rw [den]; simp only [hl, hb]; exact conforms_any_iff
  case case25 => intro als self tp n args hf a h; rw [resolve] at h; simp [hf] at h
  case case26 => intro als self tp n args d rest prop hf e he _ a h; rw [resolve] at h; simp [hf, he] at h
  case case27 =>
    intro als self tp n args d rest prop hf args' ha _ ihb a h v
    rw [resolve] at h; simp only [hf, ha] at h
    rw [den]; simp only [hf, ha]
    exact ihb a h v
  case case28 => intro als self tp c args e he _ a h; rw [resolve] at h; simp [he] at h
  case case29 =>
    intro als self tp c args args' ha c' hs _ a h v
    rw [resolve] at h; simp only [ha, hs] at h; cases h
    rw [den]; simp only [ha, hs, conforms_nominal_iff]
    simp
  case case30 => intro als self tp c args args' ha hs _ a h; rw [resolve] at h; simp [ha, hs] at h
  case case31 => intro als self tp as h; rw [resolveList] at h; cases h; rw [denList]; simp [Agree]
  case case32 => intro als self tp t ts e he _ as h; rw [resolveList] at h; simp [he] at h
  case case33 => intro als self tp t ts k' hk e he _ _ as h; rw [resolveList] at h; simp [hk, he] at h
  case case34 =>
    intro als self tp t ts k' hk args' ha iht ihts as h
    rw [resolveList] at h; simp only [hk, ha] at h; cases h
    rw [denList]
    have := ihts args' ha
    refine ⟨by simp [this.1], fun q hq => ?_⟩
    simp only [List.zip_cons_cons, List.mem_cons] at hq
    rcases hq with rfl | hq
    · exact iht k' hk
    · exact this.2 q hq

end Haiway.Resolve
