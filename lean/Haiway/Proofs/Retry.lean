import Haiway.Model.Retry
/-! Helper lemmas for C14: the loop `go` meets its specification from any intermediate state. -/
namespace Haiway.Retry

/-- specification side: `n` is the index of the call at which the loop must stop -/
def StopsAt (cfg : Cfg) (outs : Nat → Outcome) (n : Nat) : Prop :=
  (∀ i < n, retryable cfg (outs i) = true) ∧ n ≤ cfg.limit ∧
    (n = cfg.limit ∨ retryable cfg (outs n) = false)

/-- the stopping index is unique -/
theorem stopsAt_unique {cfg : Cfg} {outs : Nat → Outcome} {n m : Nat}
    (hn : StopsAt cfg outs n) (hm : StopsAt cfg outs m) : n = m := by
  obtain ⟨hn1, hn2, hn3⟩ := hn
  obtain ⟨hm1, hm2, hm3⟩ := hm
  rcases Nat.lt_trichotomy n m with h | h | h
  · have := hm1 n h
    rcases hn3 with h3 | h3
    · omega
    · rw [h3] at this; exact absurd this (by simp)
  · exact h
  · have := hn1 m h
    rcases hm3 with h3 | h3
    · omega
    · rw [h3] at this; exact absurd this (by simp)

/-- what happens from call `j` (inclusive) up to the next call (exclusive) -/
def segment (cfg : Cfg) (outs : Nat → Outcome) (j : Nat) : List Ev :=
  .call j :: betweenO cfg.delay (j + 1) (outs j)

theorem go_spec (cfg : Cfg) (outs : Nat → Outcome) (fuel attempt : Nat) (trace : List Ev)
    (hpre : ∀ i < attempt, retryable cfg (outs i) = true) (hle : attempt + fuel = cfg.limit) :
    ∃ n, StopsAt cfg outs n ∧ attempt ≤ n ∧
      (go cfg outs fuel attempt trace).calls = n + 1 ∧ (go cfg outs fuel attempt trace).final = outs n ∧
      (go cfg outs fuel attempt trace).trace =
        trace ++ ((List.range (n - attempt)).flatMap fun j => segment cfg outs (attempt + j))
          ++ [.call n] := by
  induction fuel generalizing attempt trace with
  | zero =>
    have : attempt = cfg.limit := by omega
    simp only [go]
    exact ⟨attempt, ⟨hpre, by omega, Or.inl this⟩, Nat.le_refl _, rfl, rfl, by simp⟩
  | succ k ih =>
    simp only [go]
    by_cases hc : retryable cfg (outs attempt) = true
    · simp only [hc, ↓reduceIte]
      have hpre' : ∀ i < attempt + 1, retryable cfg (outs i) = true := by
        intro i hi
        by_cases hia : i = attempt
        · subst hia; exact hc
        · exact hpre i (by omega)
      obtain ⟨n, hs, hn, h1, h2, h3⟩ :=
        ih (attempt + 1) (trace ++ [.call attempt] ++ betweenO cfg.delay (attempt + 1) (outs attempt))
          hpre' (by omega)
      refine ⟨n, hs, by omega, h1, h2, ?_⟩
      rw [h3]
      have : n - attempt = (n - (attempt + 1)) + 1 := by omega
      rw [this, List.range_succ_eq_map, List.flatMap_cons, List.flatMap_map]
      simp [segment, List.append_assoc, Nat.add_assoc, Nat.add_comm 1]
    · simp only [hc]
      refine ⟨attempt, ⟨hpre, by omega, Or.inr (by simpa using hc)⟩, Nat.le_refl _, rfl, rfl, by simp⟩

/-- everything the wrapper does, in one statement -/
theorem run_spec (cfg : Cfg) (outs : Nat → Outcome) :
    ∃ n, StopsAt cfg outs n ∧ (run cfg outs).calls = n + 1 ∧ (run cfg outs).final = outs n ∧
      (run cfg outs).trace = ((List.range n).flatMap fun j => segment cfg outs j) ++ [.call n] := by
  obtain ⟨n, hs, _, h1, h2, h3⟩ := go_spec cfg outs cfg.limit 0 [] (by simp) (by simp)
  exact ⟨n, hs, h1, h2, by simpa [run] using h3⟩

/-- number of leading `true`s of `p`, looking at indices `< bound` only -/
def countPrefix (p : Nat → Bool) : Nat → Nat
  | 0 => 0
  | b + 1 => if p 0 then countPrefix (fun i => p (i + 1)) b + 1 else 0

theorem countPrefix_le (p : Nat → Bool) (b : Nat) : countPrefix p b ≤ b := by
  induction b generalizing p with
  | zero => simp [countPrefix]
  | succ b ih =>
    simp only [countPrefix]
    split
    · have := ih (fun i => p (i + 1)); omega
    · omega

theorem countPrefix_all (p : Nat → Bool) (b : Nat) : ∀ i < countPrefix p b, p i = true := by
  induction b generalizing p with
  | zero => simp [countPrefix]
  | succ b ih =>
    intro i hi
    simp only [countPrefix] at hi
    split at hi
    · rename_i h0
      cases i with
      | zero => exact h0
      | succ i => exact ih (fun i => p (i + 1)) i (by omega)
    · omega

theorem countPrefix_stop (p : Nat → Bool) (b : Nat) :
    countPrefix p b = b ∨ p (countPrefix p b) = false := by
  induction b generalizing p with
  | zero => simp [countPrefix]
  | succ b ih =>
    simp only [countPrefix]
    split
    · rcases ih (fun i => p (i + 1)) with h | h
      · left; omega
      · right; exact h
    · rename_i h0; right; simpa using h0

theorem stopsAt_countPrefix (cfg : Cfg) (outs : Nat → Outcome) :
    StopsAt cfg outs (countPrefix (fun i => retryable cfg (outs i)) cfg.limit) :=
  ⟨countPrefix_all _ _, countPrefix_le _ _, countPrefix_stop (fun i => retryable cfg (outs i)) cfg.limit⟩

theorem flatMap_congr' {α β : Type} {l : List α} {f g : α → List β} (h : ∀ a ∈ l, f a = g a) :
    l.flatMap f = l.flatMap g := by
  induction l with
  | nil => rfl
  | cons x xs ih =>
    simp only [List.flatMap_cons]
    rw [h x (by simp), ih (fun a ha => h a (by simp [ha]))]

theorem flatMap_singleton' {α β : Type} (l : List α) (f : α → β) :
    (l.flatMap fun a => [f a]) = l.map f := by
  induction l with
  | nil => rfl
  | cons x xs ih => simp [List.flatMap_cons, ih]

theorem pauses_append (a b : List Ev) : pauses (a ++ b) = pauses a ++ pauses b := by
  induction a with
  | nil => rfl
  | cons x xs ih => cases x <;> simp [pauses, ih]

theorem pauses_flatMap (l : List Nat) (f : Nat → List Ev) :
    pauses (l.flatMap f) = l.flatMap fun j => pauses (f j) := by
  induction l with
  | nil => rfl
  | cons x xs ih => simp [List.flatMap_cons, pauses_append, ih]

end Haiway.Retry
