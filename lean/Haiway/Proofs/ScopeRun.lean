import Haiway.Model.ScopeRun
import Haiway.Proofs.Completion
import Haiway.Proofs.Metrics
/-! Invariants of the program-level model (helper lemmas for `Props/C09.lean`, `C10.lean`, `C19.lean`). -/
namespace Haiway.ScopeRun
open Haiway
open Haiway.Completion (upd)

/-! ### the completion protocol is only ever driven by well-formed API use -/

def CompReach (c : Completion.Sys) : Prop :=
  ∃ ops, Completion.wf {} ops = true ∧ c = Completion.run {} ops

theorem compReach_init : CompReach init.comp := ⟨[], rfl, rfl⟩

theorem compStep_reach (s : Sys) (op : Completion.Op) (h : CompReach s.comp) :
    CompReach (compStep s op).comp := by
  unfold compStep
  by_cases hw : Completion.wfOp s.comp op = true
  · simp only [hw, ↓reduceIte]
    obtain ⟨ops, hops, heq⟩ := h
    refine ⟨ops ++ [op], ?_, ?_⟩
    · rw [Completion.wf_append, hops, ← heq]; simp [Completion.wf, hw]
    · rw [Completion.run_append, ← heq]; rfl
  · simp only [hw, Bool.false_eq_true, ↓reduceIte]; exact h

@[simp] theorem compStep_tasks (s : Sys) (op : Completion.Op) : (compStep s op).tasks = s.tasks := by
  unfold compStep; split <;> rfl
@[simp] theorem compStep_ntasks (s : Sys) (op : Completion.Op) : (compStep s op).ntasks = s.ntasks := by
  unfold compStep; split <;> rfl
@[simp] theorem compStep_store (s : Sys) (op : Completion.Op) : (compStep s op).store = s.store := by
  unfold compStep; split <;> rfl

theorem construct_reach (s : Sys) (t : Nat) (spec : Logs.Spec) (h : CompReach s.comp) :
    CompReach (construct s t spec).comp := by
  unfold construct
  dsimp only
  split
  · exact compStep_reach _ _ h
  · exact h

@[simp] theorem construct_tasks (s : Sys) (t : Nat) (spec : Logs.Spec) : (construct s t spec).tasks = s.tasks := by
  unfold construct; dsimp only; split <;> simp
@[simp] theorem construct_store (s : Sys) (t : Nat) (spec : Logs.Spec) : (construct s t spec).store = s.store := by
  unfold construct; dsimp only; split <;> simp

theorem enterScope_reach (s : Sys) (t id : Nat) (a d : Bool) (h : CompReach s.comp) :
    CompReach (enterScope s t id a d).comp := by
  unfold enterScope; exact compStep_reach _ _ h

theorem finishExit_reach (s : Sys) (t : Nat) (h : CompReach s.comp) : CompReach (finishExit s t).comp := by
  unfold finishExit
  dsimp only
  split
  · exact compStep_reach _ _ h
  · exact h

theorem finishFrames_reach : ∀ (fuel : Nat) (s : Sys) (t : Nat), CompReach s.comp →
    CompReach (finishFrames s t fuel).comp
  | 0, _, _, h => h
  | fuel + 1, s, t, h => finishFrames_reach fuel _ t (finishExit_reach s t h)

theorem rollbackEnter_reach (s : Sys) (id : Nat) (h : CompReach s.comp) : CompReach (rollbackEnter s id).comp :=
  compStep_reach _ _ (compStep_reach _ _ h)

@[simp] theorem rollbackEnter_tasks (s : Sys) (id : Nat) : (rollbackEnter s id).tasks = s.tasks := by
  simp [rollbackEnter]

theorem killTask_reach (s : Sys) (t : Nat) (h : CompReach s.comp) : CompReach (killTask s t).comp := by
  unfold killTask
  dsimp only
  split
  · exact finishFrames_reach _ _ t (rollbackEnter_reach _ _ h)
  · exact finishFrames_reach _ _ t h

theorem killAll_reach : ∀ (ts : List Nat) (s : Sys), CompReach s.comp → CompReach (killAll s ts).comp
  | [], _, h => h
  | t :: ts, s, h => by simpa [killAll] using killAll_reach ts (killTask s t) (killTask_reach s t h)

theorem releaseOwner_reach (s : Sys) (g : Option Nat) (h : CompReach s.comp) :
    CompReach (releaseOwner s g).comp := by
  unfold releaseOwner
  repeat' split
  all_goals first | exact h | exact finishExit_reach _ _ h

theorem step_reach (s : Sys) (ev : Ev) (h : CompReach s.comp) : CompReach (step s ev).comp := by
  cases ev with
  | openScope t a d spec =>
    simp only [step]; split
    · exact enterScope_reach (construct s t spec) t s.comp.size a d (construct_reach _ _ _ h)
    · exact h
  | make t a d spec =>
    simp only [step]; split
    · exact construct_reach s t spec h
    · exact h
  | enter t =>
    simp only [step]
    repeat' split
    all_goals first | exact h | exact enterScope_reach _ _ _ _ _ h
  | exit t exc =>
    simp only [step]
    repeat' split
    all_goals first
      | exact h
      | exact finishExit_reach _ _ h
      | exact finishExit_reach _ _ (killAll_reach _ _ h)
  | record t v m => simp only [step]; split <;> exact h
  | log t lv msg args exc =>
    simp only [step]
    repeat' split
    all_goals exact h
  | spawn t member =>
    simp only [step]
    repeat' split
    all_goals exact h
  | finishTask t =>
    simp only [step]
    split
    · exact releaseOwner_reach _ _ h
    · exact h
  | cancel t =>
    simp only [step]
    split
    · exact releaseOwner_reach _ _ (killAll_reach _ _ h)
    · exact h
  | openFailing t spec =>
    simp only [step]; split
    · exact rollbackEnter_reach _ _ (construct_reach _ _ _ h)
    · exact h
  | openGated t spec =>
    simp only [step]; split
    · exact construct_reach s t spec h
    · exact h
  | release t =>
    simp only [step]
    split
    · split
      · rename_i id _
        exact enterScope_reach s t id true false h
      · exact h
    · exact h
  | threadCtor t => simp only [step]; split <;> exact h
  | tick dt => exact compStep_reach _ _ h

theorem run_reach : ∀ (evs : List Ev) (s : Sys), CompReach s.comp → CompReach (run s evs).comp
  | [], _, h => h
  | ev :: evs, s, h => by simpa [run] using run_reach evs (step s ev) (step_reach s ev h)

theorem reach_inv {c : Completion.Sys} (h : CompReach c) : Completion.Inv c ∧ Completion.LexOk c := by
  obtain ⟨ops, hw, heq⟩ := h
  rw [heq]; exact Completion.reach ops hw

/-! ### the context variable always holds the lexically innermost scope -/

/-- the tokens saved in the frames restore the next frame's scope, the outermost one the inherited scope -/
def TokOk : List Frame → Option Nat → Prop
  | [], _ => True
  | f :: rest, inh =>
    f.savedCur = (match rest with | g :: _ => some g.scope | [] => inh) ∧ TokOk rest inh

def CtxOk (tk : Task) : Prop := tk.cur = innermost tk ∧ TokOk tk.frames tk.inherited

def AllCtxOk (s : Sys) : Prop := ∀ t, CtxOk (s.tasks t)

theorem ctxOk_default : CtxOk {} := ⟨rfl, trivial⟩

theorem allCtxOk_init : AllCtxOk init := by
  intro t
  simp only [init, upd]
  split <;> exact ⟨rfl, trivial⟩

theorem enterScope_ctx (s : Sys) (t id : Nat) (a d : Bool) (h : AllCtxOk s) : AllCtxOk (enterScope s t id a d) := by
  intro u
  simp only [enterScope, compStep_tasks, upd]
  split
  · have ht := h t
    refine ⟨?_, ?_, ht.2⟩
    · rfl
    · show (s.tasks t).cur = _
      rw [ht.1, innermost]
      cases (s.tasks t).frames <;> rfl
  · exact h u

theorem finishExit_ctx (s : Sys) (t : Nat) (h : AllCtxOk s) : AllCtxOk (finishExit s t) := by
  intro u
  unfold finishExit
  dsimp only
  split
  · rename_i f rest hf
    simp only [compStep_tasks, upd]
    split
    · have ht := h t
      rw [CtxOk, hf] at ht
      refine ⟨?_, ht.2.2⟩
      simp only [innermost]
      rw [ht.2.1]
      cases rest <;> rfl
    · exact h u
  · exact h u

/-- changing only flags of a task (pending / alive / blocked) keeps its context consistent -/
theorem flags_ctx (s s' : Sys) (t : Nat) (h : AllCtxOk s) (hs : ∀ u, u ≠ t → s'.tasks u = s.tasks u)
    (h1 : (s'.tasks t).cur = (s.tasks t).cur) (h2 : (s'.tasks t).frames = (s.tasks t).frames)
    (h3 : (s'.tasks t).inherited = (s.tasks t).inherited) : AllCtxOk s' := by
  intro u
  by_cases hu : u = t
  · subst hu
    have := h u
    unfold CtxOk innermost at *
    rw [h1, h2, h3]; exact this
  · rw [hs u hu]; exact h u

theorem tasks_eq_ctx (s s' : Sys) (h : AllCtxOk s) (hs : s'.tasks = s.tasks) : AllCtxOk s' := by
  intro u; rw [hs]; exact h u

theorem finishFrames_ctx : ∀ (fuel : Nat) (s : Sys) (t : Nat), AllCtxOk s → AllCtxOk (finishFrames s t fuel)
  | 0, _, _, h => h
  | fuel + 1, s, t, h => finishFrames_ctx fuel _ t (finishExit_ctx s t h)

theorem killTask_ctx (s : Sys) (t : Nat) (h : AllCtxOk s) : AllCtxOk (killTask s t) := by
  unfold killTask
  dsimp only
  split
  · rename_i id _
    have h0 : AllCtxOk (rollbackEnter s id) := tasks_eq_ctx _ _ h (by simp)
    have h1 := finishFrames_ctx (s.tasks t).frames.length _ t h0
    exact flags_ctx _ _ t h1 (by intro u hu; simp [upd, hu]) (by simp [upd]) (by simp [upd]) (by simp [upd])
  · have h1 := finishFrames_ctx (s.tasks t).frames.length s t h
    exact flags_ctx _ _ t h1 (by intro u hu; simp [upd, hu]) (by simp [upd]) (by simp [upd]) (by simp [upd])

theorem killAll_ctx : ∀ (ts : List Nat) (s : Sys), AllCtxOk s → AllCtxOk (killAll s ts)
  | [], _, h => h
  | t :: ts, s, h => by simpa [killAll] using killAll_ctx ts (killTask s t) (killTask_ctx s t h)

theorem releaseOwner_ctx (s : Sys) (g : Option Nat) (h : AllCtxOk s) : AllCtxOk (releaseOwner s g) := by
  unfold releaseOwner
  repeat' split
  all_goals first | exact h | exact finishExit_ctx _ _ h

theorem step_ctx (s : Sys) (ev : Ev) (h : AllCtxOk s) : AllCtxOk (step s ev) := by
  cases ev with
  | openScope t a d spec =>
    simp only [step]; split
    · have h1 : AllCtxOk (construct s t spec) := tasks_eq_ctx _ _ h (by simp)
      have h2 := enterScope_ctx (construct s t spec) t s.comp.size a d h1
      exact flags_ctx _ _ t h2 (by intro u hu; simp [upd, hu]) (by simp [upd]) (by simp [upd]) (by simp [upd])
    · exact h
  | make t a d spec =>
    simp only [step]; split
    · have h1 : AllCtxOk (construct s t spec) := tasks_eq_ctx _ _ h (by simp)
      exact flags_ctx _ _ t h1 (by intro u hu; simp [upd, hu]) (by simp [upd]) (by simp [upd]) (by simp [upd])
    · exact h
  | enter t =>
    simp only [step]
    repeat' split
    all_goals first | exact h | exact enterScope_ctx _ _ _ _ _ h
  | exit t exc =>
    simp only [step]
    repeat' split
    all_goals first | exact h | exact finishExit_ctx _ _ h | exact finishExit_ctx _ _ (killAll_ctx _ _ h) | exact flags_ctx _ _ t h (by intro u hu; simp [upd, hu]) (by simp [upd]) (by simp [upd]) (by simp [upd])
  | record t v m =>
    simp only [step]
    repeat' split
    all_goals exact h
  | log t lv msg args exc =>
    simp only [step]
    repeat' split
    all_goals exact h
  | spawn t member =>
    simp only [step]
    repeat' split
    all_goals first
      | exact h
      | (intro u; simp only [upd]; split
         · exact ⟨rfl, trivial⟩
         · exact h u)
  | finishTask t =>
    have h1 : AllCtxOk { s with tasks := upd s.tasks t { s.tasks t with alive := false, pending := none } } :=
      flags_ctx _ _ t h (by intro u hu; simp [upd, hu]) (by simp [upd]) (by simp [upd]) (by simp [upd])
    simp only [step]
    split
    · exact releaseOwner_ctx _ _ h1
    · exact h
  | cancel t =>
    simp only [step]
    split
    · exact releaseOwner_ctx _ _ (killAll_ctx _ _ h)
    · exact h
  | openFailing t spec =>
    simp only [step]; split
    · exact tasks_eq_ctx _ _ h (by simp)
    · exact h
  | openGated t spec =>
    simp only [step]; split
    · have h1 : AllCtxOk (construct s t spec) := tasks_eq_ctx _ _ h (by simp)
      exact flags_ctx _ _ t h1 (by intro u hu; simp [upd, hu]) (by simp [upd]) (by simp [upd]) (by simp [upd])
    · exact h
  | release t =>
    simp only [step]
    split
    · split
      · rename_i id _
        have h2 := enterScope_ctx s t id true false h
        exact flags_ctx _ _ t h2 (by intro u hu; simp [upd, hu]) (by simp [upd]) (by simp [upd]) (by simp [upd])
      · exact h
    · exact h
  | threadCtor t => simp only [step]; split <;> exact h
  | tick dt => exact tasks_eq_ctx _ _ h (by simp [step])

theorem run_ctx : ∀ (evs : List Ev) (s : Sys), AllCtxOk s → AllCtxOk (run s evs)
  | [], _, h => h
  | ev :: evs, s, h => by simpa [run] using run_ctx evs (step s ev) (step_ctx s ev h)

/-! ### the merged view on the registered tree -/

theorem treeOf_stable (s : Sys) (hs : Completion.Shape s.comp) : ∀ (fuel n : Nat), s.comp.size ≤ n + fuel →
    treeOf s (fuel + 1) n = treeOf s fuel n
  | 0, n, h => by
    have := (hs.fresh n (by omega)).2.2.1
    simp [treeOf, this]
  | fuel + 1, n, h => by
    have e1 : treeOf s (fuel + 1 + 1) n = .node (s.store n) ((s.comp.nested n).map (treeOf s (fuel + 1))) := rfl
    have e2 : treeOf s (fuel + 1) n = .node (s.store n) ((s.comp.nested n).map (treeOf s fuel)) := rfl
    rw [e1, e2]
    congr 1
    apply List.map_congr_left
    intro c hc
    have := hs.parent_lt c n (hs.nested_parent n c hc)
    exact treeOf_stable s hs fuel c (by omega)

theorem treeOf_unfold (s : Sys) (hs : Completion.Shape s.comp) (n : Nat) :
    treeOf s s.comp.size n = .node (s.store n) ((s.comp.nested n).map (treeOf s s.comp.size)) := by
  rw [← treeOf_stable s hs s.comp.size n (by omega)]
  rfl

end Haiway.ScopeRun
