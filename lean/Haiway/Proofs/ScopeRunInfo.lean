import Haiway.Proofs.ScopeRun
/-! The per-scope record (`Logs.Scope`: name, trace id, logger, identifier) is written once, at construction, under the
    scope's own number; no other step of the program-level model touches it.  (helper lemmas for `Props/C19.lean`) -/
namespace Haiway.ScopeRun
open Haiway
open Haiway.Completion (upd)

/-- every recorded scope carries its own number as identifier -/
def InfoOwn (s : Sys) : Prop := ∀ n c, s.info n = some c → c.id = n

theorem infoOwn_init : InfoOwn init := by intro n c h; simp [init] at h

@[simp] theorem compStep_info (s : Sys) (op : Completion.Op) : (compStep s op).info = s.info := by
  unfold compStep; split <;> rfl

theorem construct_info (s : Sys) (t : Nat) (spec : Logs.Spec) (h : InfoOwn s) : InfoOwn (construct s t spec) := by
  unfold construct
  dsimp only
  split
  · intro n c hc
    simp only [compStep_info] at hc
    by_cases hn : n = s.comp.size
    · subst hn
      simp [upd] at hc
      rw [← hc]; rfl
    · simp [upd, hn] at hc
      exact h n c hc
  · exact h

@[simp] theorem enterScope_info (s : Sys) (t id : Nat) (a d : Bool) : (enterScope s t id a d).info = s.info := by
  unfold enterScope; simp

@[simp] theorem finishExit_info (s : Sys) (t : Nat) : (finishExit s t).info = s.info := by
  unfold finishExit; dsimp only; split <;> simp

@[simp] theorem finishFrames_info : ∀ (fuel : Nat) (s : Sys) (t : Nat), (finishFrames s t fuel).info = s.info
  | 0, _, _ => rfl
  | fuel + 1, s, t => by simp [finishFrames, finishFrames_info fuel]

@[simp] theorem rollbackEnter_info (s : Sys) (id : Nat) : (rollbackEnter s id).info = s.info := by
  unfold rollbackEnter; simp

@[simp] theorem killTask_info (s : Sys) (t : Nat) : (killTask s t).info = s.info := by
  unfold killTask; dsimp only; split <;> simp

@[simp] theorem killAll_info : ∀ (ts : List Nat) (s : Sys), (killAll s ts).info = s.info
  | [], _ => rfl
  | t :: ts, s => by
    show (killAll (killTask s t) ts).info = s.info
    rw [killAll_info ts, killTask_info]

@[simp] theorem releaseOwner_info (s : Sys) (g : Option Nat) : (releaseOwner s g).info = s.info := by
  unfold releaseOwner
  repeat' split
  all_goals simp

theorem infoOwn_of_eq {s s' : Sys} (h : InfoOwn s) (he : s'.info = s.info) : InfoOwn s' := by
  intro n c hc; rw [he] at hc; exact h n c hc

theorem step_info (s : Sys) (ev : Ev) (h : InfoOwn s) : InfoOwn (step s ev) := by
  cases ev with
  | openScope t a d spec =>
    simp only [step]; split
    · exact infoOwn_of_eq (construct_info s t spec h) (by simp)
    · exact h
  | make t a d spec =>
    simp only [step]; split
    · exact infoOwn_of_eq (construct_info s t spec h) (by simp)
    · exact h
  | enter t =>
    simp only [step]
    repeat' split
    all_goals first | exact h | exact infoOwn_of_eq h (by simp)
  | exit t exc =>
    simp only [step]
    repeat' split
    all_goals first | exact h | exact infoOwn_of_eq h (by simp)
  | record t v m =>
    simp only [step]; split
    · exact infoOwn_of_eq h (by split <;> rfl)
    · exact h
  | log t lv msg args exc =>
    simp only [step]
    repeat' split
    all_goals exact h
  | spawn t member =>
    simp only [step]
    repeat' split
    all_goals exact h
  | finishTask t =>
    simp only [step]
    split
    · exact infoOwn_of_eq h (by simp)
    · exact h
  | cancel t =>
    simp only [step]
    split
    · exact infoOwn_of_eq h (by simp)
    · exact h
  | openFailing t spec =>
    simp only [step]; split
    · exact infoOwn_of_eq (construct_info s t spec h) (by simp)
    · exact h
  | openGated t spec =>
    simp only [step]; split
    · exact infoOwn_of_eq (construct_info s t spec h) (by simp)
    · exact h
  | release t =>
    simp only [step]
    repeat' split
    all_goals first | exact h | exact infoOwn_of_eq h (by simp)
  | threadCtor t => simp only [step]; split <;> exact h
  | tick dt => exact infoOwn_of_eq h (by simp only [step, compStep_info])

theorem run_info : ∀ (evs : List Ev) (s : Sys), InfoOwn s → InfoOwn (run s evs)
  | [], _, h => h
  | ev :: evs, s, h => run_info evs (step s ev) (step_info s ev h)

end Haiway.ScopeRun
