import Haiway.Model.ScopeState
/-! Lemmas: lookup through any chain of `updated` = innermost supplier (dict-uniqueness invariant). -/
namespace Haiway.ScopeState

theorem find_insert (d : List Inst) (x : Inst) (t : Nat) :
    find (insert d x) t = if x.ty = t then some x else find d t := by
  induction d with
  | nil => simp [insert, find, List.find?]
  | cons y ys ih =>
    unfold insert
    by_cases hy : y.ty = x.ty
    · simp [hy, find, List.find?]
      by_cases hx : x.ty = t <;> simp [hx]
    · simp only [hy, ↓reduceIte]
      simp only [find, List.find?_cons] at ih ⊢
      by_cases hyt : y.ty = t
      · have : ¬ x.ty = t := by intro h; exact hy (by rw [hyt, h])
        simp [hyt, this]
      · simp [hyt]; simpa [find] using ih

theorem find_foldl_insert (xs : List Inst) (d : List Inst) (t : Nat) :
    find (xs.foldl insert d) t = match lastOf xs t with | some i => some i | none => find d t := by
  induction xs generalizing d with
  | nil => simp [lastOf]
  | cons x xs ih =>
    simp only [List.foldl_cons]
    rw [ih (insert d x)]
    simp only [lastOf, List.reverse_cons, List.find?_append]
    cases h : xs.reverse.find? (·.ty = t) with
    | some i => simp
    | none =>
      simp [find_insert]
      by_cases hx : x.ty = t <;> simp [hx]

theorem find_mk (xs : List Inst) (t : Nat) : find (mk xs) t = lastOf xs t := by
  unfold mk; rw [find_foldl_insert]; cases lastOf xs t <;> simp [find]

theorem keys_insert (d : List Inst) (x : Inst) (k : Nat) :
    k ∈ Keys (insert d x) ↔ k ∈ Keys d ∨ k = x.ty := by
  induction d with
  | nil => simp [insert, Keys]
  | cons y ys ih =>
    unfold insert
    by_cases hy : y.ty = x.ty
    · simp only [hy, ↓reduceIte, Keys, List.map_cons, List.mem_cons]
      constructor
      · rintro (h | h); exact Or.inr h; exact Or.inl (Or.inr h)
      · rintro ((h | h) | h); exact Or.inl (hy ▸ h); exact Or.inr h; exact Or.inl h
    · simp only [hy, ↓reduceIte]
      simp only [Keys, List.map_cons, List.mem_cons] at ih ⊢
      rw [ih]; constructor
      · rintro (h | h | h); exact Or.inl (Or.inl h); exact Or.inl (Or.inr h); exact Or.inr h
      · rintro ((h | h) | h); exact Or.inl h; exact Or.inr (Or.inl h); exact Or.inr (Or.inr h)

theorem nodup_insert (d : List Inst) (x : Inst) (h : (Keys d).Nodup) : (Keys (insert d x)).Nodup := by
  induction d with
  | nil => simp [insert, Keys]
  | cons y ys ih =>
    unfold insert
    by_cases hy : y.ty = x.ty
    · simpa [hy, Keys] using h
    · simp only [hy, ↓reduceIte]
      simp only [Keys, List.map_cons, List.nodup_cons] at h ⊢
      refine ⟨?_, ih h.2⟩
      intro hm
      have := (keys_insert ys x y.ty).mp hm
      rcases this with h' | h'
      · exact h.1 h'
      · exact hy h'

theorem nodup_mk (xs : List Inst) : (Keys (mk xs)).Nodup := by
  unfold mk
  suffices ∀ d, (Keys d).Nodup → (Keys (xs.foldl insert d)).Nodup from this [] (by simp [Keys])
  induction xs with
  | nil => intro d h; simpa
  | cons x xs ih => intro d h; simpa using ih (insert d x) (nodup_insert d x h)

/-- with unique keys the first and the last occurrence coincide -/
theorem find_eq_lastOf (d : List Inst) (h : (Keys d).Nodup) (t : Nat) : find d t = lastOf d t := by
  induction d with
  | nil => simp [find, lastOf]
  | cons y ys ih =>
    simp only [Keys, List.map_cons, List.nodup_cons] at h
    simp only [find, lastOf, List.find?_cons, List.reverse_cons, List.find?_append]
    have ih' := ih h.2
    simp only [find, lastOf] at ih'
    by_cases hy : y.ty = t
    · have : ys.find? (·.ty = t) = none := by
        rw [List.find?_eq_none]; intro z hz hzt
        apply h.1; simp only [decide_eq_true_eq] at hzt
        rw [hy, ← hzt]; exact List.mem_map_of_mem hz
      rw [← ih', this]; simp [hy]
    · rw [← ih']; simp [hy]

/-- C01 core: lookup after `updated` = last supplied instance of that type, else what was visible before -/
theorem find_updated (s xs : List Inst) (hs : (Keys s).Nodup) (t : Nat) :
    find (updated s xs) t = match lastOf xs t with | some i => some i | none => find s t := by
  unfold updated
  by_cases he : xs.isEmpty
  · have : xs = [] := by simpa using he
    subst this
    simp [lastOf]
  · simp only [he, Bool.false_eq_true, ↓reduceIte]
    rw [find_mk, find_eq_lastOf s hs]
    simp only [lastOf, List.reverse_append, List.find?_append]
    cases xs.reverse.find? (·.ty = t) <;> simp

theorem nodup_updated (s xs : List Inst) (hs : (Keys s).Nodup) : (Keys (updated s xs)).Nodup := by
  unfold updated; split
  · exact hs
  · exact nodup_mk _

theorem stateOf_nodup (frames : List (List Inst)) : (Keys (stateOf frames)).Nodup := by
  unfold stateOf
  suffices ∀ s, (Keys s).Nodup → (Keys (frames.foldl updated s)).Nodup from this [] (by simp [Keys])
  induction frames with
  | nil => intro s h; simpa
  | cons f fs ih => intro s h; simpa using ih _ (nodup_updated s f h)

theorem find_foldl_updated (fs : List (List Inst)) (s : List Inst) (hs : (Keys s).Nodup) (t : Nat) :
    find (fs.foldl updated s) t =
      match fs.reverse.findSome? (fun f => lastOf f t) with | some i => some i | none => find s t := by
  induction fs generalizing s with
  | nil => simp
  | cons f fs ih =>
    simp only [List.foldl_cons]
    rw [ih _ (nodup_updated s f hs), find_updated s f hs]
    simp only [List.reverse_cons, List.findSome?_append, List.findSome?_cons, List.findSome?_nil]
    cases fs.reverse.findSome? (fun f => lastOf f t) with
    | some i => simp
    | none => cases lastOf f t <;> simp

theorem lookup_innermost (frames : List (List Inst)) (t : Nat) :
    find (stateOf frames) t = frames.reverse.findSome? (fun f => lastOf f t) := by
  unfold stateOf
  rw [find_foldl_updated frames [] (by simp [Keys]) t]
  cases frames.reverse.findSome? (fun f => lastOf f t) <;> simp [find]

end Haiway.ScopeState
