import Haiway.Model.StateObj
/-! `State.__eq__` with Python's operator dispatch: `==` on instances in terms of class identity and
the attribute-wise comparison. -/
namespace Haiway.StateObj
open Haiway.Validate

theorem fieldEq_eq (env : ClsEnv) (v : PyVal) (k : String) :
    ∀ fs, fieldEq env v k fs = pyEq env v (getField fs k) := by
  intro fs
  induction fs with
  | nil => rw [fieldEq]; simp [getField]
  | cons p fs ih =>
    obtain ⟨k', w⟩ := p
    rw [fieldEq]
    by_cases h : k' = k
    · subst h; simp [getField, List.lookup]
    · have h' : (k == k') = false := by
        simp only [beq_eq_false_iff_ne, ne_eq]; exact fun e => h e.symm
      have h'' : (k' == k) = false := by simp only [beq_eq_false_iff_ne, ne_eq]; exact h
      simp only [h'', Bool.false_eq_true, ↓reduceIte, ih, getField, List.lookup, h']

theorem fieldsEq_iff (env : ClsEnv) : ∀ (fa fb : List (String × PyVal)),
    fieldsEq env fa fb = true ↔ ∀ p ∈ fa, pyEq env p.2 (getField fb p.1) = true := by
  intro fa
  induction fa with
  | nil => intro fb; rw [fieldsEq]; simp
  | cons p fa ih =>
    intro fb
    obtain ⟨k, v⟩ := p
    rw [fieldsEq, Bool.and_eq_true, fieldEq_eq, ih]
    simp

theorem pyEq_inst (env : ClsEnv) (c i d j : Nat) (fa fb : List (String × PyVal)) :
    pyEq env (.inst c i fa) (.inst d j fb) =
      if d ≠ c ∧ env.sub d c = true then env.sub c d && fieldsEq env fb fa
      else env.sub d c && fieldsEq env fa fb := by
  rw [pyEq]

/-- `==` between two State instances holds exactly when the classes are the *same* (never across a
base/derived or generic/specialised pair, in either operand order) and every attribute of the left
operand compares equal to the attribute of the same name of the right operand. -/
theorem pyEq_inst_iff (env : ClsEnv) (hrefl : ∀ c, env.sub c c = true)
    (hanti : ∀ c d, env.sub c d = true → env.sub d c = true → c = d)
    (c i d j : Nat) (fa fb : List (String × PyVal)) :
    pyEq env (.inst c i fa) (.inst d j fb) = true ↔
      c = d ∧ ∀ p ∈ fa, pyEq env p.2 (getField fb p.1) = true := by
  rw [pyEq_inst]
  by_cases h : d ≠ c ∧ env.sub d c = true
  · rw [if_pos h]
    constructor
    · intro hh
      simp only [Bool.and_eq_true] at hh
      exact absurd (hanti _ _ h.2 hh.1) h.1
    · intro hh; exact absurd hh.1.symm h.1
  · rw [if_neg h]
    simp only [Bool.and_eq_true, fieldsEq_iff]
    constructor
    · rintro ⟨h1, h2⟩
      refine ⟨?_, h2⟩
      by_cases hc : d = c
      · exact hc.symm
      · exact absurd ⟨hc, h1⟩ h
    · rintro ⟨h1, h2⟩
      exact ⟨by rw [h1]; exact hrefl _, h2⟩

/-- value of the attribute `k` when the names of `fs` are pairwise distinct: the value paired with it -/
theorem getField_of_mem {fs : List (String × PyVal)} (hnd : (fs.map (·.1)).Nodup) {p : String × PyVal}
    (hp : p ∈ fs) : getField fs p.1 = p.2 := by
  induction fs with
  | nil => simp at hp
  | cons q fs ih =>
    obtain ⟨k, v⟩ := q
    simp only [List.map_cons, List.nodup_cons, List.mem_map, not_exists, not_and] at hnd
    simp only [List.mem_cons] at hp
    rcases hp with rfl | hp
    · simp [getField, List.lookup]
    · have hne : (p.1 == k) = false := by
        simp only [beq_eq_false_iff_ne, ne_eq]
        intro e
        exact hnd.1 p hp e
      have := ih hnd.2 hp
      simp only [getField, List.lookup, hne] at this ⊢
      exact this

/-- with the same attribute names on both sides, attribute-wise comparison is pointwise comparison -/
theorem fields_pointwise (R : PyVal → PyVal → Prop) :
    ∀ (fa fb : List (String × PyVal)), fa.map (·.1) = fb.map (·.1) → (fa.map (·.1)).Nodup →
      ((∀ p ∈ fa, R p.2 (getField fb p.1)) ↔ ∀ q ∈ fa.zip fb, R q.1.2 q.2.2) := by
  intro fa
  induction fa with
  | nil => intro fb _ _; simp
  | cons p fa ih =>
    intro fb hn hnd
    cases fb with
    | nil => simp at hn
    | cons q fb =>
      obtain ⟨k, v⟩ := p
      obtain ⟨k', w⟩ := q
      simp only [List.map_cons, List.cons.injEq] at hn
      obtain ⟨rfl, hn⟩ := hn
      simp only [List.map_cons, List.nodup_cons, List.mem_map, not_exists, not_and] at hnd
      have hstep : ∀ p ∈ fa, getField ((k, w) :: fb) p.1 = getField fb p.1 := by
        intro p hp
        have hne : (p.1 == k) = false := by
          simp only [beq_eq_false_iff_ne, ne_eq]
          intro e; exact hnd.1 p hp e
        simp [getField, List.lookup, hne]
      simp only [List.mem_cons, forall_eq_or_imp, List.zip_cons_cons]
      have h0 : getField ((k, w) :: fb) k = w := by simp [getField, List.lookup]
      rw [h0]
      constructor
      · rintro ⟨h1, h2⟩
        exact ⟨h1, (ih fb hn hnd.2).mp (fun p hp => by rw [← hstep p hp]; exact h2 p hp)⟩
      · rintro ⟨h1, h2⟩
        exact ⟨h1, fun p hp => by rw [hstep p hp]; exact (ih fb hn hnd.2).mpr h2 p hp⟩

end Haiway.StateObj
