import Haiway.Model.StateObj
import Haiway.Proofs.ValidateStored
/-! The constructor loop of `State.__init__`. -/
namespace Haiway.StateObj
open Haiway.Validate

theorem initFields_ok_iff (env : ClsEnv) (kw : List (String × PyVal)) :
    ∀ (attrs : List Attr) (fs : List (String × PyVal)), initFields env kw attrs = .ok fs ↔
      attrs.length = fs.length ∧
        ∀ p ∈ attrs.zip fs, p.2.1 = p.1.name ∧ validate env p.1.ann (effective p.1 kw) = .ok p.2.2 := by
  intro attrs
  induction attrs with
  | nil => intro fs; cases fs <;> simp [initFields]
  | cons a attrs ih =>
    intro fs
    unfold initFields
    cases hv : validate env a.ann (effective a kw) with
    | error e =>
      cases fs with
      | nil => simp
      | cons f fs => simp [hv]
    | ok w =>
      cases hr : initFields env kw attrs with
      | error e =>
        cases fs with
        | nil => simp
        | cons f fs' =>
          simp only [List.length_cons, List.zip_cons_cons, List.mem_cons, reduceCtorEq, false_iff, not_and]
          intro hl hall
          have := (ih fs').mpr ⟨by omega, fun p hp => hall p (Or.inr hp)⟩
          rw [hr] at this; cases this
      | ok fs0 =>
        have h0 := (ih fs0).mp hr
        cases fs with
        | nil => simp
        | cons f fs' =>
          simp only [Except.ok.injEq, List.cons.injEq, List.length_cons, List.zip_cons_cons, List.mem_cons]
          constructor
          · rintro ⟨rfl, rfl⟩
            refine ⟨by omega, ?_⟩
            rintro p (rfl | hp)
            · exact ⟨rfl, hv⟩
            · exact h0.2 p hp
          · rintro ⟨hl, hall⟩
            have h1 := hall (a, f) (Or.inl rfl)
            simp only [hv, Except.ok.injEq] at h1
            have h2 := (ih fs').mpr ⟨by omega, fun p hp => hall p (Or.inr hp)⟩
            rw [hr] at h2
            obtain ⟨f1, f2⟩ := f
            simp only at h1
            refine ⟨?_, by cases h2; rfl⟩
            rw [h1.1, h1.2]

theorem initFields_accepts_iff (env : ClsEnv) (kw : List (String × PyVal)) :
    ∀ (attrs : List Attr), (∃ fs, initFields env kw attrs = .ok fs) ↔
      ∀ a ∈ attrs, Conforms env a.ann (effective a kw) := by
  intro attrs
  induction attrs with
  | nil => simp [initFields]
  | cons a attrs ih =>
    unfold initFields
    cases hv : validate env a.ann (effective a kw) with
    | error e =>
      simp only [reduceCtorEq, exists_false, List.mem_cons, forall_eq_or_imp, false_iff, not_and]
      intro hc
      have := (accepts_iff_conforms' env a.ann (effective a kw)).mpr hc
      rw [hv] at this; obtain ⟨_, h⟩ := this; cases h
    | ok w =>
      have hc := (accepts_iff_conforms' env a.ann (effective a kw)).mp ⟨w, hv⟩
      cases hr : initFields env kw attrs with
      | error e =>
        simp only [reduceCtorEq, exists_false, List.mem_cons, forall_eq_or_imp, false_iff, not_and]
        intro _ hall
        have := ih.mpr hall
        rw [hr] at this; obtain ⟨_, h⟩ := this; cases h
      | ok fs0 =>
        simp only [Except.ok.injEq, exists_eq', List.mem_cons, forall_eq_or_imp, true_iff]
        exact ⟨hc, ih.mp ⟨fs0, hr⟩⟩

end Haiway.StateObj
