import Haiway.Proofs.StateUpdated
import Haiway.Proofs.ValidateRevalidate
/-! Instances produced by the constructor (and hence by `updated`, `copy`) are `Stable`. -/
namespace Haiway.StateObj
open Haiway.Validate

theorem initFields_names {env : ClsEnv} {kw : List (String × PyVal)} :
    ∀ (attrs : List Attr) (fs : List (String × PyVal)), initFields env kw attrs = .ok fs →
      fs.map (·.1) = attrs.map (·.name) := by
  intro attrs fs h
  rw [initFields_ok_iff] at h
  obtain ⟨hl, hall⟩ := h
  induction attrs generalizing fs with
  | nil => cases fs <;> simp_all
  | cons a attrs ih =>
    cases fs with
    | nil => simp at hl
    | cons f fs =>
      simp only [List.map_cons, List.cons.injEq]
      exact ⟨(hall (a, f) (by simp)).1, ih fs (by simpa using hl) (fun p hp => hall p (by simp [hp]))⟩

/-- what the constructor stores is stable under re-validation -/
theorem initFields_stable {env : ClsEnv} {cd : ClassDef} {kw fs : List (String × PyVal)}
    (hnd : (cd.attrs.map (·.name)).Nodup) (hplain : ∀ a ∈ cd.attrs, Plain env a.ann)
    (h : initFields env kw cd.attrs = .ok fs) : Stable env cd fs := by
  have hnames := initFields_names _ _ h
  rw [initFields_ok_iff] at h
  obtain ⟨hl, hall⟩ := h
  have field_of : ∀ a ∈ cd.attrs, ∃ f, (a, f) ∈ cd.attrs.zip fs ∧ getField fs a.name = f.2 := by
    intro a ha
    obtain ⟨f, hf⟩ := mem_zip_of_mem_left cd.attrs fs hl a ha
    refine ⟨f, hf, ?_⟩
    rw [← (hall (a, f) hf).1]
    exact getField_of_mem (by rw [hnames]; exact hnd) (List.of_mem_zip hf).2
  refine ⟨hnames, hnd, fun a ha => ?_, fun a ha hm => ?_⟩
  · obtain ⟨f, hf, hget⟩ := field_of a ha
    rw [hget]
    exact revalidate_id' _ _ _ (hall (a, f) hf).2 (hplain a ha)
  · obtain ⟨f, hf, hget⟩ := field_of a ha
    rw [hget] at hm
    have hv := validate_ok_missing _ _ _ (hall (a, f) hf).2 hm
    simp only at hv
    unfold effective at hv
    by_cases hmm : isMissing ((List.lookup a.name kw).getD PyVal.missing) = true
    · simpa [hmm] using hv
    · simp only [hmm, Bool.false_eq_true, ↓reduceIte] at hv
      rw [hv] at hmm
      simp [isMissing] at hmm

end Haiway.StateObj
