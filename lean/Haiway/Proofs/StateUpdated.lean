import Haiway.Proofs.StateInit
import Haiway.Proofs.StateEq
/-! `State.updated`: re-construction from `{**vars(self), **kwargs}`. -/
namespace Haiway.StateObj
open Haiway.Validate

/-- The stored fields of an instance of `cd` are *stable*: one entry per declared attribute (names
pairwise distinct), re-validating a stored value returns it unchanged, and an attribute holding
MISSING re-defaults to MISSING.  Instances produced by `init` are stable (`init_stable`). -/
structure Stable (env : ClsEnv) (cd : ClassDef) (fs : List (String × PyVal)) : Prop where
  names : fs.map (·.1) = cd.attrs.map (·.name)
  nodup : (cd.attrs.map (·.name)).Nodup
  fixed : ∀ a ∈ cd.attrs, validate env a.ann (getField fs a.name) = .ok (getField fs a.name)
  redefault : ∀ a ∈ cd.attrs, getField fs a.name = .missing → a.default.getD .missing = .missing

theorem lookup_of_names {fs : List (String × PyVal)} {names : List String} (h : fs.map (·.1) = names)
    {n : String} (hn : n ∈ names) : fs.lookup n = some (getField fs n) := by
  subst h
  induction fs with
  | nil => simp at hn
  | cons p fs ih =>
    obtain ⟨k, v⟩ := p
    by_cases hk : n = k
    · subst hk; simp [getField, List.lookup]
    · have hne : (n == k) = false := by simpa using hk
      simp only [List.map_cons, List.mem_cons, hk, false_or] at hn
      have := ih hn
      simp only [getField, List.lookup, hne] at this ⊢
      exact this

theorem isMissing_iff (v : PyVal) : isMissing v = true ↔ v = .missing := by
  cases v <;> simp [isMissing]

/-- the value `updated` feeds to the validator of attribute `a`: the replacement if `a` is named in
`kwargs`, otherwise the stored value -/
theorem effective_updated {env : ClsEnv} {cd : ClassDef} {fs : List (String × PyVal)}
    (hs : Stable env cd fs) (kw : List (String × PyVal)) {a : Attr} (ha : a ∈ cd.attrs) :
    effective a (kw ++ fs) =
      if (kw.lookup a.name).isSome then effective a kw else getField fs a.name := by
  unfold effective
  rw [List.lookup_append]
  cases hk : kw.lookup a.name with
  | some v => simp only [Option.some_or, Option.getD_some, Option.isSome_some, ↓reduceIte]; rfl
  | none =>
    have hmem : a.name ∈ cd.attrs.map (·.name) := List.mem_map.mpr ⟨a, ha, rfl⟩
    have hl := lookup_of_names hs.names hmem
    simp only [Option.none_or, hl, Option.getD_some, Option.isSome_none, Bool.false_eq_true, ↓reduceIte]
    by_cases hm : isMissing (getField fs a.name) = true
    · simp only [hm, ↓reduceIte]
      have hm' := (isMissing_iff _).mp hm
      rw [hm']; exact hs.redefault a ha hm'
    · simp [hm]

/-- `updated` succeeds iff every *named, known* replacement conforms. -/
theorem updated_succeeds_iff {env : ClsEnv} {cd : ClassDef} {fs : List (String × PyVal)}
    (hs : Stable env cd fs) (kw : List (String × PyVal)) (oid : Nat) :
    (∃ s, updated env cd fs kw oid = .ok s) ↔
      ∀ a ∈ cd.attrs, (kw.lookup a.name).isSome = true → Conforms env a.ann (effective a kw) := by
  have h1 : (∃ s, updated env cd fs kw oid = .ok s) ↔ ∃ fs', initFields env (kw ++ fs) cd.attrs = .ok fs' := by
    unfold updated init
    cases initFields env (kw ++ fs) cd.attrs <;> simp [Except.map]
  rw [h1, initFields_accepts_iff]
  constructor
  · intro h a ha hnamed
    have := h a ha
    rw [effective_updated hs kw ha, if_pos hnamed] at this
    exact this
  · intro h a ha
    rw [effective_updated hs kw ha]
    by_cases hnamed : (kw.lookup a.name).isSome = true
    · rw [if_pos hnamed]; exact h a ha hnamed
    · rw [if_neg hnamed]
      exact (accepts_iff_conforms' env a.ann _).mp ⟨_, hs.fixed a ha⟩

/-- On success the new instance has the same class and attribute names; a named attribute holds the
validated replacement, every other attribute holds exactly the value it had. -/
theorem updated_fields {env : ClsEnv} {cd : ClassDef} {fs : List (String × PyVal)}
    (hs : Stable env cd fs) (kw : List (String × PyVal)) (oid : Nat) (s : PyVal)
    (h : updated env cd fs kw oid = .ok s) :
    ∃ fs', s = .inst cd.id oid fs' ∧ fs'.map (·.1) = fs.map (·.1) ∧
      ∀ a ∈ cd.attrs,
        ((kw.lookup a.name).isSome = true → validate env a.ann (effective a kw) = .ok (getField fs' a.name)) ∧
        ((kw.lookup a.name).isSome = false → getField fs' a.name = getField fs a.name) := by
  unfold updated init at h
  obtain ⟨fs', hfs, rfl⟩ := map_ok h
  rw [initFields_ok_iff] at hfs
  obtain ⟨hl, hall⟩ := hfs
  have hnames : fs'.map (·.1) = cd.attrs.map (·.name) := by
    clear h hs
    generalize cd.attrs = attrs at hl hall
    induction attrs generalizing fs' with
    | nil => cases fs' <;> simp_all
    | cons a attrs ih =>
      cases fs' with
      | nil => simp at hl
      | cons f fs' =>
        simp only [List.map_cons, List.cons.injEq]
        exact ⟨(hall (a, f) (by simp)).1, ih fs' (by simpa using hl) (fun p hp => hall p (by simp [hp]))⟩
  refine ⟨fs', rfl, by rw [hnames, hs.names], fun a ha => ?_⟩
  obtain ⟨f, hf⟩ := mem_zip_of_mem_left cd.attrs fs' hl a ha
  have hv := hall (a, f) hf
  simp only at hv
  have hfmem : f ∈ fs' := (List.of_mem_zip hf).2
  have hget : getField fs' a.name = f.2 := by
    rw [← hv.1]
    exact getField_of_mem (by rw [hnames]; exact hs.nodup) hfmem
  rw [effective_updated hs kw ha] at hv
  constructor
  · intro hnamed
    rw [if_pos hnamed] at hv
    rw [hget]; exact hv.2
  · intro hnamed
    rw [if_neg (by simp [hnamed])] at hv
    rw [hget]
    have := hs.fixed a ha
    rw [this] at hv
    exact (Except.ok.inj hv.2).symm

end Haiway.StateObj
