import Haiway.Model.Stream
/-! Helper lemmas for C11: what a generator body yields (`flat`), independence of that from every context;
context restoration (`restoreAll`); monotonicity of the metrics heap. -/
namespace Haiway.Stream

/-! ## the items of a body, read off its syntax -/

/-- items, and `some e` when the list ends by raising `e` -/
abbrev Flat := List Nat × Option Exc

/-- sequential composition: what follows an exception never runs -/
def Flat.seq (a b : Flat) : Flat :=
  match a.2 with
  | some e => (a.1, some e)
  | none => (a.1 ++ b.1, b.2)

def Flat.cons (i : Nat) (a : Flat) : Flat := (i :: a.1, a.2)

mutual
def flatI : Instr → Flat
  | .yld i => ([i], none)
  | .recd _ => ([], none)
  | .nop => ([], none)
  | .fail base => ([], some (if base then .baseBoom else .boom))
  | .block _ _ body => flatL body
  | .sub _ body => flatL body
def flatL : List Instr → Flat
  | [] => ([], none)
  | i :: r => (flatI i).seq (flatL r)
end

/-- the items still to come from a suspended generator (stack innermost first) -/
def flatS : List Entry → Flat
  | [] => ([], none)
  | e :: rest => (flatL e.pc).seq (flatS rest)

@[simp] theorem Flat.seq_nil_left (b : Flat) : Flat.seq ([], none) b = b := by
  simp [Flat.seq]

@[simp] theorem Flat.seq_nil_right (a : Flat) : Flat.seq a ([], none) = a := by
  obtain ⟨xs, t⟩ := a
  cases t <;> simp [Flat.seq]

theorem Flat.seq_assoc (a b c : Flat) : (a.seq b).seq c = a.seq (b.seq c) := by
  obtain ⟨xs, t⟩ := a
  obtain ⟨ys, u⟩ := b
  cases t <;> cases u <;> simp [Flat.seq]

@[simp] theorem Flat.seq_raise (xs : List Nat) (e : Exc) (b : Flat) : Flat.seq (xs, some e) b = (xs, some e) := by
  simp [Flat.seq]

theorem Flat.cons_seq (i : Nat) (a b : Flat) : (Flat.cons i a).seq b = Flat.cons i (a.seq b) := by
  obtain ⟨xs, t⟩ := a
  cases t <;> simp [Flat.seq, Flat.cons]

theorem flatS_append (a b : List Entry) : flatS (a ++ b) = (flatS a).seq (flatS b) := by
  induction a with
  | nil => simp [flatS]
  | cons e r ih => simp [flatS, ih, Flat.seq_assoc]

/-- what a run of an instruction list tells about its syntax, whatever the context and the heap -/
def ResSpec (fl : Flat) : Res → Prop
  | .finished _ _ => fl = ([], none)
  | .raised e _ _ => fl = ([], some e)
  | .yielded i _ inner rest _ _ => fl = Flat.cons i ((flatS inner).seq (flatL rest))

/-- a single instruction never leaves a rest of its own -/
def ResSpecI (fl : Flat) : Res → Prop
  | .finished _ _ => fl = ([], none)
  | .raised e _ _ => fl = ([], some e)
  | .yielded i _ inner rest _ _ => rest = [] ∧ fl = Flat.cons i (flatS inner)

mutual
theorem runI_spec (path : List Nat) : ∀ (i : Instr) (c : Ctx) (w : World), ResSpecI (flatI i) (runI path i c w)
  | .yld i, c, w => by simp [runI, ResSpecI, flatI, Flat.cons, flatS]
  | .recd k, c, w => by simp [runI, ResSpecI, flatI]
  | .fail base, c, w => by simp [runI, ResSpecI, flatI]
  | .nop, c, w => by simp [runI, ResSpecI, flatI]
  | .block k v body, c, w => by
    have ih := runL_spec path body (enterBlock k v c w).2.1 (enterBlock k v c w).2.2
    simp only [runI, flatI]
    generalize runL path body (enterBlock k v c w).2.1 (enterBlock k v c w).2.2 = r at ih
    cases r with
    | finished c2 w2 => simpa [ResSpec, ResSpecI] using ih
    | raised e c2 w2 => simpa [ResSpec, ResSpecI] using ih
    | yielded i fp inner rest c2 w2 =>
      simp only [ResSpec, ResSpecI] at ih ⊢
      simp [ih, flatS_append, flatS]
  | .sub g body, c, w => by
    have ih := runL_spec (path ++ [g]) body
      (startStream (mkNode w (.gen g) c.metrics).2 (.stream g (path ++ [g])) c).2 (mkNode w (.gen g) c.metrics).1
    simp only [runI, flatI]
    generalize runL (path ++ [g]) body _ _ = r at ih
    cases r with
    | finished c2 w2 => simpa [ResSpec, ResSpecI] using ih
    | raised e c2 w2 => simpa [ResSpec, ResSpecI] using ih
    | yielded i fp inner rest c2 w2 =>
      simp only [ResSpec, ResSpecI] at ih ⊢
      simp [ih, flatS_append, flatS]
theorem runL_spec (path : List Nat) : ∀ (l : List Instr) (c : Ctx) (w : World), ResSpec (flatL l) (runL path l c w)
  | [], c, w => by simp [runL, ResSpec, flatL]
  | i :: r, c, w => by
    have hi := runI_spec path i c w
    simp only [runL, flatL]
    generalize runI path i c w = ri at hi
    cases ri with
    | finished c' w' =>
      simp only [ResSpecI] at hi
      simpa [hi] using runL_spec path r c' w'
    | raised e c' w' =>
      simp only [ResSpecI] at hi
      simp [ResSpec, hi]
    | yielded j fp inner rest c' w' =>
      simp only [ResSpecI, ResSpec] at hi ⊢
      simp [hi.2, Flat.cons_seq]
end

/-- what one resumption tells about the items still to come -/
def OutSpec (before : Flat) (o : Outcome) (after : List Entry) : Prop :=
  match o with
  | .item i _ => before = Flat.cons i (flatS after)
  | .stop => before = ([], none) ∧ after = []
  | .err e => before = ([], some e) ∧ after = []

theorem resume_spec : ∀ (stack : List Entry) (c : Ctx) (w : World),
    OutSpec (flatS stack) (resume stack c w).1 (resume stack c w).2.1
  | [], c, w => by simp [resume, OutSpec, flatS]
  | e :: rest, c, w => by
    have h := runL_spec e.path e.pc c w
    simp only [resume]
    generalize runL e.path e.pc c w = r at h
    cases r with
    | finished c' w' =>
      simp only [ResSpec] at h
      have ih := resume_spec rest (exitFrame e.frame c' w').1 (exitFrame e.frame c' w').2
      simpa [flatS, h] using ih
    | raised x c' w' =>
      simp only [ResSpec] at h
      simp [OutSpec, flatS, h]
    | yielded i fp inner pc' c' w' =>
      simp only [ResSpec] at h
      simp [OutSpec, flatS, h, flatS_append, Flat.cons_seq, Flat.seq_assoc]

/-! ## association lists -/

@[simp] theorem lookup_update_same {α : Type} (l : List (Nat × α)) (k : Nat) (a : α) :
    lookup (update l k a) k = some a := by
  induction l with
  | nil => simp [update, lookup]
  | cons p r ih =>
    obtain ⟨k', a'⟩ := p
    by_cases h : k' = k <;> simp [update, lookup, h, ih]

theorem lookup_update_other {α : Type} (l : List (Nat × α)) (k k' : Nat) (a : α) (h : k ≠ k') :
    lookup (update l k a) k' = lookup l k' := by
  induction l with
  | nil => simp [update, lookup, h]
  | cons p r ih =>
    obtain ⟨k'', a'⟩ := p
    by_cases h1 : k'' = k
    · subst h1; simp [update, lookup, h]
    · by_cases h2 : k'' = k'
      · subst h2; simp [update, lookup, h1]
      · simp [update, lookup, h1, h2, ih]

theorem lookup_update {α : Type} (l : List (Nat × α)) (k k' : Nat) (a : α) :
    lookup (update l k a) k' = if k = k' then some a else lookup l k' := by
  by_cases h : k = k'
  · subst h; simp
  · simp [h, lookup_update_other l k k' a h]

/-! ## items: delivered ++ still to come = the body's items -/

/-- the items a stream has still to deliver, and how it will end -/
def remaining (st : Strm) : Flat :=
  match st.status with
  | .unstarted => flatL st.body
  | .running => flatS st.stack
  | .done => ([], st.exc)
  | .dropped => ([], st.exc)

/-- per stream: the body is the generator it was created from; what was delivered is a prefix of the body's
items; unless the stream was closed / dropped early, delivered followed by what is still to come is exactly
the body's items and ending -/
def StrmInv (gens : Gens) (st : Strm) : Prop :=
  gens[st.g]? = some st.body ∧
  (st.cut = true → st.status = .done ∨ st.status = .dropped) ∧
  ∃ rem : Flat, Flat.seq (st.delivered, none) rem = flatL st.body ∧ (st.cut = false → rem = remaining st)

def SysInv (gens : Gens) (s : Sys) : Prop :=
  ∀ h st, lookup s.streams h = some st → StrmInv gens st

theorem flatS_startEntry (st : Strm) (h : Nat) (c : Ctx) : flatS [(startEntry st h c).1] = flatL st.body := by
  simp [startEntry, flatS]

theorem remaining_resumePoint (st : Strm) (h : Nat) (c : Ctx)
    (hs : st.status = .unstarted ∨ st.status = .running) :
    flatS (resumePoint st h c).1 = remaining st := by
  rcases hs with hs | hs
  · simp [resumePoint, hs, remaining, flatS_startEntry]
  · simp [resumePoint, hs, remaining]

/-- one `__anext__` peels exactly the next item off, or reports the body's own ending -/
theorem nextOn_inv (gens : Gens) (st : Strm) (h t : Nat) (c : Ctx) (w : World)
    (hs : st.status = .unstarted ∨ st.status = .running) (hi : StrmInv gens st) :
    StrmInv gens (nextOn st h t c w).2.1 := by
  obtain ⟨hg, hcs, rem, hrem, hcut⟩ := hi
  have hc : st.cut = false := by
    cases hcv : st.cut with
    | false => rfl
    | true => rcases hcs hcv with h1 | h1 <;> rcases hs with h2 | h2 <;> simp [h1] at h2
  have hr := hcut hc
  subst hr
  have hspec := resume_spec (resumePoint st h c).1 (resumePoint st h c).2 w
  rw [remaining_resumePoint st h c hs] at hspec
  simp only [nextOn]
  generalize (resume (resumePoint st h c).1 (resumePoint st h c).2 w) = r at hspec
  obtain ⟨o, stack', c', w'⟩ := r
  simp only at hspec ⊢
  cases o with
  | item i fp =>
    simp only [OutSpec] at hspec
    refine ⟨by simpa [Strm.after] using hg, by simp [Strm.after, hc], flatS stack', ?_,
      fun _ => by simp [Strm.after, remaining]⟩
    rw [hspec] at hrem
    simp only [Strm.after]
    rw [← hrem]
    simp [Flat.seq, Flat.cons]
  | stop =>
    simp only [OutSpec] at hspec
    refine ⟨by simpa [Strm.after] using hg, by simp [Strm.after, hc], remaining st,
      by simpa [Strm.after] using hrem, fun _ => ?_⟩
    rw [hspec.1]
    simp [Strm.after, remaining]
  | err e =>
    simp only [OutSpec] at hspec
    refine ⟨by simpa [Strm.after] using hg, by simp [Strm.after, hc], remaining st,
      by simpa [Strm.after] using hrem, fun _ => ?_⟩
    rw [hspec.1]
    simp [Strm.after, remaining]

@[simp] theorem setTask_streams (s : Sys) (t : Nat) (tk : Task) : (setTask s t tk).streams = s.streams := rfl
@[simp] theorem setStrm_streams (s : Sys) (h : Nat) (st : Strm) : (setStrm s h st).streams = update s.streams h st := rfl
@[simp] theorem setStrm_tasks (s : Sys) (h : Nat) (st : Strm) : (setStrm s h st).tasks = s.tasks := rfl
@[simp] theorem setTask_tasks (s : Sys) (t : Nat) (tk : Task) : (setTask s t tk).tasks = update s.tasks t tk := rfl
@[simp] theorem setTask_world (s : Sys) (t : Nat) (tk : Task) : (setTask s t tk).world = s.world := rfl
@[simp] theorem setStrm_world (s : Sys) (h : Nat) (st : Strm) : (setStrm s h st).world = s.world := rfl

theorem SysInv.set {gens : Gens} {s : Sys} (hi : SysInv gens s) (s' : Sys) (h : Nat) (st : Strm)
    (hs : s'.streams = update s.streams h st) (hst : StrmInv gens st) : SysInv gens s' := by
  intro h' st' hl
  rw [hs, lookup_update] at hl
  by_cases hh : h = h'
  · simp [hh] at hl; subst hl; exact hst
  · simp [hh] at hl; exact hi h' st' hl

theorem SysInv.same {gens : Gens} {s : Sys} (hi : SysInv gens s) (s' : Sys) (hs : s'.streams = s.streams) :
    SysInv gens s' := by
  intro h' st' hl
  rw [hs] at hl
  exact hi h' st' hl

theorem stepOp_inv (gens : Gens) (s : Sys) (idx t : Nat) (tk : Task) (op : Op) (hi : SysInv gens s) :
    SysInv gens (stepOp gens s idx t tk op).1 := by
  cases op with
  | enterA v => exact hi.same _ rfl
  | enterS v => exact hi.same _ rfl
  | enterU v => exact hi.same _ rfl
  | exit =>
    simp only [stepOp]
    cases tk.frames with
    | nil => exact hi
    | cons f fs => exact hi.same _ rfl
  | probe => exact hi
  | caught => exact hi
  | spawn j =>
    simp only [stepOp]
    cases lookup s.tasks j with
    | some _ => exact hi
    | none => exact hi.same _ rfl
  | mk h g =>
    simp only [stepOp]
    cases hl : lookup s.streams h with
    | some _ => simpa using hi
    | none =>
      cases hg : gens[g]? with
      | none => simpa using hi
      | some body =>
        simp only
        refine hi.set _ h _ rfl ⟨by simpa using hg, by simp, flatL body, by simp [Flat.seq], ?_⟩
        intro _; simp [remaining]
  | next h =>
    simp only [stepOp]
    cases hl : lookup s.streams h with
    | none => exact hi
    | some st =>
      simp only
      by_cases h1 : st.status = .done
      · simpa [h1] using hi
      · by_cases h2 : st.status = .dropped
        · simpa [h1, h2] using hi
        · by_cases h3 : st.status = .running ∧ st.consumer ≠ t
          · simpa [h1, h2, h3] using hi
          · simp only [h1, h2, h3, if_false]
            have hs : st.status = .unstarted ∨ st.status = .running := by
              cases hst : st.status <;> simp_all
            exact hi.set _ h _ rfl (nextOn_inv gens st h t tk.ctx s.world hs (hi h st hl))
  | close h =>
    simp only [stepOp]
    cases hl : lookup s.streams h with
    | none => exact hi
    | some st =>
      obtain ⟨hg, hcs, rem, hrem, hcut⟩ := hi h st hl
      simp only
      cases hst : st.status with
      | done => exact hi
      | dropped => exact hi
      | unstarted =>
        exact hi.set _ h _ rfl ⟨by simpa using hg, by simp, rem, by simpa using hrem, by simp⟩
      | running =>
        by_cases hc : st.consumer ≠ t
        · simpa [hc] using hi
        · simp only [hc, if_false]
          exact hi.set _ h _ rfl ⟨by simpa using hg, by simp, rem, by simpa using hrem, by simp⟩
  | abandon h =>
    simp only [stepOp]
    cases hl : lookup s.streams h with
    | none => exact hi
    | some st =>
      obtain ⟨hg, hcs, rem, hrem, hcut⟩ := hi h st hl
      simp only
      by_cases hd : st.status = .dropped
      · simpa [hd] using hi
      · simp only [hd, if_false]
        refine hi.set _ h _ rfl ⟨by simpa using hg, by simp, rem, by simpa using hrem, ?_⟩
        intro hc
        simp only [Bool.or_eq_false_iff] at hc
        have hdone : st.status = .done := by simpa using hc.2
        have := hcut hc.1
        simpa [remaining, hdone] using this

theorem step_inv (gens : Gens) (s : Sys) (idx : Nat) (l : Label) (hi : SysInv gens s) :
    SysInv gens (step gens s idx l).1 := by
  simp only [step]
  cases lookup s.tasks l.task with
  | none => exact hi
  | some tk => exact stepOp_inv gens s idx l.task tk l.op hi

theorem init_inv (gens : Gens) : SysInv gens {} := by
  intro h st hl
  simp [lookup] at hl

theorem runFrom_inv (gens : Gens) : ∀ (ls : List Label) (s : Sys) (idx : Nat), SysInv gens s →
    SysInv gens (runFrom gens s idx ls).1
  | [], s, idx, hi => by simpa [runFrom] using hi
  | l :: ls, s, idx, hi => by
    simpa [runFrom] using runFrom_inv gens ls _ (idx + 1) (step_inv gens s idx l hi)

/-! ## contexts: leaving every open block of a generator gives back the context it was first resumed in -/

/-- reset the tokens of a list of frames, innermost first -/
def restoreAll : List Frame → Ctx → Ctx
  | [], c => c
  | f :: fs, c => restoreAll fs (restore f c)

def framesOf (stack : List Entry) : List Frame := stack.map (·.frame)

theorem restoreAll_append (a b : List Frame) (c : Ctx) : restoreAll (a ++ b) c = restoreAll b (restoreAll a c) := by
  induction a generalizing c with
  | nil => rfl
  | cons f r ih => simp [restoreAll, ih]

@[simp] theorem framesOf_append (a b : List Entry) : framesOf (a ++ b) = framesOf a ++ framesOf b := by
  simp [framesOf]

@[simp] theorem framesOf_cons (e : Entry) (r : List Entry) : framesOf (e :: r) = e.frame :: framesOf r := rfl

@[simp] theorem framesOf_nil : framesOf [] = [] := rfl

theorem restore_enterScope (async : Bool) (name : Name) (owner : Owner) (v : Nat) (c : Ctx) (w : World) :
    restore (enterScope async name owner v c w).1 (enterScope async name owner v c w).2.1 = c := by
  cases async <;> simp [enterScope, restore]

theorem restore_enterUpd (v : Nat) (c : Ctx) : restore (enterUpd v c).1 (enterUpd v c).2 = c := by
  simp [enterUpd, restore]

theorem restore_enterBlock (k : BK) (v : Nat) (c : Ctx) (w : World) :
    restore (enterBlock k v c w).1 (enterBlock k v c w).2.1 = c := by
  cases k
  · exact restore_enterScope false (.bsync v) (.basync v) v c w
  · exact restore_enterScope true (.basync v) (.basync v) v c w
  · exact restore_enterUpd v c

theorem restore_startStream (n : Nat) (owner : Owner) (c : Ctx) :
    restore (startStream n owner c).1 (startStream n owner c).2 = c := by
  simp [startStream, restore]

@[simp] theorem exitFrame_ctx (f : Frame) (c : Ctx) (w : World) : (exitFrame f c w).1 = restore f c := rfl

/-- the context a run of instructions leaves behind, relative to the context `c` it started in -/
def ResCtx (c : Ctx) : Res → Prop
  | .finished c' _ => c' = c
  | .raised _ c' _ => c' = c
  | .yielded _ _ inner _ c' _ => restoreAll (framesOf inner) c' = c

mutual
theorem runI_ctx (path : List Nat) : ∀ (i : Instr) (c : Ctx) (w : World), ResCtx c (runI path i c w)
  | .yld i, c, w => by simp [runI, ResCtx, restoreAll]
  | .recd k, c, w => by simp [runI, ResCtx]
  | .fail base, c, w => by simp [runI, ResCtx]
  | .nop, c, w => by simp [runI, ResCtx]
  | .block k v body, c, w => by
    have ih := runL_ctx path body (enterBlock k v c w).2.1 (enterBlock k v c w).2.2
    have hr := restore_enterBlock k v c w
    simp only [runI]
    generalize runL path body (enterBlock k v c w).2.1 (enterBlock k v c w).2.2 = r at ih
    cases r with
    | finished c2 w2 => simp only [ResCtx] at ih ⊢; simp [ih, hr]
    | raised e c2 w2 => simp only [ResCtx] at ih ⊢; simp [ih, hr]
    | yielded i fp inner rest c2 w2 =>
      simp only [ResCtx] at ih ⊢
      simp [restoreAll_append, ih, restoreAll, hr]
  | .sub g body, c, w => by
    have ih := runL_ctx (path ++ [g]) body
      (startStream (mkNode w (.gen g) c.metrics).2 (.stream g (path ++ [g])) c).2 (mkNode w (.gen g) c.metrics).1
    have hr := restore_startStream (mkNode w (.gen g) c.metrics).2 (.stream g (path ++ [g])) c
    simp only [runI]
    generalize runL (path ++ [g]) body _ _ = r at ih
    cases r with
    | finished c2 w2 => simp only [ResCtx] at ih ⊢; simp [ih, hr]
    | raised e c2 w2 => simp only [ResCtx] at ih ⊢; simp [ih, hr]
    | yielded i fp inner rest c2 w2 =>
      simp only [ResCtx] at ih ⊢
      simp [restoreAll_append, ih, restoreAll, hr]
theorem runL_ctx (path : List Nat) : ∀ (l : List Instr) (c : Ctx) (w : World), ResCtx c (runL path l c w)
  | [], c, w => by simp [runL, ResCtx]
  | i :: r, c, w => by
    have hi := runI_ctx path i c w
    simp only [runL]
    generalize runI path i c w = ri at hi
    cases ri with
    | finished c' w' =>
      simp only [ResCtx] at hi
      subst hi
      exact runL_ctx path r c' w'
    | raised e c' w' => simpa [ResCtx] using hi
    | yielded j fp inner rest c' w' => simpa [ResCtx] using hi
end

theorem unwind_ctx : ∀ (stack : List Entry) (c : Ctx) (w : World),
    (unwind stack c w).1 = restoreAll (framesOf stack) c
  | [], c, w => rfl
  | e :: rest, c, w => by simp [unwind, restoreAll, unwind_ctx rest]

/-- resuming a generator keeps "what all its open blocks would restore" unchanged; when it ends the
context *is* that restored context -/
theorem resume_ctx : ∀ (stack : List Entry) (c : Ctx) (w : World),
    restoreAll (framesOf (resume stack c w).2.1) (resume stack c w).2.2.1 = restoreAll (framesOf stack) c
  | [], c, w => by simp [resume]
  | e :: rest, c, w => by
    have h := runL_ctx e.path e.pc c w
    simp only [resume]
    generalize runL e.path e.pc c w = r at h
    cases r with
    | finished c' w' =>
      simp only [ResCtx] at h
      subst h
      simpa [restoreAll] using resume_ctx rest (exitFrame e.frame c' w').1 (exitFrame e.frame c' w').2
    | raised x c' w' =>
      simp only [ResCtx] at h
      subst h
      simp [unwind_ctx, restoreAll]
    | yielded i fp inner pc' c' w' =>
      simp only [ResCtx] at h
      simp [restoreAll_append, h, restoreAll]

/-! ## the outermost block of a suspended stream is the stream's own `async with` -/

def lastFrame (stack : List Entry) : Option Frame := stack.getLast?.map (·.frame)

theorem lastFrame_cons (e : Entry) (rest : List Entry) :
    lastFrame (e :: rest) = match rest with
      | [] => some e.frame
      | _ :: _ => lastFrame rest := by
  cases rest <;> simp [lastFrame, List.getLast?_cons_cons]

theorem lastFrame_append_cons (a : List Entry) (e : Entry) (rest : List Entry) :
    lastFrame (a ++ e :: rest) = lastFrame (e :: rest) := by
  simp only [lastFrame, List.getLast?_append]
  cases h : (e :: rest).getLast? with
  | none => simp [List.getLast?_eq_none_iff] at h
  | some x => simp

/-- while a generator keeps yielding, its outermost block stays the same -/
theorem resume_lastFrame : ∀ (stack : List Entry) (c : Ctx) (w : World) (i : Nat) (fp : FP),
    (resume stack c w).1 = .item i fp → lastFrame (resume stack c w).2.1 = lastFrame stack
  | [], c, w, i, fp, h => by simp [resume] at h
  | e :: rest, c, w, i, fp, h => by
    simp only [resume] at h ⊢
    generalize runL e.path e.pc c w = r at h
    cases r with
    | finished c' w' =>
      simp only at h ⊢
      have ih := resume_lastFrame rest _ _ i fp h
      rw [ih]
      cases rest with
      | nil => simp [resume] at h
      | cons e' r' => simp [lastFrame_cons]
    | raised x c' w' => simp at h
    | yielded j fp' inner pc' c' w' =>
      simp only [lastFrame_append_cons]
      cases rest <;> simp [lastFrame_cons]

/-- resetting down to an `async with` frame gives exactly the three values it recorded -/
theorem restoreAll_lastAscope (fs : List Frame) (n : Nat) (g : Option Owner) (st m : Option Nat) (c c' : Ctx) :
    restoreAll (fs ++ [.ascope n g st m]) c = restore (.ascope n g st m) c' := by
  simp [restoreAll_append, restoreAll, restore]

/-- `aclose()` unwinds a suffix of the stack that ends with the stream's own block -/
theorem closeEntries_snoc (init : List Entry) (last : Entry) :
    closeEntries (init ++ [last]) = (init.reverse.takeWhile (fun e => !e.isStream)).reverse ++ [last] := by
  simp [closeEntries]

/-! ## a consumer session: task `t` consumes stream `h` and does nothing else to its context -/

/-- `t` only calls `__anext__` / `aclose` on `h`, probes, or handles a cancellation request; the other tasks do
anything but touch `h` -/
def SessionLabel (t h : Nat) (l : Label) : Prop :=
  (l.task = t → l.op = .next h ∨ l.op = .close h ∨ l.op = .probe ∨ l.op = .caught) ∧
  (l.task ≠ t → l.op ≠ .next h ∧ l.op ≠ .close h ∧ l.op ≠ .abandon h ∧ ∀ g, l.op ≠ .mk h g)

def Session (s : Sys) (t h : Nat) (c0 : Ctx) : Prop :=
  ∃ tk st, lookup s.tasks t = some tk ∧ lookup s.streams h = some st ∧
    match st.status with
    | .unstarted => tk.ctx = c0
    | .running => st.consumer = t ∧ restoreAll (framesOf st.stack) tk.ctx = c0 ∧
        ∃ n g sv m, lastFrame st.stack = some (.ascope n g sv m)
    | .done => tk.ctx = c0
    | .dropped => False

/-- a step of another task that does not name stream `h` changes neither task `t` nor stream `h` -/
theorem stepOp_other (gens : Gens) (s : Sys) (idx t' t h : Nat) (tk' : Task) (op : Op) (hne : t' ≠ t)
    (ht : (lookup s.tasks t).isSome)
    (hop : op ≠ .next h ∧ op ≠ .close h ∧ op ≠ .abandon h ∧ ∀ g, op ≠ .mk h g) :
    lookup (stepOp gens s idx t' tk' op).1.tasks t = lookup s.tasks t ∧
    lookup (stepOp gens s idx t' tk' op).1.streams h = lookup s.streams h := by
  cases op with
  | enterA v => simp [stepOp, lookup_update_other _ _ _ _ hne]
  | enterS v => simp [stepOp, lookup_update_other _ _ _ _ hne]
  | enterU v => simp [stepOp, lookup_update_other _ _ _ _ hne]
  | exit =>
    simp only [stepOp]
    cases tk'.frames <;> simp [lookup_update_other _ _ _ _ hne]
  | probe => simp [stepOp]
  | caught => simp [stepOp]
  | spawn j =>
    simp only [stepOp]
    cases hj : lookup s.tasks j with
    | some _ => simp
    | none =>
      have : j ≠ t := by
        intro hjt; subst hjt; simp [hj] at ht
      simp [lookup_update_other _ _ _ _ this]
  | mk h' g =>
    have hh : h' ≠ h := by
      intro e; subst e; exact hop.2.2.2 g rfl
    simp only [stepOp]
    cases lookup s.streams h' <;> cases gens[g]? <;> simp [lookup_update_other _ _ _ _ hh]
  | next h' =>
    have hh : h' ≠ h := by
      intro e; subst e; exact hop.1 rfl
    simp only [stepOp]
    cases lookup s.streams h' with
    | none => simp
    | some st =>
      simp only
      split
      · simp
      · split
        · simp
        · split
          · simp
          · simp [lookup_update_other _ _ _ _ hne, lookup_update_other _ _ _ _ hh]
  | close h' =>
    have hh : h' ≠ h := by
      intro e; subst e; exact hop.2.1 rfl
    simp only [stepOp]
    cases lookup s.streams h' with
    | none => simp
    | some st =>
      simp only
      cases st.status with
      | done => simp
      | dropped => simp
      | unstarted => simp [lookup_update_other _ _ _ _ hh]
      | running =>
        simp only
        split
        · simp
        · simp [lookup_update_other _ _ _ _ hne, lookup_update_other _ _ _ _ hh]
  | abandon h' =>
    have hh : h' ≠ h := by
      intro e; subst e; exact hop.2.2.1 rfl
    simp only [stepOp]
    cases lookup s.streams h' with
    | none => simp
    | some st =>
      simp only
      split
      · simp
      · simp [lookup_update_other _ _ _ _ hh]

theorem resume_terminal_stack (stack : List Entry) (c : Ctx) (w : World)
    (h : ∀ i fp, (resume stack c w).1 ≠ .item i fp) : (resume stack c w).2.1 = [] := by
  have hs := resume_spec stack c w
  generalize (resume stack c w).1 = o at h hs
  cases o with
  | item i fp => exact absurd rfl (h i fp)
  | stop => exact hs.2
  | err e => exact hs.2

/-- `__anext__` by the consumer keeps the session invariant -/
theorem session_next (w : World) (t h : Nat) (c0 : Ctx) (tk : Task) (st : Strm)
    (hs : st.status = .unstarted ∨ st.status = .running)
    (hinv : match st.status with
      | .unstarted => tk.ctx = c0
      | .running => st.consumer = t ∧ restoreAll (framesOf st.stack) tk.ctx = c0 ∧
          ∃ n g sv m, lastFrame st.stack = some (.ascope n g sv m)
      | .done => tk.ctx = c0
      | .dropped => False) :
    let r := nextOn st h t tk.ctx w
    match r.2.1.status with
    | .unstarted => r.2.2.1 = c0
    | .running => r.2.1.consumer = t ∧ restoreAll (framesOf r.2.1.stack) r.2.2.1 = c0 ∧
        ∃ n g sv m, lastFrame r.2.1.stack = some (.ascope n g sv m)
    | .done => r.2.2.1 = c0
    | .dropped => False := by
  -- the resumption point restores to `c0` and its outermost block is the stream's own
  have hpt : restoreAll (framesOf (resumePoint st h tk.ctx).1) (resumePoint st h tk.ctx).2 = c0 ∧
      ∃ n g sv m, lastFrame (resumePoint st h tk.ctx).1 = some (.ascope n g sv m) := by
    rcases hs with hs | hs
    · simp only [hs] at hinv
      subst hinv
      refine ⟨by simp [resumePoint, hs, startEntry, restoreAll, restore_startStream], ?_⟩
      simp [resumePoint, hs, startEntry, lastFrame, startStream]
    · simp only [hs] at hinv
      simp [resumePoint, hs, hinv.2.1, hinv.2.2]
  have hctx := resume_ctx (resumePoint st h tk.ctx).1 (resumePoint st h tk.ctx).2 w
  have hlast := resume_lastFrame (resumePoint st h tk.ctx).1 (resumePoint st h tk.ctx).2 w
  have hterm := resume_terminal_stack (resumePoint st h tk.ctx).1 (resumePoint st h tk.ctx).2 w
  simp only [nextOn]
  generalize resume (resumePoint st h tk.ctx).1 (resumePoint st h tk.ctx).2 w = r at hctx hlast hterm
  obtain ⟨o, stack', c', w'⟩ := r
  simp only at hctx hlast hterm ⊢
  cases o with
  | item i fp =>
    simp only [Strm.after]
    refine ⟨trivial, by rw [hctx, hpt.1], ?_⟩
    rw [hlast i fp rfl]
    exact hpt.2
  | stop =>
    have := hterm (by intro i fp; simp)
    subst this
    simp only [Strm.after]
    rw [← hpt.1, ← hctx]
    simp [restoreAll]
  | err e =>
    have := hterm (by intro i fp; simp)
    subst this
    simp only [Strm.after]
    rw [← hpt.1, ← hctx]
    simp [restoreAll]

/-- the invariant a session keeps, as a predicate on the consumer's context and the stream -/
def SessionAt (t : Nat) (c0 : Ctx) (c : Ctx) (st : Strm) : Prop :=
  match st.status with
  | .unstarted => c = c0
  | .running => st.consumer = t ∧ restoreAll (framesOf st.stack) c = c0 ∧
      ∃ n g sv m, lastFrame st.stack = some (.ascope n g sv m)
  | .done => c = c0
  | .dropped => False

theorem session_step (gens : Gens) (s : Sys) (idx t h : Nat) (c0 : Ctx) (l : Label)
    (hl : SessionLabel t h l) (hS : Session s t h c0) : Session (step gens s idx l).1 t h c0 := by
  obtain ⟨tk, st, htk, hst, hinv⟩ := hS
  obtain ⟨t', op⟩ := l
  simp only [step]
  by_cases htt : t' = t
  · subst htt
    simp only [htk]
    rcases hl.1 rfl with hop | hop | hop | hop
    · -- __anext__
      simp only at hop; subst hop
      simp only [stepOp, hst]
      by_cases h1 : st.status = .done
      · simp only [h1, if_true]; exact ⟨tk, st, htk, hst, hinv⟩
      · by_cases h2 : st.status = .dropped
        · simp [h2] at hinv
        · by_cases h3 : st.status = .running ∧ st.consumer ≠ t'
          · have := h3.1; simp only [this] at hinv; exact absurd hinv.1 h3.2
          · simp only [h1, h2, h3, if_false]
            have hs : st.status = .unstarted ∨ st.status = .running := by
              cases hst' : st.status <;> simp_all
            exact ⟨_, _, lookup_update_same _ _ _, lookup_update_same _ _ _, session_next s.world t' h c0 tk st hs hinv⟩
    · -- aclose
      simp only at hop; subst hop
      simp only [stepOp, hst]
      cases hst' : st.status with
      | done => exact ⟨tk, st, htk, hst, hinv⟩
      | dropped => simp [hst'] at hinv
      | unstarted =>
        simp only [hst'] at hinv
        exact ⟨tk, _, htk, lookup_update_same _ _ _, by simpa using hinv⟩
      | running =>
        simp only [hst'] at hinv
        obtain ⟨hc, hr, n, g, sv, m, hlast⟩ := hinv
        simp only [hc, ne_eq, not_true_eq_false, if_false]
        refine ⟨_, _, lookup_update_same _ _ _, lookup_update_same _ _ _, ?_⟩
        simp only
        -- the stack ends with the stream's own frame: closing it restores exactly `c0`
        have hne : st.stack ≠ [] := by
          intro e; simp [e, lastFrame] at hlast
        obtain ⟨init, last, hsplit⟩ : ∃ init last, st.stack = init ++ [last] :=
          ⟨st.stack.dropLast, st.stack.getLast hne, (List.dropLast_concat_getLast hne).symm⟩
        have hlf : last.frame = .ascope n g sv m := by
          simpa [hsplit, lastFrame] using hlast
        rw [hsplit, closeEntries_snoc, unwind_ctx, ← hr, hsplit]
        simp only [framesOf, List.map_append, List.map_cons, List.map_nil, hlf]
        rw [restoreAll_lastAscope _ n g sv m tk.ctx tk.ctx, restoreAll_lastAscope _ n g sv m tk.ctx tk.ctx]
    · -- probe
      simp only at hop; subst hop
      exact ⟨tk, st, htk, hst, hinv⟩
    · -- a caught cancellation
      simp only at hop; subst hop
      exact ⟨tk, st, htk, hst, hinv⟩
  · cases htk' : lookup s.tasks t' with
    | none => exact ⟨tk, st, htk, hst, hinv⟩
    | some tk' =>
      have := stepOp_other gens s idx t' t h tk' op htt (by simp [htk]) (hl.2 htt)
      exact ⟨tk, st, by rw [this.1]; exact htk, by rw [this.2]; exact hst, hinv⟩

theorem session_run (gens : Gens) (t h : Nat) (c0 : Ctx) : ∀ (ls : List Label) (s : Sys) (idx : Nat),
    (∀ l ∈ ls, SessionLabel t h l) → Session s t h c0 → Session (runFrom gens s idx ls).1 t h c0
  | [], s, idx, _, hS => by simpa [runFrom] using hS
  | l :: ls, s, idx, hl, hS => by
    simp only [runFrom]
    exact session_run gens t h c0 ls _ (idx + 1) (fun l' hl' => hl l' (List.mem_cons_of_mem _ hl'))
      (session_step gens s idx t h c0 l (hl l (List.mem_cons_self)) hS)

/-! ## the metrics heap only grows: nodes stay, finished / completed flags stay set -/

def Has (w : World) (n : Nat) : Prop := n < w.nodes.length
def Fin (w : World) (n : Nat) : Prop := ∃ nd : Node, w.nodes[n]? = some nd ∧ nd.finished = true

/-- node-wise: every node is still there, with the same name and parent, and flags only get set -/
def Mono (w w' : World) : Prop :=
  ∀ (n : Nat) (nd : Node), w.nodes[n]? = some nd → ∃ nd' : Node, w'.nodes[n]? = some nd' ∧ nd'.name = nd.name ∧ nd'.parent = nd.parent ∧
    (nd.finished = true → nd'.finished = true) ∧ (nd.completed = true → nd'.completed = true)

theorem Mono.refl (w : World) : Mono w w := fun _ nd h => ⟨nd, h, rfl, rfl, id, id⟩

theorem Mono.trans {a b c : World} (h1 : Mono a b) (h2 : Mono b c) : Mono a c := by
  intro n nd h
  obtain ⟨nd1, g1, hn1, hp1, hf1, hc1⟩ := h1 n nd h
  obtain ⟨nd2, g2, hn2, hp2, hf2, hc2⟩ := h2 n nd1 g1
  exact ⟨nd2, g2, hn2.trans hn1, hp2.trans hp1, fun x => hf2 (hf1 x), fun x => hc2 (hc1 x)⟩

theorem Mono.has {w w' : World} (h : Mono w w') {n : Nat} (hn : Has w n) : Has w' n := by
  unfold Has at hn ⊢
  obtain ⟨nd', g, _⟩ := h n w.nodes[n] (by simp [hn])
  exact (List.getElem?_eq_some_iff.mp g).1

theorem Mono.fin {w w' : World} (h : Mono w w') {n : Nat} (hn : Fin w n) : Fin w' n := by
  obtain ⟨nd, g, hf⟩ := hn
  obtain ⟨nd', g', _, _, hf', _⟩ := h n nd g
  exact ⟨nd', g', hf' hf⟩

theorem mono_set (w : World) (n : Nat) (nd nd' : Node) (evs : List Event) (h : w.nodes[n]? = some nd)
    (hn : nd'.name = nd.name) (hp : nd'.parent = nd.parent)
    (hf : nd.finished = true → nd'.finished = true) (hc : nd.completed = true → nd'.completed = true) :
    Mono w { nodes := w.nodes.set n nd', events := evs } := by
  intro k ndk hk
  by_cases hkn : n = k
  · subst hkn
    rw [h] at hk
    cases hk
    have hlt : n < w.nodes.length := (List.getElem?_eq_some_iff.mp h).1
    exact ⟨nd', by simp [hlt], hn, hp, hf, hc⟩
  · exact ⟨ndk, by simp [hkn, hk], rfl, rfl, id, id⟩

theorem mono_events (w : World) (evs : List Event) : Mono w { w with events := evs } :=
  fun _ nd h => ⟨nd, h, rfl, rfl, id, id⟩

theorem completeUp_mono : ∀ (fuel : Nat) (w : World) (n : Nat), Mono w (completeUp fuel w n)
  | 0, w, n => Mono.refl w
  | fuel + 1, w, n => by
    simp only [completeUp]
    cases h : w.nodes[n]? with
    | none => exact Mono.refl w
    | some nd =>
      simp only
      split
      · split
        · exact (mono_set w n nd { nd with completed := true } _ h rfl rfl (by simp) (by simp)).trans
            (completeUp_mono fuel _ _)
        · exact mono_set w n nd { nd with completed := true } _ h rfl rfl (by simp) (by simp)
      · exact Mono.refl w

theorem finish_mono (w : World) (n : Nat) : Mono w (finish w n) := by
  simp only [finish]
  cases h : w.nodes[n]? with
  | none => exact Mono.refl w
  | some nd =>
    exact (mono_set w n nd { nd with finished := true } w.events h rfl rfl (by simp) (by simp)).trans
      (completeUp_mono _ _ _)

theorem finish_fin (w : World) (n : Nat) (hn : Has w n) : Fin (finish w n) n := by
  unfold Has at hn
  have h : w.nodes[n]? = some w.nodes[n] := by simp [hn]
  simp only [finish, h]
  refine (completeUp_mono _ _ _).fin ⟨{ w.nodes[n] with finished := true }, ?_, rfl⟩
  simp [hn]

theorem record_mono (w : World) (c : Ctx) (k : Nat) : Mono w (record w c k) := by
  simp only [record]
  cases hm : c.metrics with
  | none => exact Mono.refl w
  | some n =>
    simp only
    cases h : w.nodes[n]? with
    | none => exact Mono.refl w
    | some nd =>
      simp only
      split
      · exact Mono.refl w
      · exact mono_set w n nd { nd with recs := nd.recs ++ [k] } w.events h rfl rfl (by simp) (by simp)

theorem mkNode_mono (w : World) (name : Name) (cur : Option Nat) : Mono w (mkNode w name cur).1 := by
  intro n nd h
  have hlt : n < w.nodes.length := (List.getElem?_eq_some_iff.mp h).1
  exact ⟨nd, by simp [mkNode, List.getElem?_append_left hlt, h], rfl, rfl, id, id⟩

theorem mkNode_has (w : World) (name : Name) (cur : Option Nat) : Has (mkNode w name cur).1 (mkNode w name cur).2 := by
  simp [mkNode, Has]

theorem exitFrame_mono (f : Frame) (c : Ctx) (w : World) : Mono w (exitFrame f c w).2 := by
  simp only [exitFrame]
  cases f.node? with
  | none => exact Mono.refl w
  | some n => exact finish_mono w n

theorem exitFrame_fin (f : Frame) (c : Ctx) (w : World) (n : Nat) (hf : f.node? = some n) (hn : Has w n) :
    Fin (exitFrame f c w).2 n := by
  simp only [exitFrame, hf]
  exact finish_fin w n hn

theorem enterScope_mono (async : Bool) (name : Name) (owner : Owner) (v : Nat) (c : Ctx) (w : World) :
    Mono w (enterScope async name owner v c w).2.2 := by
  cases async <;> simpa [enterScope] using mkNode_mono w name c.metrics

theorem enterBlock_mono (k : BK) (v : Nat) (c : Ctx) (w : World) : Mono w (enterBlock k v c w).2.2 := by
  cases k
  · exact enterScope_mono false (.bsync v) (.basync v) v c w
  · exact enterScope_mono true (.basync v) (.basync v) v c w
  · exact Mono.refl w

def ResWorld : Res → World
  | .finished _ w => w
  | .raised _ _ w => w
  | .yielded _ _ _ _ _ w => w

mutual
theorem runI_mono (path : List Nat) : ∀ (i : Instr) (c : Ctx) (w : World), Mono w (ResWorld (runI path i c w))
  | .yld i, c, w => by simpa [runI, ResWorld] using Mono.refl w
  | .recd k, c, w => by simpa [runI, ResWorld] using record_mono w c k
  | .fail base, c, w => by simpa [runI, ResWorld] using Mono.refl w
  | .nop, c, w => by simpa [runI, ResWorld] using Mono.refl w
  | .block k v body, c, w => by
    have h0 := enterBlock_mono k v c w
    have ih := runL_mono path body (enterBlock k v c w).2.1 (enterBlock k v c w).2.2
    simp only [runI]
    generalize runL path body (enterBlock k v c w).2.1 (enterBlock k v c w).2.2 = r at ih
    cases r with
    | finished c2 w2 => exact (h0.trans ih).trans (exitFrame_mono _ _ _)
    | raised e c2 w2 => exact (h0.trans ih).trans (exitFrame_mono _ _ _)
    | yielded i fp inner rest c2 w2 => exact h0.trans ih
  | .sub g body, c, w => by
    have h0 := mkNode_mono w (.gen g) c.metrics
    have ih := runL_mono (path ++ [g]) body
      (startStream (mkNode w (.gen g) c.metrics).2 (.stream g (path ++ [g])) c).2 (mkNode w (.gen g) c.metrics).1
    simp only [runI]
    generalize runL (path ++ [g]) body _ _ = r at ih
    cases r with
    | finished c2 w2 => exact (h0.trans ih).trans (exitFrame_mono _ _ _)
    | raised e c2 w2 => exact (h0.trans ih).trans (exitFrame_mono _ _ _)
    | yielded i fp inner rest c2 w2 => exact h0.trans ih
theorem runL_mono (path : List Nat) : ∀ (l : List Instr) (c : Ctx) (w : World), Mono w (ResWorld (runL path l c w))
  | [], c, w => by simpa [runL, ResWorld] using Mono.refl w
  | i :: r, c, w => by
    have hi := runI_mono path i c w
    simp only [runL]
    generalize runI path i c w = ri at hi
    cases ri with
    | finished c' w' => exact hi.trans (runL_mono path r c' w')
    | raised e c' w' => exact hi
    | yielded j fp inner rest c' w' => exact hi
end

theorem unwind_mono : ∀ (stack : List Entry) (c : Ctx) (w : World), Mono w (unwind stack c w).2
  | [], _, w => Mono.refl w
  | e :: rest, c, w => (exitFrame_mono e.frame c w).trans (unwind_mono rest _ _)

/-- an exception leaving a generator finishes the metrics scope of every block it passes -/
theorem unwind_fin : ∀ (stack : List Entry) (c : Ctx) (w : World) (e : Entry) (n : Nat),
    e ∈ stack → e.frame.node? = some n → Has w n → Fin (unwind stack c w).2 n
  | [], _, _, e, n, he, _, _ => by simp at he
  | e0 :: rest, c, w, e, n, he, hn, hh => by
    simp only [unwind]
    rcases List.mem_cons.mp he with h | h
    · subst h
      exact (unwind_mono rest _ _).fin (exitFrame_fin e.frame c w n hn hh)
    · exact unwind_fin rest _ _ e n h hn ((exitFrame_mono e0.frame c w).has hh)

theorem resume_mono : ∀ (stack : List Entry) (c : Ctx) (w : World), Mono w (resume stack c w).2.2.2
  | [], _, w => Mono.refl w
  | e :: rest, c, w => by
    have h := runL_mono e.path e.pc c w
    simp only [resume]
    generalize runL e.path e.pc c w = r at h
    cases r with
    | finished c' w' => exact (h.trans (exitFrame_mono _ _ _)).trans (resume_mono rest _ _)
    | raised x c' w' => exact h.trans (unwind_mono _ _ _)
    | yielded i fp inner pc' c' w' => exact h

/-- when a generator ends (normally or by an exception) every block it still had open has been left:
their metrics scopes are finished -/
theorem resume_fin : ∀ (stack : List Entry) (c : Ctx) (w : World) (e : Entry) (n : Nat),
    e ∈ stack → e.frame.node? = some n → Has w n →
    (∀ i fp, (resume stack c w).1 ≠ .item i fp) → Fin (resume stack c w).2.2.2 n
  | [], _, _, e, n, he, _, _, _ => by simp at he
  | e0 :: rest, c, w, e, n, he, hn, hh, hterm => by
    have h := runL_mono e0.path e0.pc c w
    simp only [resume] at hterm ⊢
    generalize runL e0.path e0.pc c w = r at h hterm
    cases r with
    | finished c' w' =>
      simp only [ResWorld] at h
      simp only at hterm ⊢
      rcases List.mem_cons.mp he with h1 | h1
      · subst h1
        exact (resume_mono rest _ _).fin (exitFrame_fin e.frame c' w' n hn (h.has hh))
      · exact resume_fin rest _ _ e n h1 hn ((h.trans (exitFrame_mono e0.frame c' w')).has hh) hterm
    | raised x c' w' =>
      simp only [ResWorld] at h
      exact unwind_fin (e0 :: rest) c' w' e n he hn (h.has hh)
    | yielded i fp inner pc' c' w' => exact absurd rfl (hterm i fp)

/-! ## the stream's pre-built scope -/

def NodeInv (s : Sys) : Prop :=
  ∀ h st, lookup s.streams h = some st → Has s.world st.node ∧
    (st.status = .running → ∃ g sv m, lastFrame st.stack = some (.ascope st.node g sv m))

theorem lastFrame_mem (stack : List Entry) (f : Frame) (h : lastFrame stack = some f) :
    ∃ e ∈ stack, e.frame = f := by
  simp only [lastFrame, Option.map_eq_some_iff] at h
  obtain ⟨e, he, hf⟩ := h
  exact ⟨e, List.mem_of_getLast? he, hf⟩

theorem lastFrame_resumePoint (st : Strm) (h : Nat) (c : Ctx)
    (hs : st.status = .unstarted ∨ (st.status = .running ∧ ∃ g sv m, lastFrame st.stack = some (.ascope st.node g sv m))) :
    ∃ g sv m, lastFrame (resumePoint st h c).1 = some (.ascope st.node g sv m) := by
  rcases hs with hs | ⟨hs, hl⟩
  · exact ⟨c.group, c.state, c.metrics, by simp [resumePoint, hs, startEntry, lastFrame, startStream]⟩
  · simpa [resumePoint, hs] using hl

theorem nextOn_mono (st : Strm) (h t : Nat) (c : Ctx) (w : World) : Mono w (nextOn st h t c w).2.2.2 := by
  simp only [nextOn]
  exact resume_mono _ _ _

@[simp] theorem Strm.after_node (st : Strm) (t : Nat) (o : Outcome) (stack : List Entry) :
    (st.after t o stack).node = st.node := by
  cases o <;> rfl

theorem nextOn_lastFrame (st : Strm) (h t : Nat) (c : Ctx) (w : World)
    (hst : st.status = .unstarted ∨ (st.status = .running ∧
      ∃ g sv m, lastFrame st.stack = some (.ascope st.node g sv m)))
    (hrun : (nextOn st h t c w).2.1.status = .running) :
    ∃ g sv m, lastFrame (nextOn st h t c w).2.1.stack = some (.ascope (nextOn st h t c w).2.1.node g sv m) := by
  obtain ⟨g, sv, m, hl0⟩ := lastFrame_resumePoint st h c hst
  have hlast := resume_lastFrame (resumePoint st h c).1 (resumePoint st h c).2 w
  simp only [nextOn] at hrun ⊢
  generalize resume (resumePoint st h c).1 (resumePoint st h c).2 w = r at hrun hlast ⊢
  obtain ⟨o, stack', c', w'⟩ := r
  cases o with
  | item i fp =>
    simp only [Strm.after] at hrun ⊢
    exact ⟨g, sv, m, by rw [hlast i fp rfl]; exact hl0⟩
  | stop => simp [Strm.after] at hrun
  | err e => simp [Strm.after] at hrun

theorem stepOp_mono (gens : Gens) (s : Sys) (idx t : Nat) (tk : Task) (op : Op) :
    Mono s.world (stepOp gens s idx t tk op).1.world := by
  cases op with
  | enterA v => exact enterScope_mono true (.task idx) (.task idx) v tk.ctx s.world
  | enterS v => exact enterScope_mono false (.task idx) (.task idx) v tk.ctx s.world
  | enterU v => exact Mono.refl _
  | exit =>
    simp only [stepOp]
    cases tk.frames with
    | nil => exact Mono.refl _
    | cons f fs => exact exitFrame_mono f tk.ctx s.world
  | probe => exact Mono.refl _
  | caught => exact Mono.refl _
  | spawn j =>
    simp only [stepOp]
    cases lookup s.tasks j <;> exact Mono.refl _
  | mk h g =>
    simp only [stepOp]
    cases lookup s.streams h <;> cases gens[g]? <;> first | exact Mono.refl _ | exact mkNode_mono _ _ _
  | next h =>
    simp only [stepOp]
    cases lookup s.streams h with
    | none => exact Mono.refl _
    | some st =>
      simp only
      split
      · exact Mono.refl _
      · split
        · exact Mono.refl _
        · split
          · exact Mono.refl _
          · exact nextOn_mono st h t tk.ctx s.world
  | close h =>
    simp only [stepOp]
    cases lookup s.streams h with
    | none => exact Mono.refl _
    | some st =>
      simp only
      cases st.status with
      | done => exact Mono.refl _
      | dropped => exact Mono.refl _
      | unstarted => exact Mono.refl _
      | running =>
        simp only
        split
        · exact Mono.refl _
        · exact unwind_mono _ _ _
  | abandon h =>
    simp only [stepOp]
    cases lookup s.streams h with
    | none => exact Mono.refl _
    | some st =>
      simp only
      split <;> exact Mono.refl _

theorem NodeInv.lift {s s' : Sys} (hi : NodeInv s) (hm : Mono s.world s'.world)
    (hs : ∀ h st', lookup s'.streams h = some st' →
      lookup s.streams h = some st' ∨
      (Has s'.world st'.node ∧ (st'.status = .running → ∃ g sv m, lastFrame st'.stack = some (.ascope st'.node g sv m)))) :
    NodeInv s' := by
  intro h st' hl
  rcases hs h st' hl with h1 | h1
  · exact ⟨hm.has (hi h st' h1).1, (hi h st' h1).2⟩
  · exact h1

theorem stepOp_nodeInv (gens : Gens) (s : Sys) (idx t : Nat) (tk : Task) (op : Op) (hi : NodeInv s) :
    NodeInv (stepOp gens s idx t tk op).1 := by
  refine hi.lift (stepOp_mono gens s idx t tk op) ?_
  intro h' st' hl
  cases op with
  | enterA v => exact Or.inl hl
  | enterS v => exact Or.inl hl
  | enterU v => exact Or.inl hl
  | exit =>
    simp only [stepOp] at hl
    cases hf : tk.frames with
    | nil => simp only [hf] at hl; exact Or.inl hl
    | cons f fs => simp only [hf] at hl; exact Or.inl hl
  | probe => exact Or.inl hl
  | caught => exact Or.inl hl
  | spawn j =>
    simp only [stepOp] at hl
    cases hj : lookup s.tasks j with
    | some _ => simp only [hj] at hl; exact Or.inl hl
    | none => simp only [hj] at hl; exact Or.inl hl
  | mk h g =>
    simp only [stepOp] at hl ⊢
    cases hs : lookup s.streams h with
    | some _ => simp only [hs] at hl; exact Or.inl hl
    | none =>
      cases hg : gens[g]? with
      | none => simp only [hs, hg] at hl; exact Or.inl hl
      | some body =>
        simp only [hs, hg] at hl ⊢
        simp only [setStrm_streams, lookup_update] at hl
        by_cases hh : h = h'
        · simp only [hh, if_true, Option.some.injEq] at hl
          subst hl
          exact Or.inr ⟨mkNode_has _ _ _, by simp⟩
        · simp only [hh, if_false] at hl; exact Or.inl hl
  | next h =>
    simp only [stepOp] at hl ⊢
    cases hs : lookup s.streams h with
    | none => simp only [hs] at hl; exact Or.inl hl
    | some st =>
      simp only [hs] at hl ⊢
      by_cases h1 : st.status = .done
      · rw [if_pos h1] at hl; exact Or.inl hl
      · rw [if_neg h1] at hl
        by_cases h2 : st.status = .dropped
        · rw [if_pos h2] at hl; exact Or.inl hl
        · rw [if_neg h2] at hl
          by_cases h3 : st.status = .running ∧ st.consumer ≠ t
          · rw [if_pos h3] at hl; exact Or.inl hl
          · rw [if_neg h3] at hl
            simp only [setStrm_streams, setTask_streams, lookup_update] at hl
            by_cases hh : h = h'
            · simp only [hh, if_true, Option.some.injEq] at hl
              subst hl
              have hst : st.status = .unstarted ∨ (st.status = .running ∧
                  ∃ g sv m, lastFrame st.stack = some (.ascope st.node g sv m)) := by
                cases hst' : st.status with
                | unstarted => exact Or.inl rfl
                | running => exact Or.inr ⟨rfl, (hi h st hs).2 hst'⟩
                | done => exact absurd hst' h1
                | dropped => exact absurd hst' h2
              refine Or.inr ⟨?_, fun hrun => nextOn_lastFrame st h' t tk.ctx s.world hst hrun⟩
              rw [if_neg h1, if_neg h2, if_neg h3]
              simp only [nextOn, Strm.after_node, setStrm_world, setTask_world]
              exact (resume_mono _ _ _).has (hi h st hs).1
            · simp only [hh, if_false] at hl; exact Or.inl hl
  | close h =>
    simp only [stepOp] at hl ⊢
    cases hs : lookup s.streams h with
    | none => simp only [hs] at hl; exact Or.inl hl
    | some st =>
      simp only [hs] at hl ⊢
      cases hst : st.status with
      | done => simp only [hst] at hl; exact Or.inl hl
      | dropped => simp only [hst] at hl; exact Or.inl hl
      | unstarted =>
        simp only [hst] at hl ⊢
        simp only [setStrm_streams, lookup_update] at hl
        by_cases hh : h = h'
        · simp only [hh, if_true, Option.some.injEq] at hl
          subst hl
          exact Or.inr ⟨(hi h st hs).1, by simp⟩
        · simp only [hh, if_false] at hl; exact Or.inl hl
      | running =>
        simp only [hst] at hl ⊢
        by_cases hc : st.consumer ≠ t
        · rw [if_pos hc] at hl; exact Or.inl hl
        · rw [if_neg hc] at hl
          simp only [setStrm_streams, setTask_streams, lookup_update] at hl
          by_cases hh : h = h'
          · simp only [hh, if_true, Option.some.injEq] at hl
            subst hl
            rw [if_neg hc]
            exact Or.inr ⟨(unwind_mono _ _ _).has (hi h st hs).1, by simp⟩
          · simp only [hh, if_false] at hl; exact Or.inl hl
  | abandon h =>
    simp only [stepOp] at hl ⊢
    cases hs : lookup s.streams h with
    | none => simp only [hs] at hl; exact Or.inl hl
    | some st =>
      simp only [hs] at hl ⊢
      by_cases hd : st.status = .dropped
      · rw [if_pos hd] at hl; exact Or.inl hl
      · rw [if_neg hd] at hl
        simp only [setStrm_streams, lookup_update] at hl
        by_cases hh : h = h'
        · simp only [hh, if_true, Option.some.injEq] at hl
          subst hl
          rw [if_neg hd]
          exact Or.inr ⟨(hi h st hs).1, by simp⟩
        · simp only [hh, if_false] at hl; exact Or.inl hl

theorem step_nodeInv (gens : Gens) (s : Sys) (idx : Nat) (l : Label) (hi : NodeInv s) :
    NodeInv (step gens s idx l).1 := by
  simp only [step]
  cases lookup s.tasks l.task with
  | none => exact hi
  | some tk => exact stepOp_nodeInv gens s idx l.task tk l.op hi

theorem init_nodeInv : NodeInv {} := by
  intro h st hl
  simp [lookup] at hl

theorem runFrom_nodeInv (gens : Gens) : ∀ (ls : List Label) (s : Sys) (idx : Nat), NodeInv s →
    NodeInv (runFrom gens s idx ls).1
  | [], s, idx, hi => by simpa [runFrom] using hi
  | l :: ls, s, idx, hi => by
    simpa [runFrom] using runFrom_nodeInv gens ls _ (idx + 1) (step_nodeInv gens s idx l hi)

/-- the stream's own scope is finished by the `__anext__` that reports the end of the body -/
theorem next_terminal_finished (s : Sys) (h t : Nat) (tk : Task) (st : Strm) (hN : NodeInv s)
    (hl : lookup s.streams h = some st) (hs : st.status = .unstarted ∨ st.status = .running)
    (hterm : ∀ i fp, (nextOn st h t tk.ctx s.world).1 ≠ .item i fp) :
    Fin (nextOn st h t tk.ctx s.world).2.2.2 st.node := by
  have hst : st.status = .unstarted ∨ (st.status = .running ∧
      ∃ g sv m, lastFrame st.stack = some (.ascope st.node g sv m)) := by
    rcases hs with hs | hs
    · exact Or.inl hs
    · exact Or.inr ⟨hs, (hN h st hl).2 hs⟩
  obtain ⟨g, sv, m, hl0⟩ := lastFrame_resumePoint st h tk.ctx hst
  obtain ⟨e, he, hf⟩ := lastFrame_mem _ _ hl0
  simp only [nextOn] at hterm ⊢
  exact resume_fin _ _ _ e st.node he (by simp [hf, Frame.node?]) (hN h st hl).1 hterm

/-- … and by `aclose()` of a stream that had started -/
theorem close_finished (s : Sys) (h : Nat) (tk : Task) (st : Strm) (hN : NodeInv s)
    (hl : lookup s.streams h = some st) (hs : st.status = .running) :
    Fin (unwind (closeEntries st.stack) tk.ctx s.world).2 st.node := by
  obtain ⟨g, sv, m, hl0⟩ := (hN h st hl).2 hs
  have hne : st.stack ≠ [] := by
    intro e; simp [e, lastFrame] at hl0
  obtain ⟨init, last, hsplit⟩ : ∃ init last, st.stack = init ++ [last] :=
    ⟨st.stack.dropLast, st.stack.getLast hne, (List.dropLast_concat_getLast hne).symm⟩
  have hlf : last.frame = .ascope st.node g sv m := by
    simpa [hsplit, lastFrame] using hl0
  rw [hsplit, closeEntries_snoc]
  exact unwind_fin _ _ _ last st.node (by simp) (by simp [hlf, Frame.node?]) (hN h st hl).1

theorem isCompleted_mono {w w' : World} (hm : Mono w w') (n : Nat) (h : isCompleted w.nodes n = true) :
    isCompleted w'.nodes n = true := by
  simp only [isCompleted] at h ⊢
  cases hn : w.nodes[n]? with
  | none => simp [hn] at h
  | some nd =>
    simp only [hn] at h
    obtain ⟨nd', h', _, _, _, hc'⟩ := hm n nd hn
    simp [h', hc' h]

theorem completeUp_completes (fuel : Nat) (w : World) (n : Nat) (nd : Node) (h : w.nodes[n]? = some nd)
    (hf : nd.finished = true) (hc : nd.completed = false)
    (hch : (childrenOf w.nodes n).all (isCompleted w.nodes) = true) :
    isCompleted (completeUp (fuel + 1) w n).nodes n = true := by
  have hlt : n < w.nodes.length := (List.getElem?_eq_some_iff.mp h).1
  rw [completeUp]
  simp only [h, hf, hc, hch, Bool.not_false, Bool.and_self, if_true]
  have hset : ∀ (nd' : Node) (evs : List Event), nd'.completed = true →
      isCompleted (World.mk (w.nodes.set n nd') evs).nodes n = true := by
    intro nd' evs hc'; simp [isCompleted, hlt, hc']
  split
  · exact isCompleted_mono (completeUp_mono fuel _ _) n (hset _ _ rfl)
  · exact hset _ _ rfl

/-- finishing a scope whose nested scopes are all completed completes it -/
theorem finish_completes (w : World) (n : Nat) (nd : Node) (h : w.nodes[n]? = some nd) (hc : nd.completed = false)
    (hch : (childrenOf w.nodes n).all (isCompleted w.nodes) = true) :
    isCompleted (finish w n).nodes n = true := by
  have hlt : n < w.nodes.length := (List.getElem?_eq_some_iff.mp h).1
  have hnd : w.nodes[n] = nd := by
    have := h
    rw [List.getElem?_eq_getElem hlt] at this
    exact Option.some.inj this
  have hchild : childrenOf (w.nodes.set n { nd with finished := true }) n = childrenOf w.nodes n := by
    simp only [childrenOf, List.length_set]
    apply List.filter_congr
    intro i _
    by_cases hi : n = i
    · subst hi; simp [hlt, hnd]
    · simp [hi]
  have hcompl : (isCompleted (w.nodes.set n { nd with finished := true })) = isCompleted w.nodes := by
    funext i
    by_cases hi : n = i
    · subst hi; simp [isCompleted, hlt, hnd]
    · simp [isCompleted, hi]
  simp only [finish, h]
  exact completeUp_completes n _ n { nd with finished := true } (by simp [hlt]) rfl hc
    (by simp only [hchild, hcompl]; exact hch)

end Haiway.Stream
