import Haiway.Model.Tasks
import Haiway.Proofs.ScopeState
/-! Token-chain invariant of the multi-task state-context model and its consequences. -/
namespace Haiway.Tasks
open Haiway.ScopeState

/-- current value of the state variable is derived from the token chain -/
def Chain (inh : Option (List (List Inst))) : List Frame → Option (List Inst) → Prop
  | [], st => st = inh.map stateOf
  | f :: rest, st => st = some (enterState f.saved f.supplied) ∧ Chain inh rest f.saved

theorem mk_eq_updated_nil (sup : List Inst) : mk sup = updated [] sup := by
  unfold updated
  by_cases h : sup.isEmpty
  · have : sup = [] := by simpa using h
    subst this; simp [mk]
  · simp [h]

theorem stateOf_snoc (fs : List (List Inst)) (sup : List Inst) :
    stateOf (fs ++ [sup]) = updated (stateOf fs) sup := by simp [stateOf]

/-- C01/C02 backbone: the state variable always equals the fold of the visible frames -/
theorem chain_state (inh : Option (List (List Inst))) :
    ∀ (fs : List Frame) (st : Option (List Inst)), Chain inh fs st → st = (visibleOf inh fs).map stateOf
  | [], st, h => by
    simp only [Chain] at h
    cases inh <;> simp [h, visibleOf]
  | f :: rest, st, h => by
    obtain ⟨h1, h2⟩ := h
    have ih := chain_state inh rest f.saved h2
    rw [h1, ih]
    cases hv : visibleOf inh rest with
    | none =>
      have hinh : inh = none ∧ rest = [] := by
        unfold visibleOf at hv
        cases inh <;> cases rest <;> simp_all
      obtain ⟨rfl, rfl⟩ := hinh
      simp [enterState, visibleOf, mk_eq_updated_nil, stateOf]
    | some vs =>
      have : visibleOf inh (f :: rest) = some (vs ++ [f.supplied]) := by
        unfold visibleOf at hv ⊢
        cases inh <;> cases rest <;> simp at hv ⊢ <;> (subst hv; simp)
      simp [this, enterState, stateOf_snoc]

structure TaskInv (tk : Task) : Prop where
  chain : Chain tk.inherited tk.frames tk.state

def Inv (s : Sys) : Prop := ∀ tk ∈ s, TaskInv tk

theorem mem_set {α} (l : List α) (i : Nat) (v x : α) (h : x ∈ l.set i v) : x = v ∨ x ∈ l := by
  rcases List.mem_or_eq_of_mem_set h with h | h
  · exact Or.inr h
  · exact Or.inl h

theorem init_inv : Inv init := by
  intro tk h
  simp [init] at h
  subst h
  exact ⟨by simp [Chain]⟩

theorem step_inv (ctor : Nat → Bool) (s : Sys) (l : Label) (s' : Sys) (o : Obs) (h : Inv s)
    (hs : step ctor s l = some (s', o)) : Inv s' := by
  cases l with
  | enter t b direct disp =>
    simp only [step] at hs
    cases ht : s[t]? with
    | none => simp [ht] at hs
    | some tk =>
      simp only [ht] at hs
      split at hs
      · simp at hs
      · simp only [Option.some.injEq, Prod.mk.injEq] at hs
        obtain ⟨rfl, _⟩ := hs
        intro x hx
        rcases mem_set _ _ _ _ hx with rfl | hx
        · exact ⟨⟨rfl, (h tk (List.mem_of_getElem? ht)).chain⟩⟩
        · exact h x hx
  | left t b =>
    simp only [step] at hs
    cases ht : s[t]? with
    | none => simp [ht] at hs
    | some tk =>
      simp only [ht] at hs
      cases hf : tk.frames with
      | nil => simp [hf] at hs
      | cons f rest =>
        simp only [hf] at hs
        split at hs
        · simp only [Option.some.injEq, Prod.mk.injEq] at hs
          obtain ⟨rfl, _⟩ := hs
          intro x hx
          rcases mem_set _ _ _ _ hx with rfl | hx
          · have := (h tk (List.mem_of_getElem? ht)).chain
            rw [hf] at this
            exact ⟨this.2⟩
          · exact h x hx
        · simp at hs
  | probe t ty d =>
    simp only [step] at hs
    cases ht : s[t]? with
    | none => simp [ht] at hs
    | some tk =>
      simp only [ht] at hs
      split at hs
      · simp at hs
      · simp only [Option.some.injEq, Prod.mk.injEq] at hs; obtain ⟨rfl, _⟩ := hs; exact h
  | spawn t =>
    simp only [step] at hs
    cases ht : s[t]? with
    | none => simp [ht] at hs
    | some tk =>
      simp only [ht] at hs
      split at hs
      · simp at hs
      · simp only [Option.some.injEq, Prod.mk.injEq] at hs
        obtain ⟨rfl, _⟩ := hs
        intro x hx
        rcases List.mem_append.mp hx with hx | hx
        · exact h x hx
        · simp at hx; subst hx
          refine ⟨?_⟩
          simp only [Chain]
          exact chain_state tk.inherited tk.frames tk.state (h tk (List.mem_of_getElem? ht)).chain
  | finish t =>
    simp only [step] at hs
    cases ht : s[t]? with
    | none => simp [ht] at hs
    | some tk =>
      simp only [ht] at hs
      split at hs
      · simp at hs
      · simp only [Option.some.injEq, Prod.mk.injEq] at hs
        obtain ⟨rfl, _⟩ := hs
        intro x hx
        rcases mem_set _ _ _ _ hx with rfl | hx
        · exact ⟨(h tk (List.mem_of_getElem? ht)).chain⟩
        · exact h x hx
  | foreignExit t b =>
    simp only [step] at hs
    cases ht : s[t]? with
    | none => simp [ht] at hs
    | some tk =>
      simp only [ht] at hs
      split at hs
      · simp at hs
      · simp only [Option.some.injEq, Prod.mk.injEq] at hs; obtain ⟨rfl, _⟩ := hs; exact h

theorem exec_inv (ctor : Nat → Bool) (ls : List Label) : ∀ s, Inv s → Inv (exec ctor s ls) := by
  induction ls with
  | nil => intro s h; exact h
  | cons l ls ih =>
    intro s h
    simp only [exec]
    cases hs : step ctor s l with
    | none => exact ih s h
    | some p => obtain ⟨s', o⟩ := p; exact ih s' (step_inv ctor s l s' o h hs)

/-- the lookup of a task whose record satisfies the invariant = the environment-stack answer -/
theorem lookupObs_eq_spec (ctor : Nat → Bool) (tk : Task) (h : TaskInv tk) (ty : Nat) (d : Bool) :
    lookupObs ctor tk.state ty d = specObs ctor (visibleOf tk.inherited tk.frames) ty d := by
  have hc := chain_state tk.inherited tk.frames tk.state h.chain
  cases hv : visibleOf tk.inherited tk.frames with
  | none => rw [hv] at hc; simp at hc; simp [lookupObs, specObs, hc]
  | some vs =>
    rw [hv] at hc; simp at hc
    simp only [lookupObs, specObs, hc, lookup_innermost]

/-- a step of task `u` never changes the record of another existing task -/
theorem frame (ctor : Nat → Bool) (s : Sys) (l : Label) (s' : Sys) (o : Obs)
    (hs : step ctor s l = some (s', o)) (t : Nat) (ht : l.task ≠ t)
    (tk : Task) (hk : s[t]? = some tk) : s'[t]? = some tk := by
  cases l with
  | enter u b direct disp =>
    simp only [step] at hs
    cases hu : s[u]? with
    | none => simp [hu] at hs
    | some uk =>
      simp only [hu] at hs; split at hs
      · simp at hs
      · simp only [Option.some.injEq, Prod.mk.injEq] at hs; obtain ⟨rfl, _⟩ := hs
        rw [List.getElem?_set_ne (by simpa [Label.task] using ht)]; exact hk
  | left u b =>
    simp only [step] at hs
    cases hu : s[u]? with
    | none => simp [hu] at hs
    | some uk =>
      simp only [hu] at hs
      cases hf : uk.frames with
      | nil => simp [hf] at hs
      | cons f rest =>
        simp only [hf] at hs; split at hs
        · simp only [Option.some.injEq, Prod.mk.injEq] at hs; obtain ⟨rfl, _⟩ := hs
          rw [List.getElem?_set_ne (by simpa [Label.task] using ht)]; exact hk
        · simp at hs
  | probe u ty d =>
    simp only [step] at hs
    cases hu : s[u]? with
    | none => simp [hu] at hs
    | some uk =>
      simp only [hu] at hs; split at hs
      · simp at hs
      · simp only [Option.some.injEq, Prod.mk.injEq] at hs; obtain ⟨rfl, _⟩ := hs; exact hk
  | spawn u =>
    simp only [step] at hs
    cases hu : s[u]? with
    | none => simp [hu] at hs
    | some uk =>
      simp only [hu] at hs; split at hs
      · simp at hs
      · simp only [Option.some.injEq, Prod.mk.injEq] at hs; obtain ⟨rfl, _⟩ := hs
        have : t < s.length := (List.getElem?_eq_some_iff.mp hk).1
        rw [List.getElem?_append_left this]; exact hk
  | finish u =>
    simp only [step] at hs
    cases hu : s[u]? with
    | none => simp [hu] at hs
    | some uk =>
      simp only [hu] at hs; split at hs
      · simp at hs
      · simp only [Option.some.injEq, Prod.mk.injEq] at hs; obtain ⟨rfl, _⟩ := hs
        rw [List.getElem?_set_ne (by simpa [Label.task] using ht)]; exact hk
  | foreignExit u b =>
    simp only [step] at hs
    cases hu : s[u]? with
    | none => simp [hu] at hs
    | some uk =>
      simp only [hu] at hs; split at hs
      · simp at hs
      · simp only [Option.some.injEq, Prod.mk.injEq] at hs; obtain ⟨rfl, _⟩ := hs; exact hk

end Haiway.Tasks

namespace Haiway.Tasks
open Haiway.ScopeState

/-- the effect of a label on the record of the task that performs it -/
def stepTask (ctor : Nat → Bool) (tk : Task) : Label → Option (Task × Obs)
  | .enter _ b direct disp => if tk.done then none else
      let sup := suppliedOf direct disp
      some ({ tk with state := some (enterState tk.state sup),
                      frames := { block := b, supplied := sup, saved := tk.state } :: tk.frames }, .none)
  | .left _ b =>
      match tk.frames with
      | f :: rest => if f.block = b ∧ !tk.done then some ({ tk with state := f.saved, frames := rest }, .none) else none
      | [] => none
  | .probe _ ty d => if tk.done then none else some (tk, lookupObs ctor tk.state ty d)
  | .spawn _ => if tk.done then none else some (tk, .none)
  | .finish _ => if tk.done ∨ tk.frames ≠ [] then none else some ({ tk with done := true }, .none)
  | .foreignExit _ _ => if tk.done then none else some (tk, .refused)

/-- locality: what a label does to its own task's record, and whether it is enabled, depends on that
record only – never on the other tasks -/
theorem step_local (ctor : Nat → Bool) (s : Sys) (l : Label) (tk : Task) (hk : s[l.task]? = some tk) :
    match stepTask ctor tk l with
    | none => step ctor s l = none
    | some (tk', o) => ∃ s', step ctor s l = some (s', o) ∧ s'[l.task]? = some tk' := by
  have hlt : l.task < s.length := (List.getElem?_eq_some_iff.mp hk).1
  cases l with
  | enter t b direct disp =>
    simp only [Label.task] at hk hlt ⊢
    by_cases hd : tk.done
    · simp only [stepTask, step, hk, hd, ↓reduceIte]
    · simp only [stepTask, step, hk, hd, Bool.false_eq_true, ↓reduceIte]
      exact ⟨_, rfl, by simp [hlt]⟩
  | left t b =>
    simp only [Label.task] at hk hlt ⊢
    cases hf : tk.frames with
    | nil => simp only [stepTask, step, hk, hf]
    | cons f rest =>
      by_cases hc : f.block = b ∧ !tk.done
      · simp only [stepTask, step, hk, hf, hc, and_self, ↓reduceIte]
        exact ⟨_, rfl, by simp [hlt]⟩
      · simp only [stepTask, step, hk, hf, hc, ↓reduceIte]
  | probe t ty d =>
    simp only [Label.task] at hk hlt ⊢
    by_cases hd : tk.done
    · simp only [stepTask, step, hk, hd, ↓reduceIte]
    · simp only [stepTask, step, hk, hd, Bool.false_eq_true, ↓reduceIte]
      exact ⟨_, rfl, hk⟩
  | spawn t =>
    simp only [Label.task] at hk hlt ⊢
    by_cases hd : tk.done
    · simp only [stepTask, step, hk, hd, ↓reduceIte]
    · simp only [stepTask, step, hk, hd, Bool.false_eq_true, ↓reduceIte]
      exact ⟨_, rfl, by rw [List.getElem?_append_left hlt]; exact hk⟩
  | finish t =>
    simp only [Label.task] at hk hlt ⊢
    by_cases hc : tk.done ∨ tk.frames ≠ []
    · simp only [stepTask, step, hk, hc, ↓reduceIte]
    · simp only [stepTask, step, hk, hc, ↓reduceIte]
      exact ⟨_, rfl, by simp [hlt]⟩
  | foreignExit t b =>
    simp only [Label.task] at hk hlt ⊢
    by_cases hd : tk.done
    · simp only [stepTask, step, hk, hd, ↓reduceIte]
    · simp only [stepTask, step, hk, hd, Bool.false_eq_true, ↓reduceIte]
      exact ⟨_, rfl, hk⟩

/-- C03 core: the record of task `t` after any interleaving equals its record after running **only its own
labels** – the labels of all other tasks, wherever they are interleaved, are irrelevant. -/
theorem own_history (ctor : Nat → Bool) (t : Nat) (ls : List Label) :
    ∀ (s1 s2 : Sys) (tk : Task), s1[t]? = some tk → s2[t]? = some tk →
      (exec ctor s1 ls)[t]? = (exec ctor s2 (ls.filter (fun l => l.task == t)))[t]? := by
  induction ls with
  | nil => intro s1 s2 tk h1 h2; simp [exec, h1, h2]
  | cons l ls ih =>
    intro s1 s2 tk h1 h2
    by_cases hl : l.task = t
    · have hf : (l :: ls).filter (fun l => l.task == t) = l :: ls.filter (fun l => l.task == t) := by
        simp [hl]
      rw [hf]
      have a1 := step_local ctor s1 l tk (by rw [hl]; exact h1)
      have a2 := step_local ctor s2 l tk (by rw [hl]; exact h2)
      cases hst : stepTask ctor tk l with
      | none =>
        rw [hst] at a1 a2
        simp only [exec, a1, a2]
        exact ih s1 s2 tk h1 h2
      | some p =>
        obtain ⟨tk', o⟩ := p
        rw [hst] at a1 a2
        obtain ⟨s1', e1, g1⟩ := a1
        obtain ⟨s2', e2, g2⟩ := a2
        simp only [exec, e1, e2]
        exact ih s1' s2' tk' (by rw [← hl]; exact g1) (by rw [← hl]; exact g2)
    · have hf : (l :: ls).filter (fun l => l.task == t) = ls.filter (fun l => l.task == t) := by
        simp [hl]
      rw [hf]
      simp only [exec]
      cases hs : step ctor s1 l with
      | none => exact ih s1 s2 tk h1 h2
      | some p =>
        obtain ⟨s1', o⟩ := p
        exact ih s1' s2 tk (frame ctor s1 l s1' o hs t hl tk h1) h2

end Haiway.Tasks
