import Haiway.Model.Throttle
/-! Helper lemmas for C15: for `limit ≥ 1` the model never takes the error branch (`processN` is the
same algorithm with a plain `Nat` result), an invariant relating the deque to the history of all
starts, the closed-form recurrence, and a counting lemma on sorted lists. -/
namespace Haiway.Throttle

/-! ## the error-free presentation -/

def startOf (limit P now : Nat) (es : List Nat) : Nat :=
  if limit ≤ es.length then
    match es with
    | e :: _ => max now (e + P)
    | [] => now
  else now

def processN (limit P : Nat) (s : St) (arrival : Nat) : St × Nat :=
  let now := max arrival s.lockFree
  let es := cleanup P now s.entries
  ({ entries := es ++ [startOf limit P now es], lockFree := startOf limit P now es },
    startOf limit P now es)

def runN (limit P : Nat) : St → List Nat → List Nat
  | _, [] => []
  | s, a :: as => let r := processN limit P s a; r.2 :: runN limit P r.1 as

theorem process_eq_N (limit P : Nat) (hl : 0 < limit) (s : St) (a : Nat) :
    process limit P s a = ((processN limit P s a).1, .started (processN limit P s a).2) := by
  simp only [process, processN, startOf]
  cases h : cleanup P (max a s.lockFree) s.entries with
  | nil =>
    have : ¬ limit ≤ 0 := by omega
    simp [this]
  | cons e rest =>
    by_cases hle : limit ≤ rest.length + 1 <;> simp [hle]

theorem run_eq_N (limit P : Nat) (hl : 0 < limit) (as : List Nat) (s : St) :
    run limit P s as = (runN limit P s as).map .started := by
  induction as generalizing s with
  | nil => rfl
  | cons a as ih => simp [run, runN, process_eq_N limit P hl, ih]

theorem runN_length (limit P : Nat) (as : List Nat) (s : St) :
    (runN limit P s as).length = as.length := by
  induction as generalizing s with
  | nil => rfl
  | cons a as ih => simp [runN, ih]

theorem starts_map_started (l : List Nat) : starts (l.map .started) = l := by
  induction l with
  | nil => rfl
  | cons x xs ih => simpa [starts] using ih

/-! ## invariant -/

theorem cleanup_split (P now : Nat) (es : List Nat) :
    ∃ d, es = d ++ cleanup P now es ∧ (∀ e ∈ d, e + P ≤ now) ∧
      (∀ h ∈ (cleanup P now es).head?, ¬ (h + P ≤ now)) := by
  induction es with
  | nil => exact ⟨[], by simp [cleanup]⟩
  | cons x xs ih =>
    by_cases hx : x + P ≤ now
    · obtain ⟨d, h1, h2, h3⟩ := ih
      refine ⟨x :: d, ?_, ?_, ?_⟩
      · simp only [cleanup, List.dropWhile_cons, hx, decide_true, ↓reduceIte, List.cons_append, List.cons.injEq, true_and]
        exact h1
      · intro e he; simp at he; rcases he with rfl | he; exact hx; exact h2 e he
      · simpa [cleanup, List.dropWhile_cons, hx] using h3
    · refine ⟨[], ?_, by simp, ?_⟩
      · simp [cleanup, hx]
      · simp [cleanup, hx]; omega

/-- safety part of the invariant; `hist` = every start so far, oldest first.  It does not say who
released the lock last, so it also survives cancelled waiters. -/
structure InvS (limit P : Nat) (s : St) (hist : List Nat) : Prop where
  split : ∃ d, hist = d ++ s.entries ∧ ∀ e ∈ d, e + P ≤ s.lockFree
  sorted : hist.Pairwise (· ≤ ·)
  le_lock : ∀ e ∈ hist, e ≤ s.lockFree
  len : s.entries.length ≤ limit + 1
  full : s.entries.length = limit + 1 → ∀ h ∈ s.entries.head?, h + P ≤ s.lockFree
  window : ∀ i a b, hist[i]? = some a → hist[i + limit]? = some b → a + P ≤ b

/-- without cancellation the lock was last released by the last start -/
structure Inv (limit P : Nat) (s : St) (hist : List Nat) : Prop extends InvS limit P s hist where
  lock_last : hist.getLast? = some s.lockFree ∨ (hist = [] ∧ s.lockFree = 0)

theorem invS_init (limit P : Nat) : InvS limit P init [] := by
  refine ⟨⟨[], by simp [init]⟩, by simp, by simp, by simp [init], by simp [init], by simp⟩

theorem inv_init (limit P : Nat) : Inv limit P init [] :=
  ⟨invS_init limit P, by simp [init]⟩

theorem getElem?_append_single {l : List Nat} {x : Nat} {i : Nat} {v : Nat}
    (h : (l ++ [x])[i]? = some v) : (i < l.length ∧ l[i]? = some v) ∨ (i = l.length ∧ v = x) := by
  by_cases hi : i < l.length
  · left; exact ⟨hi, by rwa [List.getElem?_append_left hi] at h⟩
  · right
    have hi' : l.length ≤ i := by omega
    rw [List.getElem?_append_right hi'] at h
    cases hk : i - l.length with
    | zero =>
      rw [hk] at h; simp at h
      exact ⟨by omega, h.symm⟩
    | succ k => rw [hk] at h; simp at h

/-- what the cleanup leaves, relative to the full history -/
theorem step_facts (limit P : Nat) (s : St) (hist : List Nat) (a : Nat) (h : InvS limit P s hist) :
    ∃ dd, hist = dd ++ cleanup P (max a s.lockFree) s.entries ∧
      (∀ e ∈ dd, e + P ≤ max a s.lockFree) ∧
      (cleanup P (max a s.lockFree) s.entries).length ≤ limit ∧
      (∀ h ∈ (cleanup P (max a s.lockFree) s.entries).head?, ¬ (h + P ≤ max a s.lockFree)) := by
  obtain ⟨⟨d, hsplit, hd⟩, _, _, hlen, hfull, _⟩ := h
  obtain ⟨d2, hes, hd2, hhead⟩ := cleanup_split P (max a s.lockFree) s.entries
  generalize hnow : max a s.lockFree = now at *
  generalize hesdef : cleanup P now s.entries = es at *
  have hnow_l : s.lockFree ≤ now := by omega
  refine ⟨d ++ d2, by rw [hsplit, hes]; simp, ?_, ?_, hhead⟩
  · intro e he
    rcases List.mem_append.mp he with he | he
    · have := hd e he; omega
    · exact hd2 e he
  · have : s.entries.length = d2.length + es.length := by rw [hes]; simp
    by_cases hfl : s.entries.length = limit + 1
    · have hh := hfull hfl
      cases hent : s.entries with
      | nil => simp [hent] at hfl
      | cons x xs =>
        have hx : x + P ≤ now := by
          have := hh x (by simp [hent]); omega
        cases d2 with
        | nil =>
          simp at hes
          have : es.head? = some x := by rw [← hes, hent]; rfl
          exact absurd hx (hhead x (by simp [this]))
        | cons y ys => simp at this; omega
    · omega

theorem step_invS (limit P : Nat) (hl : 0 < limit) (s : St) (hist : List Nat) (a : Nat)
    (h : InvS limit P s hist) :
    InvS limit P (processN limit P s a).1 (hist ++ [(processN limit P s a).2]) ∧
      a ≤ (processN limit P s a).2 := by
  obtain ⟨dd, hsplit', hdd, hes_len, hhead⟩ := step_facts limit P s hist a h
  obtain ⟨_, hsorted, hle, _, _, hwin⟩ := h
  simp only [processN]
  generalize hnow : max a s.lockFree = now at *
  generalize hesdef : cleanup P now s.entries = es at *
  have hnow_a : a ≤ now := by omega
  have hnow_l : s.lockFree ≤ now := by omega
  generalize hst : startOf limit P now es = st
  have hst_now : now ≤ st := by
    rw [← hst]; unfold startOf; split
    · split <;> omega
    · omega
  have hsplit'' : hist ++ [st] = dd ++ (es ++ [st]) := by rw [hsplit']; simp
  have hdropped : ∀ e ∈ dd, e + P ≤ st := by
    intro e he; have := hdd e he; omega
  have hle' : ∀ e ∈ hist ++ [st], e ≤ st := by
    intro e he
    rcases List.mem_append.mp he with he | he
    · have := hle e he; omega
    · simp at he; omega
  refine ⟨⟨⟨dd, hsplit'', hdropped⟩, ?_, hle', ?_, ?_, ?_⟩, by omega⟩
  · rw [List.pairwise_append]
    refine ⟨hsorted, by simp, ?_⟩
    intro x hx y hy
    simp at hy; subst hy
    have := hle x hx; omega
  · simp; omega
  · intro hfull' h0 hh0
    simp at hfull'
    have hlen_es : es.length = limit := by omega
    cases es with
    | nil => simp at hlen_es; omega
    | cons e0 rest =>
      simp at hh0; subst hh0
      rw [← hst]; unfold startOf
      simp [hlen_es]
      omega
  · intro i x y hx hy
    rcases getElem?_append_single hy with ⟨hlt, hy'⟩ | ⟨hieq, hyeq⟩
    · have hx' : hist[i]? = some x := by
        have : i < hist.length := by omega
        rwa [List.getElem?_append_left this] at hx
      exact hwin i x y hx' hy'
    · subst hyeq
      have hi : i < hist.length := by omega
      have hx' : hist[i]? = some x := by rwa [List.getElem?_append_left hi] at hx
      have hlen_hist : hist.length = dd.length + es.length := by rw [hsplit']; simp
      by_cases hdrop : i < dd.length
      · have : dd[i]? = some x := by
          rw [hsplit', List.getElem?_append_left hdrop] at hx'; exact hx'
        exact hdropped x (List.mem_of_getElem? this)
      · have hlen_es : es.length = limit := by omega
        have hi0 : i = dd.length := by omega
        cases es with
        | nil => simp at hlen_es; omega
        | cons e0 rest =>
          have : x = e0 := by
            rw [hsplit', hi0, List.getElem?_append_right (Nat.le_refl _)] at hx'
            simp at hx'; exact hx'.symm
          subst this
          rw [← hst]; unfold startOf
          simp [hlen_es]
          omega

theorem step_inv (limit P : Nat) (hl : 0 < limit) (s : St) (hist : List Nat) (a : Nat)
    (h : Inv limit P s hist) :
    Inv limit P (processN limit P s a).1 (hist ++ [(processN limit P s a).2]) ∧
      a ≤ (processN limit P s a).2 :=
  ⟨⟨(step_invS limit P hl s hist a h.toInvS).1, Or.inl (by simp [processN])⟩,
    (step_invS limit P hl s hist a h.toInvS).2⟩

theorem run_inv (limit P : Nat) (hl : 0 < limit) :
    ∀ (as : List Nat) (s : St) (hist : List Nat), Inv limit P s hist →
      ∃ s', Inv limit P s' (hist ++ runN limit P s as) := by
  intro as
  induction as with
  | nil => intro s hist h; exact ⟨s, by simpa [runN] using h⟩
  | cons a as ih =>
    intro s hist h
    have hs := (step_inv limit P hl s hist a h).1
    obtain ⟨s', hs'⟩ := ih (processN limit P s a).1 _ hs
    refine ⟨s', ?_⟩
    simpa [runN, List.append_assoc] using hs'

/-! ## closed form -/

/-- `max(arrival, previous start, start `limit` calls ago + period)` over the history of starts -/
def closedStart (limit P : Nat) (hist : List Nat) (a : Nat) : Nat :=
  let m := match hist.getLast? with
    | some p => max a p
    | none => a
  if limit ≤ hist.length then
    match hist[hist.length - limit]? with
    | some w => max m (w + P)
    | none => m
  else m

def closedForm (limit P : Nat) : List Nat → List Nat → List Nat
  | _, [] => []
  | hist, a :: as =>
    let t := closedStart limit P hist a
    t :: closedForm limit P (hist ++ [t]) as

theorem step_closed (limit P : Nat) (hl : 0 < limit) (s : St) (hist : List Nat) (a : Nat)
    (h : Inv limit P s hist) : (processN limit P s a).2 = closedStart limit P hist a := by
  obtain ⟨dd, hsplit', hdd, hes_len, hhead⟩ := step_facts limit P s hist a h.toInvS
  have hlast := h.lock_last
  simp only [processN, closedStart]
  have hm : (match hist.getLast? with | some p => max a p | none => a) = max a s.lockFree := by
    rcases hlast with h1 | ⟨h1, h2⟩
    · simp [h1]
    · simp [h1, h2]
  rw [hm]
  generalize hnow : max a s.lockFree = now at *
  generalize hesdef : cleanup P now s.entries = es at *
  have hlen_hist : hist.length = dd.length + es.length := by rw [hsplit']; simp
  unfold startOf
  by_cases hfull : limit ≤ es.length
  · have hlen_es : es.length = limit := by omega
    cases es with
    | nil => simp at hlen_es; omega
    | cons e0 rest =>
      have h1 : limit ≤ hist.length := by omega
      have h2 : hist.length - limit = dd.length := by omega
      have h3 : hist[dd.length]? = some e0 := by
        rw [hsplit', List.getElem?_append_right (Nat.le_refl _)]; simp
      simp at hlen_es
      simp [h1, h2, h3]
      omega
  · simp only [hfull, ↓reduceIte]
    by_cases h1 : limit ≤ hist.length
    · simp only [h1, ↓reduceIte]
      have hidx : hist.length - limit < dd.length := by omega
      generalize hist.length - limit = k at *
      have : hist[k]? = dd[k]? := by
        rw [hsplit', List.getElem?_append_left hidx]
      rw [this]
      cases hw : dd[k]? with
      | none => rfl
      | some w =>
        have := hdd w (List.mem_of_getElem? hw)
        simp only; omega
    · simp [h1]

theorem runN_eq_closedForm (limit P : Nat) (hl : 0 < limit) (as : List Nat) (s : St)
    (hist : List Nat) (h : Inv limit P s hist) : runN limit P s as = closedForm limit P hist as := by
  induction as generalizing s hist with
  | nil => rfl
  | cons a as ih =>
    simp only [runN, closedForm]
    have hs := (step_inv limit P hl s hist a h).1
    rw [step_closed limit P hl s hist a h] at hs ⊢
    rw [ih _ _ hs]

/-- indexed form: the `k`-th start is `closedStart` of the starts before it -/
theorem runN_closed_at (limit P : Nat) (hl : 0 < limit) (as : List Nat) (s : St) (hist : List Nat)
    (h : Inv limit P s hist) (k a t : Nat) (ha : as[k]? = some a)
    (ht : (runN limit P s as)[k]? = some t) :
    t = closedStart limit P (hist ++ (runN limit P s as).take k) a := by
  induction as generalizing s hist k with
  | nil => simp at ha
  | cons a0 as ih =>
    cases k with
    | zero =>
      simp [runN] at ha ht
      subst ha; subst ht
      simpa using step_closed limit P hl s hist a0 h
    | succ k =>
      simp only [runN, List.getElem?_cons_succ] at ha ht
      have hs := (step_inv limit P hl s hist a0 h).1
      have := ih _ _ hs k ha ht
      simpa [runN, List.append_assoc] using this

/-! ## counting starts in a window -/

/-- `s ∈ [t, t + P)` -/
def inWindow (P t s : Nat) : Bool := decide (t ≤ s) && decide (s < t + P)

theorem window_count (limit P : Nat) (hl : 0 < limit) (t : Nat) (l : List Nat)
    (hs : l.Pairwise (· ≤ ·))
    (hw : ∀ i a b, l[i]? = some a → l[i + limit]? = some b → a + P ≤ b) :
    (l.filter (inWindow P t)).length ≤ limit := by
  induction l with
  | nil => simp
  | cons x xs ih =>
    have hs' := (List.pairwise_cons.mp hs)
    have hw' : ∀ i a b, xs[i]? = some a → xs[i + limit]? = some b → a + P ≤ b := by
      intro i a b h1 h2
      exact hw (i + 1) a b (by simpa using h1) (by
        have : i + 1 + limit = (i + limit) + 1 := by omega
        rw [this]; simpa using h2)
    have ihx := ih hs'.2 hw'
    by_cases hx : inWindow P t x = true
    · rw [List.filter_cons_of_pos hx]
      have hsplit : xs = xs.take (limit - 1) ++ xs.drop (limit - 1) := (List.take_append_drop _ _).symm
      have htake : ((xs.take (limit - 1)).filter (inWindow P t)).length ≤ limit - 1 :=
        Nat.le_trans (List.length_filter_le _ _) (List.length_take_le _ _)
      have hdrop : (xs.drop (limit - 1)).filter (inWindow P t) = [] := by
        cases hd : xs.drop (limit - 1) with
        | nil => rfl
        | cons b rest =>
          have hb : xs[limit - 1]? = some b := by
            have : (xs.drop (limit - 1))[0]? = some b := by rw [hd]; rfl
            simpa [List.getElem?_drop] using this
          have hxb : x + P ≤ b := by
            refine hw 0 x b (by simp) ?_
            have : 0 + limit = (limit - 1) + 1 := by omega
            rw [this]; simpa using hb
          have hpw : (b :: rest).Pairwise (· ≤ ·) := by
            rw [← hd]; exact hs'.2.sublist (List.drop_sublist _ _)
          have hrest := (List.pairwise_cons.mp hpw).1
          simp only [inWindow, Bool.and_eq_true, decide_eq_true_eq] at hx
          rw [List.filter_eq_nil_iff]
          intro y hy
          simp only [inWindow, Bool.and_eq_true, decide_eq_true_eq, not_and, Nat.not_lt]
          intro _
          rcases List.mem_cons.mp hy with rfl | hy
          · omega
          · have := hrest y hy; omega
      have : (xs.filter (inWindow P t)).length ≤ limit - 1 := by
        rw [hsplit, List.filter_append, hdrop]
        simpa using htake
      simp; omega
    · have hx' : ¬ inWindow P t x = true := hx
      rw [List.filter_cons_of_neg hx']
      exact ihx

/-! ## further consequences of the recurrence -/

theorem runN_ge_arrival (limit P : Nat) (hl : 0 < limit) (as : List Nat) (s : St) (hist : List Nat)
    (h : Inv limit P s hist) (k a t : Nat) (ha : as[k]? = some a)
    (ht : (runN limit P s as)[k]? = some t) : a ≤ t := by
  induction as generalizing s hist k with
  | nil => simp at ha
  | cons a0 as ih =>
    have hs := step_inv limit P hl s hist a0 h
    cases k with
    | zero =>
      simp [runN] at ha ht
      subst ha; subst ht
      exact hs.2
    | succ k =>
      simp only [runN, List.getElem?_cons_succ] at ha ht
      exact ih _ _ hs.1 k ha ht

/-- nothing forces a wait ⇒ the recurrence yields the arrival instant -/
theorem closedStart_eq_arrival (limit P : Nat) (h : List Nat) (a : Nat)
    (hsorted : h.Pairwise (· ≤ ·)) (hle : ∀ p ∈ h, p ≤ a)
    (hcnt : (h.filter fun p => decide (a < p + P)).length < limit) :
    closedStart limit P h a = a := by
  unfold closedStart
  have hm : (match h.getLast? with | some p => max a p | none => a) = a := by
    cases hg : h.getLast? with
    | none => rfl
    | some p =>
      have := hle p (List.mem_of_getLast? hg)
      simp only; omega
  rw [hm]
  by_cases h1 : limit ≤ h.length
  · simp only [h1, ↓reduceIte]
    cases hw : h[h.length - limit]? with
    | none => rfl
    | some w =>
      simp only
      by_cases hwa : w + P ≤ a
      · omega
      · exfalso
        have hsplit : h = h.take (h.length - limit) ++ h.drop (h.length - limit) :=
          (List.take_append_drop _ _).symm
        have hdl : (h.drop (h.length - limit)).length = limit := by simp; omega
        have hall : (h.drop (h.length - limit)).filter (fun p => decide (a < p + P))
            = h.drop (h.length - limit) := by
          rw [List.filter_eq_self]
          intro p hp
          cases hd : h.drop (h.length - limit) with
          | nil => rw [hd] at hp; simp at hp
          | cons b rest =>
            have hb : h[h.length - limit]? = some b := by
              have : (h.drop (h.length - limit))[0]? = some b := by rw [hd]; rfl
              simpa [List.getElem?_drop] using this
            have hbw : b = w := by rw [hw] at hb; exact (Option.some.inj hb).symm
            have hpw : (b :: rest).Pairwise (· ≤ ·) := by
              rw [← hd]; exact hsorted.sublist (List.drop_sublist _ _)
            have hrest := (List.pairwise_cons.mp hpw).1
            rw [hd] at hp
            simp only [decide_eq_true_eq]
            rcases List.mem_cons.mp hp with rfl | hp
            · omega
            · have := hrest p hp; omega
        have : limit ≤ (h.filter fun p => decide (a < p + P)).length := by
          rw [hsplit, List.filter_append, hall, List.length_append, hdl]; omega
        omega
  · simp [h1]

theorem closedStart_le (limit P : Nat) (h : List Nat) (a B : Nat) (ha : a ≤ B)
    (hprev : ∀ p, h.getLast? = some p → p ≤ B)
    (hwin : limit ≤ h.length → ∀ w, h[h.length - limit]? = some w → w + P ≤ B) :
    closedStart limit P h a ≤ B := by
  unfold closedStart
  have hm : (match h.getLast? with | some p => max a p | none => a) ≤ B := by
    cases hg : h.getLast? with
    | none => exact ha
    | some p => have := hprev p hg; simp only; omega
  by_cases h1 : limit ≤ h.length
  · simp only [h1, ↓reduceIte]
    cases hw : h[h.length - limit]? with
    | none => exact hm
    | some w => have := hwin h1 w hw; simp only; omega
  · simp only [h1, ↓reduceIte]; exact hm

/-- the recurrence never goes beyond an instant `t ≥ arrival` at which nothing forces a wait -/
theorem closedStart_le_of_free (limit P : Nat) (h : List Nat) (a t : Nat) (hat : a ≤ t)
    (hsorted : h.Pairwise (· ≤ ·)) (hle : ∀ p ∈ h, p ≤ t)
    (hcnt : (h.filter fun p => decide (t < p + P)).length < limit) :
    closedStart limit P h a ≤ t := by
  apply closedStart_le
  · exact hat
  · intro p hp; exact hle p (List.mem_of_getLast? hp)
  · intro h1 w hw
    by_cases hwa : w + P ≤ t
    · exact hwa
    · exfalso
      have hsplit : h = h.take (h.length - limit) ++ h.drop (h.length - limit) :=
        (List.take_append_drop _ _).symm
      have hdl : (h.drop (h.length - limit)).length = limit := by simp; omega
      have hall : (h.drop (h.length - limit)).filter (fun p => decide (t < p + P))
          = h.drop (h.length - limit) := by
        rw [List.filter_eq_self]
        intro p hp
        cases hd : h.drop (h.length - limit) with
        | nil => rw [hd] at hp; simp at hp
        | cons b rest =>
          have hb : h[h.length - limit]? = some b := by
            have : (h.drop (h.length - limit))[0]? = some b := by rw [hd]; rfl
            simpa [List.getElem?_drop] using this
          have hbw : b = w := by rw [hw] at hb; exact (Option.some.inj hb).symm
          have hpw : (b :: rest).Pairwise (· ≤ ·) := by
            rw [← hd]; exact hsorted.sublist (List.drop_sublist _ _)
          have hrest := (List.pairwise_cons.mp hpw).1
          rw [hd] at hp
          simp only [decide_eq_true_eq]
          rcases List.mem_cons.mp hp with rfl | hp
          · omega
          · have := hrest p hp; omega
      have : limit ≤ (h.filter fun p => decide (t < p + P)).length := by
        rw [hsplit, List.filter_append, hall, List.length_append, hdl]; omega
      omega

/-- the `i`-th call (0-based) waits at most `⌊i / limit⌋` periods -/
theorem runN_delay_bound (limit P : Nat) (hl : 0 < limit) (as : List Nat)
    (hsorted : as.Pairwise (· ≤ ·)) :
    ∀ i a t, as[i]? = some a → (runN limit P init as)[i]? = some t → t ≤ a + (i / limit) * P := by
  intro i
  induction i using Nat.strongRecOn with
  | _ i ih =>
    intro a t ha ht
    have hcl := runN_closed_at limit P hl as init [] (inv_init limit P) i a t ha ht
    simp only [List.nil_append] at hcl
    rw [hcl]
    have hlen := runN_length limit P as init
    have hi : i < as.length := by
      rcases List.getElem?_eq_some_iff.mp ha with ⟨h, _⟩; exact h
    have htl : ((runN limit P init as).take i).length = i := by simp [hlen]; omega
    have hmono : ∀ j, j < i → ∀ b, as[j]? = some b → b ≤ a := by
      intro j hj b hb
      rcases List.getElem?_eq_some_iff.mp hb with ⟨hjl, hbe⟩
      rcases List.getElem?_eq_some_iff.mp ha with ⟨hil, hae⟩
      have := (List.pairwise_iff_getElem.mp hsorted) j i hjl hil hj
      omega
    apply closedStart_le
    · omega
    · intro p hp
      rw [List.getLast?_eq_getElem?, htl] at hp
      have hi0 : 0 < i := by
        cases i with
        | zero => simp at hp
        | succ k => omega
      rw [List.getElem?_take] at hp
      have hlt : i - 1 < i := by omega
      simp only [hlt, ↓reduceIte] at hp
      have hj : i - 1 < as.length := by omega
      have hb : as[i - 1]? = some as[i - 1] := List.getElem?_eq_getElem hj
      have h1 := ih (i - 1) hlt _ p hb hp
      have h2 := hmono (i - 1) hlt _ hb
      have h3 : (i - 1) / limit * P ≤ i / limit * P :=
        Nat.mul_le_mul_right _ (Nat.div_le_div_right (by omega))
      omega
    · intro hfull w hw
      rw [htl] at hfull hw
      rw [List.getElem?_take] at hw
      have hlt : i - limit < i := by omega
      simp only [hlt, ↓reduceIte] at hw
      have hj : i - limit < as.length := by omega
      have hb : as[i - limit]? = some as[i - limit] := List.getElem?_eq_getElem hj
      have h1 := ih (i - limit) hlt _ w hb hw
      have h2 := hmono (i - limit) hlt _ hb
      have h3 : i / limit = (i - limit) / limit + 1 := by
        rw [Nat.div_eq i limit]; simp [hl, hfull]
      rw [h3, Nat.add_mul]
      omega

/-- with `limit = 0` every call dies on `self._entries[0]` and nothing is ever recorded -/
theorem run_zero_limit (P : Nat) (as : List Nat) (l : Nat) :
    ∀ r ∈ run 0 P { entries := [], lockFree := l } as, r = .indexError := by
  induction as generalizing l with
  | nil => simp [run]
  | cons a as ih =>
    intro r hr
    simp only [run, process, cleanup, List.dropWhile_nil, List.length_nil, Nat.le_refl, ↓reduceIte,
      List.mem_cons] at hr
    rcases hr with rfl | hr
    · rfl
    · exact ih _ r hr

/-! ## cancelled callers: the safety invariant survives -/

theorem preempts_none (x : Nat) : preempts none x = false := rfl

theorem processC_none (limit P : Nat) (s : St) (a : Nat) :
    processC limit P s a none = ((process limit P s a).1, .ran (process limit P s a).2) := by
  simp only [processC, process, preempts_none]
  cases h : cleanup P (max a s.lockFree) s.entries with
  | nil => by_cases hle : limit ≤ 0 <;> simp [hle]
  | cons e rest => by_cases hle : limit ≤ rest.length + 1 <;> simp [hle]

theorem runC_none (limit P : Nat) (as : List Nat) (s : St) :
    runC limit P s (as.map fun a => (a, none)) = (run limit P s as).map .ran := by
  induction as generalizing s with
  | nil => rfl
  | cons a as ih => simp [runC, run, processC_none, ih]

/-- the three things `processC` can do for `limit ≥ 1` -/
theorem processC_cases (limit P : Nat) (hl : 0 < limit) (s : St) (a : Nat) (c : Option Cancel) :
    (processC limit P s a c = (s, .cancelledQueued)) ∨
    (processC limit P s a c =
        ({ entries := cleanup P (max a s.lockFree) s.entries,
           lockFree := max (max a s.lockFree) (cancelTime c) }, .cancelledSleeping)) ∨
    (processC limit P s a c = ((processN limit P s a).1, .ran (.started (processN limit P s a).2))) := by
  simp only [processC, processN, startOf]
  by_cases hq : preempts c (max a s.lockFree) = true
  · left; simp [hq]
  · right
    simp only [hq]
    cases h : cleanup P (max a s.lockFree) s.entries with
    | nil =>
      have : ¬ limit ≤ 0 := by omega
      right; simp [this]
    | cons e rest =>
      by_cases hle : limit ≤ rest.length + 1
      · by_cases hp : preempts c (max a (max s.lockFree (e + P))) = true
        · left; simp [hle, hp, Nat.max_assoc]
        · right; simp [hle, hp, Nat.max_assoc]
      · right; simp [hle]

/-- the four things `processC` can do (any limit) -/
theorem processC_shape (limit P : Nat) (s : St) (a : Nat) (c : Option Cancel) :
    (processC limit P s a c = (s, .cancelledQueued)) ∨
    (processC limit P s a c =
        ({ entries := cleanup P (max a s.lockFree) s.entries,
           lockFree := max (max a s.lockFree) (cancelTime c) }, .cancelledSleeping)) ∨
    (∃ st t, processC limit P s a c = (st, .ran (.started t))) ∨
    (∃ st, processC limit P s a c = (st, .ran .indexError)) := by
  simp only [processC]
  by_cases hq : preempts c (max a s.lockFree) = true
  · left; simp [hq]
  · right
    simp only [hq]
    cases h : cleanup P (max a s.lockFree) s.entries with
    | nil =>
      by_cases hle : limit ≤ 0
      · right; right; simp [hle]
      · right; left; simp [hle]
    | cons e rest =>
      by_cases hle : limit ≤ rest.length + 1
      · by_cases hp : preempts c (max a (max s.lockFree (e + P))) = true
        · left; simp [hle, hp, Nat.max_assoc]
        · right; left; simp [hle, hp, Nat.max_assoc]
      · right; left; simp [hle]

theorem stepC_invS (limit P : Nat) (hl : 0 < limit) (s : St) (hist : List Nat) (a : Nat)
    (c : Option Cancel) (h : InvS limit P s hist) :
    InvS limit P (processC limit P s a c).1
      (hist ++ startsC [(processC limit P s a c).2]) := by
  rcases processC_cases limit P hl s a c with hc | hc | hc
  · rw [hc]; simpa [startsC] using h
  · rw [hc]
    obtain ⟨dd, hsplit', hdd, hes_len, _⟩ := step_facts limit P s hist a h
    obtain ⟨_, hsorted, hle, _, _, hwin⟩ := h
    simp only [startsC, List.filterMap_cons, List.filterMap_nil, List.append_nil]
    refine ⟨⟨dd, hsplit', ?_⟩, hsorted, ?_, ?_, ?_, hwin⟩
    · intro e he; have := hdd e he; simp only; omega
    · intro e he; have := hle e he; simp only; omega
    · simp only; omega
    · intro hfull; simp only at hfull; omega
  · rw [hc]
    simpa [startsC] using (step_invS limit P hl s hist a h).1

theorem runC_invS (limit P : Nat) (hl : 0 < limit) :
    ∀ (cs : List (Nat × Option Cancel)) (s : St) (hist : List Nat), InvS limit P s hist →
      ∃ s', InvS limit P s' (hist ++ startsC (runC limit P s cs)) := by
  intro cs
  induction cs with
  | nil => intro s hist h; exact ⟨s, by simpa [runC, startsC] using h⟩
  | cons x cs ih =>
    intro s hist h
    obtain ⟨a, c⟩ := x
    have hs := stepC_invS limit P hl s hist a c h
    obtain ⟨s', hs'⟩ := ih (processC limit P s a c).1 _ hs
    refine ⟨s', ?_⟩
    have : startsC (runC limit P s ((a, c) :: cs)) =
        startsC [(processC limit P s a c).2] ++ startsC (runC limit P (processC limit P s a c).1 cs) := by
      simp only [runC]
      cases (processC limit P s a c).2 with
      | ran r => cases r <;> simp [startsC]
      | cancelledQueued => simp [startsC]
      | cancelledSleeping => simp [startsC]
    rw [this, ← List.append_assoc]
    exact hs'

/-- a call that starts does so no earlier than it arrived, cancelled callers or not -/
theorem runC_ge_arrival (limit P : Nat) (cs : List (Nat × Option Cancel)) (s : St) (i a t : Nat)
    (c : Option Cancel) (hc : cs[i]? = some (a, c))
    (ht : (runC limit P s cs)[i]? = some (.ran (.started t))) : a ≤ t := by
  induction cs generalizing s i with
  | nil => simp at hc
  | cons x cs ih =>
    obtain ⟨a0, c0⟩ := x
    cases i with
    | zero =>
      simp only [List.getElem?_cons_zero, Option.some.injEq, Prod.mk.injEq] at hc
      obtain ⟨rfl, rfl⟩ := hc
      simp only [runC, List.getElem?_cons_zero, Option.some.injEq] at ht
      simp only [processC] at ht
      split at ht
      · simp at ht
      · split at ht
        · split at ht
          · split at ht
            · simp at ht
            · simp at ht; omega
          · simp at ht
        · simp at ht; omega
    | succ i =>
      simp only [List.getElem?_cons_succ] at hc
      simp only [runC, List.getElem?_cons_succ] at ht
      exact ih _ i hc ht

end Haiway.Throttle
