import Haiway.Model.Timeout
/-!
Generic machinery for the finite-state proof of C16: reachability, the reachable-state table
computed by closing under `step`, the lifting lemma `Reach s0 s → s ∈ table` for any table that
passes the (kernel-evaluated) closedness check, and the decidable state / edge predicates.
The per-profile kernel evaluations live in `Proofs/TimeoutTab*.lean`.
-/
namespace Haiway.Timeout

inductive Reach (s0 : S) : S → Prop where
  | init : Reach s0 s0
  | step {s s' l} : Reach s0 s → step s l = some s' → Reach s0 s'

/-- breadth-first closure with fuel -/
def closure : Nat → List S → List S → List S
  | 0, seen, _ => seen
  | _, seen, [] => seen
  | n + 1, seen, x :: todo =>
    let new := ((succs x).filter (fun y => !(seen.contains y) && !(todo.contains y))).eraseDups
    closure n (seen ++ new) (todo ++ new)

def table (s0 : S) : List S := closure 1000 [s0] [s0]

/-- every successor of a table entry is in the table -/
def closed (r : List S) : Bool := r.all (fun s => (succs s).all (fun t => r.contains t))

theorem mem_succs {s s' : S} {l : Lbl} (h : step s l = some s') : s' ∈ succs s := by
  unfold succs
  rw [List.mem_filterMap]
  exact ⟨l, by cases l <;> simp [labels], h⟩

/-- lifting lemma: a closed table containing the initial state contains every reachable state -/
theorem reach_mem (s0 : S) (tbl : List S) (h0 : tbl.contains s0 = true) (hc : closed tbl = true) :
    ∀ s, Reach s0 s → s ∈ tbl := by
  intro s hr
  induction hr with
  | init => simpa using h0
  | step _ hs ih =>
    unfold closed at hc
    rw [List.all_eq_true] at hc
    have := hc _ ih
    rw [List.all_eq_true] at this
    have := this _ (mem_succs hs)
    simpa using this

/-! ## decidable predicates checked on every table entry -/

def callerDone (s : S) : Bool := match s.caller with | .done _ => true | .waiting _ => false

def quiescent (s : S) : Bool := (succs s).isEmpty

/-- the function is done, or a cancellation request is pending, or it already received one -/
def fnStoppedOrCancelled (s : S) : Bool :=
  match s.tsk with
  | .running c ig => c || ig
  | _ => true

def fnDone (s : S) : Bool := match s.tsk with | .running _ _ => false | _ => true

/-- the outcome the first completion of the future dictates (spec side; `cc` = the caller was
cancelled before it resumed) -/
def expected (k : Kind) (first : Option Dec) (cc : Bool) : Option COut :=
  if cc then some .cancelled else
  match first with
  | none => none
  | some .deadline => some .timeout
  | some .cancel => some .cancelled
  | some .fn => match k with
    | .val => some .res | .exc => some .excUser | .baseExc => some .excBase
    | .selfCancel => some .cancelled

def outcomeOk (s : S) : Bool :=
  match s.caller with
  | .done o => expected s.kind s.first s.cc == some o
  | .waiting _ => true

/-- cleanup at the moment the caller holds its outcome -/
def cleanupOk (s : S) : Bool :=
  !callerDone s ||
    (fnStoppedOrCancelled s &&
     -- a timer still armed can only belong to a function that is still running or whose
     -- completion callback is still queued, and firing it changes nothing but the timer
     (s.tmr != .armed || ((!fnDone s || s.qCompletion) &&
        step s .timerFires == some { s with tmr := .fired })))

/-- nothing enabled ⇒ caller has its outcome, timer not armed, function done -/
def quietOk (s : S) : Bool :=
  !quiescent s || (callerDone s && s.tmr != .armed && fnDone s)

/-- a label of the wrapper / loop (not a move of the wrapped function) -/
def libLabels : List Lbl := [.runCompletion, .timerFires, .runResult, .callerWakes]

/-- while the caller waits the wrapper itself can always move -/
def progressOk (s : S) : Bool :=
  callerDone s || libLabels.any (fun l => (step s l).isSome)

/-- termination measure: every label strictly decreases it -/
def mu (s : S) : Nat :=
  (match s.tsk with
   | .running c ig => 4 + (if ig then 0 else 2) + (if c then 1 else 0)
   | _ => 0)
  + (if s.qCompletion then 1 else 0) + (if s.qResult then 2 else 0)
  + (if s.tmr = .armed then 1 else 0)
  + (match s.caller with | .waiting false => 2 | .waiting true => 1 | .done _ => 0)
  + (if s.fut = .pending then 3 else 0)

def muOk (s : S) : Bool := (succs s).all (fun t => mu t < mu s)

/-! ghost fields evolve as the independent fold over labels says -/

structure Seen where
  first : Option Dec := none
  cc : Bool := false
deriving DecidableEq, Repr

/-- spec-side fold over the labels of a run: who was first to complete the future, and whether
the caller was cancelled.  Independent of `step`. -/
def see (g : Seen) : Lbl → Seen
  | .timerFires => { g with first := g.first <|> some .deadline }
  | .runCompletion => { g with first := g.first <|> some .fn }
  | .callerCancel => { first := g.first <|> some .cancel, cc := true }
  | _ => g

def ghost (s : S) : Seen := { first := s.first, cc := s.cc }

def ghostOk (s : S) : Bool :=
  labels.all (fun l => match step s l with
    | some t => ghost t == see (ghost s) l && t.kind == s.kind && t.ignoresFirst == s.ignoresFirst
    | none => true)

def stateOk (s : S) : Bool :=
  outcomeOk s && cleanupOk s && quietOk s && progressOk s && muOk s && ghostOk s

/-- the one kernel evaluation per profile -/
def checkTable (s0 : S) (tbl : List S) : Bool :=
  tbl.contains s0 && closed tbl && tbl.all stateOk

theorem reach_ok (s0 : S) (h : checkTable s0 (table s0) = true) :
    ∀ s, Reach s0 s → stateOk s = true := by
  intro s hr
  unfold checkTable at h
  simp only [Bool.and_eq_true] at h
  have hm := reach_mem s0 (table s0) h.1.1 h.1.2 s hr
  exact (List.all_eq_true.mp h.2) s hm

end Haiway.Timeout
