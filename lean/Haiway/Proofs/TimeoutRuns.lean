import Haiway.Proofs.TimeoutTabA
import Haiway.Proofs.TimeoutTabB
import Haiway.Proofs.TimeoutTabC
import Haiway.Proofs.TimeoutTabD
/-! C16: all eight profiles together, and the lemmas about label sequences (`run`). -/
namespace Haiway.Timeout

theorem all_tables (k : Kind) (ig : Bool) : checkTable (init k ig) (table (init k ig)) = true := by
  cases k <;> cases ig
  · exact tab_val_honours
  · exact tab_val_ignores
  · exact tab_exc_honours
  · exact tab_exc_ignores
  · exact tab_baseExc_honours
  · exact tab_baseExc_ignores
  · exact tab_selfCancel_honours
  · exact tab_selfCancel_ignores

/-- every reachable state of every profile satisfies all table predicates -/
theorem reach_stateOk {k : Kind} {ig : Bool} {s : S} (h : Reach (init k ig) s) : stateOk s = true :=
  reach_ok _ (all_tables k ig) s h

theorem stateOk_parts {s : S} (h : stateOk s = true) :
    outcomeOk s = true ∧ cleanupOk s = true ∧ quietOk s = true ∧ progressOk s = true
      ∧ muOk s = true ∧ ghostOk s = true := by
  unfold stateOk at h
  simp only [Bool.and_eq_true] at h
  exact ⟨h.1.1.1.1.1, h.1.1.1.1.2, h.1.1.1.2, h.1.1.2, h.1.2, h.2⟩

theorem mem_labels (l : Lbl) : l ∈ labels := by cases l <;> simp [labels]

/-- along a run from a reachable state: still reachable, the ghost fields follow the spec fold,
the profile is unchanged, and the measure drops by at least the number of labels -/
theorem run_facts {k : Kind} {ig : Bool} :
    ∀ (ls : List Lbl) (s s' : S), Reach (init k ig) s → run s ls = some s' →
      Reach (init k ig) s' ∧ ghost s' = ls.foldl see (ghost s) ∧ s'.kind = s.kind
        ∧ ls.length + mu s' ≤ mu s := by
  intro ls
  induction ls with
  | nil =>
    intro s s' hr h
    simp only [run, Option.some.injEq] at h
    subst h
    simp [hr]
  | cons l ls ih =>
    intro s s' hr h
    simp only [run] at h
    cases hst : step s l with
    | none => simp [hst] at h
    | some t =>
      simp only [hst] at h
      have hrt : Reach (init k ig) t := .step hr hst
      have ⟨h1, h2, h3, h4⟩ := ih t s' hrt h
      have parts := stateOk_parts (reach_stateOk hr)
      have hg := parts.2.2.2.2.2
      unfold ghostOk at hg
      have hg := (List.all_eq_true.mp hg) l (mem_labels l)
      simp only [hst, Bool.and_eq_true, beq_iff_eq] at hg
      have hm := parts.2.2.2.2.1
      unfold muOk at hm
      have hm := (List.all_eq_true.mp hm) t (mem_succs hst)
      simp only [decide_eq_true_eq] at hm
      refine ⟨h1, ?_, ?_, ?_⟩
      · rw [h2, List.foldl_cons, hg.1.1]
      · rw [h3, hg.1.2]
      · simp only [List.length_cons]; omega

/-- the spec fold reports a caller cancellation as soon as the label occurs, and never forgets it -/
theorem see_cc (ls : List Lbl) (g : Seen) :
    (ls.foldl see g).cc = (g.cc || ls.contains .callerCancel) := by
  induction ls generalizing g with
  | nil => simp
  | cons l ls ih =>
    rw [List.foldl_cons, ih]
    cases l <;> simp [see]

/-- in a system of calls every component evolves exactly by its own labels -/
theorem runSys_proj (tr : List (Nat × Lbl)) :
    ∀ (ss ss' : List S), runSys ss tr = some ss' →
      ss'.length = ss.length ∧
      ∀ j s0, ss[j]? = some s0 → ∃ s, ss'[j]? = some s ∧ run s0 (proj j tr) = some s := by
  induction tr with
  | nil =>
    intro ss ss' h
    simp only [runSys, Option.some.injEq] at h
    subst h
    exact ⟨rfl, fun j s0 h0 => ⟨s0, h0, by simp [proj, run]⟩⟩
  | cons il tr ih =>
    obtain ⟨i, l⟩ := il
    intro ss ss' h
    simp only [runSys] at h
    cases hst : stepAt ss i l with
    | none => simp [hst] at h
    | some mid =>
      simp only [hst] at h
      have ⟨hlen, hcomp⟩ := ih mid ss' h
      unfold stepAt at hst
      cases hi : ss[i]? with
      | none => simp [hi] at hst
      | some si =>
        simp only [hi, Option.map_eq_some_iff] at hst
        obtain ⟨si', hstep, hmid⟩ := hst
        subst hmid
        refine ⟨by simpa using hlen, ?_⟩
        intro j s0 h0
        by_cases hij : i = j
        · subst hij
          have hs0 : si = s0 := by rw [hi] at h0; exact Option.some.inj h0
          subst hs0
          have hget : (ss.set i si')[i]? = some si' := by
            have : i < ss.length := by
              rcases List.getElem?_eq_some_iff.mp hi with ⟨hlt, _⟩; exact hlt
            simp [List.getElem?_set_self this]
          obtain ⟨s, hs, hr⟩ := hcomp i si' hget
          refine ⟨s, hs, ?_⟩
          simp only [proj, List.filter_cons, beq_self_eq_true, if_true, List.map_cons, run, hstep]
          exact hr
        · have hget : (ss.set i si')[j]? = some s0 := by
            rw [List.getElem?_set_ne hij]; exact h0
          obtain ⟨s, hs, hr⟩ := hcomp j s0 hget
          refine ⟨s, hs, ?_⟩
          have : (i == j) = false := by simpa using hij
          simpa [proj, List.filter_cons, this] using hr

end Haiway.Timeout
