import Haiway.Proofs.Timeout
/-! C16: reachable-state tables of the two `val` profiles, checked by kernel evaluation
(`decide +kernel` over a genuinely finite table; lifted by `reach_ok`). -/
namespace Haiway.Timeout

set_option maxRecDepth 100000 in
theorem tab_val_honours : checkTable (init .val false) (table (init .val false)) = true := by
  decide +kernel

set_option maxRecDepth 100000 in
theorem tab_val_ignores : checkTable (init .val true) (table (init .val true)) = true := by
  decide +kernel

end Haiway.Timeout
