import Haiway.Proofs.Timeout
/-! C16: reachable-state tables of the two `exc` profiles, checked by kernel evaluation
(`decide +kernel` over a genuinely finite table; lifted by `reach_ok`). -/
namespace Haiway.Timeout

set_option maxRecDepth 100000 in
theorem tab_exc_honours : checkTable (init .exc false) (table (init .exc false)) = true := by
  decide +kernel

set_option maxRecDepth 100000 in
theorem tab_exc_ignores : checkTable (init .exc true) (table (init .exc true)) = true := by
  decide +kernel

end Haiway.Timeout
