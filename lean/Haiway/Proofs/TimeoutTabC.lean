import Haiway.Proofs.Timeout
/-! C16: reachable-state tables of the two `baseExc` profiles, checked by kernel evaluation
(`decide +kernel` over a genuinely finite table; lifted by `reach_ok`). -/
namespace Haiway.Timeout

set_option maxRecDepth 100000 in
theorem tab_baseExc_honours : checkTable (init .baseExc false) (table (init .baseExc false)) = true := by
  decide +kernel

set_option maxRecDepth 100000 in
theorem tab_baseExc_ignores : checkTable (init .baseExc true) (table (init .baseExc true)) = true := by
  decide +kernel

end Haiway.Timeout
