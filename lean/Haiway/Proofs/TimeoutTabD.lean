import Haiway.Proofs.Timeout
/-! C16: reachable-state tables of the two `selfCancel` profiles, checked by kernel evaluation
(`decide +kernel` over a genuinely finite table; lifted by `reach_ok`). -/
namespace Haiway.Timeout

set_option maxRecDepth 100000 in
theorem tab_selfCancel_honours : checkTable (init .selfCancel false) (table (init .selfCancel false)) = true := by
  decide +kernel

set_option maxRecDepth 100000 in
theorem tab_selfCancel_ignores : checkTable (init .selfCancel true) (table (init .selfCancel true)) = true := by
  decide +kernel

end Haiway.Timeout
