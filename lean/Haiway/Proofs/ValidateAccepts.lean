import Haiway.Spec.Conforms
/-! C05: acceptance ⇔ conformance, by functional induction over the five mutually recursive validators. -/
namespace Haiway.Validate

namespace Conforms
variable {env : ClsEnv}
theorem none_inv {v} (h : Conforms env .none v) : v = .none := by cases h; rfl
theorem missing_inv {v} (h : Conforms env .missing v) : v = .missing := by cases h; rfl
theorem callable_inv {v} (h : Conforms env .callable v) : isCallable v = true := by cases h; assumption
theorem nominal_inv {c v} (h : Conforms env (.nominal c) v) : isInst env c v = true := by cases h; assumption
theorem literal_inv {ls v} (h : Conforms env (.literal ls) v) : ∃ p, primOf v = some p ∧ p ∈ ls := by
  cases h; exact ⟨_, by assumption, by assumption⟩
theorem seq_inv {a v} (h : Conforms env (.seq a) v) : ∃ xs, seqElems v = some xs ∧ ∀ x ∈ xs, Conforms env a x := by
  cases h; exact ⟨_, by assumption, by assumption⟩
theorem tupleVar_inv {a v} (h : Conforms env (.tupleVar a) v) : ∃ xs, seqElems v = some xs ∧ ∀ x ∈ xs, Conforms env a x := by
  cases h; exact ⟨_, by assumption, by assumption⟩
theorem set_inv {a v} (h : Conforms env (.set a) v) : ∃ xs, setElems v = some xs ∧ ∀ x ∈ xs, Conforms env a x := by
  cases h; exact ⟨_, by assumption, by assumption⟩
theorem map_inv {k w v} (h : Conforms env (.map k w) v) :
    ∃ kvs, mapElems v = some kvs ∧ (∀ p ∈ kvs, Conforms env k p.1) ∧ (∀ p ∈ kvs, Conforms env w p.2) := by
  cases h; exact ⟨_, by assumption, by assumption, by assumption⟩
theorem tupleFixed_inv {as v} (h : Conforms env (.tupleFixed as) v) :
    ∃ xs, seqElems v = some xs ∧ as.length = xs.length ∧ ∀ p ∈ as.zip xs, Conforms env p.1 p.2 := by
  cases h; exact ⟨_, by assumption, by assumption, by assumption⟩
theorem union_inv {as v} (h : Conforms env (.union as) v) : ∃ a ∈ as, Conforms env a v := by
  cases h; exact ⟨_, by assumption, by assumption⟩
end Conforms

theorem map_ok {ε α β} {x : Except ε α} {f : α → β} {w : β} (h : x.map f = .ok w) : ∃ y, x = .ok y ∧ f y = w := by
  cases x with
  | error e => simp [Except.map] at h
  | ok y => exact ⟨y, rfl, by simpa [Except.map] using h⟩

/-- acceptance ⇔ conformance, for all five mutually recursive validators at once -/
theorem accepts_iff {env : ClsEnv} :
    (∀ a v, (∃ w, validate env a v = .ok w) ↔ Conforms env a v) ∧
    (∀ as v, (∃ w, validateFirst env as v = .ok w) ↔ ∃ a ∈ as, Conforms env a v) ∧
    (∀ as xs, (∃ ys, validateZip env as xs = .ok ys) ↔ ∀ p ∈ as.zip xs, Conforms env p.1 p.2) ∧
    (∀ k w kvs, (∃ r, validateKVs env k w kvs = .ok r) ↔
        (∀ p ∈ kvs, Conforms env k p.1) ∧ (∀ p ∈ kvs, Conforms env w p.2)) ∧
    (∀ a xs, (∃ ys, validateAll env a xs = .ok ys) ↔ ∀ x ∈ xs, Conforms env a x) := by
  apply validate.mutual_induct
  -- any / none / missing / callable / nominal / literal
  case case1 => intro v; exact ⟨fun _ => .any v, fun _ => ⟨v, by simp [validate]⟩⟩
  case case2 => exact ⟨fun _ => .none, fun _ => ⟨.none, by simp [validate]⟩⟩
  case case3 =>
    intro v hv; constructor
    · rintro ⟨w, h⟩; unfold validate at h; split at h <;> simp_all
    · intro h; exact absurd h.none_inv hv
  case case4 => exact ⟨fun _ => .missing, fun _ => ⟨.missing, by simp [validate]⟩⟩
  case case5 =>
    intro v hv; constructor
    · rintro ⟨w, h⟩; unfold validate at h; split at h <;> simp_all
    · intro h; exact absurd h.missing_inv hv
  case case6 => intro v hc; exact ⟨fun _ => .callable hc, fun _ => ⟨v, by simp [validate, hc]⟩⟩
  case case7 =>
    intro v hc; constructor
    · rintro ⟨w, h⟩; simp [validate, hc] at h
    · intro h; exact absurd h.callable_inv hc
  case case8 => intro c v hi; exact ⟨fun _ => .nominal hi, fun _ => ⟨v, by simp [validate, hi]⟩⟩
  case case9 =>
    intro c v hi; constructor
    · rintro ⟨w, h⟩; simp [validate, hi] at h
    · intro h; exact absurd h.nominal_inv hi
  case case10 =>
    intro ls v p hp hm
    exact ⟨fun _ => .literal hp hm, fun _ => ⟨v, by simp [validate, hp, hm]⟩⟩
  case case11 =>
    intro ls v p hp hm; constructor
    · rintro ⟨w, h⟩; simp [validate, hp, hm] at h
    · intro h; obtain ⟨q, hq, hm'⟩ := h.literal_inv; rw [hp] at hq; cases hq; exact absurd hm' hm
  case case12 =>
    intro ls v hp; constructor
    · rintro ⟨w, h⟩; simp [validate, hp] at h
    · intro h; obtain ⟨q, hq, _⟩ := h.literal_inv; rw [hp] at hq; cases hq
  -- seq / tupleVar / set
  case case13 =>
    intro a v xs hs ih; constructor
    · rintro ⟨w, h⟩
      unfold validate at h; simp only [hs] at h
      obtain ⟨ys, hys, _⟩ := map_ok h
      exact .seq hs (ih.mp ⟨ys, hys⟩)
    · intro h; obtain ⟨xs', hs', hall⟩ := h.seq_inv
      rw [hs] at hs'; cases hs'
      obtain ⟨ys, hys⟩ := ih.mpr hall
      exact ⟨.tuple ys, by unfold validate; simp [hs, hys, Except.map]⟩
  case case14 =>
    intro a v hs; constructor
    · rintro ⟨w, h⟩; unfold validate at h; simp [hs] at h
    · intro h; obtain ⟨xs', hs', _⟩ := h.seq_inv; rw [hs] at hs'; cases hs'
  case case15 =>
    intro a v xs hs ih; constructor
    · rintro ⟨w, h⟩
      unfold validate at h; simp only [hs] at h
      obtain ⟨ys, hys, _⟩ := map_ok h
      exact .tupleVar hs (ih.mp ⟨ys, hys⟩)
    · intro h; obtain ⟨xs', hs', hall⟩ := h.tupleVar_inv
      rw [hs] at hs'; cases hs'
      obtain ⟨ys, hys⟩ := ih.mpr hall
      exact ⟨.tuple ys, by unfold validate; simp [hs, hys, Except.map]⟩
  case case16 =>
    intro a v hs; constructor
    · rintro ⟨w, h⟩; unfold validate at h; simp [hs] at h
    · intro h; obtain ⟨xs', hs', _⟩ := h.tupleVar_inv; rw [hs] at hs'; cases hs'
  case case17 =>
    intro a v xs hs ih; constructor
    · rintro ⟨w, h⟩
      unfold validate at h; simp only [hs] at h
      obtain ⟨ys, hys, _⟩ := map_ok h
      exact .set hs (ih.mp ⟨ys, hys⟩)
    · intro h; obtain ⟨xs', hs', hall⟩ := h.set_inv
      rw [hs] at hs'; cases hs'
      obtain ⟨ys, hys⟩ := ih.mpr hall
      exact ⟨.fset ys, by unfold validate; simp [hs, hys, Except.map]⟩
  case case18 =>
    intro a v hs; constructor
    · rintro ⟨w, h⟩; unfold validate at h; simp [hs] at h
    · intro h; obtain ⟨xs', hs', _⟩ := h.set_inv; rw [hs] at hs'; cases hs'
  -- map
  case case19 =>
    intro k w v kvs hs ih; constructor
    · rintro ⟨r, h⟩
      unfold validate at h; simp only [hs] at h
      obtain ⟨ys, hys, _⟩ := map_ok h
      have := ih.mp ⟨ys, hys⟩
      exact .map hs this.1 this.2
    · intro h; obtain ⟨kvs', hs', h1, h2⟩ := h.map_inv
      rw [hs] at hs'; cases hs'
      obtain ⟨ys, hys⟩ := ih.mpr ⟨h1, h2⟩
      exact ⟨.mproxy ys, by unfold validate; simp [hs, hys, Except.map]⟩
  case case20 =>
    intro k w v hs; constructor
    · rintro ⟨r, h⟩; unfold validate at h; simp [hs] at h
    · intro h; obtain ⟨kvs', hs', _, _⟩ := h.map_inv; rw [hs] at hs'; cases hs'
  -- tupleFixed
  case case21 =>
    intro as v xs hs hl; constructor
    · rintro ⟨w, h⟩; unfold validate at h; simp only [hs] at h; simp [hl] at h
    · intro h; obtain ⟨xs', hs', hlen, _⟩ := h.tupleFixed_inv
      rw [hs] at hs'; cases hs'
      simp at hl; omega
  case case22 =>
    intro as v xs hs hl ih; constructor
    · rintro ⟨w, h⟩
      unfold validate at h; simp only [hs] at h; simp only [hl] at h
      obtain ⟨ys, hys, _⟩ := map_ok h
      exact .tupleFixed hs (by simp at hl; omega) (ih.mp ⟨ys, hys⟩)
    · intro h; obtain ⟨xs', hs', hlen, hall⟩ := h.tupleFixed_inv
      rw [hs] at hs'; cases hs'
      obtain ⟨ys, hys⟩ := ih.mpr hall
      exact ⟨.tuple ys, by unfold validate; simp only [hs]; simp [hl, hys, Except.map]⟩
  case case23 =>
    intro as v hs; constructor
    · rintro ⟨w, h⟩; unfold validate at h; simp [hs] at h
    · intro h; obtain ⟨xs', hs', _, _⟩ := h.tupleFixed_inv; rw [hs] at hs'; cases hs'
  -- union
  case case24 =>
    intro as v ih; constructor
    · rintro ⟨w, h⟩
      unfold validate at h
      obtain ⟨a, ha, hc⟩ := ih.mp ⟨w, h⟩
      exact .union ha hc
    · intro h; obtain ⟨a, ha, hc⟩ := h.union_inv
      obtain ⟨w, hw⟩ := ih.mpr ⟨a, ha, hc⟩
      exact ⟨w, by unfold validate; exact hw⟩
  -- validateFirst
  case case25 => intro v; constructor <;> (intro h; simp [validateFirst] at h)
  case case26 =>
    intro a as v w hv ih; constructor
    · intro _; exact ⟨a, by simp, ih.mp ⟨w, hv⟩⟩
    · intro _; exact ⟨w, by unfold validateFirst; simp [hv]⟩
  case case27 =>
    intro a as v e hv ih1 ih2; constructor
    · rintro ⟨w, h⟩
      unfold validateFirst at h; simp only [hv] at h
      obtain ⟨b, hb, hc⟩ := ih2.mp ⟨w, h⟩
      exact ⟨b, by simp [hb], hc⟩
    · rintro ⟨b, hb, hc⟩
      simp only [List.mem_cons] at hb
      rcases hb with rfl | hb
      · obtain ⟨w, hw⟩ := ih1.mpr hc; rw [hv] at hw; cases hw
      · obtain ⟨w, hw⟩ := ih2.mpr ⟨b, hb, hc⟩
        exact ⟨w, by unfold validateFirst; simp only [hv]; exact hw⟩
  -- validateZip
  case case28 =>
    intro a as x xs e hv ih; constructor
    · rintro ⟨ys, h⟩; unfold validateZip at h; simp [hv] at h
    · intro h
      have := h (a, x) (by simp)
      obtain ⟨w, hw⟩ := ih.mpr this; rw [hv] at hw; cases hw
  case case29 =>
    intro a as x xs y hv e hz ih1 ih2; constructor
    · rintro ⟨ys, h⟩; unfold validateZip at h; simp [hv, hz] at h
    · intro h
      obtain ⟨ys, hys⟩ := ih2.mpr (fun p hp => h p (by simp [hp]))
      rw [hz] at hys; cases hys
  case case30 =>
    intro a as x xs y hv ys hz ih1 ih2; constructor
    · intro _ p hp
      simp only [List.zip_cons_cons, List.mem_cons] at hp
      rcases hp with rfl | hp
      · exact ih1.mp ⟨y, hv⟩
      · exact ih2.mp ⟨ys, hz⟩ p hp
    · intro _; exact ⟨y :: ys, by unfold validateZip; simp [hv, hz]⟩
  case case31 =>
    intro as xs hne; constructor
    · intro _ p hp
      cases as <;> cases xs <;> simp_all
      exact absurd rfl (hne _ _ _ _ rfl rfl rfl)
    · intro _
      refine ⟨[], ?_⟩
      cases as with
      | nil => simp [validateZip]
      | cons a as' =>
        cases xs with
        | nil => simp [validateZip]
        | cons x xs' => exact (hne a as' x xs' rfl rfl).elim
  -- validateKVs
  case case32 => intro k w; exact ⟨fun _ => ⟨by simp, by simp⟩, fun _ => ⟨[], by simp [validateKVs]⟩⟩
  case case33 =>
    intro k w x y r e hv ih; constructor
    · rintro ⟨r', h⟩; unfold validateKVs at h; simp [hv] at h
    · intro h
      obtain ⟨w', hw⟩ := ih.mpr (h.1 (x, y) (by simp)); rw [hv] at hw; cases hw
  case case34 =>
    intro k w x y r y1 hv e hw ih1 ih2; constructor
    · rintro ⟨r', h⟩; unfold validateKVs at h; simp [hv, hw] at h
    · intro h
      obtain ⟨w', hw'⟩ := ih2.mpr (h.2 (x, y) (by simp)); rw [hw] at hw'; cases hw'
  case case35 =>
    intro k w x y r y1 hv y2 hw e hr ih1 ih2 ih3; constructor
    · rintro ⟨r', h⟩; unfold validateKVs at h; simp [hv, hw, hr] at h
    · intro h
      obtain ⟨r', hr'⟩ := ih3.mpr ⟨fun p hp => h.1 p (by simp [hp]), fun p hp => h.2 p (by simp [hp])⟩
      rw [hr] at hr'; cases hr'
  case case36 =>
    intro k w x y r y1 hv y2 hw r' hr ih1 ih2 ih3; constructor
    · intro _
      have h3 := ih3.mp ⟨r', hr⟩
      constructor
      · intro p hp; simp only [List.mem_cons] at hp
        rcases hp with rfl | hp
        · exact ih1.mp ⟨y1, hv⟩
        · exact h3.1 p hp
      · intro p hp; simp only [List.mem_cons] at hp
        rcases hp with rfl | hp
        · exact ih2.mp ⟨y2, hw⟩
        · exact h3.2 p hp
    · intro _; exact ⟨(y1, y2) :: r', by unfold validateKVs; simp [hv, hw, hr]⟩
  -- validateAll
  case case37 => intro a; exact ⟨fun _ => by simp, fun _ => ⟨[], by simp [validateAll]⟩⟩
  case case38 =>
    intro a x xs e hv ih; constructor
    · rintro ⟨ys, h⟩; unfold validateAll at h; simp [hv] at h
    · intro h
      obtain ⟨w, hw⟩ := ih.mpr (h x (by simp)); rw [hv] at hw; cases hw
  case case39 =>
    intro a x xs y hv e hz ih1 ih2; constructor
    · rintro ⟨ys, h⟩; unfold validateAll at h; simp [hv, hz] at h
    · intro h
      obtain ⟨ys, hys⟩ := ih2.mpr (fun z hz' => h z (by simp [hz']))
      rw [hz] at hys; cases hys
  case case40 =>
    intro a x xs y hv ys hz ih1 ih2; constructor
    · intro _ z hz'
      simp only [List.mem_cons] at hz'
      rcases hz' with rfl | hz'
      · exact ih1.mp ⟨y, hv⟩
      · exact ih2.mp ⟨ys, hz⟩ z hz'
    · intro _; exact ⟨y :: ys, by unfold validateAll; simp [hv, hz]⟩


/-- acceptance ⇔ conformance for a single annotation -/
theorem accepts_iff_conforms' (env : ClsEnv) (a : Ann) (v : PyVal) :
    (∃ w, validate env a v = .ok w) ↔ Conforms env a v := (accepts_iff (env := env)).1 a v

/-- rejection ⇔ non-conformance -/
theorem rejects_iff_not_conforms (env : ClsEnv) (a : Ann) (v : PyVal) :
    (∃ e, validate env a v = .error e) ↔ ¬ Conforms env a v := by
  rw [← accepts_iff_conforms']
  cases h : validate env a v with
  | error e => simp
  | ok w => simp

end Haiway.Validate
