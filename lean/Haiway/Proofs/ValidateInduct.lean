import Haiway.Proofs.ValidateAccepts
/-! Characterisation of the four list helpers of `validate` and the induction principle for
*successful* validations, from which the storage / frozen / re-validation theorems follow. -/
namespace Haiway.Validate
variable {env : ClsEnv}

theorem validateAll_ok_iff {a : Ann} : ∀ (xs ys : List PyVal), validateAll env a xs = .ok ys ↔
    xs.length = ys.length ∧ ∀ p ∈ xs.zip ys, validate env a p.1 = .ok p.2 := by
  intro xs
  induction xs with
  | nil => intro ys; cases ys <;> simp [validateAll]
  | cons x xs ih =>
    intro ys
    unfold validateAll
    cases hx : validate env a x with
    | error e => cases ys <;> simp [hx]
    | ok y =>
      cases hr : validateAll env a xs with
      | error e =>
        cases ys with
        | nil => simp
        | cons y' ys' =>
          simp only [List.length_cons, List.zip_cons_cons, List.mem_cons, reduceCtorEq, false_iff, not_and]
          intro hl hall
          have := (ih ys').mpr ⟨by omega, fun p hp => hall p (Or.inr hp)⟩
          rw [hr] at this; cases this
      | ok ys0 =>
        have h0 := (ih ys0).mp hr
        cases ys with
        | nil => simp
        | cons y' ys' =>
          simp only [Except.ok.injEq, List.cons.injEq, List.length_cons, List.zip_cons_cons, List.mem_cons]
          constructor
          · rintro ⟨rfl, rfl⟩
            refine ⟨by omega, ?_⟩
            rintro p (rfl | hp)
            · exact hx
            · exact h0.2 p hp
          · rintro ⟨hl, hall⟩
            have h1 := hall (x, y') (Or.inl rfl)
            simp only [hx, Except.ok.injEq] at h1
            have h2 := (ih ys').mpr ⟨by omega, fun p hp => hall p (Or.inr hp)⟩
            rw [hr] at h2
            exact ⟨h1, by cases h2; rfl⟩

theorem validateZip_ok_iff : ∀ (as : List Ann) (xs ys : List PyVal), as.length = xs.length →
    (validateZip env as xs = .ok ys ↔
      xs.length = ys.length ∧ ∀ t ∈ as.zip (xs.zip ys), validate env t.1 t.2.1 = .ok t.2.2) := by
  intro as
  induction as with
  | nil => intro xs ys hl; cases xs <;> cases ys <;> simp_all [validateZip]
  | cons a as ih =>
    intro xs ys hl
    cases xs with
    | nil => simp at hl
    | cons x xs =>
      have hl' : as.length = xs.length := by simpa using hl
      unfold validateZip
      cases hx : validate env a x with
      | error e => cases ys <;> simp [hx]
      | ok y =>
        cases hr : validateZip env as xs with
        | error e =>
          cases ys with
          | nil => simp
          | cons y' ys' =>
            simp only [List.length_cons, List.zip_cons_cons, List.mem_cons, reduceCtorEq, false_iff, not_and]
            intro hl2 hall
            have := (ih xs ys' hl').mpr ⟨by omega, fun p hp => hall p (Or.inr hp)⟩
            rw [hr] at this; cases this
        | ok ys0 =>
          have h0 := (ih xs ys0 hl').mp hr
          cases ys with
          | nil => simp
          | cons y' ys' =>
            simp only [Except.ok.injEq, List.cons.injEq, List.length_cons, List.zip_cons_cons, List.mem_cons]
            constructor
            · rintro ⟨rfl, rfl⟩
              refine ⟨by omega, ?_⟩
              rintro p (rfl | hp)
              · exact hx
              · exact h0.2 p hp
            · rintro ⟨hl2, hall⟩
              have h1 := hall (a, x, y') (Or.inl rfl)
              simp only [hx, Except.ok.injEq] at h1
              have h2 := (ih xs ys' hl').mpr ⟨by omega, fun p hp => hall p (Or.inr hp)⟩
              rw [hr] at h2
              exact ⟨h1, by cases h2; rfl⟩

theorem validateKVs_ok_iff {k w : Ann} : ∀ (kvs r : List (PyVal × PyVal)), validateKVs env k w kvs = .ok r ↔
    kvs.length = r.length ∧
      ∀ p ∈ kvs.zip r, validate env k p.1.1 = .ok p.2.1 ∧ validate env w p.1.2 = .ok p.2.2 := by
  intro kvs
  induction kvs with
  | nil => intro r; cases r <;> simp [validateKVs]
  | cons kv kvs ih =>
    intro r
    obtain ⟨x, y⟩ := kv
    unfold validateKVs
    cases hx : validate env k x with
    | error e => cases r <;> simp [hx]
    | ok x' =>
      cases hy : validate env w y with
      | error e => cases r <;> simp [hx, hy]
      | ok y' =>
        cases hr : validateKVs env k w kvs with
        | error e =>
          cases r with
          | nil => simp
          | cons q r' =>
            simp only [List.length_cons, List.zip_cons_cons, List.mem_cons, reduceCtorEq, false_iff, not_and]
            intro hl hall
            have := (ih r').mpr ⟨by omega, fun p hp => hall p (Or.inr hp)⟩
            rw [hr] at this; cases this
        | ok r0 =>
          have h0 := (ih r0).mp hr
          cases r with
          | nil => simp
          | cons q r' =>
            simp only [Except.ok.injEq, List.cons.injEq, List.length_cons, List.zip_cons_cons, List.mem_cons]
            constructor
            · rintro ⟨rfl, rfl⟩
              refine ⟨by omega, ?_⟩
              rintro p (rfl | hp)
              · exact ⟨hx, hy⟩
              · exact h0.2 p hp
            · rintro ⟨hl, hall⟩
              have h1 := hall ((x, y), q) (Or.inl rfl)
              simp only [hx, hy, Except.ok.injEq] at h1
              have h2 := (ih r').mpr ⟨by omega, fun p hp => hall p (Or.inr hp)⟩
              rw [hr] at h2
              refine ⟨?_, by cases h2; rfl⟩
              obtain ⟨q1, q2⟩ := q
              simp_all

theorem validateFirst_ok_iff : ∀ (as : List Ann) (v w : PyVal), validateFirst env as v = .ok w ↔
    ∃ pre a post, as = pre ++ a :: post ∧ (∀ b ∈ pre, ∃ e, validate env b v = .error e) ∧
      validate env a v = .ok w := by
  intro as
  induction as with
  | nil => intro v w; simp [validateFirst]
  | cons a as ih =>
    intro v w
    unfold validateFirst
    cases ha : validate env a v with
    | ok w' =>
      constructor
      · intro h; cases h
        exact ⟨[], a, as, rfl, by simp, ha⟩
      · rintro ⟨pre, b, post, heq, hpre, hb⟩
        cases pre with
        | nil => simp at heq; obtain ⟨rfl, rfl⟩ := heq; rw [ha] at hb; exact hb
        | cons c pre' =>
          simp at heq; obtain ⟨rfl, rfl⟩ := heq
          obtain ⟨e, he⟩ := hpre a (by simp)
          rw [ha] at he; cases he
    | error e =>
      simp only
      rw [ih]
      constructor
      · rintro ⟨pre, b, post, rfl, hpre, hb⟩
        refine ⟨a :: pre, b, post, rfl, ?_, hb⟩
        intro c hc
        simp only [List.mem_cons] at hc
        rcases hc with rfl | hc
        · exact ⟨e, ha⟩
        · exact hpre c hc
      · rintro ⟨pre, b, post, heq, hpre, hb⟩
        cases pre with
        | nil => simp at heq; obtain ⟨rfl, rfl⟩ := heq; rw [ha] at hb; cases hb
        | cons c pre' =>
          simp at heq; obtain ⟨rfl, rfl⟩ := heq
          exact ⟨pre', b, post, rfl, fun c hc => hpre c (by simp [hc]), hb⟩

/-- Induction principle for successful validations: to prove `P a v w` for every `validate env a v =
ok w` it suffices to prove it for each validator factory, assuming it for the element validations. -/
theorem validate_ok_induct {P : Ann → PyVal → PyVal → Prop}
    (hany : ∀ v, P .any v v) (hnone : P .none .none .none) (hmissing : P .missing .missing .missing)
    (hcallable : ∀ v, isCallable v = true → P .callable v v)
    (hnominal : ∀ c v, isInst env c v = true → P (.nominal c) v v)
    (hliteral : ∀ ls v p, primOf v = some p → p ∈ ls → P (.literal ls) v v)
    (hseq : ∀ a v xs ys, seqElems v = some xs → xs.length = ys.length →
      (∀ p ∈ xs.zip ys, validate env a p.1 = .ok p.2 ∧ P a p.1 p.2) → P (.seq a) v (.tuple ys))
    (htupleVar : ∀ a v xs ys, seqElems v = some xs → xs.length = ys.length →
      (∀ p ∈ xs.zip ys, validate env a p.1 = .ok p.2 ∧ P a p.1 p.2) → P (.tupleVar a) v (.tuple ys))
    (hset : ∀ a v xs ys, setElems v = some xs → xs.length = ys.length →
      (∀ p ∈ xs.zip ys, validate env a p.1 = .ok p.2 ∧ P a p.1 p.2) → P (.set a) v (.fset ys))
    (hmap : ∀ k w v kvs r, mapElems v = some kvs → kvs.length = r.length →
      (∀ p ∈ kvs.zip r, (validate env k p.1.1 = .ok p.2.1 ∧ P k p.1.1 p.2.1) ∧
        (validate env w p.1.2 = .ok p.2.2 ∧ P w p.1.2 p.2.2)) → P (.map k w) v (.mproxy r))
    (htupleFixed : ∀ as v xs ys, seqElems v = some xs → as.length = xs.length → xs.length = ys.length →
      (∀ t ∈ as.zip (xs.zip ys), validate env t.1 t.2.1 = .ok t.2.2 ∧ P t.1 t.2.1 t.2.2) →
      P (.tupleFixed as) v (.tuple ys))
    (hunion : ∀ pre a post v w, (∀ b ∈ pre, ∃ e, validate env b v = .error e) →
      validate env a v = .ok w → P a v w → P (.union (pre ++ a :: post)) v w) :
    ∀ a v w, validate env a v = .ok w → P a v w := by
  intro a
  generalize hn : sizeOf a = n
  induction n using Nat.strongRecOn generalizing a with
  | _ n ih =>
    intro v w h
    subst hn
    cases a with
    | any => simp [validate] at h; subst h; exact hany v
    | none => unfold validate at h; split at h <;> simp at h; subst h; exact hnone
    | missing => unfold validate at h; split at h <;> simp at h; subst h; exact hmissing
    | callable =>
      unfold validate at h; split at h <;> simp at h
      subst h; exact hcallable v (by assumption)
    | nominal c =>
      unfold validate at h; split at h <;> simp at h
      subst h; exact hnominal c v (by assumption)
    | literal ls =>
      unfold validate at h
      split at h
      · split at h <;> simp at h
        subst h; exact hliteral ls v _ (by assumption) (by assumption)
      · simp at h
    | seq a =>
      unfold validate at h
      cases hs : seqElems v with
      | none => simp [hs] at h
      | some xs =>
        simp only [hs] at h
        obtain ⟨ys, hys, rfl⟩ := map_ok h
        rw [validateAll_ok_iff] at hys
        exact hseq a v xs ys hs hys.1 fun p hp =>
          ⟨hys.2 p hp, ih (sizeOf a) (by simp) a rfl _ _ (hys.2 p hp)⟩
    | tupleVar a =>
      unfold validate at h
      cases hs : seqElems v with
      | none => simp [hs] at h
      | some xs =>
        simp only [hs] at h
        obtain ⟨ys, hys, rfl⟩ := map_ok h
        rw [validateAll_ok_iff] at hys
        exact htupleVar a v xs ys hs hys.1 fun p hp =>
          ⟨hys.2 p hp, ih (sizeOf a) (by simp) a rfl _ _ (hys.2 p hp)⟩
    | set a =>
      unfold validate at h
      cases hs : setElems v with
      | none => simp [hs] at h
      | some xs =>
        simp only [hs] at h
        obtain ⟨ys, hys, rfl⟩ := map_ok h
        rw [validateAll_ok_iff] at hys
        exact hset a v xs ys hs hys.1 fun p hp =>
          ⟨hys.2 p hp, ih (sizeOf a) (by simp) a rfl _ _ (hys.2 p hp)⟩
    | map k w' =>
      unfold validate at h
      cases hs : mapElems v with
      | none => simp [hs] at h
      | some kvs =>
        simp only [hs] at h
        obtain ⟨r, hr, rfl⟩ := map_ok h
        rw [validateKVs_ok_iff] at hr
        exact hmap k w' v kvs r hs hr.1 fun p hp =>
          ⟨⟨(hr.2 p hp).1, ih (sizeOf k) (by simp; omega) k rfl _ _ (hr.2 p hp).1⟩,
           ⟨(hr.2 p hp).2, ih (sizeOf w') (by simp; omega) w' rfl _ _ (hr.2 p hp).2⟩⟩
    | tupleFixed as =>
      unfold validate at h
      cases hs : seqElems v with
      | none => simp [hs] at h
      | some xs =>
        simp only [hs] at h
        split at h
        · simp at h
        · rename_i hl
          have hl' : as.length = xs.length := by simp at hl; omega
          obtain ⟨ys, hys, rfl⟩ := map_ok h
          rw [validateZip_ok_iff as xs ys hl'] at hys
          refine htupleFixed as v xs ys hs hl' hys.1 fun t ht => ⟨hys.2 t ht, ?_⟩
          have hmem : t.1 ∈ as := (List.of_mem_zip ht).1
          have := List.sizeOf_lt_of_mem hmem
          exact ih (sizeOf t.1) (by simp; omega) t.1 rfl _ _ (hys.2 t ht)
    | union as =>
      unfold validate at h
      rw [validateFirst_ok_iff] at h
      obtain ⟨pre, a, post, rfl, hpre, ha⟩ := h
      refine hunion pre a post v w hpre ha ?_
      have hmem : a ∈ pre ++ a :: post := by simp
      have := List.sizeOf_lt_of_mem hmem
      exact ih (sizeOf a) (by simp; omega) a rfl _ _ ha

end Haiway.Validate
