import Haiway.Proofs.ValidateStored
/-! Re-validation is the identity on stored values (C04.revalidate_id).
Plan (DESIGN §6 C04): values are compared modulo container kind (`Sim`: list/tuple, set/frozenset,
dict/mappingproxy at any depth); (1) a successful validation returns a value similar to its input;
(2) conformance – hence success and failure of every validator – is invariant under `Sim`, so the union
alternatives that failed on the input still fail on the stored value; (3) on a value produced by an
alternative, that alternative is the identity. -/
namespace Haiway.Validate
variable {env : ClsEnv}

/-- equal up to the kind of container at any depth -/
inductive Sim : PyVal → PyVal → Prop where
  | refl (v) : Sim v v
  | seq {v w xs ys} : seqElems v = some xs → seqElems w = some ys → xs.length = ys.length →
      (∀ p ∈ xs.zip ys, Sim p.1 p.2) → Sim v w
  | set {v w xs ys} : setElems v = some xs → setElems w = some ys → xs.length = ys.length →
      (∀ p ∈ xs.zip ys, Sim p.1 p.2) → Sim v w
  | map {v w kvs kvs'} : mapElems v = some kvs → mapElems w = some kvs' → kvs.length = kvs'.length →
      (∀ p ∈ kvs.zip kvs', Sim p.1.1 p.2.1) → (∀ p ∈ kvs.zip kvs', Sim p.1.2 p.2.2) → Sim v w

def isContainer : PyVal → Bool
  | .list _ | .tuple _ | .set _ | .fset _ | .dict _ | .mproxy _ => true
  | _ => false

/-- every nominal class mentioned in the annotation rejects the builtin containers (true of the
classes of the vocabulary except protocols like `Sized`, which a list satisfies) -/
inductive Plain (env : ClsEnv) : Ann → Prop where
  | any : Plain env .any
  | none : Plain env .none
  | missing : Plain env .missing
  | callable : Plain env .callable
  | literal (ls) : Plain env (.literal ls)
  | nominal {c} : (∀ v, isContainer v = true → isInst env c v = false) → Plain env (.nominal c)
  | seq {a} : Plain env a → Plain env (.seq a)
  | tupleVar {a} : Plain env a → Plain env (.tupleVar a)
  | set {a} : Plain env a → Plain env (.set a)
  | map {k w} : Plain env k → Plain env w → Plain env (.map k w)
  | tupleFixed {as} : (∀ a ∈ as, Plain env a) → Plain env (.tupleFixed as)
  | union {as} : (∀ a ∈ as, Plain env a) → Plain env (.union as)

theorem mem_zip_swap {α β} : ∀ (xs : List α) (ys : List β) (x : α) (y : β),
    (y, x) ∈ ys.zip xs → (x, y) ∈ xs.zip ys := by
  intro xs
  induction xs with
  | nil => intro ys x y h; cases ys <;> simp at h
  | cons a xs ih =>
    intro ys x y h
    cases ys with
    | nil => simp at h
    | cons b ys =>
      simp only [List.zip_cons_cons, List.mem_cons, Prod.mk.injEq] at h ⊢
      rcases h with ⟨rfl, rfl⟩ | h
      · exact Or.inl ⟨rfl, rfl⟩
      · exact Or.inr (ih ys x y h)

theorem Sim.symm {v w : PyVal} (h : Sim v w) : Sim w v := by
  induction h with
  | refl v => exact .refl v
  | seq h1 h2 hl _ ih => exact .seq h2 h1 hl.symm fun p hp => ih (p.2, p.1) (mem_zip_swap _ _ _ _ hp)
  | set h1 h2 hl _ ih => exact .set h2 h1 hl.symm fun p hp => ih (p.2, p.1) (mem_zip_swap _ _ _ _ hp)
  | map h1 h2 hl _ _ ih1 ih2 =>
    exact .map h2 h1 hl.symm (fun p hp => ih1 (p.2, p.1) (mem_zip_swap _ _ _ _ hp))
      (fun p hp => ih2 (p.2, p.1) (mem_zip_swap _ _ _ _ hp))

/-- non-containers are similar only to themselves -/
theorem Sim.eq_of_not_container {v w : PyVal} (h : Sim v w) (hv : isContainer v = false) : w = v := by
  cases h with
  | refl => rfl
  | seq h1 => cases v <;> simp [seqElems, isContainer] at h1 hv
  | set h1 => cases v <;> simp [setElems, isContainer] at h1 hv
  | map h1 => cases v <;> simp [mapElems, isContainer] at h1 hv

theorem Sim.container {v w : PyVal} (h : Sim v w) (hv : isContainer v = true) : isContainer w = true := by
  cases h with
  | refl => exact hv
  | seq _ h2 => cases w <;> simp [seqElems, isContainer] at h2 ⊢
  | set _ h2 => cases w <;> simp [setElems, isContainer] at h2 ⊢
  | map _ h2 => cases w <;> simp [mapElems, isContainer] at h2 ⊢

/-- (1) a successful validation returns a value similar to its input -/
theorem sim_of_validate : ∀ a v w, validate env a v = .ok w → Sim v w := by
  apply validate_ok_induct (P := fun _ v w => Sim v w)
  · exact fun v => .refl v
  · exact .refl _
  · exact .refl _
  · exact fun v _ => .refl v
  · exact fun _ v _ => .refl v
  · exact fun _ v _ _ _ => .refl v
  · exact fun a v xs ys hs hl h => .seq hs rfl hl fun p hp => (h p hp).2
  · exact fun a v xs ys hs hl h => .seq hs rfl hl fun p hp => (h p hp).2
  · exact fun a v xs ys hs hl h => .set hs rfl hl fun p hp => (h p hp).2
  · exact fun k w v kvs r hs hl h => .map hs rfl hl (fun p hp => (h p hp).1.2) (fun p hp => (h p hp).2.2)
  · intro as v xs ys hs hl hl2 h
    refine .seq hs rfl hl2 fun p hp => ?_
    have key : ∀ (as : List Ann) (xs ys : List PyVal), as.length = xs.length →
        ∀ p ∈ xs.zip ys, ∃ a, (a, p) ∈ as.zip (xs.zip ys) := by
      intro as
      induction as with
      | nil => intro xs ys h1 p hp; cases xs <;> simp_all
      | cons a as ih =>
        intro xs ys h1 p hp
        cases xs with
        | nil => simp at h1
        | cons x xs =>
          cases ys with
          | nil => simp at hp
          | cons y ys =>
            simp only [List.zip_cons_cons, List.mem_cons] at hp ⊢
            rcases hp with rfl | hp
            · exact ⟨a, Or.inl rfl⟩
            · obtain ⟨a', ha'⟩ := ih xs ys (by simpa using h1) p hp
              exact ⟨a', Or.inr ha'⟩
    obtain ⟨a, ha⟩ := key as xs ys hl p hp
    exact (h (a, p) ha).2
  · exact fun pre a post v w _ _ h => h

theorem seqElems_container {v xs} (h : seqElems v = some xs) : isContainer v = true := by
  cases v <;> simp [seqElems, isContainer] at h ⊢
theorem setElems_container {v xs} (h : setElems v = some xs) : isContainer v = true := by
  cases v <;> simp [setElems, isContainer] at h ⊢
theorem mapElems_container {v xs} (h : mapElems v = some xs) : isContainer v = true := by
  cases v <;> simp [mapElems, isContainer] at h ⊢

theorem seqElems_not_set {v xs} (h : seqElems v = some xs) : setElems v = none ∧ mapElems v = none := by
  cases v <;> simp [seqElems, setElems, mapElems] at h ⊢
theorem setElems_not_seq {v xs} (h : setElems v = some xs) : seqElems v = none ∧ mapElems v = none := by
  cases v <;> simp [seqElems, setElems, mapElems] at h ⊢
theorem mapElems_not_seq {v xs} (h : mapElems v = some xs) : seqElems v = none ∧ setElems v = none := by
  cases v <;> simp [seqElems, setElems, mapElems] at h ⊢

/-- (2) conformance is invariant under `Sim` (for annotations whose nominal classes reject containers) -/
theorem conforms_sim {a : Ann} {v : PyVal} (h : Conforms env a v) :
    ∀ v', Plain env a → Sim v v' → Conforms env a v' := by
  induction h with
  | any v => exact fun v' _ _ => .any v'
  | none => intro v' _ hs; rw [hs.eq_of_not_container (by simp [isContainer])]; exact .none
  | missing => intro v' _ hs; rw [hs.eq_of_not_container (by simp [isContainer])]; exact .missing
  | @callable v hc =>
    intro v' _ hs
    have : isContainer v = false := by cases v <;> simp [isCallable, isContainer] at hc ⊢
    rw [hs.eq_of_not_container this]; exact .callable hc
  | @nominal c v hi =>
    intro v' hp hs
    cases hp with
    | nominal hk =>
      by_cases hcv : isContainer v = true
      · rw [hk v hcv] at hi; cases hi
      · rw [hs.eq_of_not_container (by simpa using hcv)]; exact .nominal hi
  | @literal ls v p hp hm =>
    intro v' _ hs
    have : isContainer v = false := by cases v <;> simp [primOf, isContainer] at hp ⊢
    rw [hs.eq_of_not_container this]; exact .literal hp hm
  | @seq a v xs hs hall ih =>
    intro v' hp hsim
    cases hp with
    | seq hpa =>
      cases hsim with
      | refl => exact .seq hs hall
      | seq h1 h2 hl hz =>
        rw [hs] at h1; cases h1
        exact .seq h2 fun y hy => by
          obtain ⟨x, hx⟩ := mem_zip_of_mem_right _ _ hl y hy
          exact ih x (List.of_mem_zip hx).1 y hpa (hz _ hx)
      | set h1 => rw [(seqElems_not_set hs).1] at h1; cases h1
      | map h1 => rw [(seqElems_not_set hs).2] at h1; cases h1
  | @tupleVar a v xs hs hall ih =>
    intro v' hp hsim
    cases hp with
    | tupleVar hpa =>
      cases hsim with
      | refl => exact .tupleVar hs hall
      | seq h1 h2 hl hz =>
        rw [hs] at h1; cases h1
        exact .tupleVar h2 fun y hy => by
          obtain ⟨x, hx⟩ := mem_zip_of_mem_right _ _ hl y hy
          exact ih x (List.of_mem_zip hx).1 y hpa (hz _ hx)
      | set h1 => rw [(seqElems_not_set hs).1] at h1; cases h1
      | map h1 => rw [(seqElems_not_set hs).2] at h1; cases h1
  | @set a v xs hs hall ih =>
    intro v' hp hsim
    cases hp with
    | set hpa =>
      cases hsim with
      | refl => exact .set hs hall
      | set h1 h2 hl hz =>
        rw [hs] at h1; cases h1
        exact .set h2 fun y hy => by
          obtain ⟨x, hx⟩ := mem_zip_of_mem_right _ _ hl y hy
          exact ih x (List.of_mem_zip hx).1 y hpa (hz _ hx)
      | seq h1 => rw [(setElems_not_seq hs).1] at h1; cases h1
      | map h1 => rw [(setElems_not_seq hs).2] at h1; cases h1
  | @map k w v kvs hs hk hw ihk ihw =>
    intro v' hp hsim
    cases hp with
    | map hpk hpw =>
      cases hsim with
      | refl => exact .map hs hk hw
      | map h1 h2 hl hzk hzw =>
        rw [hs] at h1; cases h1
        refine .map h2 (fun q hq => ?_) (fun q hq => ?_)
        · obtain ⟨p, hp⟩ := mem_zip_of_mem_right _ _ hl q hq
          exact ihk p (List.of_mem_zip hp).1 q.1 hpk (hzk _ hp)
        · obtain ⟨p, hp⟩ := mem_zip_of_mem_right _ _ hl q hq
          exact ihw p (List.of_mem_zip hp).1 q.2 hpw (hzw _ hp)
      | seq h1 => rw [(mapElems_not_seq hs).1] at h1; cases h1
      | set h1 => rw [(mapElems_not_seq hs).2] at h1; cases h1
  | @tupleFixed as v xs hs hl hall ih =>
    intro v' hp hsim
    cases hp with
    | tupleFixed hpa =>
      cases hsim with
      | refl => exact .tupleFixed hs hl hall
      | seq h1 h2 hl2 hz =>
        rw [hs] at h1; cases h1
        refine .tupleFixed h2 (by omega) ?_
        -- zip as ys: each (a, y) comes with an x such that (a, x) ∈ zip as xs and (x, y) ∈ zip xs ys
        have key : ∀ (as : List Ann) (xs ys : List PyVal), as.length = xs.length → xs.length = ys.length →
            ∀ p ∈ as.zip ys, ∃ x, (p.1, x) ∈ as.zip xs ∧ (x, p.2) ∈ xs.zip ys := by
          intro as
          induction as with
          | nil => intro xs ys _ _ p hp; simp at hp
          | cons a as ih =>
            intro xs ys e1 e2 p hp
            cases xs with
            | nil => simp at e1
            | cons x xs =>
              cases ys with
              | nil => simp at e2
              | cons y ys =>
                simp only [List.zip_cons_cons, List.mem_cons] at hp ⊢
                rcases hp with rfl | hp
                · exact ⟨x, Or.inl rfl, Or.inl rfl⟩
                · obtain ⟨x', h1, h2⟩ := ih xs ys (by simpa using e1) (by simpa using e2) p hp
                  exact ⟨x', Or.inr h1, Or.inr h2⟩
        intro p hp
        obtain ⟨x, hx1, hx2⟩ := key as _ _ hl hl2 p hp
        exact ih (p.1, x) hx1 p.2 (hpa p.1 (List.of_mem_zip hx1).1) (hz _ hx2)
      | set h1 => rw [(seqElems_not_set hs).1] at h1; cases h1
      | map h1 => rw [(seqElems_not_set hs).2] at h1; cases h1
  | @union as v a ha _ ih =>
    intro v' hp hsim
    cases hp with
    | union hpa => exact .union ha (ih v' (hpa a ha) hsim)

theorem mem_zip_self {α} : ∀ (xs : List α) (p : α × α), p ∈ xs.zip xs → p.1 = p.2 ∧ p.1 ∈ xs := by
  intro xs
  induction xs with
  | nil => intro p hp; simp at hp
  | cons x xs ih =>
    intro p hp
    simp only [List.zip_cons_cons, List.mem_cons] at hp
    rcases hp with rfl | hp
    · exact ⟨rfl, by simp⟩
    · exact ⟨(ih p hp).1, by simp [(ih p hp).2]⟩

/-- (3) C04.revalidate_id: validating a stored value again returns it unchanged. -/
theorem revalidate_id' : ∀ a v w, validate env a v = .ok w → Plain env a → validate env a w = .ok w := by
  apply validate_ok_induct (P := fun a _ w => Plain env a → validate env a w = .ok w)
  · intro v _; simp [validate]
  · intro _; simp [validate]
  · intro _; simp [validate]
  · intro v hc _; simp [validate, hc]
  · intro c v hi _; simp [validate, hi]
  · intro ls v p hp hm _; simp [validate, hp, hm]
  · intro a v xs ys hs hl h hp
    cases hp with
    | seq hpa =>
      have : validateAll env a ys = .ok ys := by
        rw [validateAll_ok_iff]
        refine ⟨rfl, fun p hp => ?_⟩
        obtain ⟨he, hm⟩ := mem_zip_self ys p hp
        obtain ⟨x, hx⟩ := mem_zip_of_mem_right xs ys hl p.1 hm
        rw [← he]; exact (h _ hx).2 hpa
      unfold validate; simp [seqElems, this, Except.map]
  · intro a v xs ys hs hl h hp
    cases hp with
    | tupleVar hpa =>
      have : validateAll env a ys = .ok ys := by
        rw [validateAll_ok_iff]
        refine ⟨rfl, fun p hp => ?_⟩
        obtain ⟨he, hm⟩ := mem_zip_self ys p hp
        obtain ⟨x, hx⟩ := mem_zip_of_mem_right xs ys hl p.1 hm
        rw [← he]; exact (h _ hx).2 hpa
      unfold validate; simp [seqElems, this, Except.map]
  · intro a v xs ys hs hl h hp
    cases hp with
    | set hpa =>
      have : validateAll env a ys = .ok ys := by
        rw [validateAll_ok_iff]
        refine ⟨rfl, fun p hp => ?_⟩
        obtain ⟨he, hm⟩ := mem_zip_self ys p hp
        obtain ⟨x, hx⟩ := mem_zip_of_mem_right xs ys hl p.1 hm
        rw [← he]; exact (h _ hx).2 hpa
      unfold validate; simp [setElems, this, Except.map]
  · intro k w v kvs r hs hl h hp
    cases hp with
    | map hpk hpw =>
      have : validateKVs env k w r = .ok r := by
        rw [validateKVs_ok_iff]
        refine ⟨rfl, fun p hp => ?_⟩
        obtain ⟨he, hm⟩ := mem_zip_self r p hp
        obtain ⟨x, hx⟩ := mem_zip_of_mem_right kvs r hl p.1 hm
        rw [← he]; exact ⟨(h _ hx).1.2 hpk, (h _ hx).2.2 hpw⟩
      unfold validate; simp [mapElems, this, Except.map]
  · intro as v xs ys hs hl hl2 h hp
    cases hp with
    | tupleFixed hpa =>
      have hlen : as.length = ys.length := by omega
      have : validateZip env as ys = .ok ys := by
        rw [validateZip_ok_iff as ys ys hlen]
        refine ⟨rfl, ?_⟩
        have key : ∀ (as : List Ann) (xs ys : List PyVal), as.length = xs.length → xs.length = ys.length →
            ∀ t ∈ as.zip (ys.zip ys), t.2.1 = t.2.2 ∧ ∃ x, (t.1, x, t.2.2) ∈ as.zip (xs.zip ys) := by
          intro as
          induction as with
          | nil => intro xs ys _ _ t ht; simp at ht
          | cons a as ih =>
            intro xs ys e1 e2 t ht
            cases xs with
            | nil => simp at e1
            | cons x xs =>
              cases ys with
              | nil => simp at e2
              | cons y ys =>
                simp only [List.zip_cons_cons, List.mem_cons] at ht ⊢
                rcases ht with rfl | ht
                · exact ⟨rfl, x, Or.inl rfl⟩
                · obtain ⟨h1, x', h2⟩ := ih xs ys (by simpa using e1) (by simpa using e2) t ht
                  exact ⟨h1, x', Or.inr h2⟩
        intro t ht
        obtain ⟨he, x, hx⟩ := key as xs ys hl hl2 t ht
        rw [he]
        exact (h _ hx).2 (hpa t.1 (List.of_mem_zip hx).1)
      unfold validate
      simp [seqElems, this, Except.map, hlen]
  · intro pre a post v w hpre ha ih hp
    cases hp with
    | union hpa =>
      have hsim : Sim w v := (sim_of_validate a v w ha).symm
      unfold validate
      rw [validateFirst_ok_iff]
      refine ⟨pre, a, post, rfl, fun b hb => ?_, ih (hpa a (by simp))⟩
      rw [rejects_iff_not_conforms]
      intro hc
      have hpb : Plain env b := hpa b (by simp [hb])
      exact ((rejects_iff_not_conforms env b v).mp (hpre b hb)) (conforms_sim hc v hpb hsim)

/-- a validator never produces MISSING out of something else -/
theorem validate_ok_missing : ∀ a v w, validate env a v = .ok w → w = .missing → v = .missing := by
  apply validate_ok_induct (P := fun _ v w => w = .missing → v = .missing)
  · exact fun _ h => h
  · exact fun h => h
  · exact fun h => h
  · exact fun _ _ h => h
  · exact fun _ _ _ h => h
  · exact fun _ _ _ _ _ h => h
  · intro _ _ _ _ _ _ _ h; cases h
  · intro _ _ _ _ _ _ _ h; cases h
  · intro _ _ _ _ _ _ _ h; cases h
  · intro _ _ _ _ _ _ _ _ h; cases h
  · intro _ _ _ _ _ _ _ _ h; cases h
  · exact fun _ _ _ _ _ _ _ ih h => ih h

end Haiway.Validate
