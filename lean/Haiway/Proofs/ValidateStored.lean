import Haiway.Proofs.ValidateInduct
/-! What a successful validation returns: the documented conversion (`Stored`), immutable
containers (`Frozen`), and the identity on hashable values (hence keys are never re-keyed). -/
namespace Haiway.Validate
variable {env : ClsEnv}

theorem stored_of_validate : ∀ a v w, validate env a v = .ok w → Stored env a v w := by
  apply validate_ok_induct
  · exact fun v => .any v
  · exact .none
  · exact .missing
  · exact fun v _ => .callable v
  · exact fun c v _ => .nominal c v
  · exact fun ls v _ _ _ => .literal ls v
  · exact fun a v xs ys hs hl h => .seq hs hl (fun p hp => (h p hp).2)
  · exact fun a v xs ys hs hl h => .tupleVar hs hl (fun p hp => (h p hp).2)
  · exact fun a v xs ys hs hl h => .set hs hl (fun p hp => (h p hp).2)
  · exact fun k w v kvs r hs hl h => .map hs hl (fun p hp => (h p hp).1.2) (fun p hp => (h p hp).2.2)
  · exact fun as v xs ys hs hl hl2 h => .tupleFixed hs hl hl2 (fun t ht => (h t ht).2)
  · intro pre a post v w hpre ha hs
    exact .union (fun b hb => (rejects_iff_not_conforms env b v).mp (hpre b hb))
      ((accepts_iff_conforms' env a v).mp ⟨w, ha⟩) hs

theorem mem_zip_of_mem_right {α β} : ∀ (xs : List α) (ys : List β), xs.length = ys.length →
    ∀ y ∈ ys, ∃ x, (x, y) ∈ xs.zip ys := by
  intro xs
  induction xs with
  | nil => intro ys hl y hy; cases ys <;> simp_all
  | cons x xs ih =>
    intro ys hl y hy
    cases ys with
    | nil => simp at hy
    | cons y' ys' =>
      simp only [List.mem_cons] at hy
      rcases hy with rfl | hy
      · exact ⟨x, by simp⟩
      · obtain ⟨x', hx'⟩ := ih ys' (by simpa using hl) y hy
        exact ⟨x', by simp [hx']⟩

theorem mem_zip_of_mem_left {α β} : ∀ (xs : List α) (ys : List β), xs.length = ys.length →
    ∀ x ∈ xs, ∃ y, (x, y) ∈ xs.zip ys := by
  intro xs
  induction xs with
  | nil => intro ys hl x hx; simp at hx
  | cons x xs ih =>
    intro ys hl x' hx
    cases ys with
    | nil => simp at hl
    | cons y' ys' =>
      simp only [List.mem_cons] at hx
      rcases hx with rfl | hx
      · exact ⟨y', by simp⟩
      · obtain ⟨y, hy⟩ := ih ys' (by simpa using hl) x' hx
        exact ⟨y, by simp [hy]⟩

theorem frozen_of_validate : ∀ a v w, validate env a v = .ok w → Frozen a w := by
  apply validate_ok_induct (P := fun a _ w => Frozen a w)
  · exact fun v => .any v
  · exact .none _
  · exact .missing _
  · exact fun v _ => .callable v
  · exact fun c v _ => .nominal c v
  · exact fun ls v _ _ _ => .literal ls v
  · intro a v xs ys hs hl h
    refine .seq fun y hy => ?_
    obtain ⟨x, hx⟩ := mem_zip_of_mem_right xs ys hl y hy
    exact (h _ hx).2
  · intro a v xs ys hs hl h
    refine .tupleVar fun y hy => ?_
    obtain ⟨x, hx⟩ := mem_zip_of_mem_right xs ys hl y hy
    exact (h _ hx).2
  · intro a v xs ys hs hl h
    refine .set fun y hy => ?_
    obtain ⟨x, hx⟩ := mem_zip_of_mem_right xs ys hl y hy
    exact (h _ hx).2
  · intro k w v kvs r hs hl h
    refine .map (fun q hq => ?_) (fun q hq => ?_)
    · obtain ⟨x, hx⟩ := mem_zip_of_mem_right kvs r hl q hq
      exact (h _ hx).1.2
    · obtain ⟨x, hx⟩ := mem_zip_of_mem_right kvs r hl q hq
      exact (h _ hx).2.2
  · intro as v xs ys hs hl hl2 h
    refine .tupleFixed (by omega) fun p hp => ?_
    -- (a, y) ∈ as.zip ys comes from some (a, (x, y)) ∈ as.zip (xs.zip ys)
    have key : ∀ (as : List Ann) (xs ys : List PyVal), as.length = xs.length → xs.length = ys.length →
        ∀ p ∈ as.zip ys, ∃ x, (p.1, x, p.2) ∈ as.zip (xs.zip ys) := by
      intro as
      induction as with
      | nil => intro xs ys _ _ p hp; simp at hp
      | cons a as ih =>
        intro xs ys h1 h2 p hp
        cases xs with
        | nil => simp at h1
        | cons x xs =>
          cases ys with
          | nil => simp at h2
          | cons y ys =>
            simp only [List.zip_cons_cons, List.mem_cons] at hp ⊢
            rcases hp with rfl | hp
            · exact ⟨x, Or.inl rfl⟩
            · obtain ⟨x', hx'⟩ := ih xs ys (by simpa using h1) (by simpa using h2) p hp
              exact ⟨x', Or.inr hx'⟩
    obtain ⟨x, hx⟩ := key as xs ys hl hl2 p hp
    exact (h _ hx).2
  · intro pre a post v w _ _ hf
    exact .union (by simp) hf

theorem zip_snd_eq_fst {α} : ∀ (xs ys : List α), xs.length = ys.length →
    (∀ p ∈ xs.zip ys, p.2 = p.1) → ys = xs := by
  intro xs
  induction xs with
  | nil => intro ys hl _; cases ys <;> simp_all
  | cons x xs ih =>
    intro ys hl h
    cases ys with
    | nil => simp at hl
    | cons y ys =>
      have h1 := h (x, y) (by simp)
      have h2 := ih ys (by simpa using hl) (fun p hp => h p (by simp [hp]))
      simp_all

/-- validation is the identity on hashable values (tuples stay the same tuples, frozensets the
same frozensets): set elements and mapping keys are therefore never changed by validation. -/
theorem hashable_fixed : ∀ a v w, validate env a v = .ok w → Hashable v → w = v := by
  apply validate_ok_induct (P := fun _ v w => Hashable v → w = v)
  · exact fun _ _ => rfl
  · exact fun _ => rfl
  · exact fun _ => rfl
  · exact fun _ _ _ => rfl
  · exact fun _ _ _ _ => rfl
  · exact fun _ _ _ _ _ _ => rfl
  · intro a v xs ys hs hl h hv
    cases hv <;> simp [seqElems] at hs
    subst hs
    rename_i hall
    congr
    exact zip_snd_eq_fst _ _ hl fun p hp => (h p hp).2 (hall _ (List.of_mem_zip hp).1)
  · intro a v xs ys hs hl h hv
    cases hv <;> simp [seqElems] at hs
    subst hs
    rename_i hall
    congr
    exact zip_snd_eq_fst _ _ hl fun p hp => (h p hp).2 (hall _ (List.of_mem_zip hp).1)
  · intro a v xs ys hs hl h hv
    cases hv <;> simp [setElems] at hs
    subst hs
    rename_i hall
    congr
    exact zip_snd_eq_fst _ _ hl fun p hp => (h p hp).2 (hall _ (List.of_mem_zip hp).1)
  · intro k w v kvs r hs hl h hv
    cases hv <;> simp [mapElems] at hs
  · intro as v xs ys hs hl hl2 h hv
    cases hv <;> simp [seqElems] at hs
    subst hs
    rename_i hall
    congr
    refine zip_snd_eq_fst _ _ hl2 fun p hp => ?_
    -- p ∈ xs.zip ys comes with some annotation in front
    have key : ∀ (as : List Ann) (xs ys : List PyVal), as.length = xs.length →
        ∀ p ∈ xs.zip ys, ∃ a, (a, p) ∈ as.zip (xs.zip ys) := by
      intro as
      induction as with
      | nil => intro xs ys h1 p hp; cases xs <;> simp_all
      | cons a as ih =>
        intro xs ys h1 p hp
        cases xs with
        | nil => simp at h1
        | cons x xs =>
          cases ys with
          | nil => simp at hp
          | cons y ys =>
            simp only [List.zip_cons_cons, List.mem_cons] at hp ⊢
            rcases hp with rfl | hp
            · exact ⟨a, Or.inl rfl⟩
            · obtain ⟨a', ha'⟩ := ih xs ys (by simpa using h1) p hp
              exact ⟨a', Or.inr ha'⟩
    obtain ⟨a, ha⟩ := key as _ ys hl p hp
    exact (h (a, p) ha).2 (hall p.1 (List.of_mem_zip hp).1)
  · intro pre a post v w _ _ hf hv
    exact hf hv

/-- a validated mapping has exactly the keys of the input, in the same order, when the keys are
hashable (which Python guarantees for the keys of any real mapping): nothing is re-keyed. -/
theorem map_keys_preserved {k w : Ann} {v : PyVal} {kvs r : List (PyVal × PyVal)}
    (hs : mapElems v = some kvs) (hk : ∀ p ∈ kvs, Hashable p.1)
    (h : validate env (.map k w) v = .ok (.mproxy r)) : r.map (·.1) = kvs.map (·.1) := by
  unfold validate at h
  simp only [hs] at h
  obtain ⟨r', hr, heq⟩ := map_ok h
  cases heq
  rw [validateKVs_ok_iff] at hr
  obtain ⟨hl, hall⟩ := hr
  clear h hs
  induction kvs generalizing r with
  | nil => cases r <;> simp_all
  | cons kv kvs ih =>
    cases r with
    | nil => simp at hl
    | cons q r =>
      simp only [List.map_cons, List.cons.injEq]
      constructor
      · have := (hall (kv, q) (by simp)).1
        exact hashable_fixed _ _ _ this (hk kv (by simp))
      · exact ih (fun p hp => hk p (by simp [hp])) (by simpa using hl)
          (fun p hp => hall p (by simp [hp]))

end Haiway.Validate
