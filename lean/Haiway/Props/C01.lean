import Haiway.Proofs.Tasks
/-!
# C01 – scope state lookup follows lexical nesting (innermost supplier wins)

Model: `Haiway.Tasks` (per-task state variable with tokens, snapshot on task creation) over
`Haiway.ScopeState` (the `type ↦ instance` dict).  Spec: environment stacks (`specObs`): the frames visible to
a task are those visible where it was started followed by the blocks it entered itself; the answer is the last
instance of the requested type in the innermost frame that has one, else the explicit default, else a
default-constructed instance when the type needs no arguments, else MissingState; MissingContext outside every
scope.  All theorems hold for **every** label sequence (any number of tasks, any nesting depth, any interleaving).
-/
namespace Haiway.C01
open Haiway.ScopeState Haiway.Tasks

/-- C01.lookup_innermost: after any history, any lookup by any live task returns exactly what the
environment-stack specification prescribes for the frames visible to that task at that point. -/
theorem lookup_innermost (ctor : Nat → Bool) (ls : List Label) (t ty : Nat) (d : Bool) (s' : Sys) (o : Obs)
    (hs : step ctor (exec ctor init ls) (.probe t ty d) = some (s', o)) :
    ∃ tk, (exec ctor init ls)[t]? = some tk ∧
      o = specObs ctor (visibleOf tk.inherited tk.frames) ty d := by
  have hinv := exec_inv ctor ls init init_inv
  simp only [step] at hs
  cases ht : (exec ctor init ls)[t]? with
  | none => simp [ht] at hs
  | some tk =>
    refine ⟨tk, rfl, ?_⟩
    simp only [ht] at hs
    split at hs
    · simp at hs
    · simp only [Option.some.injEq, Prod.mk.injEq] at hs
      rw [← hs.2]
      exact lookupObs_eq_spec ctor tk (hinv tk (List.mem_of_getElem? ht)) ty d

/-- C01.algebra: the dict reached through any chain of `updated` answers a lookup with the last instance of
that type in the innermost frame supplying it (independent of tasks; the core lemma). -/
theorem algebra (frames : List (List Inst)) (ty : Nat) :
    find (stateOf frames) ty = frames.reverse.findSome? (fun f => lastOf f ty) :=
  Haiway.ScopeState.lookup_innermost frames ty

/-- C01.no_scope_missing_context: with no visible frame at all the request fails with MissingContext. -/
theorem no_scope_missing_context (ctor : Nat → Bool) (ty : Nat) (d : Bool) :
    specObs ctor none ty d = .missingContext := rfl

/-- C01.fallback_order: when no visible frame supplies the type, the explicit default wins over default
construction, which wins over MissingState. -/
theorem fallback_order (ctor : Nat → Bool) (vs : List (List Inst)) (ty : Nat) (d : Bool)
    (h : vs.reverse.findSome? (fun f => lastOf f ty) = none) :
    specObs ctor (some vs) ty d =
      (if d then .default else if ctor ty then .constructed else .missingState) := by
  simp [specObs, h, fallback]

/-- C01.supplied_wins: a supplied instance is returned whatever default the caller passes. -/
theorem supplied_wins (ctor : Nat → Bool) (vs : List (List Inst)) (ty : Nat) (d : Bool) (i : Inst)
    (h : vs.reverse.findSome? (fun f => lastOf f ty) = some i) :
    specObs ctor (some vs) ty d = .supplied i := by
  simp [specObs, h]

/-- C01.state_is_function_of_frames: the value of a task's state variable is determined by its visible frames –
hence returning to the same frame stack (leaving a block by any path that resets the token) restores exactly
the state seen before (the state part of C02). -/
theorem state_is_function_of_frames (ctor : Nat → Bool) (ls : List Label) (t : Nat) (tk : Task)
    (ht : (exec ctor init ls)[t]? = some tk) :
    tk.state = (visibleOf tk.inherited tk.frames).map stateOf :=
  chain_state _ _ _ (exec_inv ctor ls init init_inv tk (List.mem_of_getElem? ht)).chain

/-! ## Non-vacuity: a concrete history with nested suppliers, siblings, disposable state, a spawned task -/

def ctor2 : Nat → Bool := fun t => t < 2

example :
    run ctor2 init
      [ .probe 0 0 false,                                   -- outside every scope
        .enter 0 1 [⟨0, 10⟩, ⟨2, 20⟩] [],                    -- outer supplies T0, T2
        .enter 0 2 [⟨0, 11⟩, ⟨0, 12⟩] [[⟨3, 30⟩]],           -- inner: two T0 (last wins), T3 from a disposable
        .probe 0 0 false, .probe 0 2 false, .probe 0 3 true,
        .spawn 0,                                            -- task 1 inherits outer+inner
        .left 0 2,
        .probe 0 0 false, .probe 0 3 false, .probe 0 3 true, .probe 0 1 false,
        .probe 1 0 false, .probe 1 3 false ]
    = [ some .missingContext, some .none, some .none,
        some (.supplied ⟨0, 12⟩), some (.supplied ⟨2, 20⟩), some (.supplied ⟨3, 30⟩),
        some .none, some .none,
        some (.supplied ⟨0, 10⟩), some .missingState, some .default, some .constructed,
        some (.supplied ⟨0, 12⟩), some (.supplied ⟨3, 30⟩) ] := by decide

end Haiway.C01
