import Haiway.Model.Proc
import Haiway.Proofs.ProcProg
import Haiway.Proofs.Tasks
/-!
# C02 – leaving a scope restores the surrounding context on every exit path

Model: `Haiway.Proc` – the enter/exit procedures of the three kinds of block as IR terms, interpreted with Python's
exception semantics.  Theorems hold for **every** fault assignment (each awaiting cleanup step may complete, raise any
exception, or be hit by a cancellation), **every** body outcome (return, any exception incl. `BaseException`,
cancellation) and with the body allowed to leave the three context variables in an **arbitrary** state – so every
block's restoration holds on its own, whatever the blocks nested in it do.  The state variable's multi-task side
(tokens per task, snapshots) is `Haiway.Tasks` (C01/C03).
-/
namespace Haiway.C02
open Haiway.Proc

/-- C02.restored (async scope): when control leaves the block – or its failed enter – the task's context triple
(state, metrics scope, task group) is the triple at entry. -/
theorem restored (φ : Faults) (body : Option Exc) (scramble : Ctx → Ctx) (m : M) :
    (block aenter aexit φ body scramble m).1.ctx = m.ctx := by
  unfold block aenter aexit
  simp only [run, runAtom]
  cases h1 : φ .dispEnter <;> cases h2 : φ .groupExit <;> cases h3 : φ .dispExit <;> cases h4 : φ .metricsExit <;> simp

/-- C02.restored_sync: synchronous scope.  It installs and resets the state and metrics variables; the task-group
variable is not touched by it, so the body is assumed to leave *that one* as it found it (which the blocks nested in
the body guarantee by their own restoration theorems). -/
theorem restored_sync (φ : Faults) (body : Option Exc) (scramble : Ctx → Ctx) (m : M)
    (hg : ∀ c, (scramble c).group = c.group) :
    (block senter sexit φ body scramble m).1.ctx = m.ctx := by
  unfold block senter sexit
  cases h4 : φ .metricsExit <;> simp [run, runAtom, hg, h4]

/-- C02.restored_updated: `ctx.updated` installs and resets the state variable only. -/
theorem restored_updated (φ : Faults) (body : Option Exc) (scramble : Ctx → Ctx) (m : M)
    (hg : ∀ c, (scramble c).group = c.group) (hm : ∀ c, (scramble c).metrics = c.metrics) :
    (block uenter uexit φ body scramble m).1.ctx = m.ctx := by
  unfold block uenter uexit
  simp [run, runAtom, hg, hm]

/-- C02.same_exception: when no cleanup step raises, what reaches the caller is exactly the body's outcome
(the same exception object, or normal return). -/
theorem same_exception (φ : Faults) (body : Option Exc) (scramble : Ctx → Ctx) (m : M)
    (h : ∀ a, φ a = none) : (block aenter aexit φ body scramble m).2 = body := by
  unfold block aenter aexit
  simp [run, runAtom, h]

theorem same_exception_sync (φ : Faults) (body : Option Exc) (scramble : Ctx → Ctx) (m : M)
    (h : φ .metricsExit = none) :
    (block senter sexit φ body scramble m).2 = body := by
  unfold block senter sexit
  simp [run, runAtom, h]

theorem same_exception_updated (φ : Faults) (body : Option Exc) (scramble : Ctx → Ctx) (m : M) :
    (block uenter uexit φ body scramble m).2 = body := by
  unfold block uenter uexit
  simp [run, runAtom]

/-- C02.cleanup_all_run: once the block was entered, every cleanup step runs exactly once, whichever of them fail. -/
theorem cleanup_all_run (φ : Faults) (body : Option Exc) (scramble : Ctx → Ctx) (m : M)
    (hin : φ .dispEnter = none) :
    let l := (block aenter aexit φ body scramble m).1.log.drop m.log.length
    l.count .dispExit = 1 ∧ l.count .groupExit = 1 ∧ l.count .metricsExit = 1 ∧ l.count .stateExit = 1 := by
  unfold block aenter aexit
  simp only [run, runAtom, hin]
  cases h2 : φ .groupExit <;> cases h3 : φ .dispExit <;> cases h4 : φ .metricsExit <;> simp [h2, h3, h4]

/-- C02.failed_enter_rolls_back: when entering the disposables fails, the group is exited and the metrics node
finished before the failure propagates; the body's cleanup (`__aexit__`) is not run. -/
theorem failed_enter_rolls_back (φ : Faults) (body : Option Exc) (scramble : Ctx → Ctx) (m : M) (e : Exc)
    (hin : φ .dispEnter = some e) :
    let r := block aenter aexit φ body scramble m
    let l := r.1.log.drop m.log.length
    l.count .groupExitCaught = 1 ∧ l.count .metricsExit = 1 ∧ l.count .dispExit = 0 ∧ r.2.isSome := by
  unfold block aenter
  simp only [run, runAtom, hin]
  cases h2 : φ .groupExit <;> cases h4 : φ .metricsExit <;> simp [h2, h4]

/-- C02.exception_priority: what the caller receives after an entered block: a failure while the metrics scope is finished
(the innermost `finally`) wins over a failure of the group exit wait (cancellation), which wins over a disposables cleanup
failure, which wins over the body's outcome. -/
theorem exception_priority (φ : Faults) (body : Option Exc) (scramble : Ctx → Ctx) (m : M)
    (hin : φ .dispEnter = none) :
    (block aenter aexit φ body scramble m).2 =
      match φ .metricsExit, φ .groupExit, φ .dispExit with
      | some x, _, _ => some x
      | none, some g, _ => some g
      | none, none, some d => some d
      | none, none, none => body := by
  unfold block aenter aexit
  simp only [run, runAtom, hin]
  cases h2 : φ .groupExit <;> cases h3 : φ .dispExit <;> cases h4 : φ .metricsExit <;> simp [h2, h3, h4]

/-- C02.exit_reason (feeds C06/C07/C08): once entered, the disposables' `__aexit__` receives the body's outcome and
the task group's `__aexit__` receives the scope's exit reason – the disposables' cleanup failure **of any class,
cancellation included**, if there is one, else the body's outcome – so that a failing or cancelled cleanup makes the
group cancel its remaining members instead of waiting for them. -/
theorem exit_reason (φ : Faults) (body : Option Exc) (scramble : Ctx → Ctx) (m : M)
    (hin : φ .dispEnter = none) :
    let r := (block aenter aexit φ body scramble m).1
    r.dispSaw = some body ∧
    r.groupSaw = some (match φ .dispExit with | some d => some d | none => body) := by
  unfold block aenter aexit
  simp only [run, runAtom, hin]
  cases h2 : φ .groupExit <;> cases h3 : φ .dispExit <;> cases h4 : φ .metricsExit <;> simp [h2, h3, h4]

/-- C02.enter_rollback_reason: when entering the disposables fails (or is cancelled), the group is exited with
that very failure as its reason. -/
theorem enter_rollback_reason (φ : Faults) (body : Option Exc) (scramble : Ctx → Ctx) (m : M) (e : Exc)
    (hin : φ .dispEnter = some e) :
    (block aenter aexit φ body scramble m).1.groupSaw = some (some e) := by
  unfold block aenter
  simp only [run, runAtom, hin]
  cases h2 : φ .groupExit <;> cases h4 : φ .metricsExit <;> simp [h2, h4]

/-- the state part, across tasks: a task's state variable is a function of its visible frame stack, so after the
frames return to what they were the lookups are what they were (`Haiway.Tasks`, every interleaving). -/
theorem state_restored_across_tasks (ctor : Nat → Bool) (ls : List Tasks.Label) (t : Nat) (tk : Tasks.Task)
    (ht : (Tasks.exec ctor Tasks.init ls)[t]? = some tk) :
    tk.state = (Tasks.visibleOf tk.inherited tk.frames).map ScopeState.stateOf :=
  Tasks.chain_state _ _ _ (Tasks.exec_inv ctor ls Tasks.init Tasks.init_inv tk (List.mem_of_getElem? ht)).chain

/-- C02.restored_program: for **every** finite nesting of async scopes, sync scopes, `ctx.updated` blocks, `try`
blocks and raises – every depth, every number of blocks, an independent fault assignment for every block – the code
after the program (and after every statement of it, hence after every block of the tree) sees the context triple the
program started with, whether it ends normally or with an exception. -/
theorem restored_program (p : Prog) (c : Ctx) : (execProg p c).1 = c :=
  execProg_ctx p c

/-- …and the same for each single statement / block, whatever is nested in it. -/
theorem restored_statement (s : Stmt) (c : Ctx) : (execStmt s c).1 = c :=
  execStmt_ctx s c

/-! ## Non-vacuity: the flat exit procedure of the pinned tree does **not** restore -/

def φbad : Faults := fun a => if a = .dispExit then some (.user 1) else none
def m0 : M := { ctx := ⟨0, 0, 0⟩, tok := ⟨0, 0, 0⟩, new := ⟨1, 1, 1⟩ }

example : (block aenter aexitFlat φbad none id m0).1.ctx ≠ m0.ctx := by decide

/-- … and neither did `metrics exit; state exit` without a `finally` between them (the shape before the repair) when finishing the
metrics scope fails (a logger that raises on the "...finished" line): the state stayed the block's -/
example :
    let φlog : Faults := fun a => if a = .metricsExit then some (.user 3) else none
    (block senter (.seq (.atom .metricsExit) (.atom .stateExit)) φlog none id m0).1.ctx ≠ m0.ctx ∧
    (block senter sexit φlog none id m0).1.ctx = m0.ctx ∧ (block senter sexit φlog none id m0).2 = some (.user 3) := by decide

/-- non-vacuity / sensitivity: with `except Exception` in place of `except BaseException` around the disposables'
exit, a *cancelled* cleanup is not handed to the group as the exit reason (the seeded change C06-m2 / C07-m1). -/
example :
    let aexitE : Proc := .tryFinally (.tryExcept false (.atom .dispExit) (.atom .rebindReason))
      (.tryFinally (.atom .groupExit) (.seq (.atom .metricsExit) (.atom .stateExit)))
    let φ : Faults := fun a => if a = .dispExit then some .cancel else none
    (block aenter aexitE φ none id m0).1.groupSaw = some none ∧
    (block aenter aexit φ none id m0).1.groupSaw = some (some .cancel) := by decide
example : (block aenter aexit φbad none id m0).1.ctx = m0.ctx ∧
    (block aenter aexit φbad none id m0).2 = some (.user 1) := by decide

/-- a three-level program with faults in two blocks: context restored, the inner cleanup failure is what escapes -/
example :
    let inner : Stmt := .scopeA φbad ⟨5, 5, 5⟩ (.cons (.raise (.user 9)) .nil)
    let prog : Prog := .cons (.scopeS (fun _ => none) ⟨3, 3, 0⟩ (.cons (.updated (fun _ => none) ⟨4, 0, 0⟩ (.cons inner .nil)) .nil)) .nil
    execProg prog ⟨0, 0, 0⟩ = (⟨0, 0, 0⟩, some (.user 1)) := by decide +kernel

end Haiway.C02
