import Haiway.Proofs.Tasks
/-!
# C03 – tasks inherit a context snapshot and never observe each other's scopes

Model: `Haiway.Tasks`.  The labels of all tasks are interleaved arbitrarily in one sequence; the theorems hold for
every such sequence (every schedule), any number of tasks.
-/
namespace Haiway.C03
open Haiway.ScopeState Haiway.Tasks

/-- C03.frame: a step performed by task `u` leaves the record (state variable, frames, snapshot) of every other
existing task `t` unchanged – for every label and every state. -/
theorem frame (ctor : Nat → Bool) (s : Sys) (l : Label) (s' : Sys) (o : Obs)
    (hs : step ctor s l = some (s', o)) (t : Nat) (ht : l.task ≠ t) (tk : Task) (hk : s[t]? = some tk) :
    s'[t]? = some tk :=
  Tasks.frame ctor s l s' o hs t ht tk hk

/-- C03.snapshot: a task started by `t` (through `ctx.spawn` or plain task creation – both copy the context)
starts with exactly the state variable of `t` at that moment, its visible frames recorded as the snapshot, and no
frames of its own. -/
theorem snapshot (ctor : Nat → Bool) (s : Sys) (t : Nat) (s' : Sys) (o : Obs) (tk : Task)
    (hk : s[t]? = some tk) (hs : step ctor s (.spawn t) = some (s', o)) :
    s'[s.length]? = some { inherited := visibleOf tk.inherited tk.frames, state := tk.state, frames := [] } := by
  simp only [step, hk] at hs
  split at hs
  · simp at hs
  · simp only [Option.some.injEq, Prod.mk.injEq] at hs
    rw [← hs.1]; simp

/-- C03.foreign_exit_refused: a task calling `__exit__` on a block object that another task entered is refused
(`ContextVar.reset` rejects a token from another context) and changes nobody's context – not its own, not the
owner's; the owner can still leave the block normally afterwards. -/
theorem foreign_exit_refused (ctor : Nat → Bool) (s : Sys) (t b : Nat) (s' : Sys) (o : Obs)
    (hs : step ctor s (.foreignExit t b) = some (s', o)) : s' = s ∧ o = .refused := by
  simp only [step] at hs
  cases ht : s[t]? with
  | none => simp [ht] at hs
  | some tk =>
    simp only [ht] at hs
    split at hs
    · simp at hs
    · simp only [Option.some.injEq, Prod.mk.injEq] at hs
      exact ⟨hs.1.symm, hs.2.symm⟩

/-- C03.view: at every point of every interleaving, a lookup by task `t` is answered from the frames visible
where `t` was started followed by the blocks `t` entered itself – nothing else. -/
theorem view (ctor : Nat → Bool) (ls : List Label) (t ty : Nat) (d : Bool) (tk : Task)
    (ht : (exec ctor init ls)[t]? = some tk) :
    lookupObs ctor tk.state ty d = specObs ctor (visibleOf tk.inherited tk.frames) ty d :=
  lookupObs_eq_spec ctor tk (exec_inv ctor ls init init_inv tk (List.mem_of_getElem? ht)) ty d

/-- C03.schedule_independent: the record of task `t` (hence everything it can observe) after any interleaved
history is the one it reaches by running only its own labels: the labels of the other tasks – parent, siblings,
children – can be inserted, removed or permuted at will without effect on `t`. -/
theorem schedule_independent (ctor : Nat → Bool) (t : Nat) (ls : List Label) (s : Sys) (tk : Task)
    (h : s[t]? = some tk) :
    (exec ctor s ls)[t]? = (exec ctor s (ls.filter (fun l => l.task == t)))[t]? :=
  own_history ctor t ls s s tk h h

/-- corollary: two interleavings with the same projection on `t` give `t` the same record. -/
theorem same_projection_same_view (ctor : Nat → Bool) (t : Nat) (ls₁ ls₂ : List Label) (s : Sys) (tk : Task)
    (h : s[t]? = some tk)
    (hp : ls₁.filter (fun l => l.task == t) = ls₂.filter (fun l => l.task == t)) :
    (exec ctor s ls₁)[t]? = (exec ctor s ls₂)[t]? := by
  rw [schedule_independent ctor t ls₁ s tk h, schedule_independent ctor t ls₂ s tk h, hp]

/-! ## Non-vacuity: parent, sibling and earlier-started child entering scopes for the same type -/

def ctor2 : Nat → Bool := fun t => t < 2

example :
    run ctor2 init
      [ .enter 0 1 [⟨0, 1⟩] [], .spawn 0, .spawn 0,          -- tasks 1, 2 see T0=1
        .enter 1 2 [⟨0, 2⟩] [], .enter 0 3 [⟨0, 3⟩] [], .enter 2 4 [⟨0, 4⟩] [],
        .probe 0 0 false, .probe 1 0 false, .probe 2 0 false,
        .left 1 2, .probe 1 0 false, .left 0 3, .left 0 1, .probe 0 0 false, .probe 2 0 false,
        .left 2 4, .probe 2 0 false ]
    = [ some .none, some .none, some .none, some .none, some .none, some .none,
        some (.supplied ⟨0, 3⟩), some (.supplied ⟨0, 2⟩), some (.supplied ⟨0, 4⟩),
        some .none, some (.supplied ⟨0, 1⟩), some .none, some .none, some .missingContext,
        some (.supplied ⟨0, 4⟩), some .none, some (.supplied ⟨0, 1⟩) ] := by decide

end Haiway.C03
