import Haiway.Proofs.StateStable
/-!
# C04 – State instances are immutable values with copy-on-update semantics

Property theorems only.  Model: `Haiway.StateObj` (`init`, `updated`, `copy`, `deepcopy`, `setattr`,
`delattr`, `asDict`, `pyEq` = Python's `==` incl. `State.__eq__` and the reflected-operand dispatch)
over `Haiway.Validate.validate`.  In the model an instance is a value (`PyVal.inst cls id fields`):
no operation can change an existing instance, so "the original is left untouched" holds by
construction; that the *real* objects behave like such values is what `frozen`, `setattr_rejected`
and the correspondence run (mutation attempts, `as_dict` before/after) establish.
-/
namespace Haiway.C04
open Haiway.Validate Haiway.StateObj

/-- C04.frozen: every container reached in a validated value through Sequence / tuple / Set / Mapping
annotations is an immutable constructor (tuple, frozenset, mappingproxy over a fresh dict) – no
caller-owned list/set/dict is retained there.  Positions annotated `Any` (and nominal / Protocol
positions, which keep the caller's object as it is) are excluded: `Frozen` claims nothing below them. -/
theorem frozen (env : ClsEnv) (a : Ann) (v w : PyVal) (h : validate env a v = .ok w) : Frozen a w :=
  frozen_of_validate a v w h

/-- … for every attribute of a constructed instance. -/
theorem frozen_instance (env : ClsEnv) (cd : ClassDef) (kw : List (String × PyVal)) (oid c i : Nat)
    (fs : List (String × PyVal)) (h : init env cd kw oid = .ok (.inst c i fs)) :
    ∀ p ∈ cd.attrs.zip fs, Frozen p.1.ann p.2.2 := by
  unfold init at h
  obtain ⟨fs', hfs, heq⟩ := map_ok h
  cases heq
  rw [initFields_ok_iff] at hfs
  exact fun p hp => frozen_of_validate _ _ _ (hfs.2 p hp).2

/-- C04.revalidate_id: re-validation (as done by `updated` for the attributes that are not replaced)
is the identity on stored values.  Hypothesis `Plain`: the nominal classes of the annotation reject
the builtin containers (false only for protocols such as `Sized`, which a list satisfies). -/
theorem revalidate_id (env : ClsEnv) (a : Ann) (v w : PyVal) (h : validate env a v = .ok w)
    (hp : Plain env a) : validate env a w = .ok w :=
  revalidate_id' a v w h hp

/-- the fields of a constructed instance are `Stable` (names, re-validation identity, MISSING re-defaults) -/
theorem constructed_stable (env : ClsEnv) (cd : ClassDef) (kw : List (String × PyVal)) (oid c i : Nat)
    (fs : List (String × PyVal)) (hnd : (cd.attrs.map (·.name)).Nodup) (hplain : ∀ a ∈ cd.attrs, Plain env a.ann)
    (h : init env cd kw oid = .ok (.inst c i fs)) : Stable env cd fs := by
  unfold init at h
  obtain ⟨fs', hfs, heq⟩ := map_ok h
  cases heq
  exact initFields_stable hnd hplain hfs

/-- C04.updated_exact: `updated` fails iff a named, known replacement does not conform; on success it
yields an instance of the same class in which exactly the named known attributes are replaced by
their validated replacement and every other attribute keeps its value. -/
theorem updated_exact (env : ClsEnv) (cd : ClassDef) (fs kw : List (String × PyVal)) (oid : Nat)
    (hs : Stable env cd fs) :
    ((∃ s, updated env cd fs kw oid = .ok s) ↔
        ∀ a ∈ cd.attrs, (kw.lookup a.name).isSome = true → Conforms env a.ann (effective a kw)) ∧
    (∀ s, updated env cd fs kw oid = .ok s →
      ∃ fs', s = .inst cd.id oid fs' ∧ fs'.map (·.1) = fs.map (·.1) ∧
        ∀ a ∈ cd.attrs,
          ((kw.lookup a.name).isSome = true →
            validate env a.ann (effective a kw) = .ok (getField fs' a.name)) ∧
          ((kw.lookup a.name).isSome = false → getField fs' a.name = getField fs a.name)) :=
  ⟨updated_succeeds_iff hs kw oid, fun s h => updated_fields hs kw oid s h⟩

/-- … unknown names are ignored. -/
theorem updated_ignores_unknown (env : ClsEnv) (cd : ClassDef) (fs kw : List (String × PyVal)) (oid : Nat)
    (n : String) (v : PyVal) (hn : ∀ a ∈ cd.attrs, a.name ≠ n) :
    updated env cd fs ((n, v) :: kw) oid = updated env cd fs kw oid := by
  unfold updated init
  congr 1
  have : ∀ attrs : List Attr, (∀ a ∈ attrs, a.name ≠ n) →
      initFields env ((n, v) :: kw ++ fs) attrs = initFields env (kw ++ fs) attrs := by
    intro attrs
    induction attrs with
    | nil => intro _; simp [initFields]
    | cons a attrs ih =>
      intro h
      have hne : (a.name == n) = false := by simpa using h a (by simp)
      have he : effective a ((n, v) :: kw ++ fs) = effective a (kw ++ fs) := by
        simp [effective, List.lookup, hne]
      unfold initFields
      rw [he, ih (fun b hb => h b (by simp [hb]))]
  exact this cd.attrs hn

/-- … and the result is again stable, so the statement applies along any chain of updates. -/
theorem updated_stable (env : ClsEnv) (cd : ClassDef) (fs kw : List (String × PyVal)) (oid c i : Nat)
    (fs' : List (String × PyVal)) (hnd : (cd.attrs.map (·.name)).Nodup) (hplain : ∀ a ∈ cd.attrs, Plain env a.ann)
    (h : updated env cd fs kw oid = .ok (.inst c i fs')) : Stable env cd fs' :=
  constructed_stable env cd (kw ++ fs) oid c i fs' hnd hplain h

/-- `pyEq` behaves as an equivalence on the value domain `V` (e.g. values without NaN). -/
structure ValEquiv (env : ClsEnv) (V : PyVal → Prop) : Prop where
  refl : ∀ x, V x → pyEq env x x = true
  symm : ∀ x y, V x → V y → pyEq env x y = true → pyEq env y x = true
  trans : ∀ x y z, V x → V y → V z → pyEq env x y = true → pyEq env y z = true → pyEq env x z = true

/-- class table hypotheses: `issubclass` is reflexive and antisymmetric -/
structure SubOrder (env : ClsEnv) : Prop where
  refl : ∀ c, env.sub c c = true
  anti : ∀ c d, env.sub c d = true → env.sub d c = true → c = d

/-- an instance whose attributes are those of its class (`names c`, pairwise distinct) with values in `V` -/
structure WFInst (names : Nat → List String) (V : PyVal → Prop) (c : Nat) (fs : List (String × PyVal)) : Prop where
  names_eq : fs.map (·.1) = names c
  nodup : (names c).Nodup
  vals : ∀ p ∈ fs, V p.2

/-- C04.eq_iff_same_class_and_fields: `a == b` holds exactly when the classes are the same – never
across base/derived or generic/specialised pairs, in either operand order – and all attribute values
are equal. -/
theorem eq_iff_same_class_and_fields (env : ClsEnv) (ho : SubOrder env) (c i d j : Nat)
    (fa fb : List (String × PyVal)) :
    pyEq env (.inst c i fa) (.inst d j fb) = true ↔
      c = d ∧ ∀ p ∈ fa, pyEq env p.2 (getField fb p.1) = true :=
  pyEq_inst_iff env ho.refl ho.anti c i d j fa fb

/-- the same, attribute by attribute, for two well-formed instances -/
theorem eq_iff_pointwise (env : ClsEnv) (ho : SubOrder env) (names : Nat → List String) (V : PyVal → Prop)
    (c i d j : Nat) (fa fb : List (String × PyVal)) (ha : WFInst names V c fa) (hb : WFInst names V d fb) :
    pyEq env (.inst c i fa) (.inst d j fb) = true ↔
      c = d ∧ ∀ q ∈ fa.zip fb, pyEq env q.1.2 q.2.2 = true := by
  rw [eq_iff_same_class_and_fields env ho]
  constructor
  · rintro ⟨rfl, h⟩
    exact ⟨rfl, (fields_pointwise (fun x y => pyEq env x y = true) fa fb (by rw [ha.names_eq, hb.names_eq])
      (by rw [ha.names_eq]; exact ha.nodup)).mp h⟩
  · rintro ⟨rfl, h⟩
    exact ⟨rfl, (fields_pointwise (fun x y => pyEq env x y = true) fa fb (by rw [ha.names_eq, hb.names_eq])
      (by rw [ha.names_eq]; exact ha.nodup)).mpr h⟩

/-- C04.eq_equivalence (reflexive) -/
theorem eq_refl (env : ClsEnv) (ho : SubOrder env) (names : Nat → List String) (V : PyVal → Prop)
    (hv : ValEquiv env V) (c i : Nat) (fa : List (String × PyVal)) (ha : WFInst names V c fa) :
    pyEq env (.inst c i fa) (.inst c i fa) = true := by
  rw [eq_iff_pointwise env ho names V c i c i fa fa ha ha]
  refine ⟨rfl, fun q hq => ?_⟩
  obtain ⟨he, hm⟩ := mem_zip_self fa q hq
  rw [← he]
  exact hv.refl _ (ha.vals _ hm)

/-- C04.eq_equivalence (symmetric, at operator level: both operand orders agree) -/
theorem eq_symm (env : ClsEnv) (ho : SubOrder env) (names : Nat → List String) (V : PyVal → Prop)
    (hv : ValEquiv env V) (c i d j : Nat) (fa fb : List (String × PyVal))
    (ha : WFInst names V c fa) (hb : WFInst names V d fb)
    (h : pyEq env (.inst c i fa) (.inst d j fb) = true) : pyEq env (.inst d j fb) (.inst c i fa) = true := by
  rw [eq_iff_pointwise env ho names V c i d j fa fb ha hb] at h
  rw [eq_iff_pointwise env ho names V d j c i fb fa hb ha]
  obtain ⟨rfl, h⟩ := h
  refine ⟨rfl, fun q hq => ?_⟩
  have hq' := mem_zip_swap fa fb q.2 q.1 hq
  exact hv.symm _ _ (ha.vals _ (List.of_mem_zip hq').1) (hb.vals _ (List.of_mem_zip hq').2) (h _ hq')

/-- C04.eq_equivalence (transitive) -/
theorem eq_trans (env : ClsEnv) (ho : SubOrder env) (names : Nat → List String) (V : PyVal → Prop)
    (hv : ValEquiv env V) (c i d j e k : Nat) (fa fb fc : List (String × PyVal))
    (ha : WFInst names V c fa) (hb : WFInst names V d fb) (hc : WFInst names V e fc)
    (h1 : pyEq env (.inst c i fa) (.inst d j fb) = true) (h2 : pyEq env (.inst d j fb) (.inst e k fc) = true) :
    pyEq env (.inst c i fa) (.inst e k fc) = true := by
  rw [eq_iff_pointwise env ho names V c i d j fa fb ha hb] at h1
  rw [eq_iff_pointwise env ho names V d j e k fb fc hb hc] at h2
  rw [eq_iff_pointwise env ho names V c i e k fa fc ha hc]
  obtain ⟨rfl, h1⟩ := h1
  obtain ⟨rfl, h2⟩ := h2
  refine ⟨rfl, ?_⟩
  have hl1 : fa.length = fb.length := by
    have := congrArg List.length (ha.names_eq.trans hb.names_eq.symm); simpa using this
  have hl2 : fb.length = fc.length := by
    have := congrArg List.length (hb.names_eq.trans hc.names_eq.symm); simpa using this
  have key : ∀ (xs ys zs : List (String × PyVal)), xs.length = ys.length → ys.length = zs.length →
      ∀ q ∈ xs.zip zs, ∃ y, (q.1, y) ∈ xs.zip ys ∧ (y, q.2) ∈ ys.zip zs := by
    intro xs
    induction xs with
    | nil => intro ys zs _ _ q hq; simp at hq
    | cons x xs ih =>
      intro ys zs e1 e2 q hq
      cases ys with
      | nil => simp at e1
      | cons y ys =>
        cases zs with
        | nil => simp at e2
        | cons z zs =>
          simp only [List.zip_cons_cons, List.mem_cons] at hq ⊢
          rcases hq with rfl | hq
          · exact ⟨y, Or.inl rfl, Or.inl rfl⟩
          · obtain ⟨y', g1, g2⟩ := ih ys zs (by simpa using e1) (by simpa using e2) q hq
            exact ⟨y', Or.inr g1, Or.inr g2⟩
  intro q hq
  obtain ⟨y, g1, g2⟩ := key fa fb fc hl1 hl2 q hq
  exact hv.trans _ _ _ (ha.vals _ (List.of_mem_zip g1).1) (hb.vals _ (List.of_mem_zip g1).2)
    (hc.vals _ (List.of_mem_zip g2).2) (h1 _ g1) (h2 _ g2)

/-- C04.copy_eq / C04.deepcopy_eq: a copy and a deep copy are equal to the original (`==`, both
operand orders) and have the same `as_dict`. -/
theorem copy_eq (env : ClsEnv) (ho : SubOrder env) (names : Nat → List String) (V : PyVal → Prop)
    (hv : ValEquiv env V) (c i : Nat) (fa : List (String × PyVal)) (ha : WFInst names V c fa) :
    pyEq env (.inst c i fa) (copy (.inst c i fa)) = true ∧ pyEq env (copy (.inst c i fa)) (.inst c i fa) = true :=
  ⟨eq_refl env ho names V hv c i fa ha, eq_refl env ho names V hv c i fa ha⟩

theorem deepcopy_eq (env : ClsEnv) (ho : SubOrder env) (names : Nat → List String) (V : PyVal → Prop)
    (hv : ValEquiv env V) (c i : Nat) (fa : List (String × PyVal)) (ha : WFInst names V c fa) :
    pyEq env (.inst c i fa) (deepcopy (.inst c i fa)) = true ∧
      pyEq env (deepcopy (.inst c i fa)) (.inst c i fa) = true :=
  ⟨eq_refl env ho names V hv c i fa ha, eq_refl env ho names V hv c i fa ha⟩

/-- C04.setattr_rejected: assignment and deletion of any attribute, known or not, raise. -/
theorem setattr_rejected (s : PyVal) (n : String) (v : PyVal) :
    setattr s n v = .error .immutable ∧ delattr s n = .error .immutable := ⟨rfl, rfl⟩

/-! ## Non-vacuity -/

/-- `bool <: int`, `Sub(41) <: Inner(40)` -/
def env0 : ClsEnv := ⟨fun c d => c == d || (c == cBool && d == cInt) || (c == 41 && d == 40)⟩

/-- derived vs base with equal attribute values: `==` is False in both operand orders (the reflected
`Sub.__eq__` is tried first and its answer is final), while equal values of one class compare equal
across `1 == True` and `(…)`-vs-list conversions. -/
example :
    pyEq env0 (.inst 40 1 [("n", .int 1)]) (.inst 41 2 [("n", .int 1), ("m", .str "")]) = false
    ∧ pyEq env0 (.inst 41 2 [("n", .int 1), ("m", .str "")]) (.inst 40 1 [("n", .int 1)]) = false
    ∧ pyEq env0 (.inst 40 1 [("n", .int 1)]) (.inst 40 3 [("n", .bool true)]) = true := by
  simp [pyEq_inst, fieldsEq, fieldEq, pyEq, numOf, env0, cBool, cInt]

/-- a value domain on which `pyEq` is an equivalence: integers -/
example : ValEquiv env0 (fun v => ∃ i, v = .int i) where
  refl := by rintro _ ⟨i, rfl⟩; simp [pyEq, numOf]
  symm := by rintro _ _ ⟨i, rfl⟩ ⟨j, rfl⟩ h; simp [pyEq, numOf] at h ⊢; omega
  trans := by rintro _ _ _ ⟨i, rfl⟩ ⟨j, rfl⟩ ⟨k, rfl⟩ h1 h2; simp [pyEq, numOf] at h1 h2 ⊢; omega

example : Plain env0 (.union [.seq (.nominal cInt), .none]) :=
  .union (by
    intro a ha
    simp only [List.mem_cons, List.not_mem_nil, or_false] at ha
    rcases ha with rfl | rfl
    · exact .seq (.nominal (by intro v hv; cases v <;> simp [isContainer] at hv <;>
        simp [isInst, classOf, env0, cList, cTuple, cSet, cFrozenset, cDict, cMappingProxy, cInt, cBool]))
    · exact .none)

end Haiway.C04
