import Haiway.Proofs.StateInit
import Haiway.Proofs.ClassSound
/-!
# C05 – State construction accepts exactly conforming values and stores them faithfully

Property theorems only.  Model: `Haiway.Validate.validate` (the validator factories of
`haiway/state/validation.py`), `Haiway.Resolve.resolve` (`attributes.py`), `Haiway.StateObj.init`
(`State.__init__`).  Spec side: `Conforms`, `Stored`, `Hashable` in `Haiway/Spec/Conforms.lean`.
All statements hold for every class table, annotation and value (no bound on size or depth).
-/
namespace Haiway.C05
open Haiway.Validate Haiway.StateObj Haiway.Resolve

/-- C05.accepts_iff_conforms: a validator accepts a value exactly when the value conforms to the
annotation (recursively through unions, literals, nominal classes, sequences, sets, mappings and
fixed / variadic tuples). -/
theorem accepts_iff_conforms (env : ClsEnv) (a : Ann) (v : PyVal) :
    (∃ w, validate env a v = .ok w) ↔ Conforms env a v :=
  accepts_iff_conforms' env a v

/-- … and otherwise raises. -/
theorem rejects_iff_not_conforms (env : ClsEnv) (a : Ann) (v : PyVal) :
    (∃ e, validate env a v = .error e) ↔ ¬ Conforms env a v :=
  Haiway.Validate.rejects_iff_not_conforms env a v

/-- C05.stored_faithfully: what is stored is the documented immutable conversion of the argument:
leaves are the same objects, containers keep length and order with element `i` the conversion of
element `i`, a union converts by its first conforming alternative. -/
theorem stored_faithfully (env : ClsEnv) (a : Ann) (v w : PyVal) (h : validate env a v = .ok w) :
    Stored env a v w :=
  stored_of_validate a v w h

/-- `Stored` spelled out for sequences: same length, same order, element `i` is the validated element `i`. -/
theorem stored_sequence (env : ClsEnv) (a : Ann) (v w : PyVal) (xs : List PyVal)
    (hs : seqElems v = some xs) (h : validate env (.seq a) v = .ok w) :
    ∃ ys, w = .tuple ys ∧ ys.length = xs.length ∧
      ∀ (i : Nat) (h1 : i < xs.length) (h2 : i < ys.length), validate env a xs[i] = .ok ys[i] := by
  unfold validate at h
  simp only [hs] at h
  obtain ⟨ys, hys, rfl⟩ := map_ok h
  rw [validateAll_ok_iff] at hys
  refine ⟨ys, rfl, hys.1.symm, fun i h1 h2 => ?_⟩
  have : (xs[i], ys[i]) ∈ xs.zip ys := by
    have hi : i < (xs.zip ys).length := by simp; omega
    have := List.getElem_mem hi
    simpa using this
  exact hys.2 _ this

/-- `Stored` spelled out for mappings: no pair is added, dropped or split, pair `i` of the result is the
validated key and the validated value of pair `i` of the argument. -/
theorem stored_mapping (env : ClsEnv) (k w : Ann) (v out : PyVal) (kvs : List (PyVal × PyVal))
    (hs : mapElems v = some kvs) (h : validate env (.map k w) v = .ok out) :
    ∃ r, out = .mproxy r ∧ r.length = kvs.length ∧
      ∀ (i : Nat) (h1 : i < kvs.length) (h2 : i < r.length),
        validate env k kvs[i].1 = .ok r[i].1 ∧ validate env w kvs[i].2 = .ok r[i].2 := by
  unfold validate at h
  simp only [hs] at h
  obtain ⟨r, hr, rfl⟩ := map_ok h
  rw [validateKVs_ok_iff] at hr
  refine ⟨r, rfl, hr.1.symm, fun i h1 h2 => ?_⟩
  have : (kvs[i], r[i]) ∈ kvs.zip r := by
    have hi : i < (kvs.zip r).length := by simp; omega
    have := List.getElem_mem hi
    simpa using this
  exact hr.2 _ this

/-- … and nothing is re-keyed: the keys of the stored mapping are the keys of the argument, in the
same order.  Hypothesis (stated): the keys are hashable values – which Python guarantees for the keys
of any real mapping; validation is the identity on hashable values (`stored_hashable_unchanged`), so
in particular distinct keys stay distinct. -/
theorem stored_mapping_keys (env : ClsEnv) (k w : Ann) (v : PyVal) (kvs r : List (PyVal × PyVal))
    (hs : mapElems v = some kvs) (hk : ∀ p ∈ kvs, Hashable p.1)
    (h : validate env (.map k w) v = .ok (.mproxy r)) : r.map (·.1) = kvs.map (·.1) :=
  map_keys_preserved hs hk h

/-- validation returns hashable values (set elements, mapping keys) unchanged. -/
theorem stored_hashable_unchanged (env : ClsEnv) (a : Ann) (v w : PyVal)
    (h : validate env a v = .ok w) (hv : Hashable v) : w = v :=
  hashable_fixed a v w h hv

/-- C05.init_iff: construction succeeds iff every supplied-or-defaulted attribute value conforms to
its annotation (`effective` = the argument, or the default when the argument is absent or MISSING,
or MISSING when there is no default either). -/
theorem init_iff (env : ClsEnv) (cd : ClassDef) (kwargs : List (String × PyVal)) (oid : Nat) :
    (∃ s, init env cd kwargs oid = .ok s) ↔ ∀ a ∈ cd.attrs, Conforms env a.ann (effective a kwargs) := by
  rw [← initFields_accepts_iff]
  unfold init
  cases initFields env kwargs cd.attrs <;> simp [Except.map]

/-- … otherwise it raises and no instance exists. -/
theorem init_raises_iff (env : ClsEnv) (cd : ClassDef) (kwargs : List (String × PyVal)) (oid : Nat) :
    (∃ e, init env cd kwargs oid = .error e) ↔ ∃ a ∈ cd.attrs, ¬ Conforms env a.ann (effective a kwargs) := by
  have h := init_iff env cd kwargs oid
  cases hi : init env cd kwargs oid with
  | error e =>
    rw [hi] at h
    simp only [reduceCtorEq, exists_false, false_iff] at h
    simpa using h
  | ok s =>
    rw [hi] at h
    simp only [Except.ok.injEq, exists_eq', true_iff] at h
    simp only [reduceCtorEq, exists_false, false_iff]
    rintro ⟨a, ha, hn⟩
    exact hn (h a ha)

/-- on success the instance is of the constructed class and carries exactly the declared attributes,
in declaration order, each holding the documented conversion of its effective value. -/
theorem init_stores (env : ClsEnv) (cd : ClassDef) (kwargs : List (String × PyVal)) (oid : Nat) (s : PyVal)
    (h : init env cd kwargs oid = .ok s) :
    ∃ fs, s = .inst cd.id oid fs ∧ fs.map (·.1) = cd.attrs.map (·.name) ∧
      ∀ p ∈ cd.attrs.zip fs, Stored env p.1.ann (effective p.1 kwargs) p.2.2 := by
  unfold init at h
  obtain ⟨fs, hfs, rfl⟩ := map_ok h
  rw [initFields_ok_iff] at hfs
  refine ⟨fs, rfl, ?_, fun p hp => stored_of_validate _ _ _ (hfs.2 p hp).2⟩
  obtain ⟨hl, hall⟩ := hfs
  clear h
  generalize cd.attrs = attrs at hl hall
  induction attrs generalizing fs with
  | nil => cases fs <;> simp_all
  | cons a attrs ih =>
    cases fs with
    | nil => simp at hl
    | cons f fs =>
      simp only [List.map_cons, List.cons.injEq]
      exact ⟨(hall (a, f) (by simp)).1, ih fs (by simpa using hl) (fun p hp => hall p (by simp [hp]))⟩

/-- C05.resolve_sound: the annotation tree produced by the resolver denotes exactly what the surface
annotation means (`den`, `Haiway/Spec/Surface.lean`): `Optional[t]` = `t` or None, `frozenset`/`Set`
and `Annotated`/`Final` wrappers, `Self` (the class under construction; `Any` where the code cannot
resolve it), forward references, type variables (class / alias argument, else bound, else `Any`),
plain and parametrised aliases (body under the bindings of its parameters), generic specialisation
(the class registered for the resolved arguments). -/
theorem resolve_sound (env : ClsEnv) (E : StaticEnv) (als : List AliasDef) (self : Option Nat)
    (tp : List (String × Ann)) (e : TyExpr) (a : Ann) (h : resolve E als self tp e = .ok a) (v : PyVal) :
    Conforms env a v ↔ den env E als self tp e v :=
  (resolve_sound_all (env := env) (E := E)).1 als self tp e a h v

/-- … hence a class built from surface annotations accepts a constructor call iff every effective
value conforms to the annotation *as written*. -/
theorem init_iff_surface (env : ClsEnv) (E : StaticEnv) (als : List AliasDef) (id : Nat)
    (tp : List (String × Ann)) (srcs : List AttrSrc) (attrs : List Attr)
    (hc : mkClass E als id tp srcs = .ok attrs) (kwargs : List (String × PyVal)) (oid : Nat) :
    (∃ s, init env { id := id, attrs := attrs } kwargs oid = .ok s) ↔
      ∀ q ∈ srcs.zip attrs, den env E als (some id) tp q.1.ty (effective q.2 kwargs) := by
  rw [init_iff]
  have hs := mkClass_sound (env := env) srcs attrs hc
  constructor
  · intro h q hq
    exact ((hs.2 q hq).2.2 _).mp (h q.2 (List.of_mem_zip hq).2)
  · intro h a ha
    obtain ⟨s, hsq⟩ := mem_zip_of_mem_right srcs attrs hs.1 a ha
    exact ((hs.2 _ hsq).2.2 _).mpr (h _ hsq)

/-! ## Non-vacuity: concrete conforming / non-conforming inputs -/

/-- class table with `bool <: int` only -/
def env0 : ClsEnv := ⟨fun c d => c == d || (c == cBool && d == cInt)⟩

/-- `Mapping[str, Sequence[int]]` accepts `{"ab": [1, True]}` and stores `mappingproxy({"ab": (1, True)})` -/
example : validate env0 (.map (.nominal cStr) (.seq (.nominal cInt)))
      (.dict [(.str "ab", .list [.int 1, .bool true])])
    = .ok (.mproxy [(.str "ab", .tuple [.int 1, .bool true])]) := by
  simp [validate, validateKVs, validateAll, mapElems, seqElems, isInst, classOf, env0, Except.map,
    cStr, cInt, cBool]

/-- `Literal[1]` rejects `True` (PEP 586: the type is part of a literal) and `tuple[int, str]` rejects a
tuple of the wrong length; a `str` is not a `Sequence[str]` for the validator. -/
example : validate env0 (.literal [.int 1]) (.bool true) = .error .value
    ∧ validate env0 (.tupleFixed [.nominal cInt, .nominal cStr]) (.tuple [.int 1]) = .error .value
    ∧ validate env0 (.seq (.nominal cStr)) (.str "ab") = .error .type := by
  simp [validate, primOf, seqElems]

/-- `type L[P] = Sequence[P]`; `L[int]` resolves to `Sequence[int]` (the alias argument is applied) -/
example : resolve {} [{ name := "L", params := ["P"], body := .seq (.tvar "P") }] (some 100) []
    (.alias "L" [.cls cInt]) = .ok (.seq (.nominal cInt)) := by
  simp [resolve, resolveList, findAlias, Except.map, List.lookup]

example : Hashable (.tuple [.int 1, .fset [.str "a"]]) :=
  .tuple (by
    intro x hx
    simp only [List.mem_cons, List.not_mem_nil, or_false] at hx
    rcases hx with rfl | rfl
    · exact .int 1
    · exact .fset (by intro y hy; simp only [List.mem_cons, List.not_mem_nil, or_false] at hy; subst hy; exact .str "a"))

end Haiway.C05
