import Haiway.Proofs.Groups
import Haiway.Proofs.GroupsDepth
/-!
# C06 – structured concurrency: spawned tasks never outlive their scope

Property theorems only.  Model: `Haiway.Groups` (`Haiway/Model/Groups.lean`): product LTS of all tasks with CPython 3.12.1
`TaskGroup` bookkeeping and haiway's `TaskGroupContext` / `ScopeContext.__aexit__` / `ctx.spawn`.  Every statement
quantifies over **every** label sequence the LTS accepts (`run init ls = some s`, i.e. `Reach s`): all programs, all body
outcomes, all interleavings of task steps, gate releases, failures and cancellations, any number of tasks.

"Spawned into the scope's group" is the model's `member` field; `spawn_joins_visible_group`,
`visible_group_through_sync_scopes`, `visible_group_inside_async_scope` and `member_spawns_into_its_group` say that it is
set exactly as the property describes: from the body, from nested synchronous scopes / updates, and transitively from
tasks spawned into the group.
-/
namespace Haiway.C06
open Haiway.Groups

/-! ### which group a spawn joins -/

/-- `ctx.spawn` puts the new task into the group visible to the spawner and hands that group on to it. -/
theorem spawn_joins_visible_group (s s' : Sys) (t c g : Nat) (hs : step s (.spawn t c true) = some s')
    (hv : ctxGroup (s.tasks t) = some g) :
    (s'.tasks c).member = some g ∧ (s'.tasks c).base = some g ∧ c ∈ (s'.groups g).members := by
  simp only [step] at hs
  split at hs
  · simp only [↓reduceIte, hv] at hs
    split at hs
    · simp at hs
    · simp only [Option.some.injEq] at hs; subst hs; simp
  · simp at hs

/-- inside an async scope block `b` (directly in its body) the visible group is `b`'s -/
theorem visible_group_inside_async_scope (T : Task) (b : Nat) (rest : List Frame) (h : T.frames = ⟨b, true⟩ :: rest) :
    ctxGroup T = some b := by
  simp [ctxGroup, h, asyncGroups_cons]

/-- nested synchronous scopes and `ctx.updated` blocks do not hide the enclosing async scope's group -/
theorem visible_group_through_sync_scopes (T : Task) (b : Nat) (rest : List Frame) (h : T.frames = ⟨b, false⟩ :: rest) :
    ctxGroup T = ctxGroup { T with frames := rest } := by
  simp [ctxGroup, h, asyncGroups_cons]

/-- a task spawned into a group (and any task created with plain `create_task` under it) sees that group until it
enters an async scope of its own: what it spawns joins the same group (transitivity) -/
theorem member_spawns_into_its_group (T : Task) (g : Nat) (hb : T.base = some g) (hf : asyncGroups T.frames = []) :
    ctxGroup T = some g := by
  simp [ctxGroup, hf, hb]

/-! ### C06.all_done_at_exit -/

/-- **C06.all_done_at_exit.** In every reachable state, when control leaves an async scope block `b` – with any
outcome `o`, by any path – every task that was spawned into `b`'s group is done. -/
theorem all_done_at_exit (ls : List Label) (s s' : Sys) (t b : Nat) (o : Outcome)
    (hr : run init ls = some s) (hs : step s (.left t b o) = some s')
    (hasync : ∃ rest, (s.tasks t).frames = ⟨b, true⟩ :: rest) :
    ∀ c, (s.tasks c).member = some b → isDone (s.tasks c) = true := by
  have hwf : Wf s := Reach.wf ⟨ls, hr⟩
  obtain ⟨rest, hfr⟩ := hasync
  intro c hm
  cases hd : isDone (s.tasks c) with
  | true => rfl
  | false =>
    have hin := hwf.mem c b hm hd
    simp only [step, hfr, ↓reduceIte] at hs
    split at hs
    · split at hs
      · rename_i hc
        have : (s.groups b).members = [] := by simpa using hc.2.1
        rw [this] at hin; cases hin
      · simp at hs
    · simp at hs

/-! ### C06.abort_on_failure -/

theorem run_snoc (s s1 s2 : Sys) (ls : List Label) (l : Label) (h1 : run s ls = some s1) (h2 : step s1 l = some s2) :
    run s (ls ++ [l]) = some s2 := by
  induction ls generalizing s with
  | nil => simp only [run, Option.some.injEq] at h1; subst h1; simp [run, h2]
  | cons x xs ih =>
    simp only [run, List.cons_append] at h1 ⊢
    cases hx : step s x with
    | none => simp [hx] at h1
    | some s' => simp only [hx] at h1 ⊢; exact ih s' h1

/-- **C06.abort_on_failure.** If the body of an async scope block ends with an exception or a cancellation, then at
that moment – before the wait for the members begins – the group is aborting and every member that is not yet done
has been asked to cancel (`Task.cancel()` was called on it). -/
theorem abort_on_failure (ls : List Label) (s s' : Sys) (t b : Nat) (o : Outcome)
    (hr : run init ls = some s) (hs : step s (.bodyEnd t b o) = some s') (ho : o ≠ .ok) :
    (s'.groups b).aborting = true ∧
    ∀ c, (s'.tasks c).member = some b → isDone (s'.tasks c) = false → 0 < (s'.tasks c).asks := by
  have hwf' : Wf s' := Reach.wf ⟨ls ++ [.bodyEnd t b o], run_snoc _ _ _ _ _ hr hs⟩
  have hab : (s'.groups b).aborting = true := by
    simp only [step] at hs
    split at hs
    · split at hs
      · simp only [Option.some.injEq] at hs; subst hs
        unfold beginExit
        simp only
        split
        · simp
        · rename_i hc
          have : (s.groups b).aborting = true := by
            cases ha : (s.groups b).aborting with
            | true => rfl
            | false => simp [ha, ho] at hc
          simp [exitGroup, this]
      · simp at hs
    · simp at hs
  refine ⟨hab, ?_⟩
  intro c hm hd
  have hin := hwf'.mem c b hm hd
  have hna := (hwf'.listed b c hin).2
  refine hwf'.aborted b c hab hin ?_
  unfold isLive; unfold isDone at hd
  cases hst : (s'.tasks c).status <;> simp_all

/-- **C06.abort_on_failure** for scopes with disposables: when their cleanup is over and the group exit begins with an
exit reason that is an exception or a cancellation – the body's, a disposable's, or a cancellation delivered to the
scope's task *while the cleanup was awaited* – the group is aborting and every member not yet done has been asked
to cancel before the wait begins. -/
theorem abort_on_exit_failure (ls : List Label) (s s' : Sys) (t b : Nat) (o : Outcome) (consumed : Bool)
    (hr : run init ls = some s) (hs : step s (.cleanupEnd t b o consumed) = some s') (ho : o ≠ .ok) :
    (s'.groups b).aborting = true ∧
    ∀ c, (s'.tasks c).member = some b → isDone (s'.tasks c) = false → 0 < (s'.tasks c).asks := by
  have hwf' : Wf s' := Reach.wf ⟨ls ++ [.cleanupEnd t b o consumed], run_snoc _ _ _ _ _ hr hs⟩
  have key : ∀ (S : Sys) (o' : Outcome), o' ≠ .ok → ((beginExit S t b o').groups b).aborting = true := by
    intro S o' ho'
    unfold beginExit
    simp only
    split
    · simp
    · rename_i hc
      have : (S.groups b).aborting = true := by
        cases ha : (S.groups b).aborting with
        | true => rfl
        | false => simp [ha, ho'] at hc
      simp [exitGroup, this]
  have hab : (s'.groups b).aborting = true := by
    simp only [step] at hs
    split at hs
    · split at hs
      · split at hs
        · split at hs
          · simp only [Option.some.injEq] at hs; subst hs; exact key _ _ (by simp)
          · simp at hs
        · split at hs
          · simp only [Option.some.injEq] at hs; subst hs; exact key _ _ ho
          · simp at hs
      · simp at hs
    · simp at hs
  refine ⟨hab, ?_⟩
  intro c hm hd
  have hin := hwf'.mem c b hm hd
  have hna := (hwf'.listed b c hin).2
  refine hwf'.aborted b c hab hin ?_
  unfold isLive; unfold isDone at hd
  cases hst : (s'.tasks c).status <;> simp_all

/-- a task with a pending cancellation cannot be resumed normally -/
theorem pending_cancel_blocks_resume (s : Sys) (c g : Nat) (h : (s.tasks c).mustCancel = true) :
    step s (.resume c g false) = none := by
  simp only [step]
  split
  · simp [h]
  · rfl

/-- … and when the group was not aborting already, the request is still pending on every registered live member:
its next resumption raises `CancelledError` whatever it waits for (it is cancelled, not awaited). -/
theorem abort_on_failure_pending (s s' : Sys) (t b : Nat) (o : Outcome)
    (hs : step s (.bodyEnd t b o) = some s') (ho : o ≠ .ok) (hna : (s.groups b).aborting = false) :
    ∀ c ∈ (s'.groups b).members, isLive (s'.tasks c) = true →
      (s'.tasks c).mustCancel = true ∧ ∀ g, step s' (.resume c g false) = none := by
  simp only [step] at hs
  split at hs
  · split at hs
    · simp only [Option.some.injEq] at hs; subst hs
      intro c hc hl
      have hcond : (o != Outcome.ok && !(s.groups b).aborting) = true := by simp [hna, ho]
      unfold beginExit at hc hl ⊢
      simp only [hcond, ↓reduceIte] at hc hl ⊢
      rw [abort_members] at hc
      have hmc : ((abort (setGroup (setTask s t (exitTask (s.tasks t) (s.groups b) b)) b
          (exitGroup (s.tasks t) (s.groups b) o)) b).tasks c).mustCancel = true := by
        simp only [abort_tasks, hc, ↓reduceIte] at hl ⊢
        exact requestCancel_must _ (by simpa using hl)
      exact ⟨hmc, fun g => pending_cancel_blocks_resume _ c g hmc⟩
    · simp at hs
  · simp at hs

/-! ### C06.no_scope_detached -/

/-- outside any scope: no entered async scope and nothing inherited -/
theorem outside_any_scope (T : Task) (hf : asyncGroups T.frames = []) (hb : T.base = none) : ctxGroup T = none := by
  simp [ctxGroup, hf, hb]

/-- **C06.no_scope_detached.** Outside any scope `ctx.spawn` is never refused and yields a task that belongs to no
group, inherits none, and is ready to run. -/
theorem no_scope_detached (s : Sys) (t c : Nat) (hb : (s.tasks t).status = .body) (hc : (s.tasks c).status = .absent)
    (hout : ctxGroup (s.tasks t) = none) :
    step s (.spawnfail t c) = none ∧
    ∃ s', step s (.spawn t c true) = some s' ∧ (s'.tasks c).status = .fresh ∧ (s'.tasks c).member = none ∧
      (s'.tasks c).base = none ∧ (∀ g, s'.groups g = s.groups g) ∧ (step s' (.start c)).isSome := by
  refine ⟨by simp [step, hb, hout], _, by simp only [step, hb, hc, hout, and_self, ↓reduceIte]; rfl, ?_⟩
  simp [step]

/-- a task that belongs to no group is never registered in one: no scope exit waits for it … -/
theorem detached_never_registered (s : Sys) (hr : Reach s) (c : Nat) (hm : (s.tasks c).member = none) :
    ∀ g, c ∉ (s.groups g).members := by
  intro g hc
  have := (hr.wf.listed g c hc).1
  rw [hm] at this; cases this

/-- … and no group's abort touches it (it is not cancelled with its spawner or with any scope) -/
theorem detached_untouched_by_abort (s : Sys) (hr : Reach s) (c g : Nat) (hm : (s.tasks c).member = none) :
    (abort s g).tasks c = s.tasks c := by
  simp [abort_tasks, detached_never_registered s hr c hm g]

/-! ### C06.exit_terminates: progress + measure -/

def silent : Label → Bool
  | .reap _ | .deliver _ | .silentEnd _ => true
  | _ => false

/-- progress of the exit itself: a finished member can always be reaped … -/
theorem reap_enabled (s : Sys) (hw : Wf s) (g c : Nat) (hc : c ∈ (s.groups g).members) (hd : isDone (s.tasks c) = true) :
    (step s (.reap c)).isSome = true := by
  have hm := (hw.listed g c hc).1
  unfold isDone at hd
  cases hst : (s.tasks c).status <;> simp [hst] at hd
  simp [step, hst, hm, hc]

/-- … and once nothing is registered any more the owner leaves (after the pending CancelledError, if any, has been
thrown into the wait loop) -/
theorem leave_enabled (s : Sys) (hw : Wf s) (t b : Nat) (susp : Bool) (hst : (s.tasks t).status = .exitWait b susp)
    (hm : (s.groups b).members = []) :
    if susp && (s.tasks t).mustCancel then (step s (.deliver t)).isSome = true
    else (step s (.left t b (exitResult (s.groups b)))).isSome = true := by
  obtain ⟨rest, hfr⟩ := hw.wait_top t b susp hst
  split
  · rename_i hc
    simp only [Bool.and_eq_true] at hc
    obtain ⟨rfl, hmc⟩ := hc
    simp [step, hst, hmc]
  · rename_i hc
    simp [step, hfr, hst, hm, hc]

/-- steps the event loop takes on its own: no action of the harness, no decision of user code beyond "the rest of
the program is empty" -/
def loopStep : Label → Bool
  | .reap _ | .deliver _ | .silentEnd _ | .start _ | .resume _ _ _ | .bodyEnd _ _ _ | .cleanupEnd _ _ _ _ | .left _ _ _
  | .end_ _ _ => true
  | _ => false

/-- **The full progress statement**: in every reachable state in which a task waits in a group exit the loop can make
a step, unless some task waits on a gate that has not been released and has not been asked to cancel. -/
def exit_progress_statement : Prop :=
  ∀ (s : Sys), Reach s → ∀ t b susp, (s.tasks t).status = .exitWait b susp →
    (∃ l, loopStep l = true ∧ (step s l).isSome = true) ∨
    ∃ c g, (s.tasks c).status = .awaiting g ∧ s.released g = false ∧ (s.tasks c).mustCancel = false

/-- **C06.exit_progress_partial** (one level of waiting): while a task waits in a group exit, either the exit itself
can move (reap a finished member, deliver the pending cancellation, leave), or a member is still live – and a live
member outside a group exit of its own can move unless it waits on an unreleased gate (`member_progress`).  (The first step of
`exit_progress`, kept under its old name; the descent through members that themselves wait in a nested exit is done there.) -/
theorem exit_progress_partial (s : Sys) (hr : Reach s) (t b : Nat) (susp : Bool) (hst : (s.tasks t).status = .exitWait b susp) :
    (∃ l, (silent l = true ∨ l = .left t b (exitResult (s.groups b))) ∧ (step s l).isSome = true) ∨
    ∃ c ∈ (s.groups b).members, isLive (s.tasks c) = true := by
  have hw := hr.wf
  cases hm : (s.groups b).members with
  | nil =>
    left
    have := leave_enabled s hw t b susp hst hm
    split at this
    · exact ⟨.deliver t, Or.inl rfl, this⟩
    · exact ⟨_, Or.inr rfl, this⟩
  | cons c rest =>
    have hc : c ∈ (s.groups b).members := by rw [hm]; simp
    cases hd : isDone (s.tasks c) with
    | true => left; exact ⟨.reap c, Or.inl rfl, reap_enabled s hw b c hc hd⟩
    | false =>
      right
      refine ⟨c, List.mem_cons_self, ?_⟩
      have hna := (hw.listed b c hc).2
      unfold isLive; unfold isDone at hd
      cases hs : (s.tasks c).status <;> simp_all

/-- a live member outside a group exit of its own is never stuck in library code: some step of its own is enabled,
unless it waits on a gate that has not been released and nobody has asked it to cancel -/
theorem member_progress (s : Sys) (c : Nat) (hl : isLive (s.tasks c) = true)
    (hne : ∀ b susp, (s.tasks c).status ≠ .exitWait b susp) :
    (∃ l, (step s l).isSome = true) ∧
    ((∃ l, (step s l).isSome = true ∧ l ≠ .raise c false ∧ l ≠ .raise c true ∧ (∀ g, l ≠ .rel g) ∧ (∀ x, l ≠ .cancel x)) ∨
      ∃ g, (s.tasks c).status = .awaiting g ∧ s.released g = false ∧ (s.tasks c).mustCancel = false) := by
  refine ⟨⟨.rel 0, by simp [step]⟩, ?_⟩
  cases hst : (s.tasks c).status with
  | absent => simp [isLive, hst] at hl
  | done o => simp [isLive, hst] at hl
  | exitWait b susp => exact absurd hst (hne b susp)
  | fresh =>
    left
    cases hm : (s.tasks c).mustCancel with
    | false => exact ⟨.start c, by simp [step, hst, hm], by simp, by simp, by simp, by simp⟩
    | true => exact ⟨.silentEnd c, by simp [step, hst, hm], by simp, by simp, by simp, by simp⟩
  | awaiting g =>
    cases hm : (s.tasks c).mustCancel with
    | true => left; exact ⟨.resume c g true, by simp [step, hst, hm], by simp, by simp, by simp, by simp⟩
    | false =>
      cases hrel : s.released g with
      | true => left; exact ⟨.resume c g false, by simp [step, hst, hm, hrel], by simp, by simp, by simp, by simp⟩
      | false => right; exact ⟨g, rfl, hrel, rfl⟩
  | body =>
    left
    cases hf : (s.tasks c).frames with
    | nil => exact ⟨.end_ c .ok, by simp [step, hf, bodyOutcome, hst], by simp, by simp, by simp, by simp⟩
    | cons f rest =>
      cases hfa : f.isAsync with
      | true =>
        refine ⟨.bodyEnd c f.block .ok, ?_, by simp, by simp, by simp, by simp⟩
        have : f = ⟨f.block, true⟩ := by cases f; simp_all
        simp [step, hf, bodyOutcome, hst, ← this]
      | false => exact ⟨.left c f.block .ok, by simp [step, hf, hfa, bodyOutcome, hst], by simp, by simp, by simp, by simp⟩
  | unwinding o =>
    left
    cases hf : (s.tasks c).frames with
    | nil => exact ⟨.end_ c o, by simp [step, hf, bodyOutcome, hst], by simp, by simp, by simp, by simp⟩
    | cons f rest =>
      cases hfa : f.isAsync with
      | true =>
        refine ⟨.bodyEnd c f.block o, ?_, by simp, by simp, by simp, by simp⟩
        have : f = ⟨f.block, true⟩ := by cases f; simp_all
        simp [step, hf, bodyOutcome, hst, ← this]
      | false => exact ⟨.left c f.block o, by simp [step, hf, hfa, bodyOutcome, hst], by simp, by simp, by simp, by simp⟩

/-- a live member outside a group exit of its own can make a *loop* step of its own, unless it waits on an unreleased gate -/
theorem member_loop_progress (s : Sys) (c : Nat) (hl : isLive (s.tasks c) = true)
    (hne : ∀ b susp, (s.tasks c).status ≠ .exitWait b susp) :
    (∃ l, loopStep l = true ∧ (step s l).isSome = true) ∨
      ∃ g, (s.tasks c).status = .awaiting g ∧ s.released g = false ∧ (s.tasks c).mustCancel = false := by
  cases hst : (s.tasks c).status with
  | absent => simp [isLive, hst] at hl
  | done o => simp [isLive, hst] at hl
  | exitWait b susp => exact absurd hst (hne b susp)
  | fresh =>
    left
    cases hm : (s.tasks c).mustCancel with
    | false => exact ⟨.start c, rfl, by simp [step, hst, hm]⟩
    | true => exact ⟨.silentEnd c, rfl, by simp [step, hst, hm]⟩
  | awaiting g =>
    cases hm : (s.tasks c).mustCancel with
    | true => left; exact ⟨.resume c g true, rfl, by simp [step, hst, hm]⟩
    | false =>
      cases hrel : s.released g with
      | true => left; exact ⟨.resume c g false, rfl, by simp [step, hst, hm, hrel]⟩
      | false => right; exact ⟨g, rfl, hrel, rfl⟩
  | body =>
    left
    cases hf : (s.tasks c).frames with
    | nil => exact ⟨.end_ c .ok, rfl, by simp [step, hf, bodyOutcome, hst]⟩
    | cons f rest =>
      cases hfa : f.isAsync with
      | true =>
        refine ⟨.bodyEnd c f.block .ok, rfl, ?_⟩
        have : f = ⟨f.block, true⟩ := by cases f; simp_all
        simp [step, hf, bodyOutcome, hst, ← this]
      | false => exact ⟨.left c f.block .ok, rfl, by simp [step, hf, hfa, bodyOutcome, hst]⟩
  | unwinding o =>
    left
    cases hf : (s.tasks c).frames with
    | nil => exact ⟨.end_ c o, rfl, by simp [step, hf, bodyOutcome, hst]⟩
    | cons f rest =>
      cases hfa : f.isAsync with
      | true =>
        refine ⟨.bodyEnd c f.block o, rfl, ?_⟩
        have : f = ⟨f.block, true⟩ := by cases f; simp_all
        simp [step, hf, bodyOutcome, hst, ← this]
      | false => exact ⟨.left c f.block o, rfl, by simp [step, hf, hfa, bodyOutcome, hst]⟩

/-- **C06.exit_progress** (the full statement, every depth of nested waiting): in every reachable state in which a task
waits in the exit of an async scope, the event loop can take a step on its own – reap a finished member, deliver a pending
cancellation, let a task start / resume / end its body / leave a block – unless some task waits on a gate that nobody has
released and has not been asked to cancel.  The descent from a waiting owner to a member that waits in a nested exit of its
own ends because every member is strictly deeper (in spawns from the root) than the owner of its group, and depths are
bounded in any reachable state (`Haiway.Groups.Dp`). -/
theorem exit_progress : exit_progress_statement := by
  intro s hr
  have hw := hr.wf
  have hd := hr.dp
  obtain ⟨B, hB⟩ := hd.bound
  -- strong induction on how far below the bound the waiting task is
  have main : ∀ n t b susp, B - (s.tasks t).depth ≤ n → (s.tasks t).status = .exitWait b susp →
      (∃ l, loopStep l = true ∧ (step s l).isSome = true) ∨
      ∃ c g, (s.tasks c).status = .awaiting g ∧ s.released g = false ∧ (s.tasks c).mustCancel = false := by
    intro n
    induction n with
    | zero =>
      intro t b susp hn hst
      rcases exit_progress_partial s hr t b susp hst with ⟨l, hl, hen⟩ | ⟨c, hc, hlive⟩
      · left
        rcases hl with hl | hl
        · exact ⟨l, by cases l <;> simp_all [silent, loopStep], hen⟩
        · subst hl; exact ⟨_, rfl, hen⟩
      · -- a member would have to be deeper than the bound
        obtain ⟨rest, hfr⟩ := hw.wait_top t b susp hst
        have hown : (s.groups b).owner = t := (hw.frames_owner t b (by rw [hfr]; simp [asyncGroups])).1
        have hdeep := member_deeper hw hd b c hc
        rw [hown] at hdeep
        have := hB c
        omega
    | succ n ih =>
      intro t b susp hn hst
      rcases exit_progress_partial s hr t b susp hst with ⟨l, hl, hen⟩ | ⟨c, hc, hlive⟩
      · left
        rcases hl with hl | hl
        · exact ⟨l, by cases l <;> simp_all [silent, loopStep], hen⟩
        · subst hl; exact ⟨_, rfl, hen⟩
      · obtain ⟨rest, hfr⟩ := hw.wait_top t b susp hst
        have hown : (s.groups b).owner = t := (hw.frames_owner t b (by rw [hfr]; simp [asyncGroups])).1
        have hdeep := member_deeper hw hd b c hc
        rw [hown] at hdeep
        by_cases hcw : ∃ b' susp', (s.tasks c).status = .exitWait b' susp'
        · obtain ⟨b', susp', hcst⟩ := hcw
          exact ih c b' susp' (by have := hB c; omega) hcst
        · have hne : ∀ b' susp', (s.tasks c).status ≠ .exitWait b' susp' := fun b' susp' h => hcw ⟨b', susp', h⟩
          rcases member_loop_progress s c hlive hne with h | ⟨g, hg⟩
          · left; exact h
          · right; exact ⟨c, g, hg⟩
  intro t b susp hst
  exact main (B - (s.tasks t).depth) t b susp (Nat.le_refl _) hst

/-- what reaping a finished member changes: it leaves its group's list; no task changes its control state -/
theorem reap_effect (s s1 : Sys) (c b : Nat) (hm : (s.tasks c).member = some b) (hs : step s (.reap c) = some s1) :
    (s1.groups b).members = (s.groups b).members.erase c ∧ ∀ x, (s1.tasks x).status = (s.tasks x).status := by
  simp only [step] at hs
  split at hs
  · rename_i o g hst hmg
    rw [hm] at hmg; simp only [Option.some.injEq] at hmg; subst hmg
    split at hs
    · simp only [Option.some.injEq] at hs; subst hs
      split
      · exact ⟨by rw [failGroup_members]; simp [dropMember], fun x => by rw [failGroup_status]; rfl⟩
      · exact ⟨by simp [dropMember], fun x => rfl⟩
    · simp at hs
  · simp at hs

theorem exit_terminates_aux (t b : Nat) : ∀ (n : Nat) (s : Sys) (susp : Bool), Wf s →
    (s.tasks t).status = .exitWait b susp → (s.groups b).members.length = n →
    (∀ c ∈ (s.groups b).members, isDone (s.tasks c) = true) →
    ∃ ls s', (∀ l ∈ ls, silent l = true) ∧ ls.length ≤ n + 1 ∧ run s ls = some s' ∧
      ∃ o, (step s' (.left t b o)).isSome = true
  | 0, s, susp, hw, hst, hn, _ => by
    have hm : (s.groups b).members = [] := List.eq_nil_of_length_eq_zero hn
    have hle := leave_enabled s hw t b susp hst hm
    split at hle
    · rename_i hc
      cases hd : step s (.deliver t) with
      | none => simp [hd] at hle
      | some s1 =>
        have hw1 := step_Wf hw hd
        have hst1 : (s1.tasks t).status = .exitWait b false ∧ (s1.tasks t).mustCancel = false ∧ (s1.groups b).members = [] := by
          simp only [Bool.and_eq_true] at hc
          obtain ⟨rfl, hmc⟩ := hc
          simp only [step, hst, hmc, ↓reduceIte, Option.some.injEq] at hd
          subst hd
          refine ⟨by simp [hm], by simp, ?_⟩
          simp only [setTask_groups, deliverGroup]
          split
          · exact hm
          · rw [abort_members]; simp [hm]
        have hle1 := leave_enabled s1 hw1 t b false hst1.1 hst1.2.2
        simp only [Bool.false_and, Bool.false_eq_true, ↓reduceIte] at hle1
        exact ⟨[.deliver t], s1, by simp [silent], by simp, by simp [run, hd], _, hle1⟩
    · exact ⟨[], s, by simp, by simp, rfl, _, hle⟩
  | n + 1, s, susp, hw, hst, hn, hd => by
    cases hm : (s.groups b).members with
    | nil => simp [hm] at hn
    | cons c rest =>
      have hc : c ∈ (s.groups b).members := by rw [hm]; simp
      have hdc := hd c hc
      have hmem := (hw.listed b c hc).1
      have hen := reap_enabled s hw b c hc hdc
      cases hr : step s (.reap c) with
      | none => simp [hr] at hen
      | some s1 =>
        obtain ⟨he1, he2⟩ := reap_effect s s1 c b hmem hr
        have hw1 := step_Wf hw hr
        have hmem1 : (s1.groups b).members = rest := by rw [he1, hm]; simp
        obtain ⟨ls, s', h1, h2, h3, h4⟩ := exit_terminates_aux t b n s1 susp hw1 (by rw [he2]; exact hst)
          (by rw [hmem1]; rw [hm] at hn; simpa using hn)
          (fun x hx => by
            have : x ∈ (s.groups b).members := by rw [hm]; rw [hmem1] at hx; exact List.mem_cons_of_mem _ hx
            have hdx := hd x this
            simp only [isDone, he2 x] at hdx ⊢; exact hdx)
        refine ⟨.reap c :: ls, s', ?_, by simp; omega, by simp [run, hr, h3], h4⟩
        intro l hl
        simp only [List.mem_cons] at hl
        rcases hl with rfl | hl
        · rfl
        · exact h1 l hl

/-- **C06.exit_terminates** (measure part). In every reachable state in which a task waits in the exit of an async
scope and the tasks registered in the scope's group have finished, at most `(number registered) + 1` internal steps of
the event loop (done-callbacks, delivery of a pending cancellation) – each always enabled – bring the owner to the
point where it leaves the block: the library adds no wait of its own. -/
theorem exit_terminates (s : Sys) (hr : Reach s) (t b : Nat) (susp : Bool)
    (hst : (s.tasks t).status = .exitWait b susp)
    (hd : ∀ c ∈ (s.groups b).members, isDone (s.tasks c) = true) :
    ∃ ls s', (∀ l ∈ ls, silent l = true) ∧ ls.length ≤ (s.groups b).members.length + 1 ∧ run s ls = some s' ∧
      ∃ o, (step s' (.left t b o)).isSome = true :=
  exit_terminates_aux t b _ s susp hr.wf hst rfl hd

/-! ### the hypotheses are satisfiable (concrete accepted runs) -/

/-- evaluate a predicate in the state reached by a label sequence (false if the sequence is not accepted) -/
def after (ls : List Label) (p : Sys → Bool) : Bool :=
  match run init ls with
  | some s => p s
  | none => false

/-- `all_done_at_exit`: a scope whose body spawned a task that finished while the exit waited is left -/
example : after [.start 0, .enter 0 1 true, .enter 0 2 false, .spawn 0 1 true, .left 0 2 .ok, .bodyEnd 0 1 .ok, .start 1,
    .spawn 1 2 true, .end_ 1 .ok, .start 2, .end_ 2 .ok, .reap 1, .reap 2]
    (fun s => (step s (.left 0 1 .ok)).isSome && (s.tasks 1).member == some 1 && (s.tasks 2).member == some 1) = true := by
  decide

/-- `abort_on_failure`: the body raises while one member is blocked on a gate and one has not started -/
example : after [.start 0, .enter 0 1 true, .spawn 0 1 true, .await 0 1, .start 1, .await 1 2, .rel 1, .resume 0 1 false,
    .spawn 0 2 true, .raise 0 false]
    (fun s => (step s (.bodyEnd 0 1 (.exc false))).isSome && !isDone (s.tasks 1) && !isDone (s.tasks 2)) = true := by
  decide

/-- `abort_on_exit_failure`: body returned normally, a member is blocked, the cancellation reaches the scope's task
while the disposables cleanup is awaited -/
example : after [.start 0, .enter 0 1 true, .spawn 0 1 true, .await 0 1, .start 1, .await 1 2, .rel 1, .resume 0 1 false, .cancel 0]
    (fun s => (step s (.cleanupEnd 0 1 .cancelled true)).isSome && !isDone (s.tasks 1)) = true := by
  decide

/-- `no_scope_detached`: the root task outside any scope -/
example : after [.start 0] (fun s => (s.tasks 0).status == .body && (s.tasks 1).status == .absent &&
    ctxGroup (s.tasks 0) == none) = true := by decide

/-- `exit_terminates`: an owner waiting in the exit with a cancelled request pending and two finished, unreaped members -/
example : after [.start 0, .enter 0 1 true, .spawn 0 1 true, .spawn 0 2 true, .bodyEnd 0 1 .ok, .start 1, .end_ 1 .ok,
    .start 2, .raise 2 true, .end_ 2 (.exc true), .cancel 0]
    (fun s => (s.tasks 0).status == .exitWait 1 true && (s.groups 1).members == [1, 2] &&
      isDone (s.tasks 1) && isDone (s.tasks 2)) = true := by decide

end Haiway.C06
