import Haiway.Proofs.GroupsCancel
/-!
# C07 – cancellation is never swallowed by scopes; the cancellation check reports it

Property theorems only.  Model: `Haiway.Groups` (`Haiway/Model/Groups.lean`), the product LTS of C06: CPython 3.12.1
`Task.cancel / uncancel / cancelling`, `TaskGroup`'s own cancellation rules, haiway's *repaired*
`TaskGroupContext.__aexit__` (CancelledError re-raised, every other error of the group silenced) and
`ctx.check_cancellation` (`cancelling() > 0`).  Statements quantify over every label sequence the LTS accepts.

The full first half of the property (`not_swallowed_statement`) is **false** of this model and of the code: CPython
3.12.1's `TaskGroup.__aexit__` itself absorbs a cancellation in three kinds of history that a small haiway patch cannot
repair.  Each is refuted below by a concrete accepted label sequence (`decide`); `not_swallowed_partial` proves the
statement for all runs outside those kinds, with the excluded steps spelled out by `quietFor`.
-/
namespace Haiway.C07
open Haiway.Groups

/-! ### the cancellation check -/

/-- **C07.check_iff.** `ctx.check_cancellation()` raises exactly when the current task's cancellation-request count
(`Task.cancelling()`) is positive. -/
theorem check_iff (s s' : Sys) (t : Nat) (raised : Bool) (hs : step s (.check t raised) = some s') :
    (raised = true ↔ 0 < (s.tasks t).cancelReq) := by
  simp only [step] at hs
  split at hs
  · rename_i hc; rw [hc.2]; simp
  · simp at hs

/-- **"… and it does not raise otherwise"**: for a task on which nobody – user code, the harness, or a `TaskGroup`
(abort of the group it belongs to, parent-cancel of a group it owns) – ever called `cancel()`, the count is zero in
every reachable state, so the check cannot raise. -/
theorem check_silent_if_never_cancelled (s : Sys) (hr : Reach s) (t : Nat) (hn : (s.tasks t).touched = false) :
    (s.tasks t).cancelReq = 0 ∧ step s (.check t true) = none := by
  have h0 := (hr.wf2.untouched t hn).1
  refine ⟨h0, ?_⟩
  simp only [step]
  split
  · rename_i hc; simp [h0] at hc
  · rfl

/-- **"Once the current task has been asked to cancel – through the context or through asyncio – the check
raises"**: in every reachable state a task that a `Task.cancel()` from outside or `ctx.cancel()` reached while it was
alive has a positive count (a `TaskGroup` only ever takes back its own parent-cancel), so the check cannot pass. -/
theorem check_raises_once_asked (s : Sys) (hr : Reach s) (t : Nat) (ho : (s.tasks t).owed = true) :
    0 < (s.tasks t).cancelReq ∧ step s (.check t false) = none := by
  have h1 := hr.wf2.owed_asks t ho
  have h2 := hr.wf2.count t
  have h0 : 0 < (s.tasks t).cancelReq := by omega
  refine ⟨h0, ?_⟩
  simp only [step]
  split
  · rename_i hc; have := hc.2; simp [h0] at this
  · rfl

/-- the ghost flag is what the words say: both kinds of request set it on a live task -/
theorem request_sets_owed (s s' : Sys) (t : Nat) (hl : isLive (s.tasks t) = true) :
    (step s (.cancel t) = some s' → (s'.tasks t).owed = true) ∧
    (step s (.cancelself t) = some s' → (s'.tasks t).owed = true) := by
  have hnd := isLive_not_done _ hl
  have hna := isLive_not_absent _ hl
  constructor
  · intro hs
    simp only [step, hna, ↓reduceIte, hnd, Bool.false_eq_true, Option.some.injEq] at hs
    subst hs; simp
  · intro hs
    simp only [step] at hs
    split at hs
    · simp only [Option.some.injEq] at hs; subst hs; simp
    · simp at hs

/-! ### the tasks it spawned in those scopes are cancelled too -/

/-- a group whose exit lets a `CancelledError` out of the scope (the body was cancelled, or a cancellation was parked
while the exit waited) has aborted … -/
theorem cancelled_scope_was_aborted (s : Sys) (hr : Reach s) (b : Nat) (h : exitResult (s.groups b) = .cancelled) :
    (s.groups b).aborting = true := by
  unfold exitResult at h
  split at h
  · rename_i hp; simp only [Bool.and_eq_true] at hp; exact (hr.gi b).2 hp.1
  · exact (hr.gi b).1 (by rw [h]; simp)

/-- … and an aborting group has asked every member that is still alive to cancel, in every reachable state. -/
theorem cancel_reaches_members (s : Sys) (hr : Reach s) (b : Nat) (ha : (s.groups b).aborting = true) :
    ∀ c, (s.tasks c).member = some b → isDone (s.tasks c) = false → 0 < (s.tasks c).asks := by
  intro c hm hd
  have hw := hr.wf
  have hin := hw.mem c b hm hd
  have hna := (hw.listed b c hin).2
  refine hw.aborted b c ha hin ?_
  unfold isLive; unfold isDone at hd
  cases hst : (s.tasks c).status <;> simp_all

/-! ### C07.not_swallowed -/

/-- a cancellation request on `t`: `Task.cancel()` from outside or `ctx.cancel()` by `t` itself -/
def isRequest (t : Nat) : Label → Bool
  | .cancel x => x == t
  | .cancelself x => x == t
  | _ => false

/-- user code of `t` catches the cancellation, or replaces it by raising (in a body or in a disposable) -/
def excuses (t : Nat) : Label → Bool
  | .caught x .cancelled => x == t
  | .raise x _ => x == t
  | .enterfail x _ o => x == t && o.isExc         -- a disposable of `t` raises while a scope is entered
  | .cleanupEnd x _ o _ => x == t && o.isExc      -- … or during the cleanup, replacing what was propagating
  | _ => false

/-- **The full statement** (first half of C07): whenever a request reaches a live task – wherever it is: not started,
in a body, at a gate, waiting in the exit of any nesting of scopes – and user code of that task neither catches the
cancellation nor replaces it by raising afterwards, the task, once finished, has ended cancelled. -/
def not_swallowed_statement : Prop :=
  ∀ (pre post : List Label) (req : Label) (t : Nat) (s0 s : Sys) (o : Outcome),
    run init pre = some s0 → isLive (s0.tasks t) = true → isRequest t req = true →
    run s0 (req :: post) = some s → (∀ l ∈ post, excuses t l = false) →
    (s.tasks t).status = .done o → o = .cancelled

/-- **C07.not_swallowed_partial.** The statement holds for every run in which (`quietFor t`, checked at every step)
the victim's own code never raises and never catches, and no task that ends with an error is reaped into a group owned
by the victim – for all programs, nestings, interleavings, numbers of tasks, and any number of further requests. -/
theorem not_swallowed_partial (t : Nat) (pre post : List Label) (req : Label) (s0 s : Sys) (o : Outcome)
    (hpre : runQ t init pre = some s0) (hl : isLive (s0.tasks t) = true) (hreq : isRequest t req = true)
    (hpost : runQ t s0 (req :: post) = some s) (hd : (s.tasks t).status = .done o) : o = .cancelled := by
  have inv0 := runQ_inv t pre init s0 (init_inv t) hpre
  simp only [runQ] at hpost
  split at hpost
  · rename_i hq
    cases hs : step s0 req with
    | none => simp [hs] at hpost
    | some s1 =>
      simp only [hs] at hpost
      have inv1 : AllInv t s1 := ⟨step_Wf inv0.wf hs, step_Wf2 inv0.wf inv0.wf2 hs, step_K inv0.wf inv0.wf2 inv0.k hq hs,
        step_DC inv0.dc hs⟩
      have ho1 : (s1.tasks t).owed = true := by
        cases req <;> simp [isRequest] at hreq <;> subst hreq
        · exact (request_sets_owed s0 s1 _ hl).1 hs
        · exact (request_sets_owed s0 s1 _ hl).2 hs
      have hna1 : (s1.tasks t).status ≠ .absent := by
        intro habs
        have hdef := inv1.wf.absent t habs
        rw [hdef] at ho1; simp at ho1
      have inv := runQ_inv t post s1 s inv1 hpost
      have ho := runQ_owed t t post s1 s inv1 hpost ho1 hna1
      rcases inv.k.owed ho with h | h | ⟨b, susp, h, _⟩ | h
      · have := inv.dc t (by simp [isDone, hd]); rw [this] at h; cases h
      · rw [hd] at h; cases h
      · rw [hd] at h; cases h
      · rw [hd] at h; simp only [Status.done.injEq] at h; exact h
  · simp at hpost

/-- `not_swallowed_partial` is not vacuous: a request delivered while the exit of a nested scope waits for a member,
in a run that `quietFor` admits, with the task then unwinding through both scopes -/
example :
    (match runQ 0 init [.start 0, .enter 0 1 true, .enter 0 2 true, .spawn 0 1 true, .bodyEnd 0 2 .ok, .start 1, .await 1 1] with
     | some s0 =>
       isLive (s0.tasks 0) &&
       (match runQ 0 s0 [.cancel 0, .deliver 0, .resume 1 1 true, .end_ 1 .cancelled, .reap 1, .left 0 2 .cancelled,
                         .bodyEnd 0 1 .cancelled, .left 0 1 .cancelled, .end_ 0 .cancelled] with
        | some s => (s.tasks 0).status == .done .cancelled
        | none => false)
     | none => false) = true := by decide

/-- `check_raises_once_asked` / `check_silent_if_never_cancelled`: reachable states with and without a request -/
example : (match run init [.start 0, .check 0 false, .cancelself 0, .check 0 true] with
           | some s => (s.tasks 0).owed | none => false) = true := by decide

/-! ### the full statement is false: three residual histories of CPython 3.12.1's `TaskGroup` -/

/-- a concrete run refutes the statement: the request reaches the live task, nothing excuses it afterwards, and the
task ends otherwise than cancelled -/
def violates (pre : List Label) (req : Label) (post : List Label) (t : Nat) : Bool :=
  match run init pre with
  | none => false
  | some s0 =>
    isLive (s0.tasks t) && isRequest t req && post.all (fun l => !excuses t l) &&
    match run s0 (req :: post) with
    | none => false
    | some s =>
      match (s.tasks t).status with
      | .done o => o != .cancelled
      | _ => false

theorem violates_refutes (pre : List Label) (req : Label) (post : List Label) (t : Nat)
    (h : violates pre req post t = true) : ¬ not_swallowed_statement := by
  intro hst
  unfold violates at h
  split at h
  · simp at h
  · rename_i s0 h0
    simp only [Bool.and_eq_true, List.all_eq_true, Bool.not_eq_true'] at h
    obtain ⟨⟨⟨hl, hreq⟩, hex⟩, h⟩ := h
    split at h
    · simp at h
    · rename_i s h1
      split at h
      · rename_i o hd
        have := hst pre post req t s0 s o h0 hl hreq h1 hex hd
        subst this; simp at h
      · simp at h

/-- (i) `groups.cancel-absorbed.aborting-after-body-exception`: the body raised, the group is aborting, a member is
slow to die (it caught its cancellation and waits again); the request delivered during that wait is dropped by
`TaskGroup.__aexit__` ("if not self._aborting") and the task ends with the body's exception. -/
theorem not_swallowed_refuted_aborting_after_body_exception : ¬ not_swallowed_statement :=
  violates_refutes
    [.start 0, .enter 0 1 true, .spawn 0 1 true, .await 0 3, .start 1, .await 1 1, .rel 3, .resume 0 3 false,
     .raise 0 false, .bodyEnd 0 1 (.exc false), .resume 1 1 true, .caught 1 .cancelled, .await 1 2]
    (.cancel 0)
    [.deliver 0, .rel 2, .resume 1 2 false, .end_ 1 .ok, .reap 1, .left 0 1 (.exc false), .end_ 0 (.exc false)]
    0 (by decide)

/-- (iii) `groups.cancel-absorbed.member-error-while-cancelled`: the body ended normally, the request arrives while
the exit waits, `TaskGroup` parks it and aborts, a member raises an ordinary error while being cancelled; member
errors have priority over the parked CancelledError and haiway silences the resulting exception group: the task
continues and ends normally. -/
theorem not_swallowed_refuted_member_error_while_cancelled : ¬ not_swallowed_statement :=
  violates_refutes
    [.start 0, .enter 0 1 true, .spawn 0 1 true, .bodyEnd 0 1 .ok, .start 1, .await 1 1]
    (.cancel 0)
    [.deliver 0, .resume 1 1 true, .raise 1 false, .end_ 1 (.exc false), .reap 1, .left 0 1 .ok, .end_ 0 .ok]
    0 (by decide)

/-- (iv) `groups.cancel-absorbed.aborting-after-member-error`: a member failed while the exit waits (the group aborts and
parent-cancels; that CancelledError is dropped because the group is aborting), another member is slow to die; the
request delivered during that wait is dropped the same way and the task continues. -/
theorem not_swallowed_refuted_aborting_after_member_error : ¬ not_swallowed_statement :=
  violates_refutes
    [.start 0, .enter 0 1 true, .spawn 0 1 true, .spawn 0 2 true, .bodyEnd 0 1 .ok, .start 1, .await 1 1, .start 2,
     .raise 2 false, .end_ 2 (.exc false), .reap 2, .deliver 0, .resume 1 1 true, .caught 1 .cancelled, .await 1 2]
    (.cancel 0)
    [.deliver 0, .rel 2, .resume 1 2 false, .end_ 1 .ok, .reap 1, .left 0 1 .ok, .end_ 0 .ok]
    0 (by decide)

end Haiway.C07
