import Haiway.Proofs.Disposables
/-!
# C08 – disposables are entered once, exited once, and their cleanup errors surface

Model: `Haiway.Disposables` (`Haiway/Model/Disposables.lean`).  All theorems hold for **every** number of disposables
and **every** fault assignment (each enter: entered / failed / interrupted by cancellation; each exit: returns / raises;
body: returns / raises or is cancelled; the scope's own enter interrupted by a cancellation or not).  One situation is
excluded by hypothesis and refuted separately (`balanced_full_statement_refuted`, a known finding): a cancellation
request still pending when the scope exit starts.
-/
namespace Haiway.C08
open Haiway.Disposables

/-- C08.balanced: every disposable is entered exactly once; exited exactly once iff its enter succeeded
(normal path and rollback alike); the body runs iff all of them entered. -/
theorem balanced (ds : List Disp) (a : Around) (hp : a.pendingCancel = false) (bodyRaises : Bool)
    (d : Nat) (hd : d < ds.length) :
    count (run ds a bodyRaises).1 (isEnter d) = 1 ∧
    count (run ds a bodyRaises).1 (isExit d) = (if (ds[d]?).map (·.enter) = some .entered then 1 else 0) ∧
    count (run ds a bodyRaises).1 isBody = (if proceed ds a then 1 else 0) := by
  unfold run
  by_cases h : proceed ds a
  · simp only [h, hp, Bool.false_eq_true, ↓reduceIte, count_append, count_cons, count_nil, enterEvs_count, exitEvs_no_enter,
      enterEvs_no_exit, exitEvs_count, enterEvs_no_body, exitEvs_no_body, isEnter, isExit, isBody]
    refine ⟨by simp [hd], ?_, by simp⟩
    simp [hd]
  · simp only [h, hp, Bool.false_eq_true, ↓reduceIte, count_append, enterEvs_count, exitEvs_no_enter,
      enterEvs_no_exit, exitEvs_count, enterEvs_no_body, exitEvs_no_body]
    refine ⟨by simp [hd], ?_, by simp⟩
    simp [hd]

/-- C08.rollback: if entering fails (some disposable failed or was interrupted) the body never runs, and the
disposables that did enter are still exited exactly once. -/
theorem rollback (ds : List Disp) (a : Around) (hp : a.pendingCancel = false) (bodyRaises : Bool)
    (h : proceed ds a = false) (d : Nat) (hd : d < ds.length) :
    count (run ds a bodyRaises).1 isBody = 0 ∧
    (ds[d]?.map (·.enter) = some .entered → count (run ds a bodyRaises).1 (isExit d) = 1) := by
  have hb := balanced ds a hp bodyRaises d hd
  refine ⟨by simpa [h] using hb.2.2, ?_⟩
  intro he
  simpa [he] using hb.2.1

/-- C08.exit_receives_body_outcome: on the normal path every `__aexit__` receives the body's exception details
(none when the body returned); on rollback it receives the failure. -/
theorem exit_receives_body_outcome (ds : List Disp) (a : Around) (bodyRaises : Bool) :
    ∀ w ∈ exitArgs (run ds a bodyRaises).1, w = (if proceed ds a then bodyRaises else true) := by
  intro w hw
  unfold run at hw
  by_cases h : proceed ds a
  · simp only [h, ↓reduceIte] at hw ⊢
    by_cases hp : a.pendingCancel
    · simp only [hp, ↓reduceIte, exitArgs, List.filterMap_append, List.mem_append] at hw
      rcases hw with hw | hw
      · have := exitArgs_enterEvs ds 0; simp only [exitArgs] at this; rw [this] at hw; simp at hw
      · simp at hw
    · simp only [hp, Bool.false_eq_true, ↓reduceIte, exitArgs, List.filterMap_append, List.mem_append] at hw
      rcases hw with (hw | hw) | hw
      · have := exitArgs_enterEvs ds 0; simp only [exitArgs] at this; rw [this] at hw; simp at hw
      · simp at hw
      · exact exitArgs_exitEvs bodyRaises ds 0 w hw
  · simp only [h, Bool.false_eq_true, ↓reduceIte] at hw ⊢
    by_cases hp : a.pendingCancel
    · simp only [hp, ↓reduceIte] at hw
      have := exitArgs_enterEvs ds 0; rw [this] at hw; simp at hw
    · simp only [hp, Bool.false_eq_true, ↓reduceIte, exitArgs, List.filterMap_append, List.mem_append] at hw
      rcases hw with hw | hw
      · have := exitArgs_enterEvs ds 0; simp only [exitArgs] at this; rw [this] at hw; simp at hw
      · exact exitArgs_exitEvs true ds 0 w hw

/-- C08.order: all enters come before the body, which comes before all exits. -/
theorem order (ds : List Disp) (a : Around) (hp : a.pendingCancel = false) (bodyRaises : Bool) :
    ((run ds a bodyRaises).1.map phase).Pairwise (· ≤ ·) := by
  unfold run
  by_cases h : proceed ds a
  · simp only [h, hp, Bool.false_eq_true, ↓reduceIte, List.map_append, List.map_cons, List.map_nil]
    rw [List.pairwise_append]
    refine ⟨?_, ?_, ?_⟩
    · rw [List.pairwise_append]
      refine ⟨?_, by simp, ?_⟩
      · exact pairwise_of_const _ 0 (phase_enterEvs ds 0)
      · intro a ha b hb
        simp only [List.mem_map] at ha
        obtain ⟨e, he, rfl⟩ := ha
        simp at hb; subst hb
        rw [phase_enterEvs ds 0 e he]; simp [phase]
    · exact pairwise_of_const _ 2 (phase_exitEvs _ ds 0)
    · intro a ha b hb
      simp only [List.mem_map] at hb
      obtain ⟨e, he, rfl⟩ := hb
      rw [phase_exitEvs _ ds 0 e he]
      simp only [List.mem_append, List.mem_map, List.mem_cons, List.not_mem_nil, or_false] at ha
      rcases ha with ⟨e', he', rfl⟩ | rfl
      · rw [phase_enterEvs ds 0 e' he']; omega
      · simp [phase]
  · simp only [h, hp, Bool.false_eq_true, ↓reduceIte, List.map_append]
    rw [List.pairwise_append]
    refine ⟨?_, ?_, ?_⟩
    · exact pairwise_of_const _ 0 (phase_enterEvs ds 0)
    · exact pairwise_of_const _ 2 (phase_exitEvs _ ds 0)
    · intro a ha b hb
      simp only [List.mem_map] at ha hb
      obtain ⟨e, he, rfl⟩ := ha
      obtain ⟨e', he', rfl⟩ := hb
      rw [phase_enterEvs ds 0 e he, phase_exitEvs _ ds 0 e' he']; omega

/-- C08.errors_surface: a failing `__aexit__` (or a failed enter) is never silent: the caller receives an
exception. -/
theorem errors_surface (ds : List Disp) (a : Around) (bodyRaises : Bool)
    (h : ds.any (·.exitRaises) = true ∨ proceed ds a = false) : (run ds a bodyRaises).2 = true := by
  unfold run
  by_cases ha : proceed ds a
  · rcases h with h | h
    · by_cases hp : a.pendingCancel <;> simp [ha, h, hp]
    · simp [ha] at h
  · by_cases hp : a.pendingCancel <;> simp [ha, hp]

theorem mem_raisers (ds : List Disp) : ∀ (i d : Nat),
    d ∈ raisers i ds ↔ i ≤ d ∧ ∃ x, ds[d - i]? = some x ∧ x.enter = .entered ∧ x.exitRaises = true := by
  induction ds with
  | nil => intro i d; simp [raisers]
  | cons x xs ih =>
    intro i d
    simp only [raisers, List.mem_append, ih]
    constructor
    · rintro (h | ⟨h1, y, h2, h3⟩)
      · split at h
        · simp only [List.mem_singleton] at h; subst h
          rename_i hx; exact ⟨Nat.le_refl _, x, by simp, hx.1, hx.2⟩
        · simp at h
      · refine ⟨by omega, y, ?_, h3⟩
        have : d - i = (d - (i + 1)) + 1 := by omega
        rw [this]; simpa using h2
    · rintro ⟨h1, y, h2, h3⟩
      by_cases hd : d = i
      · subst hd
        simp only [Nat.sub_self, List.getElem?_cons_zero, Option.some.injEq] at h2; subst h2
        left; simp [h3.1, h3.2]
      · right
        refine ⟨by omega, y, ?_, h3⟩
        have : d - i = (d - (i + 1)) + 1 := by omega
        rw [this] at h2; simpa using h2

/-- C08.cleanup_errors_reach_caller: the error raised by the `__aexit__` of **any** disposable that was exited reaches
the caller – as the exception raised, inside the raised group, or on its cause / context chain – after the body *and* on
the rollback of a failed or interrupted enter; and nothing else is reported as a cleanup error. -/
theorem cleanup_errors_reach_caller (ds : List Disp) (a : Around) (hp : a.pendingCancel = false) (d : Nat) :
    d ∈ surfaced ds a ↔ ∃ x, ds[d]? = some x ∧ x.enter = .entered ∧ x.exitRaises = true := by
  simp [surfaced, hp, mem_raisers]

/-- … and exactly the disposables whose exit was called (`balanced`) can be among them -/
theorem surfaced_were_exited (ds : List Disp) (a : Around) (bodyRaises : Bool) (d : Nat) (h : d ∈ surfaced ds a) :
    d < ds.length ∧ count (run ds a bodyRaises).1 (isExit d) = 1 := by
  have hp : a.pendingCancel = false := by
    cases hpc : a.pendingCancel
    · rfl
    · simp [surfaced, hpc] at h
  obtain ⟨x, hx, he, _⟩ := (cleanup_errors_reach_caller ds a hp d).1 h
  have hd : d < ds.length := by
    rcases Nat.lt_or_ge d ds.length with h' | h'
    · exact h'
    · simp [List.getElem?_eq_none h'] at hx
  refine ⟨hd, ?_⟩
  have := (balanced ds a hp bodyRaises d hd).2.1
  simpa [hx, he] using this

/-- a cleanup error that reaches the caller is an exception the caller sees -/
theorem surfaced_caller_sees (ds : List Disp) (a : Around) (bodyRaises : Bool) (d : Nat) (h : d ∈ surfaced ds a) :
    (run ds a bodyRaises).2 = true := by
  have hp : a.pendingCancel = false := by
    cases hpc : a.pendingCancel
    · rfl
    · simp [surfaced, hpc] at h
  obtain ⟨x, hx, _, hr⟩ := (cleanup_errors_reach_caller ds a hp d).1 h
  apply errors_surface
  left
  simp only [List.any_eq_true]
  exact ⟨x, List.mem_of_getElem? hx, hr⟩

/-- C08.quiet_when_clean: the caller sees no exception when everything entered, the body returned and no
cleanup raised (no spurious failure). -/
theorem quiet_when_clean (ds : List Disp) (h : allEntered ds = true) (he : ds.any (·.exitRaises) = false) :
    (run ds {} false).2 = false := by
  simp [run, proceed, h, he]

/-- the statement of C08.balanced without the `pendingCancel = false` hypothesis -/
def balanced_full_statement : Prop :=
  ∀ (ds : List Disp) (a : Around) (bodyRaises : Bool) (d : Nat), d < ds.length →
    count (run ds a bodyRaises).1 (isExit d) = (if (ds[d]?).map (·.enter) = some .entered then 1 else 0)

/-- KNOWN FINDING `disposables.pending-cancel-skips-exit`: the full statement is false of the model (and of the
code, see known_findings.json): with a cancellation request pending when the scope exit starts, an entered
disposable is never exited. -/
theorem balanced_full_statement_refuted : ¬ balanced_full_statement := by
  intro h
  have := h [⟨.entered, false⟩] { pendingCancel := true } false 0 (by decide)
  revert this
  decide

/-! ## Non-vacuity -/
example :
    run [⟨.entered, false⟩, ⟨.failed, false⟩, ⟨.interrupted, false⟩, ⟨.entered, true⟩] {} false
      = ([.enterCall 0, .enterCall 1, .enterCall 2, .enterCall 3, .exitCall 0 true, .exitCall 3 true], true) := by
  decide

example : surfaced [⟨.entered, true⟩, ⟨.failed, false⟩, ⟨.entered, false⟩, ⟨.entered, true⟩] {} = [0, 3] := by decide

example :
    run [⟨.entered, false⟩, ⟨.entered, true⟩] {} false
      = ([.enterCall 0, .enterCall 1, .body, .exitCall 0 false, .exitCall 1 false], true) := by decide

end Haiway.C08
