import Haiway.Proofs.Completion
import Haiway.Proofs.ScopeRun
/-!
# C09 – scope completion fires exactly once, after the whole subtree has been left

Property theorems only.  Model: `Haiway.Completion` (`Haiway/Model/Completion.lean`): scopes numbered in
construction order, operations `create p` (construction of a scope object while `p` is the current
scope of the constructing task – any existing scope, also one that is already finished or completed),
`enter n`, `finish n` (leaving), `tick dt` (the clock).  All statements quantify over **every** operation
sequence of well-formed API use (`wf`), any length, any tree shape, any order of constructions and exits.
`s.fired` is the order in which completion futures were resolved; the callback of a scope is attached to
that future as a done-callback, i.e. it is scheduled exactly when the scope enters `fired`.
-/
namespace Haiway.C09
open Haiway.Completion

/-- C09.local_law: in every reachable state a scope is completed exactly when it has been left and every
scope registered under it is completed. -/
theorem local_law (ops : List Op) (hw : wf {} ops = true) (n : Nat) :
    let s := run {} ops
    s.completed n = true ↔ s.finished n = true ∧ ∀ c ∈ s.nested n, s.completed c = true := by
  have := (reach ops hw).1.law n
  simp only [Law, able] at this
  simp only [this]; simp

/-- C09.iff_subtree_left: a scope is completed exactly when every scope of its registered subtree
(itself included) has been left. -/
theorem iff_subtree_left (ops : List Op) (hw : wf {} ops = true) (n : Nat) :
    let s := run {} ops
    s.completed n = true ↔ ∀ m, InSub s n m → s.finished m = true := by
  intro s
  have h := (reach ops hw).1
  exact ⟨fun hc m hm => sub_finished s h hm hc,
         fun hall => completed_of_sub (s.size - n) s h n (Nat.le_refl _) hall⟩

/-- C09.fires_only_after_subtree_left (safety, in terms of *lexical* nesting): when a scope is completed,
every scope that was constructed inside it – directly or in a scope nested in it, in the same task or in
a task that inherited the context – has been left, except those constructed only after the completion. -/
theorem fires_only_after_subtree_left (ops : List Op) (hw : wf {} ops = true) (n c : Nat) :
    let s := run {} ops
    s.completed n = true → LexAnc s n c → s.finished c = true ∨ s.seenDone c n = true := by
  intro s hc hl
  have ⟨h, hx⟩ := reach ops hw
  rcases hx.anc n c hl with h1 | h1
  · exact .inr h1
  · exact .inl (sub_finished s h h1 hc)

/-- C09.fires_once_subtree_left (liveness): as soon as a scope and every scope constructed inside it have
been left, it is completed – in that very state, there is nothing left to wait for.  The hypothesis
includes "every constructed scope is entered and left" for the scopes inside `n`. -/
theorem fires_once_subtree_left (ops : List Op) (hw : wf {} ops = true) (n : Nat) :
    let s := run {} ops
    s.finished n = true → (∀ c, LexAnc s n c → s.finished c = true) → s.completed n = true := by
  intro s hn hall
  have ⟨h, hx⟩ := reach ops hw
  apply completed_of_sub (s.size - n) s h n (Nat.le_refl _)
  intro m hm
  rcases hx.sub_lex n m hm with h1 | h1
  · exact h1 ▸ hn
  · exact hall m h1

/-- C09.exactly_once: in every state reached by any operation sequence (well-formed or not) the log of
resolved completion futures contains no scope twice and contains exactly the completed scopes. -/
theorem exactly_once (ops : List Op) :
    let s := run {} ops
    s.fired.Nodup ∧ ∀ n, n ∈ s.fired ↔ s.completed n = true :=
  let h := run_fired ops {} fired_init
  ⟨h.nodup, h.iff⟩

/-- C09.exactly_once_step: a step appends to the log exactly the scopes that become completed in it. -/
theorem exactly_once_step (ops : List Op) (op : Op) :
    let s := run {} ops
    ∃ new, (step s op).fired = s.fired ++ new ∧
      ∀ n, n ∈ new ↔ (s.completed n = false ∧ (step s op).completed n = true) := by
  intro s
  have h0 := run_fired ops {} fired_init
  have h1 := step_fired s op h0
  obtain ⟨new, hnew⟩ := step_prefix s op
  refine ⟨new, hnew, ?_⟩
  intro n
  have hnd := h1.nodup
  rw [hnew, List.nodup_append] at hnd
  have hiff := h1.iff n
  rw [hnew, List.mem_append] at hiff
  constructor
  · intro hn
    refine ⟨?_, hiff.1 (.inr hn)⟩
    cases hc : s.completed n with
    | false => rfl
    | true => exact absurd rfl (hnd.2.2 n ((h0.iff n).2 hc) n hn)
  · intro ⟨hf, ht⟩
    rcases hiff.2 ht with h | h
    · have hc : s.completed n = true := (h0.iff n).1 h
      rw [hf] at hc; cases hc
    · exact h

/-- C09.no_bookkeeping_error: no history of well-formed API use makes an assertion of the completion
bookkeeping fail, whatever the order of constructions and exits – including scopes constructed after the
scope that was current had been left or had completed. -/
theorem no_bookkeeping_error (ops : List Op) (hw : wf {} ops = true) : (run {} ops).err = false :=
  (reach ops hw).1.noerr

/-- C09.time_frozen: once completed, a scope stays completed and the time it reports never changes
again, whatever happens afterwards (any further operations, clock ticks included). -/
theorem time_frozen (ops more : List Op) (n : Nat) :
    let s := run {} ops
    s.completed n = true →
      (run s more).completed n = true ∧ time (run s more) n = time s n := by
  intro s hc
  have := run_frozen more s n hc
  refine ⟨this.1, ?_⟩
  simp [time, hc, this.1, this.2]

/-- C09.program_histories_wellformed: whatever a program does through the public API of the program-level
model `Haiway.ScopeRun` (any interleaving of tasks constructing, entering, leaving scopes, `ctx.spawn` members
delaying their owner's exit, plain tasks outliving it, held scope objects entered late or never), the
completion protocol is only ever driven by a well-formed operation sequence – so every theorem above holds in
every reachable state of that system. -/
theorem program_histories_wellformed (evs : List ScopeRun.Ev) :
    ∃ ops, wf {} ops = true ∧ (ScopeRun.run ScopeRun.init evs).comp = run {} ops :=
  ScopeRun.run_reach evs ScopeRun.init ScopeRun.compReach_init

/-! ## The full liveness statement and the finding `completion.never-entered.blocks-ancestor`

"always eventually once they have been left": read with "they" = the scopes that were actually *entered*,
the statement is false of the code and of the model: a scope object that is constructed (hence registered)
but never entered keeps every ancestor waiting for ever. -/

/-- the full statement: only scopes that were entered need to be left -/
def liveness_full_statement : Prop :=
  ∀ (ops : List Op), wf {} ops = true → ∀ n,
    let s := run {} ops
    s.finished n = true → (∀ c, LexAnc s n c → s.entered c = true → s.finished c = true) →
      s.completed n = true

/-- witness: `outer = ctx.scope(..)`, enter it, construct `ctx.scope(..)` inside and drop it, leave `outer` -/
def neverEntered : List Op := [.create none, .enter 0, .create (some 0), .finish 0]

theorem liveness_full_refuted : ¬ liveness_full_statement := by
  intro h
  have hw : wf {} neverEntered = true := by decide
  have := h neverEntered hw 0 (by decide) (by
    intro c hl he
    have hlt := hl.lt (reach neverEntered hw).1.shape
    have : c = 0 := by
      have hsz : (run {} neverEntered).size = 2 := by decide
      have : c = 1 := by omega
      subst this
      revert he; decide
    omega)
  revert this; decide

/-- the part that does hold is `fires_once_subtree_left`: under the hypothesis that every scope constructed
inside `n` has been entered and left -/
theorem liveness_partial (ops : List Op) (hw : wf {} ops = true) (n : Nat) :
    let s := run {} ops
    s.finished n = true → (∀ c, LexAnc s n c → s.entered c = true ∧ s.finished c = true) →
      s.completed n = true :=
  fun hn hall => fires_once_subtree_left ops hw n hn (fun c hc => (hall c hc).2)

/-! ## Non-vacuity: concrete histories meeting the hypotheses -/

/-- parent left before its child; the child completes the parent -/
example : (run {} [.create none, .enter 0, .create (some 0), .enter 1, .finish 0, .finish 1]).fired = [1, 0] := by
  decide

/-- a child constructed after its lexical parent completed (inherited context in a task that outlives the
scope): well-formed, no assertion, both complete, each exactly once -/
example :
    let ops := [Op.create none, .enter 0, .finish 0, .create (some 0), .enter 1, .tick 3, .finish 1]
    wf {} ops = true ∧ (run {} ops).err = false ∧ (run {} ops).fired = [0, 1] ∧
      time (run {} ops) 0 = 0 ∧ time (run {} ops) 1 = 3 := by
  decide

/-- a late grandchild is adopted by the nearest open ancestor: 0 ⊃ 1 (completed) ⊃ 2 constructed late;
0 waits for 2 -/
example :
    let ops := [Op.create none, .enter 0, .create (some 0), .enter 1, .finish 1,
                .create (some 1), .enter 2, .finish 0]
    wf {} ops = true ∧ (run {} ops).completed 0 = false ∧ (run {} ops).fired = [1] ∧
      (run {} (ops ++ [.finish 2])).fired = [1, 2, 0] := by
  decide

/-- fault paths at the program level: the owner's exit waits for a `ctx.spawn` member (blocked), then the owner
is cancelled: the member is cancelled and joined, both scopes are left and complete, no assertion fails -/
example :
    let evs := [ScopeRun.Ev.openScope 0 true false { name := ['a'] }, .spawn 0 true,
                .openScope 1 false false { name := ['b'] }, .exit 0 false, .cancel 0]
    (ScopeRun.run ScopeRun.init evs).comp.fired = [1, 0] ∧ (ScopeRun.run ScopeRun.init evs).comp.err = false ∧
      (ScopeRun.run ScopeRun.init evs).bad = false := by
  decide

/-- a disposable whose cleanup raises: the scope is still left and completes; the enclosing scope follows -/
example :
    let evs := [ScopeRun.Ev.openScope 0 true false { name := ['a'] }, .openScope 0 true true { name := ['b'] },
                .exit 0 false, .exit 0 false]
    (ScopeRun.run ScopeRun.init evs).comp.fired = [1, 0] ∧ (ScopeRun.run ScopeRun.init evs).bad = false := by
  decide

/-- failing enters: a scope whose disposable raises while entering, and one cancelled while its disposable is
still entering, are rolled back – registered, entered and left at once – and the parent completes -/
example :
    let evs := [ScopeRun.Ev.openScope 0 true false { name := ['a'] }, .openFailing 0 { name := ['b'] },
                .spawn 0 false, .openGated 1 { name := ['c'] }, .cancel 1, .threadCtor 0, .exit 0 false]
    (ScopeRun.run ScopeRun.init evs).comp.fired = [1, 2, 0] ∧ (ScopeRun.run ScopeRun.init evs).comp.err = false ∧
      (ScopeRun.run ScopeRun.init evs).bad = false := by
  decide

end Haiway.C09
