import Haiway.Proofs.ScopeRun
/-!
# C10 – recorded metrics land in the innermost active scope and fold deterministically

Property theorems only.  Models: `Haiway.Metrics` (`record`, the `MetricsContext.record` wrapper, the merged
view) and the program-level system `Haiway.ScopeRun` (tasks with their own copy of the context variable,
scopes entered/left in any interleaving, `ctx.spawn` / plain tasks inheriting the context).
Merge functions are arbitrary Lean functions that may return any value or raise.
-/
namespace Haiway.C10
open Haiway Haiway.Metrics Haiway.ScopeRun
open Haiway.Completion (upd)

/-- C10.attribution: in every reachable state of the program-level system (any event sequence: any nesting,
any interleaving of any number of tasks) a `ctx.record` by task `t` reads the context variable of `t`, which
holds the lexically innermost scope active in `t` (its innermost own block, else the scope it inherited), and
changes the store of no other scope; the completion state, the tasks and the log output do not change. -/
theorem attribution (evs : List Ev) (t : Nat) (v : Val) (m : Merge) :
    let s := run init evs
    let s' := step s (.record t v m)
    (s.tasks t).cur = innermost (s.tasks t) ∧
    (∀ n, some n ≠ innermost (s.tasks t) → s'.store n = s.store n) ∧
    s'.comp = s.comp ∧ s'.tasks = s.tasks ∧ s'.emitted = s.emitted := by
  intro s s'
  have hctx : (s.tasks t).cur = innermost (s.tasks t) := (run_ctx evs init allCtxOk_init t).1
  refine ⟨hctx, ?_, ?_, ?_, ?_⟩
  · intro n hn
    show (step s (.record t v m)).store n = s.store n
    simp only [step]
    split
    · rw [← hctx] at hn
      cases hcur : (s.tasks t).cur with
      | none => simp
      | some c =>
        have hne : n ≠ c := by intro h; apply hn; rw [hcur, h]
        simp only [Option.map_some]
        cases (ctxRecord (some (s.comp.completed c, s.store c)) v m).1 with
        | none => rfl
        | some x => simp [upd, hne]
    · rfl
  · show (step s (.record t v m)).comp = s.comp
    simp only [step]; split <;> rfl
  · show (step s (.record t v m)).tasks = s.tasks
    simp only [step]; split <;> rfl
  · show (step s (.record t v m)).emitted = s.emitted
    simp only [step]; split <;> rfl

/-- C10.lands_in_innermost: when the innermost scope of the recording task is not completed, the record
does to that scope's store exactly what `ScopeMetrics.record` does (a raising merge leaves it unchanged). -/
theorem lands_in_innermost (evs : List Ev) (t n : Nat) (v : Val) (m : Merge) :
    let s := run init evs
    canAct s t = true → innermost (s.tasks t) = some n → s.comp.completed n = false →
      (step s (.record t v m)).store n = recordStep (s.store n) (v, m) := by
  intro s hact hin hc
  have hctx : (s.tasks t).cur = some n := by
    rw [← hin]; exact (run_ctx evs init allCtxOk_init t).1
  simp only [step, hact, ↓reduceIte, hctx, Option.map_some, hc, ctxRecord, recordStep]
  cases hr : record false (s.store n) v m with
  | stored x => simp [upd]
  | raised e => cases e <;> simp

/-- C10.fold (general form): after any sequence of records – of any types, with any merge functions, some of
which may raise – a scope's value for type `ty` is the fold of `foldStep ty` over the records in recording
order: the first record of the type is stored, each later one is merged with the supplied function, a
raising merge leaves the value as it was – whatever the truth values of the values involved. -/
theorem fold (recs : List (Val × Merge)) (s : Store) (ty : Nat) :
    get (recordAll s recs) ty = recs.foldl (foldStep ty) (get s ty) :=
  get_recordAll recs s ty

/-- C10.fold_left: for total merge functions, the value of type `ty` in a fresh scope is `foldl merge v₀ [v₁ …]` over
its records of that type in recording order, each step using the merge function supplied with that record – for **every**
merge function and **every** value, truthy or falsy (a `State` class may define `__bool__` / `__len__`). -/
theorem fold_left (recs : List (Val × (Val → Val → Val))) (ty : Nat) :
    get (recordAll [] (recs.map fun r => (r.1, total r.2))) ty
      = leftFold (recs.filter fun r => r.1.ty = ty) := by
  rw [get_recordAll]
  induction recs with
  | nil => rfl
  | cons r rest ih =>
    simp only [List.map_cons, List.foldl_cons]
    have hg : Metrics.get [] ty = none := rfl
    by_cases hty : r.1.ty = ty
    · have h0 : foldStep ty (Metrics.get [] ty) (r.1, total r.2) = some r.1 := by
        simp [foldStep, hty, hg]
      rw [h0, foldStep_total ty rest r.1]
      simp [hty, leftFold]
    · have h0 : foldStep ty (Metrics.get [] ty) (r.1, total r.2) = Metrics.get [] ty := by
        simp [foldStep, hty]
      rw [h0, ih]
      simp [hty]

/-- C10.fold_ignores_truthiness: a stored value is merged with the new record whatever its truth value – a falsy stored
value is *not* silently replaced (the pinned code tested `if current := …get(…)` and did replace it). -/
theorem fold_ignores_truthiness (s : Store) (cur v : Val) (m : Merge) (hg : get s v.ty = some cur) :
    record false s v m = (match m cur v with | .ok r => .stored (put s v.ty r) | .raise e => .raised e) := by
  simp only [record, hg, Bool.false_eq_true, ↓reduceIte]
  cases m cur v <;> rfl

/-- C10.view: the merged view of a scope is its own values with the merged views of the scopes registered
under it folded in one after the other, in creation order; every received value `v` goes through
`merge (current value of v's type | MISSING) v`, and a MISSING result leaves the accumulator unchanged. -/
theorem view (merge : ViewMerge) (own : Store) (nested : List Tree) :
    Metrics.view merge (.node own nested)
      = nested.foldl (fun acc t => mergeInto merge acc (values (Metrics.view merge t))) own := by
  rw [Metrics.view]; exact viewList_eq merge nested own

/-- C10.view_step: the loop body of `ScopeMetrics.metrics`. -/
theorem view_step (merge : ViewMerge) (acc : Store) (vs : List Val) :
    mergeInto merge acc vs
      = vs.foldl (fun acc v => match merge (get acc v.ty) v with | some r => put acc v.ty r | none => acc) acc :=
  mergeInto_eq merge vs acc

/-- C10.view_at: the same, for the view of scope `n` in every reachable state of the program-level system:
creation-order fold over the scopes registered under `n`. -/
theorem view_at (evs : List Ev) (merge : ViewMerge) (n : Nat) :
    let s := run init evs
    viewAt s merge n
      = (s.comp.nested n).foldl (fun acc c => mergeInto merge acc (values (viewAt s merge c))) (s.store n) := by
  intro s
  have hs := (reach_inv (run_reach evs init compReach_init)).1.shape
  unfold viewAt
  rw [treeOf_unfold s hs n, view, List.foldl_map]

/-- C10.never_raises: `ctx.record` returns normally – inside a scope, outside any scope (`cur = none`), after
the scope completed (`completed = true`), and with a merge function raising any `Exception`.  The only way
out is a merge function raising a bare `BaseException` (`isException = false`). -/
theorem never_raises (cur : Option (Bool × Store)) (v : Val) (m : Merge)
    (hm : ∀ a b e, m a b = .raise e → e = true) :
    ∃ logged, (ctxRecord cur v m).2 = .returned logged := by
  cases cur with
  | none => exact ⟨true, rfl⟩
  | some p =>
    obtain ⟨completed, s⟩ := p
    simp only [ctxRecord]
    cases hr : record completed s v m with
    | stored s' => exact ⟨false, rfl⟩
    | raised e =>
      cases e with
      | true => exact ⟨true, rfl⟩
      | false =>
        exfalso
        unfold record at hr
        split at hr
        · cases hr
        · split at hr
          · split at hr
            · cases hr
            · rename_i e' hme
              cases hr
              have := hm _ _ _ hme
              cases this
          · cases hr

/-- C10.never_raises_run: at the program level, every `ctx.record` of an acting task appends exactly one
`returned` outcome – whatever state the system is in. -/
theorem never_raises_run (evs : List Ev) (t : Nat) (v : Val) (m : Merge)
    (hm : ∀ a b e, m a b = .raise e → e = true) :
    let s := run init evs
    canAct s t = true →
      ∃ logged, (step s (.record t v m)).outcomes = s.outcomes ++ [.returned logged] := by
  intro s hact
  obtain ⟨l, hl⟩ := never_raises ((s.tasks t).cur.map fun n => (s.comp.completed n, s.store n)) v m hm
  refine ⟨l, ?_⟩
  simp only [step, hact, ↓reduceIte]
  rw [← hl]

/-! ## Non-vacuity -/

private def cat : Val → Val → Val := fun a b => { b with data := a.data ++ b.data }

/-- concatenation is not commutative: the fold keeps the recording order -/
example :
    get (recordAll [] ([(⟨0, [1], true⟩, cat), (⟨1, [7], true⟩, cat), (⟨0, [2], true⟩, cat), (⟨0, [3], true⟩, cat)].map
      fun r => (r.1, total r.2))) 0 = some ⟨0, [1, 2, 3], true⟩ := by decide

/-- two tasks, each recording into its own innermost scope; the spawned task inherits scope 0 -/
example :
    let evs := [Ev.openScope 0 true false { name := ['a'] }, .spawn 0 true, .openScope 1 false false { name := ['b'] },
                .record 1 ⟨0, [5], true⟩ (total cat), .record 0 ⟨0, [6], true⟩ (total cat)]
    (run init evs).store 0 = [(0, ⟨0, [6], true⟩)] ∧ (run init evs).store 1 = [(0, ⟨0, [5], true⟩)] := by
  decide

/-- a raising merge and a record after completion: both return normally -/
example : (ctxRecord (some (false, [(0, ⟨0, [1], true⟩)])) ⟨0, [2], true⟩ (fun _ _ => .raise true)).2 = .returned true
    ∧ (ctxRecord (some (true, [])) ⟨0, [2], true⟩ (total cat)).2 = .returned true
    ∧ (ctxRecord none ⟨0, [2], true⟩ (total cat)).2 = .returned true := by decide

/-- a view merge returning MISSING for types the scope does not have yet (`skipnew`) drops them -/
example :
    Metrics.view (fun a b => match a with | some a => some (cat a b) | none => none)
      (.node [(0, ⟨0, [1], true⟩)] [.node [(0, ⟨0, [2], true⟩), (1, ⟨1, [7], true⟩)] []])
      = [(0, ⟨0, [1, 2], true⟩)] := by decide

end Haiway.C10
