import Haiway.Proofs.Stream
import Haiway.Spec.Stream
/-!
# C11 – context streams: items, contexts, completion

Model: `Haiway.Stream` (`Haiway/Model/Stream.lean`) – `ctx.stream` as the code has it: the generator body runs
in the context of whoever resumes it.  Specification side: `Haiway.Stream.Spec` (environment stacks).

The full statement of the property is **false** of the code (and of the model, which follows the code): it is
kept as `full_statement`, refuted by concrete witnesses (`full_statement_refuted`, by `decide`); the `_partial`
theorems state what does hold, for every generator body (any nesting of blocks and nested streams), every
number of tasks and every interleaving of their labels.
-/
namespace Haiway.C11
open Haiway.Stream

/-! ## what holds -/

/-- C11.items_exact_partial: for every run and every stream in it – the body is the generator it was created
from; what the consumer received so far is a prefix of the body's items (nothing lost, duplicated, reordered or
invented, whatever contexts the body ran in and whatever the other tasks did); unless the stream was closed or
dropped early, received ++ still-to-come is exactly the body's item list and ending; and once such a stream has
ended, the consumer has received exactly the body's items followed by the body's own ending (normal end or its
exception). -/
theorem items_exact_partial (gens : Gens) (ls : List Label) (h : Nat) (st : Strm)
    (hl : lookup (run gens ls).1.streams h = some st) :
    gens[st.g]? = some st.body ∧
    st.delivered <+: (flatL st.body).1 ∧
    (st.cut = false → Flat.seq (st.delivered, none) (remaining st) = flatL st.body) ∧
    (st.cut = false → st.status = .done → (st.delivered, st.exc) = flatL st.body) := by
  obtain ⟨hg, hcs, rem, hrem, hcut⟩ := runFrom_inv gens ls {} 0 (init_inv gens) h st hl
  refine ⟨hg, ?_, ?_, ?_⟩
  · have : (Flat.seq (st.delivered, none) rem).1 = (flatL st.body).1 := by rw [hrem]
    exact ⟨rem.1, by simpa [Flat.seq] using this⟩
  · intro hc; rw [← hcut hc]; exact hrem
  · intro hc hd
    have := hcut hc
    rw [this] at hrem
    simpa [remaining, hd, Flat.seq] using hrem

/-- what one `__anext__` shows is what the ghost bookkeeping of `items_exact_partial` records: an item is
appended to `delivered`; `stop` / an exception ends the stream with that ending; an ended stream says `stop`. -/
theorem next_observation (gens : Gens) (s : Sys) (idx t h : Nat) (tk : Task) (st : Strm)
    (htk : lookup s.tasks t = some tk) (hst : lookup s.streams h = some st)
    (hs : st.status = .unstarted ∨ (st.status = .running ∧ st.consumer = t)) :
    ∃ o st', (step gens s idx ⟨t, .next h⟩).2 = .out o ∧
      lookup (step gens s idx ⟨t, .next h⟩).1.streams h = some st' ∧
      match o with
      | .item i _ => st'.delivered = st.delivered ++ [i] ∧ st'.status = .running
      | .stop => st'.delivered = st.delivered ∧ st'.status = .done ∧ st'.exc = none
      | .err e => st'.delivered = st.delivered ∧ st'.status = .done ∧ st'.exc = some e := by
  have h1 : ¬ st.status = .done := by rcases hs with h | h <;> simp [h] <;> simp [h.1]
  have h2 : ¬ st.status = .dropped := by rcases hs with h | h <;> simp [h] <;> simp [h.1]
  have h3 : ¬ (st.status = .running ∧ st.consumer ≠ t) := by
    rcases hs with h | h
    · simp [h]
    · simp [h.2]
  refine ⟨(nextOn st h t tk.ctx s.world).1, (nextOn st h t tk.ctx s.world).2.1, ?_, ?_, ?_⟩
  · simp [step, htk, stepOp, hst, h1, h2, h3]
  · simp only [step, htk, stepOp, hst, if_neg h1, if_neg h2, if_neg h3]
    exact lookup_update_same _ _ _
  · simp only [nextOn]
    generalize (resume (resumePoint st h tk.ctx).1 (resumePoint st h tk.ctx).2 s.world) = r
    obtain ⟨o, stack', c', w'⟩ := r
    cases o <;> simp [Strm.after]

theorem next_after_end (gens : Gens) (s : Sys) (idx t h : Nat) (tk : Task) (st : Strm)
    (htk : lookup s.tasks t = some tk) (hst : lookup s.streams h = some st) (hd : st.status = .done) :
    step gens s idx ⟨t, .next h⟩ = (s, .out .stop) := by
  simp [step, htk, stepOp, hst, hd]

/-- C11.metrics_nesting_partial (registration): `ctx.stream` called by task `t` creates the stream's scope node at
once, named after the generator and nested under the scope that is current for `t` at that moment (or, when that
one has already completed, under its nearest ancestor that has not). -/
theorem metrics_nesting_partial_registered (gens : Gens) (s : Sys) (idx t h g : Nat) (tk : Task) (body : List Instr)
    (htk : lookup s.tasks t = some tk) (hnew : lookup s.streams h = none) (hg : gens[g]? = some body) :
    let s' := (step gens s idx ⟨t, .mk h g⟩).1
    ∃ st, lookup s'.streams h = some st ∧ st.status = .unstarted ∧ st.node = s.world.nodes.length ∧
      s'.world.nodes[st.node]? = some
        { name := .gen g, parent := liveAncestor (s.world.nodes.length + 1) s.world.nodes tk.ctx.metrics } := by
  simp only [step, htk, stepOp, hnew, hg]
  refine ⟨_, lookup_update_same _ _ _, rfl, rfl, ?_⟩
  simp [mkNode]

/-- the current scope itself when it has not completed -/
theorem liveAncestor_open (nodes : List Node) (p : Nat) (nd : Node) (h : nodes[p]? = some nd)
    (hc : nd.completed = false) (fuel : Nat) : liveAncestor (fuel + 1) nodes (some p) = some p := by
  simp [liveAncestor, h, hc]

/-- C11.metrics_nesting_partial (finished at the end): in every reachable state, the `__anext__` that reports the
end of the body (normal end or exception) leaves the stream's scope finished – so it completes as soon as the scopes
nested in it are completed (`Stream.finish_completes`). -/
theorem metrics_nesting_partial_exhausted (gens : Gens) (ls : List Label) (idx t h : Nat) (tk : Task) (st : Strm)
    (htk : lookup (run gens ls).1.tasks t = some tk) (hst : lookup (run gens ls).1.streams h = some st)
    (hs : st.status = .unstarted ∨ (st.status = .running ∧ st.consumer = t))
    (hend : ∀ i fp, (step gens (run gens ls).1 idx ⟨t, .next h⟩).2 ≠ .out (.item i fp)) :
    Fin (step gens (run gens ls).1 idx ⟨t, .next h⟩).1.world st.node := by
  have hN := runFrom_nodeInv gens ls {} 0 init_nodeInv
  have h1 : ¬ st.status = .done := by rcases hs with h | h <;> simp [h] <;> simp [h.1]
  have h2 : ¬ st.status = .dropped := by rcases hs with h | h <;> simp [h] <;> simp [h.1]
  have h3 : ¬ (st.status = .running ∧ st.consumer ≠ t) := by
    rcases hs with h | h
    · simp [h]
    · simp [h.2]
  have hs' : st.status = .unstarted ∨ st.status = .running := hs.imp id And.left
  simp only [step, htk, stepOp, hst, if_neg h1, if_neg h2, if_neg h3] at hend ⊢
  exact next_terminal_finished _ h t tk st hN hst hs' (fun i fp he => hend i fp (by simp [he]))

/-- … and so does `aclose()` of a stream that had started (called by its consumer). -/
theorem metrics_nesting_partial_closed (gens : Gens) (ls : List Label) (idx t h : Nat) (tk : Task) (st : Strm)
    (htk : lookup (run gens ls).1.tasks t = some tk) (hst : lookup (run gens ls).1.streams h = some st)
    (hs : st.status = .running) (hc : st.consumer = t) :
    Fin (step gens (run gens ls).1 idx ⟨t, .close h⟩).1.world st.node := by
  have hN := runFrom_nodeInv gens ls {} 0 init_nodeInv
  simp only [step, htk, stepOp, hst, hs, hc, ne_eq, not_true_eq_false, if_false]
  exact close_finished _ h tk st hN hst hs

/-- C11.same_context_partial: task `t` starts consuming a fresh stream `h` in context `c` and from then on only
calls `__anext__` / `aclose` on it, probes, or catches a cancellation request, while the other tasks do anything at all except touch `h`
(`SessionLabel`): whenever the stream has ended – exhausted, failed, or closed early by `t` – the context of `t` is
`c` again: state, metrics scope and task group.  In between, `c` is what resetting the generator's open blocks
would give back (the consumer sits *inside* those blocks – see `consumer_inside_stream_scope`). -/
theorem same_context_partial (gens : Gens) (s : Sys) (idx t h : Nat) (tk : Task) (st : Strm) (ls : List Label)
    (htk : lookup s.tasks t = some tk) (hst : lookup s.streams h = some st) (hun : st.status = .unstarted)
    (hls : ∀ l ∈ ls, SessionLabel t h l) :
    ∃ tk' st', lookup (runFrom gens s idx ls).1.tasks t = some tk' ∧
      lookup (runFrom gens s idx ls).1.streams h = some st' ∧
      (st'.status = .done → tk'.ctx = tk.ctx) ∧
      (st'.status = .unstarted → tk'.ctx = tk.ctx) ∧
      (st'.status = .running → restoreAll (framesOf st'.stack) tk'.ctx = tk.ctx) ∧
      st'.status ≠ .dropped := by
  have h0 : Session s t h tk.ctx := ⟨tk, st, htk, hst, by simp [hun]⟩
  obtain ⟨tk', st', h1, h2, h3⟩ := session_run gens t h tk.ctx ls s idx hls h0
  refine ⟨tk', st', h1, h2, ?_, ?_, ?_, ?_⟩
  · intro hd; simpa [hd] using h3
  · intro hd; simpa [hd] using h3
  · intro hd; simp only [hd] at h3; exact h3.2.1
  · intro hd; simp [hd] at h3

/-- the other tasks are out of reach: a label of task `t'` that does not name stream `h` changes neither the
context and blocks of another task `t` nor the stream `h` (any state, any label). -/
theorem other_tasks_untouched (gens : Gens) (s : Sys) (idx t h : Nat) (l : Label) (hne : l.task ≠ t)
    (ht : (lookup s.tasks t).isSome)
    (hop : l.op ≠ .next h ∧ l.op ≠ .close h ∧ l.op ≠ .abandon h ∧ ∀ g, l.op ≠ .mk h g) :
    lookup (step gens s idx l).1.tasks t = lookup s.tasks t ∧
    lookup (step gens s idx l).1.streams h = lookup s.streams h := by
  simp only [step]
  cases htk' : lookup s.tasks l.task with
  | none => exact ⟨rfl, rfl⟩
  | some tk' => exact stepOp_other gens s idx l.task t h tk' l.op hne ht hop

/-- how the code behaves instead of the property (1): the first `__anext__` puts the *consumer* inside the stream's
scope – its metrics scope is the stream's node, its task group the stream's, and the state it sees stays its own. -/
theorem consumer_inside_stream_scope (st : Strm) (h : Nat) (c : Ctx) :
    (startEntry st h c).2 = { state := some (newState c.state 0), metrics := some st.node,
                              group := some (.stream st.g [h]) } := rfl

/-- how the code behaves instead of the property (2): the state a body observes at a `yield` is the state of the
context it was *resumed in* (overlaid by its own blocks) – the snapshot taken by `ctx.stream` is never consulted:
`runL` does not even receive it. -/
theorem body_reads_resumer_state (path : List Nat) (i : Nat) (r : List Instr) (c : Ctx) (w : World) :
    runL path (.yld i :: r) c w = .yielded i (fpOf c w) [] r c w := by
  simp [runL, runI]

/-! ## the full statement, and its refutation -/

/-- the state component of the items the consumer of `h` received, in order -/
def itemStates : List Label → List Obs → Nat → List (Option Nat)
  | l :: ls, o :: os, h =>
    (match l.op, o with
      | .next h', .out (.item _ fp) => if h' = h then [fp.state] else []
      | _, _ => []) ++ itemStates ls os h
  | _, _, _ => []

/-- "yields exactly the generator's items in order and then its normal end or its exception" -/
def ItemsExact (gens : Gens) (ls : List Label) : Prop :=
  ∀ h st, lookup (run gens ls).1.streams h = some st →
    st.delivered <+: (flatL st.body).1 ∧
    (st.cut = false → st.status = .done → (st.delivered, st.exc) = flatL st.body)

/-- "the generator body observes the state that was current where the stream was created" -/
def BodySeesCreationState (gens : Gens) (ls : List Label) : Prop :=
  ∀ h, itemStates ls (run gens ls).2 h <+: Spec.expectedBodyStates gens ls h

/-- "the consumer's own state, metrics scope and task group are unaffected between items and after the stream
ends or is abandoned": every probe shows what the task's own blocks make visible -/
def ConsumerIntact (gens : Gens) (ls : List Label) : Prop :=
  ∀ k t fp, ls[k]? = some ⟨t, .probe⟩ → Spec.expectedProbe gens (ls.take k) t = some fp →
    (run gens ls).2[k]? = some (.fp fp)

/-- "the stream's scope completes when the stream is exhausted or closed" -/
def ScopeCompletes (gens : Gens) (ls : List Label) : Prop :=
  ∀ h st, lookup (run gens ls).1.streams h = some st → st.status = .done →
    isCompleted (run gens ls).1.world.nodes st.node = true

def full_statement : Prop :=
  ∀ (gens : Gens) (ls : List Label),
    ItemsExact gens ls ∧ BodySeesCreationState gens ls ∧ ConsumerIntact gens ls ∧ ScopeCompletes gens ls

/-- the one clause that is true: -/
theorem items_exact (gens : Gens) (ls : List Label) : ItemsExact gens ls := by
  intro h st hl
  have := items_exact_partial gens ls h st hl
  exact ⟨this.2.1, this.2.2.2⟩

def twoItems : Gens := [[.yld 1, .yld 2]]

/-- witness `stream.body-context.state`: created in scope A(v=1), consumed in scope A(v=2) – the body reads 2 -/
def wBody : List Label :=
  [⟨0, .enterA 1⟩, ⟨0, .mk 0 0⟩, ⟨0, .exit⟩, ⟨0, .enterA 2⟩, ⟨0, .next 0⟩, ⟨0, .next 0⟩, ⟨0, .next 0⟩, ⟨0, .exit⟩]

/-- witness `stream.consumer-context.between-items`: the consumer's probe between two items shows the stream's
scope instead of its own -/
def wBetween : List Label :=
  [⟨0, .enterA 1⟩, ⟨0, .mk 0 0⟩, ⟨0, .next 0⟩, ⟨0, .probe⟩, ⟨0, .next 0⟩, ⟨0, .next 0⟩, ⟨0, .exit⟩]

/-- witness `stream.abandoned.consumer-context`: after dropping the stream the consumer is still inside its scope -/
def wAbandoned : List Label :=
  [⟨0, .enterA 1⟩, ⟨0, .mk 0 0⟩, ⟨0, .next 0⟩, ⟨0, .abandon 0⟩, ⟨0, .probe⟩, ⟨0, .exit⟩]

/-- witness `stream.consumer-context.after-end`: the consumer enters a block while streaming; when the stream ends
inside it the variables are reset to the values from before the stream – the block's state is gone -/
def wAfterEnd : List Label :=
  [⟨0, .enterA 1⟩, ⟨0, .mk 0 0⟩, ⟨0, .next 0⟩, ⟨0, .enterA 2⟩, ⟨0, .next 0⟩, ⟨0, .next 0⟩, ⟨0, .probe⟩]

/-- witness `stream.unstarted.scope-never-completes`: a stream closed before its first item keeps its scope – and
so the creator's – uncompleted for ever -/
def wUnstarted : List Label :=
  [⟨0, .enterA 1⟩, ⟨0, .mk 0 0⟩, ⟨0, .close 0⟩, ⟨0, .exit⟩]

/-- witness `stream.closed.nested-stream-never-completes`: `aclose()` while the body is iterating a nested stream:
nobody closes the inner stream in the consumer's context -/
def wClosed : List Label :=
  [⟨0, .enterA 1⟩, ⟨0, .mk 0 0⟩, ⟨0, .next 0⟩, ⟨0, .next 0⟩, ⟨0, .close 0⟩, ⟨0, .exit⟩]

def nestedGen : Gens := [[.yld 1, .sub 1 [.yld 2, .yld 3], .yld 4]]

/-- (repaired, regression) `aclose()` while the body is suspended inside a block of its own: the wrapper closes the
source generator, the block is left, everything completes -/
def blockGen : Gens := [[.block .sync 5 [.yld 1, .yld 2]]]

def wClosedInBlock : List Label :=
  [⟨0, .enterA 1⟩, ⟨0, .mk 0 0⟩, ⟨0, .next 0⟩, ⟨0, .close 0⟩, ⟨0, .exit⟩]

theorem refuted_body_state : ¬ BodySeesCreationState twoItems wBody := by
  intro h
  have := h 0
  revert this
  decide

theorem refuted_between_items : ¬ ConsumerIntact twoItems wBetween := by
  intro h
  have := h 3 0 { state := some 1, label := some (.task 0), group := some (.task 0) } (by decide) (by decide)
  revert this
  decide

theorem refuted_abandoned : ¬ ConsumerIntact twoItems wAbandoned := by
  intro h
  have := h 4 0 { state := some 1, label := some (.task 0), group := some (.task 0) } (by decide) (by decide)
  revert this
  decide

theorem refuted_after_end : ¬ ConsumerIntact twoItems wAfterEnd := by
  intro h
  have := h 6 0 { state := some 2, label := some (.task 3), group := some (.task 3) } (by decide) (by decide)
  revert this
  decide

theorem refuted_unstarted_completion : ¬ ScopeCompletes twoItems wUnstarted := by
  intro h
  have := h 0 ((lookup (run twoItems wUnstarted).1.streams 0).getD { g := 0, body := [], node := 0 })
    (by rfl) (by decide)
  revert this
  decide

theorem refuted_closed_completion : ¬ ScopeCompletes nestedGen wClosed := by
  intro h
  have := h 0 ((lookup (run nestedGen wClosed).1.streams 0).getD { g := 0, body := [], node := 0 })
    (by rfl) (by decide)
  revert this
  decide

/-- closing a stream whose body sits inside a block of its own: the block's scope, the stream's scope and the
creator's scope all complete, in that order, and the consumer has its context back -/
theorem closed_in_block_completes :
    let r := run blockGen (wClosedInBlock ++ [⟨0, .probe⟩])
    r.1.world.events.map (·.name) = [.bsync 5, .task 0] ∧
    r.2.getLast? = some (.fp { state := none, label := none, group := none }) := by decide

/-- C11.full_statement_refuted -/
theorem full_statement_refuted : ¬ full_statement :=
  fun h => refuted_body_state (h twoItems wBody).2.1

/-- each of the three context clauses fails on its own witness -/
theorem full_statement_refuted_between : ¬ full_statement :=
  fun h => refuted_between_items (h twoItems wBetween).2.2.1

theorem full_statement_refuted_abandoned : ¬ full_statement :=
  fun h => refuted_abandoned (h twoItems wAbandoned).2.2.1

/-- an abandoned started stream: dropped, its scope unfinished, the creator's scope left and never completed -/
theorem witness_abandoned_never_completes :
    let s := (run twoItems wAbandoned).1
    (lookup s.streams 0).map (·.status) = some .dropped ∧
    isCompleted s.world.nodes 0 = false ∧ isCompleted s.world.nodes 1 = false ∧ s.world.events = [] := by
  decide

/-! ## non-vacuity -/

/-- a run with a nested stream, a body block, a failing inner generator, another task consuming -/
example :
    let gens : Gens := [[.yld 1, .sub 1 [.yld 2, .block .sync 7 [.yld 3], .fail false], .yld 4]]
    let r := run gens [⟨0, .enterA 1⟩, ⟨0, .mk 0 0⟩, ⟨0, .spawn 1⟩, ⟨1, .next 0⟩, ⟨1, .next 0⟩, ⟨1, .next 0⟩, ⟨1, .next 0⟩]
    (lookup r.1.streams 0).map (fun st => (st.delivered, st.exc, st.status)) = some ([1, 2, 3], some .boom, .done) ∧
    flatL (gens[0]?.getD []) = ([1, 2, 3], some .boom) := by decide

/-- the hypotheses of `same_context_partial` are satisfiable, with another task interleaved -/
example :
    let ls : List Label := [⟨0, .next 0⟩, ⟨1, .enterA 5⟩, ⟨0, .caught⟩, ⟨0, .next 0⟩, ⟨1, .exit⟩, ⟨0, .next 0⟩]
    (∀ l ∈ ls, SessionLabel 0 0 l) ∧
    let s := (run twoItems [⟨0, .enterA 1⟩, ⟨0, .mk 0 0⟩, ⟨0, .spawn 1⟩]).1
    ((lookup s.streams 0).map (·.status) = some .unstarted) ∧
    (lookup (runFrom twoItems s 3 ls).1.tasks 0).map (·.ctx) = (lookup s.tasks 0).map (·.ctx) := by
  refine ⟨?_, ?_⟩
  · intro l hl
    simp only [List.mem_cons, List.mem_nil_iff, or_false] at hl
    rcases hl with h | h | h | h | h | h <;> subst h <;> simp [SessionLabel]
  · decide

/-- a stream consumed to its end in the scope it was created in completes with it -/
example :
    let r := run twoItems [⟨0, .enterA 1⟩, ⟨0, .mk 0 0⟩, ⟨0, .next 0⟩, ⟨0, .next 0⟩, ⟨0, .next 0⟩, ⟨0, .exit⟩]
    isCompleted r.1.world.nodes 1 = true ∧ isCompleted r.1.world.nodes 0 = true ∧
    r.1.world.events = [{ name := .task 0, own := [], merged := [] }] := by decide

end Haiway.C11
