import Haiway.Proofs.Cache
/-!
# C12 – the cache returns only right-key, unexpired results and retains the LRU `limit`

Property theorems only.  Model: `Haiway.Cache` (`Haiway/Model/Cache.lean`).
Every statement quantifies over **every** history `ops : List (Op κ)` (any length; clock advances
are natural numbers, so the clock is non-decreasing by construction), every configuration
(`limit`, `expiration`, sync/async variant) and every key type `κ` with decidable equality – in
particular the typed key `Key` of `functools._make_key(…, typed=True)` with receiver identity.

Which variant a theorem covers: `cfg.storeFailure = false` is `_SyncCache` (a raising call stores
nothing), `cfg.storeFailure = true` is the sequential behaviour of `_AsyncCache` (the task is
stored, hence a failure is cached and served again).  Unless a hypothesis on `storeFailure`
appears, a theorem covers both, function and method forms alike (they differ only in the key).

`expiration = some 0` is the degenerate configuration of the code (`if expiration := expiration`
is falsy): nothing ever expires.  `fresh` is therefore stated for `expiration = some x`, `x ≠ 0`;
`expiration_zero_never_expires` states what the code does for `0`.
-/
namespace Haiway.C12
open Haiway.Cache

variable {κ : Type} [DecidableEq κ]

/-- the state after a history, starting from the empty cache -/
abbrev after (cfg : Cfg) (ops : List (Op κ)) : St κ := run cfg {} ops

/-- C12.capacity: after every history at most `limit` entries are kept (any `limit`, also `0`),
and no key is kept twice. -/
theorem capacity (cfg : Cfg) (ops : List (Op κ)) :
    (after cfg ops).table.length ≤ cfg.limit ∧ (keys (after cfg ops).table).Nodup :=
  let h := run_wf cfg ops {} (init_wf cfg)
  ⟨h.cap, h.nodup⟩

/-- C12.provenance: whenever a call on `k` is answered from the cache with the product of
invocation `n`, that invocation was an invocation of the wrapped function **for the key `k`**
(equal, type-identical arguments and the same receiver: structural equality of the typed key),
it had exactly the served outcome, it is the **latest** invocation for `k` so far, and the sync
variant never serves a failure. -/
theorem provenance (cfg : Cfg) (ops : List (Op κ)) (k : κ) (ok : Bool) (n : Nat) (okv : Bool)
    (h : (call cfg (after cfg ops) k ok).2 = .hit n okv) :
    ∃ i, (after cfg ops).log[n]? = some i ∧ i.key = k ∧ i.ok = okv ∧
      (∀ j i', (after cfg ops).log[j]? = some i' → i'.key = k → j ≤ n) ∧
      (cfg.storeFailure = false → okv = true) := by
  have hwf : Wf cfg (after cfg ops) := run_wf cfg ops ({} : St κ) (init_wf cfg)
  generalize after cfg ops = s at h hwf
  unfold call at h
  cases hf : find s.table k with
  | none => simp [hf, miss] at h; split at h <;> simp at h
  | some e =>
    simp only [hf] at h
    obtain ⟨hm, hk⟩ := find_some hf
    split at h
    · simp [miss] at h; split at h <;> simp at h
    · simp only [Res.hit.injEq] at h
      obtain ⟨h1, h2⟩ := h
      obtain ⟨i, h0, hkey, hok, _, _⟩ := (hwf.entries e hm).logged
      refine ⟨i, h1 ▸ h0, hkey.trans hk, hok.trans h2, ?_, ?_⟩
      · intro j i' hj hk'; rw [← h1]; exact (hwf.entries e hm).latest j i' hj (hk'.trans hk.symm)
      · intro hsf; rcases (hwf.entries e hm).stored with h | h
        · rw [← h2]; exact h
        · rw [hsf] at h; exact absurd h (by simp)

/-- C12.hit_does_not_invoke / computed_invokes_once: a hit leaves the invocation log unchanged;
any other answer appends exactly one invocation – for this key, now, with the announced outcome –
and returns that very product. -/
theorem invocations (cfg : Cfg) (s : St κ) (k : κ) (ok : Bool) :
    (∀ n okv, (call cfg s k ok).2 = .hit n okv → (call cfg s k ok).1.log = s.log) ∧
    (∀ n okv, (call cfg s k ok).2 = .computed n okv →
      n = s.log.length ∧ okv = ok ∧
      (call cfg s k ok).1.log = s.log ++ [{ key := k, time := s.now, ok := ok }]) := by
  have hmiss : ∀ t, (miss cfg s t k ok).2 = .computed s.log.length ok ∧
      (miss cfg s t k ok).1.log = s.log ++ [{ key := k, time := s.now, ok := ok }] := by
    intro t; unfold miss; split <;> exact ⟨rfl, rfl⟩
  unfold call
  cases hf : find s.table k with
  | none =>
    simp only
    refine ⟨fun n okv h => by rw [(hmiss _).1] at h; simp at h, fun n okv h => ?_⟩
    rw [(hmiss _).1] at h; simp at h; exact ⟨h.1.symm, h.2.symm, (hmiss _).2⟩
  | some e =>
    simp only
    split
    · refine ⟨fun n okv h => by rw [(hmiss _).1] at h; simp at h, fun n okv h => ?_⟩
      rw [(hmiss _).1] at h; simp at h; exact ⟨h.1.symm, h.2.symm, (hmiss _).2⟩
    · exact ⟨fun _ _ _ => rfl, fun n okv h => by simp at h⟩

/-- C12.fresh: a value answered from the cache is never older than the expiration: the product
served at clock `now` was produced at `t` with `now ≤ t + expiration` (an entry exactly at its
expiry instant is still served – the code tests `expire < now`). -/
theorem fresh (cfg : Cfg) (ops : List (Op κ)) (k : κ) (ok : Bool) (n : Nat) (okv : Bool) (x : Nat)
    (hx : cfg.expiration = some x) (hx0 : x ≠ 0)
    (h : (call cfg (after cfg ops) k ok).2 = .hit n okv) :
    ∃ i, (after cfg ops).log[n]? = some i ∧ i.time ≤ (after cfg ops).now ∧
      (after cfg ops).now ≤ i.time + x := by
  have hwf : Wf cfg (after cfg ops) := run_wf cfg ops ({} : St κ) (init_wf cfg)
  generalize after cfg ops = s at h hwf
  unfold call at h
  cases hf : find s.table k with
  | none => simp [hf, miss] at h; split at h <;> simp at h
  | some e =>
    simp only [hf] at h
    obtain ⟨hm, hk⟩ := find_some hf
    split at h
    · simp [miss] at h; split at h <;> simp at h
    · rename_i hne
      simp only [Res.hit.injEq] at h
      obtain ⟨i, h0, _, _, hexp, hle⟩ := (hwf.entries e hm).logged
      refine ⟨i, h.1 ▸ h0, hle, ?_⟩
      simp only [expired, hexp, stamp, hx, hx0, ↓reduceIte] at hne
      simp at hne
      omega

/-- the degenerate configuration `expiration = 0`: no entry ever carries an expiry stamp. -/
theorem expiration_zero_never_expires (cfg : Cfg) (ops : List (Op κ)) (h0 : cfg.expiration = some 0) :
    ∀ e ∈ (after cfg ops).table, e.expire = none := by
  intro e hm
  obtain ⟨i, _, _, _, hexp, _⟩ := ((run_wf cfg ops ({} : St κ) (init_wf cfg)).entries e hm).logged
  simpa [stamp, h0] using hexp

/-- C12.lru_hit: after any history, let a call on `k` leave a product (it returned normally, or
the variant stores the task).  If afterwards fewer than `limit` distinct other keys are called
(the keys of `mid`, all in `S`, `|S| < limit`), with arbitrary clock advances in between, and the
product is unexpired at the time of the next call on `k` (`now ≤ t_produced + expiration`),
then that call is answered from the cache – the function is not invoked – with that same product. -/
theorem lru_hit (cfg : Cfg) (ops : List (Op κ)) (k : κ) (ok0 ok1 : Bool) (mid : List (Op κ)) (S : List κ)
    (hst : (call cfg (after cfg ops) k ok0).2.returned = true ∨ cfg.storeFailure = true)
    (hmid : ∀ k' ok', Op.call k' ok' ∈ mid → k' ≠ k ∧ k' ∈ S) (hS : S.length < cfg.limit)
    (hfresh : ∀ x i, cfg.expiration = some x →
      (call cfg (after cfg ops) k ok0).1.log[(call cfg (after cfg ops) k ok0).2.producer]? = some i →
      (run cfg (call cfg (after cfg ops) k ok0).1 mid).now ≤ i.time + x) :
    (call cfg (run cfg (call cfg (after cfg ops) k ok0).1 mid) k ok1).2
      = .hit (call cfg (after cfg ops) k ok0).2.producer (call cfg (after cfg ops) k ok0).2.returned := by
  have hwf : Wf cfg (after cfg ops) := run_wf cfg ops ({} : St κ) (init_wf cfg)
  generalize after cfg ops = s at *
  have hl : 0 < cfg.limit := by omega
  obtain ⟨e, hek, hinv, hok, hpos⟩ := pos_after_call cfg hl s k ok0 hst S
  have hwf0 := call_wf cfg s k ok0 hwf
  obtain ⟨hpos', hwf'⟩ := pos_run_others cfg mid _ e S hwf0 hpos (by simpa [hek] using hmid) hS
  have hfind : find (run cfg (call cfg s k ok0).1 mid).table k = some e := by
    have := find_of_pos hpos' hwf'.nodup; rwa [hek] at this
  have hm : e ∈ (call cfg s k ok0).1.table := by
    obtain ⟨pre, post, h, _⟩ := hpos; rw [h]; simp
  obtain ⟨i, h0, _, _, hexp, _⟩ := (hwf0.entries e hm).logged
  have hne : expired e (run cfg (call cfg s k ok0).1 mid).now = false := by
    simp only [expired, hexp, stamp]
    cases hx : cfg.expiration with
    | none => rfl
    | some x =>
      have := hfresh x i hx (hinv ▸ h0)
      by_cases hx0 : x = 0
      · simp [hx0]
      · simp [hx0]; omega
  rw [← hinv, ← hok]
  generalize run cfg (call cfg s k ok0).1 mid = s1 at hfind hne
  unfold call
  rw [hfind]
  simp [hne]

/-- C12.mru_hit: after any history, a key that is among the keys the table retains (by
`refines_lru` these are exactly the abstract recency list, at most `limit` keys) and whose entry
is unexpired is answered without invoking the function. -/
theorem mru_hit (cfg : Cfg) (ops : List (Op κ)) (k : κ) (ok : Bool) (hk : k ∈ mru (after cfg ops))
    (hfresh : ∀ e, find (after cfg ops).table k = some e → expired e (after cfg ops).now = false) :
    (call cfg (after cfg ops) k ok).2.invoked = false := by
  generalize after cfg ops = s at *
  cases hf : find s.table k with
  | none => exact absurd (by simpa [mru] using hk) ((find_none_iff _ _).mp hf)
  | some e => simp [call, hf, hfresh e hf, Res.invoked]

/-- C12.refines_lru: after every history the retained keys, most recently used first, are the
abstract recency list obtained from the observable uses alone – per call only the key and whether
the call left a product – independent of values, clock and expiry stamps. -/
theorem refines_lru (cfg : Cfg) (ops : List (Op κ)) :
    mru (after cfg ops) = absFold cfg.limit [] (uses cfg {} ops) := by
  simpa [mru, keys] using refines cfg ops ({} : St κ) (init_wf cfg)

/-- C12.refines_take_limit: when every call leaves a product (every call of an async variant; a
sync history without raising calls) the retained keys are exactly the `limit` most recently used
distinct keys of the history. -/
theorem refines_take_limit (cfg : Cfg) (ops : List (Op κ))
    (hall : ∀ u ∈ uses cfg ({} : St κ) ops, u.2 = true) :
    mru (after cfg ops) = (mruAll [] (callKeys ops)).take cfg.limit := by
  rw [refines_lru, ← uses_keys cfg ops ({} : St κ)]
  have := absFold_all_stored cfg.limit (uses cfg ({} : St κ) ops) [] (by simp) hall
  simpa using this

/-- every use of an async variant leaves a product -/
theorem async_always_stores (cfg : Cfg) (hsf : cfg.storeFailure = true) :
    ∀ (ops : List (Op κ)) (s : St κ), ∀ u ∈ uses cfg s ops, u.2 = true
  | [], _ => by simp [uses]
  | .adv d :: ops, s => by simpa [uses] using async_always_stores cfg hsf ops _
  | .call k ok :: ops, s => by
    intro u hu
    simp only [uses, List.mem_cons] at hu
    rcases hu with hu | hu
    · simp [hu, hsf]
    · exact async_always_stores cfg hsf ops _ u hu

/-- C12.refines_take_limit, async variants: unconditional. -/
theorem refines_take_limit_async (cfg : Cfg) (hsf : cfg.storeFailure = true) (ops : List (Op κ)) :
    mru (after cfg ops) = (mruAll [] (callKeys ops)).take cfg.limit :=
  refines_take_limit cfg ops (async_always_stores cfg hsf ops {})

/-- C12.sync_raise_stores_nothing: in the sync variant a raising call stores nothing; the only
change to the table is that an expired entry of that key has been dropped. -/
theorem sync_raise_stores_nothing (cfg : Cfg) (hsf : cfg.storeFailure = false) (s : St κ) (k : κ)
    (h : (call cfg s k false).2.invoked = true) :
    (call cfg s k false).1.table = erase s.table k ∧ (call cfg s k false).2.returned = false := by
  unfold call at h ⊢
  cases hf : find s.table k with
  | none =>
    have : erase s.table k = s.table := by
      unfold erase; rw [List.filter_eq_self]; intro a ha; simp
      intro hak; exact (find_none_iff _ _).mp hf (by simpa [keys] using ⟨a, ha, hak⟩)
    simp [miss, hsf, this, Res.returned]
  | some e =>
    simp only [hf] at h ⊢
    split
    · simp [miss, hsf, Res.returned]
    · rename_i hne; simp [hne, Res.invoked] at h

/-- C12.async_failure_cached: in the async variants a failed invocation is stored like any other
product; a later call on the key, still among the `limit` most recently used and unexpired, is
served that same failure without a new invocation (instance of `lru_hit`). -/
theorem async_failure_cached (cfg : Cfg) (hsf : cfg.storeFailure = true) (ops : List (Op κ)) (k : κ)
    (ok1 : Bool) (mid : List (Op κ)) (S : List κ)
    (hinv : (call cfg (after cfg ops) k false).2.invoked = true)
    (hmid : ∀ k' ok', Op.call k' ok' ∈ mid → k' ≠ k ∧ k' ∈ S) (hS : S.length < cfg.limit)
    (hfresh : ∀ x i, cfg.expiration = some x →
      (call cfg (after cfg ops) k false).1.log[(call cfg (after cfg ops) k false).2.producer]? = some i →
      (run cfg (call cfg (after cfg ops) k false).1 mid).now ≤ i.time + x) :
    (call cfg (run cfg (call cfg (after cfg ops) k false).1 mid) k ok1).2
      = .hit (after cfg ops).log.length false := by
  have h := lru_hit cfg ops k false ok1 mid S (Or.inr hsf) hmid hS hfresh
  have hi := (invocations cfg (after cfg ops) k false).2
  cases hr : (call cfg (after cfg ops) k false).2 with
  | hit n okv => simp [hr, Res.invoked] at hinv
  | computed n okv =>
    obtain ⟨hn, hokv, _⟩ := hi n okv hr
    rw [h, hr]; simp [Res.producer, Res.returned, hn, hokv]

/-! ## the typed key -/

/-- C12.typed_key: two calls share a key exactly when the receiver is the same object and the
positional and keyword arguments agree in number, order, name, **type** and value. -/
theorem typed_key_eq_iff (a b : Key) :
    a = b ↔ a.recv = b.recv ∧ a.pos = b.pos ∧ a.kw = b.kw := by
  cases a; cases b; simp

/-- equal typed keys are in particular equal untyped keys (the converse fails: see the examples) -/
theorem typed_refines_untyped (a b : Key) (h : a = b) : a.untyped = b.untyped := by rw [h]

/-! ## Non-vacuity, separating examples, and witnesses that hypotheses cannot be dropped -/

private def i1 : Key := ⟨none, [⟨.int, .num 1⟩], []⟩
private def f1 : Key := ⟨none, [⟨.float, .num 1⟩], []⟩
private def b1 : Key := ⟨none, [⟨.bool, .num 1⟩], []⟩
private def s1 : Key := ⟨none, [⟨.str, .str "1"⟩], []⟩
private def kx1 : Key := ⟨none, [], [("x", ⟨.int, .num 1⟩)]⟩
private def kxy : Key := ⟨none, [], [("x", ⟨.int, .num 1⟩), ("y", ⟨.int, .num 2⟩)]⟩
private def kyx : Key := ⟨none, [], [("y", ⟨.int, .num 2⟩), ("x", ⟨.int, .num 1⟩)]⟩
private def r0i1 : Key := ⟨some 0, [⟨.int, .num 1⟩], []⟩
private def r1i1 : Key := ⟨some 1, [⟨.int, .num 1⟩], []⟩

/-- `1`, `1.0`, `True` are ==-equal (same untyped key) but three different typed keys; `"1"`,
`x=1`, the two keyword orders and two receivers are all different keys. -/
example : i1.untyped = f1.untyped ∧ f1.untyped = b1.untyped ∧ i1 ≠ f1 ∧ f1 ≠ b1 ∧ i1 ≠ b1 ∧ i1 ≠ s1
    ∧ i1 ≠ kx1 ∧ kxy ≠ kyx ∧ r0i1 ≠ r1i1 ∧ r0i1 ≠ i1 := by decide

private def c2 : Cfg := { limit := 2, expiration := none, storeFailure := false }
private def e2 : Cfg := { limit := 2, expiration := some 2, storeFailure := false }
private def a2 : Cfg := { limit := 2, expiration := some 2, storeFailure := true }

/-- typed keys in a history: `f(1)`, `f(1.0)`, `f(True)` are three separate invocations, then
`f(1.0)` is a hit of invocation 1 while `f(1)` (evicted at limit 2) is recomputed. -/
example : outs c2 {} [.call i1 true, .call f1 true, .call b1 true, .call f1 true, .call i1 true]
    = [.computed 0 true, .computed 1 true, .computed 2 true, .hit 1 true, .computed 3 true] := by decide

/-- LRU, not FIFO: `a b a c a` at limit 2 – the second `a` refreshes it, so `c` evicts `b`; the
last `a` is a hit (FIFO would have evicted `a`). Then `b` is a miss. -/
example : outs (κ := Nat) c2 {} [.call 0 true, .call 1 true, .call 0 true, .call 2 true, .call 0 true, .call 1 true]
    = [.computed 0 true, .computed 1 true, .hit 0 true, .computed 2 true, .hit 0 true, .computed 3 true] := by
  decide

/-- capacity is `len > limit` (not `≥`): with limit 2 two keys stay cached. -/
example : outs (κ := Nat) c2 {} [.call 0 true, .call 1 true, .call 0 true, .call 1 true]
    = [.computed 0 true, .computed 1 true, .hit 0 true, .hit 1 true] := by decide

/-- expiry is `expire < now` (not `≤`): exactly at the expiry instant the entry is served, one
tick later it is recomputed; a hit does not renew the stamp. -/
example : outs (κ := Nat) e2 {} [.call 0 true, .adv 2, .call 0 true, .adv 1, .call 0 true]
    = [.computed 0 true, .hit 0 true, .computed 1 true] := by decide

/-- sync: a raising call stores nothing (the next call invokes again); async: the failure is
cached and served again. -/
example : outs (κ := Nat) e2 {} [.call 0 false, .call 0 true, .call 0 false]
    = [.computed 0 false, .computed 1 true, .hit 1 true] := by decide
example : outs (κ := Nat) a2 {} [.call 0 false, .call 0 true, .adv 3, .call 0 true]
    = [.computed 0 false, .hit 0 false, .computed 1 true] := by decide

/-- the hypotheses of `lru_hit` are satisfiable (limit 2, one other key in between, clock exactly
at expiry) and its bound `|S| < limit` cannot be weakened to `≤`. -/
example : (call e2 (run (κ := Nat) e2 (call e2 {} 0 true).1 [.call 1 true, .adv 2]) 0 true).2 = .hit 0 true := by
  decide
example : (call c2 (run (κ := Nat) c2 (call c2 {} 0 true).1 [.call 1 true, .call 2 true]) 0 true).2
    = .computed 3 true := by decide

/-- `expiration = 0`: nothing expires however far the clock advances. -/
example : outs (κ := Nat) { limit := 1, expiration := some 0, storeFailure := false }
    {} [.call 0 true, .adv 1000, .call 0 true] = [.computed 0 true, .hit 0 true] := by decide

/-- the abstract recency list of a history with a raising sync call on an expired key: the key
is forgotten and nothing older comes back. -/
example : mru (after (κ := Nat) e2 [.call 0 true, .call 1 true, .adv 3, .call 1 false]) = [0]
    ∧ absFold 2 [] (uses (κ := Nat) e2 {} [.call 0 true, .call 1 true, .adv 3, .call 1 false]) = [0] := by
  decide

end Haiway.C12
