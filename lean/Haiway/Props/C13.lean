import Haiway.Proofs.AsyncCache
/-!
# C13 – the async cache shares one in-flight call; cancelling a waiter harms no one

Property theorems only.  Model: the labelled transition system `Haiway.AsyncCache`
(`Haiway/Model/AsyncCache.lean`; labels `spawn c k`, `enter c`, `finish t o`, `wake c`,
`cancel c`, `advance d`).  Statements are either about **every** label sequence the system accepts
from the initial state (`runLabels (init limit expiration) ls = some s`: every interleaving of any
number of callers over any number of keys, cancellations, completions and clock advances at
arbitrary points, every `limit`, every `expiration`), or frame statements about one arbitrary step
from an arbitrary state.
-/
namespace Haiway.C13
open Haiway.AsyncCache

/-! ## cancel_frame -/

/-- C13.cancel_frame (enabledness): a caller can be cancelled at each of its suspension points –
before it has started, or suspended in `await shield(task)` whatever the state of the task. -/
theorem cancel_enabled (s : Sys) (c : Nat)
    (h : (∃ k, s.callers c = .spawned k) ∨ (∃ t, s.callers c = .waiting t)) :
    ∃ s', step s (.cancel c) = some s' := by
  rcases h with ⟨k, h⟩ | ⟨t, h⟩ <;> simp [step, h]

/-- C13.cancel_frame: `cancel c` changes nothing but caller `c`'s own state: no task state (the
invocation is **not** cancelled), not the table, not the invocation count, not the clock, not what
anybody joined, no other caller. -/
theorem cancel_frame (s s' : Sys) (c : Nat) (h : step s (.cancel c) = some s') :
    s'.tasks = s.tasks ∧ s'.table = s.table ∧ s'.ntasks = s.ntasks ∧ s'.now = s.now ∧
    s'.joined = s.joined ∧ s'.callers c = .cancelled ∧ ∀ c', c' ≠ c → s'.callers c' = s.callers c' := by
  rw [cancel_frame_aux s s' c h]
  exact ⟨rfl, rfl, rfl, rfl, rfl, by simp, fun c' hc => upd_other _ _ hc⟩

/-- C13.caller_frame: a caller's state is only ever changed by that caller's own labels – not by
other callers arriving, joining, being cancelled or woken, not by an invocation finishing, not by
expiry, eviction or the clock ("the other callers are undisturbed"). -/
theorem caller_frame (s s' : Sys) (l : Label) (c : Nat) (h : step s l = some s') (hl : actor l ≠ some c) :
    s'.callers c = s.callers c :=
  caller_frame_aux s s' l c h hl

/-- C13.never_cancelled: in every run no invocation is ever cancelled. -/
theorem never_cancelled (limit : Nat) (expiration : Option Nat) (ls : List Label) (s : Sys)
    (h : runLabels (init limit expiration) ls = some s) (t : Nat) : s.tasks t ≠ .cancelled :=
  (run_inv ls _ s (init_inv limit expiration) h).notCancelled t

/-! ## evict_frame -/

/-- C13.evict_frame: only `finish t o` changes the state of an existing invocation, and only of
invocation `t`: lookups that expire or evict entries, joins, cancellations, wake-ups and clock
advances leave every invocation exactly as it is. -/
theorem evict_frame (s s' : Sys) (l : Label) (h : step s l = some s') (t : Nat) (ht : t < s.ntasks)
    (hl : ∀ o, l ≠ .finish t o) : s'.tasks t = s.tasks t := by
  cases l with
  | spawn c k =>
    simp only [step] at h; split at h
    · simp only [Option.some.injEq] at h; subst h; rfl
    · simp at h
  | enter c =>
    simp only [step] at h
    split at h
    · split at h
      · simp only [Option.some.injEq] at h; subst h; exact startNew_tasks_lt _ _ _ _ _ ht
      · split at h
        · simp only [Option.some.injEq] at h; subst h; exact startNew_tasks_lt _ _ _ _ _ ht
        · simp only [Option.some.injEq] at h; subst h; rfl
    · simp at h
  | finish t' o =>
    have : t ≠ t' := by intro h; subst h; exact hl o rfl
    simp only [step] at h; split at h
    · simp only [Option.some.injEq] at h; subst h; exact upd_other _ _ this
    · simp at h
  | wake c =>
    simp only [step] at h
    split at h
    · split at h
      · simp only [Option.some.injEq] at h; subst h; rfl
      · simp only [Option.some.injEq] at h; subst h; rfl
      · simp at h
    · simp at h
  | cancel c => rw [(cancel_frame s s' c h).1]
  | advance d => simp only [step, Option.some.injEq] at h; subst h; rfl

/-- an in-flight invocation can always finish – whether or not its entry is still in the table –
and finishing touches neither the table nor any caller (delivery happens at the callers' wake-ups). -/
theorem finish_enabled_frame (s : Sys) (t : Nat) (o : Outcome) (ht : t < s.ntasks)
    (hr : s.tasks t = .running) :
    ∃ s', step s (.finish t o) = some s' ∧ s'.tasks t = .done o ∧ s'.table = s.table ∧
      s'.callers = s.callers ∧ s'.ntasks = s.ntasks :=
  ⟨{ s with tasks := upd s.tasks t (.done o) }, by simp [step, ht, hr], by simp, rfl, rfl, rfl⟩

/-! ## delivery -/

/-- C13.delivery (enabledness): a caller suspended on invocation `t` whose invocation has finished
with outcome `o` can be resumed and then has exactly `o` – for **any** table, hence also when the
entry expired or was evicted while the invocation was in flight. -/
theorem delivery_wake (s : Sys) (c t : Nat) (o : Outcome) (hw : s.callers c = .waiting t)
    (hd : s.tasks t = .done o) :
    step s (.wake c) = some { s with callers := upd s.callers c (.got t o) } := by
  simp [step, hw, hd]

/-- C13.delivery (safety, every run and every continuation): a caller that joined invocation `t`
and is not cancelled is, whatever else happens afterwards (other callers, expiry, eviction, new
invocations of the same key), still waiting for `t` or has received the outcome of `t` – never
another invocation's outcome, never a cancellation. -/
theorem delivery (limit : Nat) (expiration : Option Nat) (ls₁ ls₂ : List Label) (s s' : Sys) (c t : Nat)
    (h₁ : runLabels (init limit expiration) ls₁ = some s) (hw : s.callers c = .waiting t)
    (h₂ : runLabels s ls₂ = some s') (hnc : Label.cancel c ∉ ls₂) :
    s'.callers c = .waiting t ∨ ∃ o, s'.callers c = .got t o ∧ s'.tasks t = .done o :=
  waiting_progress ls₂ s s' c t (run_inv ls₁ _ s (init_inv limit expiration) h₁) h₂ hw hnc

/-- C13.delivery (completeness of a loop run): resuming all suspended callers (what running the
event loop to quiescence does) gives **every** caller that waits on a finished invocation that
invocation's outcome, and touches neither tasks nor table. -/
theorem delivery_all (n : Nat) (s : Sys) (c t : Nat) (o : Outcome) (hc : c < n)
    (hw : s.callers c = .waiting t) (hd : s.tasks t = .done o) :
    (wakeAll n s).callers c = .got t o ∧ (wakeAll n s).tasks = s.tasks ∧ (wakeAll n s).table = s.table :=
  ⟨wakeAll_delivers n s c t o hc hw hd, (wakeAll_frame n s).1, (wakeAll_frame n s).2.1⟩

/-- C13.outcome_sound: in every run, an outcome a caller holds is the true outcome of the
invocation it joined, and that invocation was started for the caller's key; an outcome once
received is never revoked. -/
theorem outcome_sound (limit : Nat) (expiration : Option Nat) (ls : List Label) (s : Sys)
    (h : runLabels (init limit expiration) ls = some s) (c t : Nat) (o : Outcome)
    (hg : s.callers c = .got t o) :
    s.joined c = some t ∧ s.tasks t = .done o ∧ t < s.ntasks ∧ s.taskKey t = s.callerKey c ∧
    ∀ ls' s', runLabels s ls' = some s' → s'.callers c = .got t o := by
  have hinv := run_inv ls _ s (init_inv limit expiration) h
  obtain ⟨hj, hd⟩ := hinv.gotOk c t o hg
  exact ⟨hj, hd, (hinv.joinedOk c t hj).1, (hinv.joinedOk c t hj).2,
    fun ls' s' hr => got_stable ls' s s' c t o hr hg⟩

/-! ## single_flight -/

/-- C13.single_flight (join): a caller arriving for key `k` while an unexpired entry for `k` is in
the table joins that entry's invocation – suspended on it, or served at once if it is done – and
**no invocation is started**; tasks are untouched. -/
theorem single_flight_join (s : Sys) (c k : Nat) (e : Entry) (hc : s.callers c = .spawned k)
    (hf : find s.table k = some e) (hx : expired e s.now = false) :
    ∃ s', step s (.enter c) = some s' ∧ s'.ntasks = s.ntasks ∧ s'.tasks = s.tasks ∧
      s'.joined c = some e.task ∧ s'.callers c = joinState s e.task := by
  refine ⟨_, join_existing s c k e hc hf hx, rfl, rfl, by simp, by simp⟩

/-- C13.single_flight (start): an invocation is started only by a caller that finds no entry for
its key, or an expired one; it is started for that key, the caller joins it, and no other label
ever changes the number of invocations. -/
theorem invocation_only_on_miss (s s' : Sys) (l : Label) (h : step s l = some s') :
    s'.ntasks = s.ntasks ∨
    ∃ c k, l = .enter c ∧ s.callers c = .spawned k ∧
      (find s.table k = none ∨ ∃ e, find s.table k = some e ∧ expired e s.now = true) ∧
      s'.ntasks = s.ntasks + 1 ∧ s'.joined c = some s.ntasks ∧ s'.taskKey s.ntasks = k := by
  by_cases hl : ∀ c, l ≠ .enter c
  · exact Or.inl ((ghost_frame s s' l h).2.2.2.2 hl)
  · have ⟨c, hc⟩ : ∃ c, l = .enter c := by
      cases l <;> first | exact ⟨_, rfl⟩ | exact absurd (fun c h => by cases h) hl
    subst hc
    cases hcs : s.callers c with
    | spawned k =>
      rcases enter_cases s s' c k hcs h with ⟨_, _, _, hn, _⟩ | ⟨hm, hn, hj, hk, _⟩
      · exact Or.inl hn
      · exact Or.inr ⟨c, k, rfl, hcs, hm, hn, hj, hk⟩
    | _ => simp [step, hcs] at h

/-- C13.one_invocation_per_entry: in every run the table has at most one entry per key, no two
entries share an invocation, and each entry's invocation exists and was started for the entry's key. -/
theorem one_invocation_per_entry (limit : Nat) (expiration : Option Nat) (ls : List Label) (s : Sys)
    (h : runLabels (init limit expiration) ls = some s) :
    (s.table.map (·.key)).Nodup ∧ (s.table.map (·.task)).Nodup ∧
    ∀ e ∈ s.table, e.task < s.ntasks ∧ s.taskKey e.task = e.key :=
  let hinv := run_inv ls _ s (init_inv limit expiration) h
  ⟨hinv.keysNodup, hinv.tasksNodup, hinv.entryTask⟩

/-- C13.single_flight: in every run, over any stretch `ls₂` of the run during which the entry
`k ↦ t` stays in the table and unexpired (`HeldAlong`: "between insertion and removal of the
entry"), **no** invocation for `k` is started, and every caller of key `k` that joins anything
during the stretch joins invocation `t` – however many callers, in whatever interleaving with
cancellations, completions, callers of other keys and clock advances. -/
theorem single_flight (limit : Nat) (expiration : Option Nat) (ls₁ ls₂ : List Label) (s s' : Sys) (k t : Nat)
    (h₁ : runLabels (init limit expiration) ls₁ = some s) (h₂ : runLabels s ls₂ = some s')
    (hheld : HeldAlong k t s ls₂) :
    (∀ t', s.ntasks ≤ t' → t' < s'.ntasks → s'.taskKey t' ≠ k) ∧
    (∀ c, s'.callerKey c = k → s'.joined c ≠ s.joined c → s'.joined c = some t) :=
  single_flight_aux k t ls₂ s s' (run_inv ls₁ _ s (init_inv limit expiration) h₁) h₂ hheld

/-! ## Non-vacuity -/

private def outc (s : Option Sys) (c : Nat) : Option CallerSt := s.map (·.callers c)
private def ntasksOf (s : Option Sys) : Option Nat := s.map (·.ntasks)
private def taskOf (s : Option Sys) (t : Nat) : Option TaskSt := s.map (·.tasks t)

/-- three callers of one key: the first starts the invocation, the others join it; the second is
cancelled while waiting; the invocation finishes `boom`; callers 0 and 2 receive it, caller 1 is
cancelled, the invocation ran once and was not cancelled. -/
example :
    let r := runLabels (init 1 none) [.spawn 0 7, .spawn 1 7, .spawn 2 7, .enter 0, .enter 1, .enter 2,
      .cancel 1, .finish 0 .boom, .wake 0, .wake 2]
    outc r 0 = some (.got 0 .boom) ∧ outc r 1 = some .cancelled ∧ outc r 2 = some (.got 0 .boom)
      ∧ ntasksOf r = some 1 ∧ taskOf r 0 = some (.done .boom) := by decide

/-- eviction while in flight (limit 1): key 8 evicts key 7's entry; the waiter on invocation 0 still
receives its outcome; a later caller of key 7 starts a second invocation. -/
example :
    let r := runLabels (init 1 none) [.spawn 0 7, .enter 0, .spawn 1 8, .enter 1, .spawn 2 7, .enter 2,
      .finish 0 .ok, .wake 0, .finish 2 .ok, .wake 2]
    outc r 0 = some (.got 0 .ok) ∧ outc r 2 = some (.got 2 .ok) ∧ ntasksOf r = some 3 := by decide

/-- expiry while in flight: after the clock passed the stamp a new caller starts invocation 1; the
old waiter still gets invocation 0's outcome. -/
example :
    let r := runLabels (init 2 (some 2)) [.spawn 0 7, .enter 0, .advance 3, .spawn 1 7, .enter 1,
      .finish 0 .ok, .finish 1 .boom, .wake 0, .wake 1]
    outc r 0 = some (.got 0 .ok) ∧ outc r 1 = some (.got 1 .boom) := by decide

/-- exactly at the expiry instant the entry still counts: the second caller joins invocation 0. -/
example :
    let r := runLabels (init 2 (some 2)) [.spawn 0 7, .enter 0, .advance 2, .spawn 1 7, .enter 1, .finish 0 .ok,
      .wake 1]
    outc r 1 = some (.got 0 .ok) ∧ ntasksOf r = some 1 := by decide

/-- a caller cancelled before it started never enters the library: no invocation. A caller cancelled
after its invocation finished but before it was resumed is cancelled; the outcome stays with the task
and serves the next caller at once. -/
example :
    let r := runLabels (init 1 none) [.spawn 0 7, .cancel 0, .spawn 1 7, .enter 1, .finish 0 .ok, .cancel 1,
      .spawn 2 7, .enter 2]
    outc r 0 = some .cancelled ∧ outc r 1 = some .cancelled ∧ outc r 2 = some (.got 0 .ok)
      ∧ ntasksOf r = some 1 := by decide

/-- the hypothesis of `single_flight` is satisfiable on a stretch with two joins and a cancellation -/
example : HeldAlong 7 0
    ((runLabels (init 1 none) [.spawn 0 7, .enter 0, .spawn 1 7, .spawn 2 7]).getD (init 1 none))
    [.enter 1, .cancel 1, .enter 2] := by
  simp only [HeldAlong, Held]
  refine ⟨by decide, ?_⟩
  intro s1 h1
  refine ⟨?_, ?_⟩
  · have : s1 = _ := (Option.some.inj h1).symm
    subst this; decide
  · intro s2 h2
    refine ⟨?_, fun _ _ => trivial⟩
    have : s1 = _ := (Option.some.inj h1).symm
    subst this
    have : s2 = _ := (Option.some.inj h2).symm
    subst this; decide

end Haiway.C13
