import Haiway.Proofs.Retry
/-!
# C14 – retry makes exactly the allowed attempts and reports the true last outcome

Property theorems only.  Model: `Haiway.Retry` (`Haiway/Model/Retry.lean`), one loop for the sync
and the async wrapper.  Every statement quantifies over **every** configuration (`limit`, caught
classes, subclass relation, delay argument) and **every** outcome function `Nat → Outcome`
(what the `i`-th invocation of the wrapped function does); nothing is bounded.
-/
namespace Haiway.C14
open Haiway.Retry

/-- length of the maximal prefix of retryable failures, capped at `limit`
(= `min limit (length of the maximal retryable prefix)`, also when that prefix is infinite) -/
def retryablePrefix (cfg : Cfg) (outs : Nat → Outcome) : Nat :=
  countPrefix (fun i => retryable cfg (outs i)) cfg.limit

/-- C14.calls: the function is invoked `1 + min(limit, length of the maximal retryable prefix)`
times. -/
theorem calls (cfg : Cfg) (outs : Nat → Outcome) :
    (run cfg outs).calls = 1 + retryablePrefix cfg outs := by
  obtain ⟨n, hs, h1, _, _⟩ := run_spec cfg outs
  have := stopsAt_unique hs (stopsAt_countPrefix cfg outs)
  rw [h1, this, retryablePrefix]; omega

/-- the cap really is the prefix length: `retryablePrefix` is characterised by "all earlier calls
failed retryably, and either the limit is reached or this call does not fail retryably". -/
theorem retryablePrefix_spec (cfg : Cfg) (outs : Nat → Outcome) :
    (∀ i < retryablePrefix cfg outs, retryable cfg (outs i) = true) ∧
    retryablePrefix cfg outs ≤ cfg.limit ∧
    (retryablePrefix cfg outs = cfg.limit ∨ retryable cfg (outs (retryablePrefix cfg outs)) = false) :=
  stopsAt_countPrefix cfg outs

/-- C14.calls with an explicit `min`: if call `m` is the first that does not fail retryably, the
function is invoked `1 + min limit m` times. -/
theorem calls_min (cfg : Cfg) (outs : Nat → Outcome) (m : Nat)
    (hpre : ∀ i < m, retryable cfg (outs i) = true) (hstop : retryable cfg (outs m) = false) :
    (run cfg outs).calls = 1 + min cfg.limit m := by
  obtain ⟨n, hs, h1, _, _⟩ := run_spec cfg outs
  have hm : StopsAt cfg outs (min cfg.limit m) := by
    refine ⟨fun i hi => hpre i (by omega), by omega, ?_⟩
    by_cases h : cfg.limit ≤ m
    · left; omega
    · right; have : min cfg.limit m = m := by omega
      rw [this]; exact hstop
  rw [h1, stopsAt_unique hs hm]; omega

/-- if every call fails retryably the function is invoked exactly `limit + 1` times -/
theorem calls_limit_exhausted (cfg : Cfg) (outs : Nat → Outcome)
    (hall : ∀ i < cfg.limit, retryable cfg (outs i) = true) :
    (run cfg outs).calls = cfg.limit + 1 := by
  obtain ⟨n, hs, h1, _, _⟩ := run_spec cfg outs
  have hm : StopsAt cfg outs cfg.limit := ⟨hall, Nat.le_refl _, Or.inl rfl⟩
  rw [h1, stopsAt_unique hs hm]

/-- never more than `limit + 1` calls, never fewer than one -/
theorem calls_bounds (cfg : Cfg) (outs : Nat → Outcome) :
    1 ≤ (run cfg outs).calls ∧ (run cfg outs).calls ≤ cfg.limit + 1 := by
  obtain ⟨n, hs, h1, _, _⟩ := run_spec cfg outs
  have := hs.2.1
  omega

/-- C14.result: the caller gets the outcome of the last call itself – the success value, or the
very exception object (class *and identity*) that call raised. -/
theorem result (cfg : Cfg) (outs : Nat → Outcome) :
    (run cfg outs).final = outs ((run cfg outs).calls - 1) := by
  obtain ⟨n, _, h1, h2, _⟩ := run_spec cfg outs
  rw [h2, h1]; rfl

/-- the loop stops at call `k` – and reports its outcome – as soon as call `k` does not fail
retryably (first success, first exception outside the caught set, cancellation, …) -/
theorem stops_at (cfg : Cfg) (outs : Nat → Outcome) (k : Nat)
    (hpre : ∀ i < k, retryable cfg (outs i) = true) (hk : k ≤ cfg.limit)
    (hstop : retryable cfg (outs k) = false) :
    (run cfg outs).calls = k + 1 ∧ (run cfg outs).final = outs k := by
  obtain ⟨n, hs, h1, h2, _⟩ := run_spec cfg outs
  have hm : StopsAt cfg outs k := ⟨hpre, hk, Or.inr hstop⟩
  have := stopsAt_unique hs hm
  subst this
  exact ⟨h1, h2⟩

/-- the first success ends the loop and its value is returned -/
theorem first_success (cfg : Cfg) (outs : Nat → Outcome) (k v : Nat)
    (hpre : ∀ i < k, retryable cfg (outs i) = true) (hk : k ≤ cfg.limit) (hv : outs k = .ok v) :
    (run cfg outs).calls = k + 1 ∧ (run cfg outs).final = .ok v := by
  have := stops_at cfg outs k hpre hk (by simp [hv, retryable])
  rwa [hv] at this

/-- C14.never_retry_base: an instance of `CancelledError`, or of a class outside `Exception`, is
never retryable – whatever `catching` lists (even that very class). -/
theorem never_retry_base (cfg : Cfg) (e : Exc)
    (h : cfg.isSub e.cls clsCancelled = true ∨ cfg.isSub e.cls clsException = false) :
    retryable cfg (.raised e) = false := by
  rcases h with h | h <;> simp [retryable, h]

/-- … hence such an error ends the loop immediately and reaches the caller as the same object -/
theorem base_error_ends_loop (cfg : Cfg) (outs : Nat → Outcome) (k : Nat) (e : Exc)
    (hpre : ∀ i < k, retryable cfg (outs i) = true) (hk : k ≤ cfg.limit) (he : outs k = .raised e)
    (h : cfg.isSub e.cls clsCancelled = true ∨ cfg.isSub e.cls clsException = false) :
    (run cfg outs).calls = k + 1 ∧ (run cfg outs).final = .raised e := by
  have := stops_at cfg outs k hpre hk (by rw [he]; exact never_retry_base cfg e h)
  rwa [he] at this

/-- an exception none of whose classes is caught ends the loop as well -/
theorem uncaught_ends_loop (cfg : Cfg) (outs : Nat → Outcome) (k : Nat) (e : Exc)
    (hpre : ∀ i < k, retryable cfg (outs i) = true) (hk : k ≤ cfg.limit) (he : outs k = .raised e)
    (h : cfg.catching.any (cfg.isSub e.cls) = false) :
    (run cfg outs).calls = k + 1 ∧ (run cfg outs).final = .raised e := by
  have := stops_at cfg outs k hpre hk (by simp [he, retryable, h])
  rwa [he] at this

/-- C14.pauses: the complete event trace.  Between call `j` and call `j+1` exactly what the `match
delay` prescribes for `attempt = j+1` and the exception of call `j` happens, nothing precedes the
first call and nothing follows the last. -/
theorem pauses (cfg : Cfg) (outs : Nat → Outcome) :
    (run cfg outs).trace =
      ((List.range ((run cfg outs).calls - 1)).flatMap fun j =>
        Ev.call j :: betweenO cfg.delay (j + 1) (outs j)) ++ [.call ((run cfg outs).calls - 1)] := by
  obtain ⟨n, _, h1, _, h3⟩ := run_spec cfg outs
  rw [h3, h1]; rfl

/-- every call before the last one raised (so the delay function always gets a real exception) -/
theorem earlier_calls_raised (cfg : Cfg) (outs : Nat → Outcome) (j : Nat)
    (hj : j + 1 < (run cfg outs).calls) : ∃ e, outs j = .raised e := by
  obtain ⟨n, hs, h1, _, _⟩ := run_spec cfg outs
  have := hs.1 j (by omega)
  cases h : outs j with
  | ok v => simp [h, retryable] at this
  | raised e => exact ⟨e, rfl⟩

/-- no delay configured: the calls follow each other with nothing in between -/
theorem pauses_none (cfg : Cfg) (outs : Nat → Outcome) (hd : cfg.delay = .none) :
    (run cfg outs).trace = (List.range (run cfg outs).calls).map Ev.call := by
  have hb : ∀ j, betweenO cfg.delay (j + 1) (outs j) = [] := by
    intro j; cases outs j <;> simp [betweenO, between, hd]
  have h1 := (calls_bounds cfg outs).1
  have : (run cfg outs).calls = ((run cfg outs).calls - 1) + 1 := by omega
  rw [pauses, this, List.range_succ, List.map_append]
  simp [hb, flatMap_singleton']

/-- the number a numeric delay argument stands for (`bool` is an `int`: `True` = 1) -/
def seconds? : DelayArg → Option Nat
  | .int n => some n
  | .float n => some n
  | .bool b => some b.toNat
  | _ => none

/-- a number configured: exactly one pause of that length between consecutive calls -/
theorem pauses_number (cfg : Cfg) (outs : Nat → Outcome) (d : Nat) (hd : seconds? cfg.delay = some d) :
    (run cfg outs).trace =
      ((List.range ((run cfg outs).calls - 1)).flatMap fun j => [Ev.call j, Ev.pause d])
        ++ [.call ((run cfg outs).calls - 1)] := by
  rw [pauses]
  congr 1
  apply flatMap_congr'
  intro j hj
  obtain ⟨e, he⟩ := earlier_calls_raised cfg outs j (by have := List.mem_range.mp hj; omega)
  cases hdel : cfg.delay <;> simp_all [betweenO, between, seconds?]

/-- a delay function configured: between call `j` and call `j+1` it is invoked exactly once, with
`attempt = j+1` (1, 2, …) and the exception object of call `j`, and exactly one pause of the
returned length follows -/
theorem pauses_callable (cfg : Cfg) (outs : Nat → Outcome) (f : Nat → Exc → Nat)
    (hd : cfg.delay = .callable f) :
    (run cfg outs).trace =
      ((List.range ((run cfg outs).calls - 1)).flatMap fun j =>
        match outs j with
        | .raised e => [Ev.call j, Ev.delayFn (j + 1) e, Ev.pause (f (j + 1) e)]
        | .ok _ => [Ev.call j]) ++ [.call ((run cfg outs).calls - 1)] := by
  rw [pauses]
  congr 1
  apply flatMap_congr'
  intro j _
  cases outs j <;> simp [betweenO, between, hd]

/-- with any delay configured the number of pauses is the number of retries: one per gap -/
theorem one_pause_per_retry (cfg : Cfg) (outs : Nat → Outcome) (hd : cfg.delay ≠ .none) :
    (Haiway.Retry.pauses (run cfg outs).trace).length = (run cfg outs).calls - 1 := by
  rw [pauses, pauses_append, pauses_flatMap]
  have : ∀ j ∈ List.range ((run cfg outs).calls - 1),
      Haiway.Retry.pauses (Ev.call j :: betweenO cfg.delay (j + 1) (outs j)) = [match cfg.delay, outs j with
        | .int n, _ => n | .float n, _ => n | .bool b, _ => b.toNat
        | .callable f, .raised e => f (j + 1) e | _, _ => 0] := by
    intro j hj
    obtain ⟨e, he⟩ := earlier_calls_raised cfg outs j (by have := List.mem_range.mp hj; omega)
    cases hdel : cfg.delay <;> simp_all [betweenO, between, Haiway.Retry.pauses]
  rw [flatMap_congr' this]
  simp [Haiway.Retry.pauses, flatMap_singleton']

/-- decoration: a positive limit is accepted and a call is the loop above … -/
theorem call_ok (cfg : Cfg) (outs : Nat → Outcome) (h : 0 < cfg.limit) :
    call cfg outs = .ok (run cfg outs) := by
  simp [call]; omega

/-- … a zero limit is rejected by the assertion before anything is called -/
theorem call_rejects_zero_limit (cfg : Cfg) (outs : Nat → Outcome) (h : cfg.limit = 0) :
    call cfg outs = .error .limitAssertion := by
  simp [call, h]

/-- C14.calls_independent: calls made through one wrapper object – one after the other, concurrently, or nested (the
wrapped function calling the wrapper again) – do not influence each other: each makes its own `limit`+1 attempts and
reports its own last outcome, exactly as if it were the only call. -/
theorem calls_independent (cfg : Cfg) (before after : List (Nat → Outcome)) (outs : Nat → Outcome) :
    (callMany cfg (before ++ outs :: after))[before.length]? = some (call cfg outs) := by
  simp [callMany]

/-- C14.cancellation_subclass_of_caught_never_retried: an exception that is an instance of `CancelledError` is never
retried, even when it is *also* an instance of a caught `Exception` class (multiple inheritance) and even when
`catching` lists it. -/
theorem cancellation_subclass_of_caught_never_retried (cfg : Cfg) (e : Exc)
    (hc : cfg.isSub e.cls clsCancelled = true) : retryable cfg (.raised e) = false := by
  simp [retryable, hc]

/-! ## Non-vacuity: concrete configurations and histories meeting the hypotheses -/

/-- class table of the correspondence harness: 0 Exception, 1 CancelledError, 2 BaseException,
3 E1, 4 E1sub (subclass of E1), 5 E2, 6 a BaseException subclass -/
def exSub (c d : Nat) : Bool :=
  c == d || d == 2 || (d == 0 && (c == 3 || c == 4 || c == 5)) || (c == 4 && d == 3)

def exCfg (delay : DelayArg) : Cfg := { limit := 2, catching := [3], isSub := exSub, delay := delay }

def exOuts : Nat → Outcome
  | 0 => .raised ⟨3, 0⟩
  | 1 => .raised ⟨4, 1⟩
  | 2 => .raised ⟨3, 2⟩
  | _ => .ok 9

/-- limit exhausted: three calls, the third exception object (id 2) comes back, two pauses -/
example :
    let r := run (exCfg (.int 5)) exOuts
    r.calls = 3 ∧ r.final = .raised ⟨3, 2⟩ ∧
      r.trace = [.call 0, .pause 5, .call 1, .pause 5, .call 2] := by decide

/-- delay function: attempts are numbered 1, 2 and get the exception of the failed call -/
example :
    (run (exCfg (.callable fun a e => 10 * a + e.id)) exOuts).trace =
      [.call 0, .delayFn 1 ⟨3, 0⟩, .pause 10, .call 1, .delayFn 2 ⟨4, 1⟩, .pause 21, .call 2] := by
  decide

/-- `CancelledError` listed in `catching` is still not retried (hypothesis of `never_retry_base`) -/
example :
    let cfg : Cfg := { limit := 3, catching := [1, 2, 3], isSub := exSub, delay := .none }
    let outs : Nat → Outcome := fun i => if i = 0 then .raised ⟨3, 0⟩ else .raised ⟨1, i⟩
    (∀ i < 1, retryable cfg (outs i) = true) ∧ exSub 1 clsCancelled = true ∧
      (run cfg outs).calls = 2 ∧ (run cfg outs).final = .raised ⟨1, 1⟩ := by decide

/-- an uncaught class stops the loop at once; a success after a failure is returned -/
example :
    (run (exCfg .none) fun _ => .raised ⟨5, 0⟩).calls = 1 ∧
    (run (exCfg .none) fun i => if i = 0 then .raised ⟨4, 0⟩ else .ok i).final = .ok 1 := by decide

end Haiway.C14
