import Haiway.Proofs.Throttle
/-!
# C15 – throttle never starts more than `limit` calls in any `period` window

Property theorems only.  Model: `Haiway.Throttle` (`Haiway/Model/Throttle.lean`) – the deque
algorithm of `_AsyncThrottle.__call__` under a FIFO lock, in exact `Nat` time.  Every statement
holds for **every** `limit ≥ 1`, **every** period `P` and **every** arrival list (of any length;
`arrivals[i]` is the instant the `i`-th call is made, the list order is the arrival order, which is
the order a FIFO lock serves them when the list is non-decreasing – the only theorem that needs the
list to be non-decreasing says so).

`closedStart limit P hist a` (in `Proofs/Throttle.lean`) is
`max(a, last of hist, hist[len - limit] + P)` with the absent terms left out.
-/
namespace Haiway.C15
open Haiway.Throttle

/-- start instants of the calls, in arrival order -/
def startTimes (limit P : Nat) (arrivals : List Nat) : List Nat :=
  starts (run limit P init arrivals)

/-- C15.all_run (1): every call starts – for `limit ≥ 1` the model never takes the error branch,
one start per arrival. -/
theorem all_started (limit P : Nat) (hl : 0 < limit) (arrivals : List Nat) :
    run limit P init arrivals = (startTimes limit P arrivals).map .started ∧
      (startTimes limit P arrivals).length = arrivals.length := by
  have h := run_eq_N limit P hl arrivals init
  simp only [startTimes]
  rw [h, starts_map_started]
  exact ⟨rfl, runN_length limit P arrivals init⟩

theorem startTimes_eq_runN (limit P : Nat) (hl : 0 < limit) (arrivals : List Nat) :
    startTimes limit P arrivals = runN limit P init arrivals := by
  simp only [startTimes]
  rw [run_eq_N limit P hl arrivals init, starts_map_started]

/-- C15.model_eq_closed_form: the deque algorithm computes
`startᵢ = max(arrivalᵢ, startᵢ₋₁, startᵢ₋ₗᵢₘᵢₜ + P)`. -/
theorem model_eq_closed_form (limit P : Nat) (hl : 0 < limit) (arrivals : List Nat) :
    run limit P init arrivals = (closedForm limit P [] arrivals).map .started := by
  rw [run_eq_N limit P hl arrivals init,
    runN_eq_closedForm limit P hl arrivals init [] (inv_init limit P)]

/-- the same, per call: the `i`-th start is the recurrence applied to the starts before it -/
theorem start_recurrence (limit P : Nat) (hl : 0 < limit) (arrivals : List Nat) (i a t : Nat)
    (ha : arrivals[i]? = some a) (ht : (startTimes limit P arrivals)[i]? = some t) :
    t = closedStart limit P ((startTimes limit P arrivals).take i) a := by
  rw [startTimes_eq_runN limit P hl] at ht ⊢
  simpa using runN_closed_at limit P hl arrivals init [] (inv_init limit P) i a t ha ht

/-- C15.window: any `limit + 1` consecutive starts span at least one period. -/
theorem window (limit P : Nat) (hl : 0 < limit) (arrivals : List Nat) (i a b : Nat)
    (ha : (startTimes limit P arrivals)[i]? = some a)
    (hb : (startTimes limit P arrivals)[i + limit]? = some b) : a + P ≤ b := by
  rw [startTimes_eq_runN limit P hl] at ha hb
  obtain ⟨s', h⟩ := run_inv limit P hl arrivals init [] (inv_init limit P)
  simp only [List.nil_append] at h
  exact h.window i a b ha hb

/-- C15.order: the wrapped function is started in arrival order (starts never decrease along the
arrival order) … -/
theorem order (limit P : Nat) (hl : 0 < limit) (arrivals : List Nat) :
    (startTimes limit P arrivals).Pairwise (· ≤ ·) := by
  rw [startTimes_eq_runN limit P hl]
  obtain ⟨s', h⟩ := run_inv limit P hl arrivals init [] (inv_init limit P)
  simpa using h.sorted

/-- … and never before the call was made -/
theorem not_before_arrival (limit P : Nat) (hl : 0 < limit) (arrivals : List Nat) (i a t : Nat)
    (ha : arrivals[i]? = some a) (ht : (startTimes limit P arrivals)[i]? = some t) : a ≤ t := by
  rw [startTimes_eq_runN limit P hl] at ht
  exact runN_ge_arrival limit P hl arrivals init [] (inv_init limit P) i a t ha ht

/-- C15.window (counting form): **every** half-open window `[t, t + P)` contains at most `limit`
starts. -/
theorem window_count (limit P : Nat) (hl : 0 < limit) (arrivals : List Nat) (t : Nat) :
    ((startTimes limit P arrivals).filter fun s => decide (t ≤ s) && decide (s < t + P)).length
      ≤ limit :=
  Haiway.Throttle.window_count limit P hl t _ (order limit P hl arrivals)
    (fun i a b ha hb => window limit P hl arrivals i a b ha hb)

/-- C15.no_needless_delay: call `i` starts on arrival when no earlier call is still waiting (all
earlier starts are ≤ its arrival) and fewer than `limit` calls began in the preceding period
(earlier starts `p` with `arrival - P < p`). -/
theorem no_needless_delay (limit P : Nat) (hl : 0 < limit) (arrivals : List Nat) (i a t : Nat)
    (ha : arrivals[i]? = some a) (ht : (startTimes limit P arrivals)[i]? = some t)
    (hnowait : ∀ p ∈ (startTimes limit P arrivals).take i, p ≤ a)
    (hfew : (((startTimes limit P arrivals).take i).filter fun p => decide (a < p + P)).length < limit) :
    t = a := by
  rw [start_recurrence limit P hl arrivals i a t ha ht]
  exact closedStart_eq_arrival limit P _ a
    ((order limit P hl arrivals).sublist (List.take_sublist _ _)) hnowait hfew

/-- C15.no_needless_delay, read at every instant: a waiting call has started by the first instant
`u ≥ arrival` at which no earlier call is still waiting and fewer than `limit` calls began in the
preceding period – it is never delayed longer than the rate bound requires. -/
theorem starts_as_soon_as_allowed (limit P : Nat) (hl : 0 < limit) (arrivals : List Nat) (i a t u : Nat)
    (ha : arrivals[i]? = some a) (ht : (startTimes limit P arrivals)[i]? = some t) (hau : a ≤ u)
    (hnowait : ∀ p ∈ (startTimes limit P arrivals).take i, p ≤ u)
    (hfew : (((startTimes limit P arrivals).take i).filter fun p => decide (u < p + P)).length < limit) :
    t ≤ u := by
  rw [start_recurrence limit P hl arrivals i a t ha ht]
  exact closedStart_le_of_free limit P _ a u hau
    ((order limit P hl arrivals).sublist (List.take_sublist _ _)) hnowait hfew

/-- C15.all_run (2): finite delay – for a non-decreasing arrival list the `i`-th call (0-based)
starts at most `⌊i / limit⌋` periods after it arrived. -/
theorem delay_bound (limit P : Nat) (hl : 0 < limit) (arrivals : List Nat)
    (hsorted : arrivals.Pairwise (· ≤ ·)) (i a t : Nat)
    (ha : arrivals[i]? = some a) (ht : (startTimes limit P arrivals)[i]? = some t) :
    t ≤ a + (i / limit) * P := by
  rw [startTimes_eq_runN limit P hl] at ht
  exact runN_delay_bound limit P hl arrivals hsorted i a t ha ht

/-- C15.all_run (3): a started call hands the function's own outcome (value or the very exception
object) to its caller. -/
theorem own_outcome (t : Nat) (o : FnOut) :
    callerOutcome (.started t) o = match o with | .value v => .value v | .raised id => .raised id := by
  cases o <;> rfl

/-- error branch (`limit = 0` is not rejected by the code): every call fails with `IndexError` and
the function never starts. -/
theorem zero_limit_index_error (P : Nat) (arrivals : List Nat) :
    (∀ r ∈ run 0 P init arrivals, r = .indexError) ∧ startTimes 0 P arrivals = [] := by
  have h := run_zero_limit P arrivals 0
  refine ⟨h, ?_⟩
  simp only [startTimes, starts]
  rw [List.filterMap_eq_nil_iff]
  intro r hr
  rw [h r hr]

/-- C15 period forms: a `timedelta` period is its `total_seconds()` – whole days and the
sub-second part both count: in milliseconds, `250 * ticks = 1000 * (days * 86400 + seconds) + millis`
(ticks are quarter seconds; `millis` a multiple of 250). -/
theorem period_forms (d s ms : Nat) (h : ms % 250 = 0) :
    250 * (PeriodArg.timedelta d s ms).toTicks = 1000 * (d * 86400 + s) + ms := by
  simp only [PeriodArg.toTicks, ticksPerSecond]
  omega

/-- a whole-second `timedelta`, an int and a float of the same length are the same period -/
theorem period_forms_agree (n : Nat) :
    (PeriodArg.timedelta 0 n 0).toTicks = (PeriodArg.int n).toTicks ∧
      (PeriodArg.int n).toTicks = (PeriodArg.float (4 * n)).toTicks := by
  simp only [PeriodArg.toTicks, ticksPerSecond]
  omega

/-- one more day is 86400 more seconds, never dropped -/
theorem period_days_count (d s ms : Nat) :
    (PeriodArg.timedelta (d + 1) s ms).toTicks = (PeriodArg.timedelta d s ms).toTicks + 86400 * 4 := by
  simp only [PeriodArg.toTicks, ticksPerSecond]
  omega

/-! ## cancelled callers

`runC` processes calls `(arrival, cancellation request?)`.  The rate bound and the ordering hold for
the calls that do start, whatever is cancelled and whenever; the theorems above are the special case
without cancellation (`no_cancellation`). -/

/-- start instants of the calls that start, in arrival order -/
def startTimesC (limit P : Nat) (calls : List (Nat × Option Cancel)) : List Nat :=
  startsC (runC limit P init calls)

/-- without cancellation requests `runC` is `run` -/
theorem no_cancellation (limit P : Nat) (arrivals : List Nat) :
    runC limit P init (arrivals.map fun a => (a, none)) = (run limit P init arrivals).map .ran ∧
      startTimesC limit P (arrivals.map fun a => (a, none)) = startTimes limit P arrivals := by
  have h := runC_none limit P arrivals init
  refine ⟨h, ?_⟩
  simp only [startTimesC, startTimes, h, startsC, starts, List.filterMap_map]
  congr 1
  funext r
  cases r <;> rfl

/-- C15.window with cancelled callers: any `limit + 1` consecutive starts span at least one period –
a cancelled waiter gives no slot away. -/
theorem window_cancel (limit P : Nat) (hl : 0 < limit) (calls : List (Nat × Option Cancel)) (i a b : Nat)
    (ha : (startTimesC limit P calls)[i]? = some a)
    (hb : (startTimesC limit P calls)[i + limit]? = some b) : a + P ≤ b := by
  obtain ⟨s', h⟩ := runC_invS limit P hl calls init [] (invS_init limit P)
  simp only [List.nil_append] at h
  exact h.window i a b ha hb

/-- C15.order with cancelled callers: the calls that start do so in arrival order -/
theorem order_cancel (limit P : Nat) (hl : 0 < limit) (calls : List (Nat × Option Cancel)) :
    (startTimesC limit P calls).Pairwise (· ≤ ·) := by
  obtain ⟨s', h⟩ := runC_invS limit P hl calls init [] (invS_init limit P)
  simpa [startTimesC] using h.sorted

/-- C15.window, counting form, with cancelled callers -/
theorem window_count_cancel (limit P : Nat) (hl : 0 < limit) (calls : List (Nat × Option Cancel)) (t : Nat) :
    ((startTimesC limit P calls).filter fun s => decide (t ≤ s) && decide (s < t + P)).length ≤ limit :=
  Haiway.Throttle.window_count limit P hl t _ (order_cancel limit P hl calls)
    (fun i a b ha hb => window_cancel limit P hl calls i a b ha hb)

/-- no call starts before it was made, cancelled callers or not -/
theorem not_before_arrival_cancel (limit P : Nat) (calls : List (Nat × Option Cancel)) (i a t : Nat)
    (c : Option Cancel) (hc : calls[i]? = some (a, c))
    (ht : (runC limit P init calls)[i]? = some (.ran (.started t))) : a ≤ t :=
  runC_ge_arrival limit P calls init i a t c hc ht

/-- a caller cancelled while queued on the lock leaves everything as it found it -/
theorem cancelled_queued_changes_nothing (limit P : Nat) (s : St) (a : Nat) (c : Option Cancel)
    (h : (processC limit P s a c).2 = .cancelledQueued) : (processC limit P s a c).1 = s := by
  rcases processC_shape limit P s a c with hc | hc | ⟨st, t, hc⟩ | ⟨st, hc⟩ <;> rw [hc] at h ⊢ <;> simp at h ⊢

/-- a caller cancelled while sleeping for its turn never starts and appends nothing: the deque is
what the expiry cleanup left (only entries at least one period old are gone) -/
theorem cancelled_sleeping_keeps_deque (limit P : Nat) (s : St) (a : Nat) (c : Option Cancel)
    (h : (processC limit P s a c).2 = .cancelledSleeping) :
    (processC limit P s a c).1.entries = cleanup P (max a s.lockFree) s.entries := by
  rcases processC_shape limit P s a c with hc | hc | ⟨st, t, hc⟩ | ⟨st, hc⟩ <;> rw [hc] at h ⊢ <;> simp at h ⊢

/-- the caller of a cancelled waiter gets `CancelledError`, at the instant of the request -/
theorem cancelled_caller_outcome (dur : Nat) (o : FnOut) (c : Option Cancel) :
    callerOutcomeC .cancelledQueued dur o c = (.cancelled, some (cancelTime c)) ∧
      callerOutcomeC .cancelledSleeping dur o c = (.cancelled, some (cancelTime c)) := ⟨rfl, rfl⟩

/-! ## Non-vacuity -/

/-- burst of four with limit 2, period 10: two start at once, two one period later -/
example : startTimes 2 10 [0, 1, 2, 3] = [0, 1, 10, 11] := by decide

/-- an entry exactly one period old is dropped (`<=`): the call at 10 starts at 10; a burst at the
boundary is spread one per period -/
example : startTimes 1 10 [0, 10, 10, 10] = [0, 10, 20, 30] := by decide

/-- hypotheses of `no_needless_delay` are satisfiable: third call arrives when the window is free -/
example :
    let st := startTimes 2 10 [0, 1, 11]
    st = [0, 1, 11] ∧ (∀ p ∈ st.take 2, p ≤ 11) ∧
      ((st.take 2).filter fun p => decide (11 < p + 10)).length < 2 := by decide

/-- hypotheses of `starts_as_soon_as_allowed` are satisfiable with a real wait: the third call of a
burst (limit 2, period 10) may start at 10 and does -/
example :
    let st := startTimes 2 10 [0, 0, 0]
    st = [0, 0, 10] ∧ (∀ p ∈ st.take 2, p ≤ 10) ∧
      ((st.take 2).filter fun p => decide (10 < p + 10)).length < 2 := by decide

/-- `delay_bound` is tight: call 5 of a burst with limit 2 waits exactly ⌊5/2⌋ = 2 periods -/
example : (startTimes 2 7 [3, 3, 3, 3, 3, 3])[5]? = some (3 + (5 / 2) * 7) := by decide

example : run 0 5 init [1, 2] = [.indexError, .indexError] := by decide

/-- `timedelta(milliseconds=1500)` is 6 quarter seconds, `timedelta(days=1)` is a full day -/
example : (PeriodArg.timedelta 0 0 1500).toTicks = 6 ∧ (PeriodArg.timedelta 1 0 0).toTicks = 345600 ∧
    (PeriodArg.timedelta 0 0 500).toTicks = 2 := by decide

/-- limit 1, period 4: the second caller is cancelled at 2 while it sleeps for its turn; the third
(arrived at 2) still has to wait until 4 – and a caller cancelled while queued changes nothing -/
example :
    runC 1 4 init [(0, none), (1, some ⟨2, false⟩), (2, none)] =
      [.ran (.started 0), .cancelledSleeping, .ran (.started 4)] ∧
    runC 1 4 init [(0, none), (0, none), (0, some ⟨1, false⟩), (0, none)] =
      [.ran (.started 0), .ran (.started 4), .cancelledQueued, .ran (.started 8)] := by decide

/-- tie orders of a cancellation at exactly the instant the sleeper would wake -/
example :
    runC 1 4 init [(0, none), (1, some ⟨4, true⟩), (2, none)] =
      [.ran (.started 0), .cancelledSleeping, .ran (.started 4)] ∧
    runC 1 4 init [(0, none), (1, some ⟨4, false⟩), (2, none)] =
      [.ran (.started 0), .ran (.started 4), .ran (.started 8)] := by decide

end Haiway.C15
